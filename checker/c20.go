package main

import (
	"fmt"
	"go/token"
	"go/types"
	"os"
	"strings"

	"golang.org/x/tools/go/ssa"
)

func init() {
	register(&PropSpec{
		ID: "C20",
		Explanation: "The relation between an arbitrary file list and every lookup path is a value property and is NOT decided. Decided structurally: " +
			"(R1) resolution is by full-path equality with field provenance: http.fileParms and fuse.findFile return the Offset/Length (resp. the element) of the very table entry for which Path.Equal(lookup) was true; the single-file branch resolves only a path of exactly one component equal to the torrent's name; a miss yields ErrNotExist / ENOENT; " +
			"(R2) FUSE listings hide padding files and list a sub-directory only if it was not listed before (membership in a set that accumulates every listed name, or a sorted table); " +
			"(R3) no `len(p) − 1` index or slice bound in packages http and fuse is evaluated on a possibly empty path: a dominating length guard, construction from a non-empty constant, or the producer's guarantee (file paths are non-empty by C13.G6) is required.",
		Rules:       []string{"R1 full-path equality and field provenance (def-use + E-dom)", "R2 padding hidden; sub-directories listed once", "R3 no len-1 on a possibly empty path (E-int style guard search)"},
		NotDecided:  []string{"that listings name exactly the torrent's files for every file list (value/relation over all tables)", "file names containing '/' (joined and re-parsed paths)", "GetByName's tie-break"},
		Assumptions: []string{"file paths in Torrent.Files are non-empty (validated at publication, C13.R1 G6)"},
		Run:         runC20,
	})
}

func runC20(r *Report) {
	c20R1(r)
	c20PathCmp(r)
	c20FilesIndex(r)
	c20FilesImmutable(r, "R1")
	c20Exhaustive(r)
	c20FilesAfterComplete(r, "R1")
	c20OffsetsContiguous(r, "R1")
	rangeExhaustive(r, "R2", func(f *ssa.Function) bool { pk := relPkg(f); return pk == "http" || pk == "fuse" }, 1)
	c20R2(r)
	c20R3(r)
	c20R4(r)
}

// equalGuard: block b is dominated by Path.Equal(x, y) == true; returns the two operands.
func equalGuard(b *ssa.BasicBlock) (ssa.Value, ssa.Value, bool) {
	for _, g := range guardsOf(b) {
		g = g.norm()
		c, ok := g.Cond.(*ssa.Call)
		if !ok || !g.Pol {
			continue
		}
		cal := c.Call.StaticCallee()
		if cal != nil && cal.Name() == "Equal" && relPkg(cal) == "path" {
			return c.Call.Args[0], c.Call.Args[1], true
		}
	}
	return nil, nil, false
}

func c20R1(r *Report) {
	p := r.P
	fp := p.Func("http", "fileParms")
	ff := p.Func("fuse", "findFile")
	if !r.Anchor("R1", "http.fileParms", fp != nil) || !r.Anchor("R1", "fuse.findFile", ff != nil) {
		return
	}
	// ---- fuse.findFile: returns &f only under path.Equal(f.Path) for the same f
	r.Fn(ff)
	okFF := true
	nRet := 0
	for _, ret := range returnsOf(ff) {
		v := ret.Results[0]
		if isNilConst(v) {
			continue
		}
		nRet++
		a, b, ok := equalGuard(ret.Block())
		if !ok {
			okFF = false
			continue
		}
		// one operand is the lookup parameter, the other is the Path field of the returned element
		fieldOfRet := func(x ssa.Value) bool {
			fv, base := loadedFieldAny(x)
			return fv != nil && fv.Name() == "Path" && base == v
		}
		isParam := func(x ssa.Value) bool { return x == ssa.Value(ff.Params[1]) }
		if !((isParam(a) && fieldOfRet(b)) || (isParam(b) && fieldOfRet(a))) {
			okFF = false
		}
	}
	r.Check(okFF && nRet > 0, "R1", "fuse.findFile/equal-then-same-entry", ff.Pos(), "findFile returns the entry whose full path equals the lookup", "fuse.findFile returns a table entry on a path not dominated by path.Equal(lookup, thatEntry.Path): a lookup can resolve to another file")
	// consumers of findFile use Offset/Length of its result and fail on nil
	calls, _ := p.callSitesOf(ff)
	for _, cs := range calls {
		f := cs.Parent()
		r.Fn(f)
		c := cs.(*ssa.Call)
		nilChecked := false
		for _, ref := range *c.Referrers() {
			if bo, ok := ref.(*ssa.BinOp); ok && isNilConst(bo.Y) && (bo.Op == token.EQL || bo.Op == token.NEQ) {
				nilChecked = true
			}
		}
		r.Check(nilChecked, "R1", fmt.Sprintf("%s/findFile-miss-checked", fname(f)), cs.Pos(), "a miss is tested (ENOENT)", "the result of findFile is used without a nil test: an absent path crashes instead of failing cleanly")
	}
	r.Sentinel("R1.findFile", len(calls), 2)
	// ---- http.fileParms
	r.Fn(fp)
	filesF := p.Field("tor", "Torrent", "Files")
	nameF := p.Field("tor", "Torrent", "Name")
	pth := fp.Params[1]
	// the request path, or a load of the cell it lives in when a function literal captures it
	isPth := func(v ssa.Value) bool {
		if v == ssa.Value(pth) {
			return true
		}
		if ld, ok := v.(*ssa.UnOp); ok {
			return paramCell(ld) == pth
		}
		return false
	}
	// (a) the multi-file branch: `file = &f` stored under pth.Equal(f.Path); offset/length are file.Offset/file.Length
	var fileAlloc ssa.Value
	okStore := false
	allInstrs(fp, func(in ssa.Instruction) {
		a, b, ok := equalGuard(in.Block())
		if !ok {
			return
		}
		// the value that flows out of the loop: a phi of (nil, &f) or a store
		switch x := in.(type) {
		case *ssa.Store:
			if al, isAl := x.Addr.(*ssa.Alloc); isAl && typeIs(derefType(al.Type()), modPath+"/tor", "Torfile") {
				_ = al
			}
		}
		_ = a
		_ = b
	})
	// find loads of Offset/Length whose base is the matched entry
	entryOK := func(base ssa.Value) bool {
		// base is a phi of (nil, &f): every non-nil edge must come from a block dominated by Equal(pth, f.Path) == true
		// for that same f
		equalOn := func(al *ssa.Alloc, b *ssa.BasicBlock, from *ssa.BasicBlock) bool {
			gs := guardsOf(b)
			if from != nil {
				gs = expandGuards(append(gs, edgeGuard(from, b)...))
			}
			for _, g := range gs {
				g = g.norm()
				c, ok := g.Cond.(*ssa.Call)
				if !ok || !g.Pol {
					continue
				}
				cal := c.Call.StaticCallee()
				if cal == nil || cal.Name() != "Equal" || relPkg(cal) != "path" {
					continue
				}
				for k, a := range c.Call.Args[:2] {
					other := c.Call.Args[1-k]
					if !isPth(a) {
						continue
					}
					if fv, b2 := loadedField(other); fv != nil && fv.Name() == "Path" && b2 == ssa.Value(al) {
						return true
					}
				}
			}
			return false
		}
		// equalOnIndex: among gs, Equal(pv, Files[idx].Path) == true for this very index value
		equalOnIndex := func(idx ssa.Value, gs []Guard, pv ssa.Value) bool {
			for _, g := range gs {
				g = g.norm()
				c, ok := g.Cond.(*ssa.Call)
				if !ok || !g.Pol {
					continue
				}
				cal := c.Call.StaticCallee()
				if cal == nil || cal.Name() != "Equal" || relPkg(cal) != "path" {
					continue
				}
				for k, a := range c.Call.Args[:2] {
					other := c.Call.Args[1-k]
					if a != pv && !(pv == ssa.Value(pth) && isPth(a)) {
						continue
					}
					fv, b2 := loadedField(other)
					if fv == nil || fv.Name() != "Path" {
						continue
					}
					if ia, isIA := b2.(*ssa.IndexAddr); isIA {
						if f2, _ := loadedField(ia.X); f2 == filesF && (ia.Index == idx || symEq(stripIntConv(ia.Index), stripIntConv(idx), 0)) {
							return true
						}
					}
				}
			}
			return false
		}
		// matchedIndex: idx designates an entry whose path equals the request: tested here, or the non-negative
		// result of a helper of the package that was handed the request path (findFile(t, pth) int)
		matchedIndex := func(idx ssa.Value, at *ssa.BasicBlock) bool {
			if at != nil && equalOnIndex(idx, guardsOf(at), pth) {
				return true
			}
			c, ok := stripIntConv(idx).(*ssa.Call)
			if !ok || c.Call.IsInvoke() {
				return false
			}
			h := c.Call.StaticCallee()
			if os.Getenv("STORDEBUG") != "" {
				fmt.Fprintf(os.Stderr, "matchedIndex idx=%s callee=%v pkgnil=%v\n", exprStr(idx), h, h != nil && h.Pkg == nil)
			}
			// i := slices.IndexFunc(t.Files, func(f tor.Torfile) bool { return pth.Equal(f.Path) }); if i < 0 { … }
			if h != nil && h.Pkg == nil && strings.HasPrefix(h.Name(), "IndexFunc") && len(c.Call.Args) == 2 || (h != nil && h.Pkg != nil && h.Pkg.Pkg.Path() == "slices" && strings.HasPrefix(h.Name(), "IndexFunc") && len(c.Call.Args) == 2) {
				if f2, _ := loadedField(c.Call.Args[0]); f2 != filesF {
					return false
				}
				mc, isMC := c.Call.Args[1].(*ssa.MakeClosure)
				if !isMC {
					return false
				}
				fn, _ := mc.Fn.(*ssa.Function)
				if fn == nil || len(fn.Params) != 1 {
					return false
				}
				isReq := func(v ssa.Value) bool {
					// the captured request path
					ld, isLd := v.(*ssa.UnOp)
					if !isLd {
						return false
					}
					fvv, isFV := ld.X.(*ssa.FreeVar)
					if !isFV {
						return false
					}
					for bi, x := range fn.FreeVars {
						if x == fvv && bi < len(mc.Bindings) {
							b := mc.Bindings[bi]
							if b == ssa.Value(pth) {
								return true
							}
							if al, isAl := b.(*ssa.Alloc); isAl {
								for _, ref := range *al.Referrers() {
									if st, isSt := ref.(*ssa.Store); isSt && st.Addr == ssa.Value(al) && st.Val == ssa.Value(pth) {
										return true
									}
								}
							}
						}
					}
					return false
				}
				okCl := true
				for _, ret := range returnsOf(fn) {
					res := retResults(ret)
					if b, isb := constBool(res[0]); isb && !b {
						continue
					}
					ec, isC := res[0].(*ssa.Call)
					if !isC || ec.Call.StaticCallee() == nil || ec.Call.StaticCallee().Name() != "Equal" || relPkg(ec.Call.StaticCallee()) != "path" || len(ec.Call.Args) != 2 {
						okCl = false
						continue
					}
					good := false
					for k := 0; k < 2; k++ {
						a, o := ec.Call.Args[k], ec.Call.Args[1-k]
						if fvp, b2 := loadedFieldAny(o); isReq(a) && fvp != nil && fvp.Name() == "Path" {
							if b2 == ssa.Value(fn.Params[0]) {
								good = true
							}
							// the parameter spilled to a local (a struct passed by value)
							if al, isAl := b2.(*ssa.Alloc); isAl {
								nSt, fromParam := 0, false
								for _, ref := range *al.Referrers() {
									if st, isSt := ref.(*ssa.Store); isSt && st.Addr == ssa.Value(al) {
										nSt++
										fromParam = st.Val == ssa.Value(fn.Params[0])
									}
								}
								if nSt == 1 && fromParam {
									good = true
								}
							}
						}
					}
					if !good {
						okCl = false
					}
				}
				if os.Getenv("STORDEBUG") != "" {
					fmt.Fprintf(os.Stderr, "  okCl=%v at=%v\n", okCl, at)
				}
				if !okCl {
					return false
				}
				// used only where the index is known not to be negative
				if at == nil {
					return false
				}
				for _, g := range guardsOf(at) {
					if op, x, y, okc := cmpFact(g); okc && stripIntConv(x) == ssa.Value(c) {
						if k, isk := constInt(y); isk && ((op == token.GEQ && k == 0) || (op == token.GTR && k == -1)) {
							return true
						}
					}
				}
				return false
			}
			if h == nil || h.Blocks == nil || relPkg(h) != relPkg(fp) {
				return false
			}
			var pprm ssa.Value
			for k, a := range c.Call.Args {
				if isPth(a) && k < len(h.Params) {
					pprm = h.Params[k]
				}
			}
			if pprm == nil {
				return false
			}
			some := false
			for _, ret := range returnsOf(h) {
				rv := retResults(ret)[0]
				if k, isk := constInt(rv); isk && k < 0 {
					continue
				}
				some = true
				if !equalOnIndex(rv, guardsOf(ret.Block()), pprm) {
					return false
				}
			}
			return some
		}
		var rec func(v ssa.Value, at *ssa.BasicBlock, from *ssa.BasicBlock, d int) bool
		rec = func(v ssa.Value, at *ssa.BasicBlock, from *ssa.BasicBlock, d int) bool {
			if d > 5 {
				return false
			}
			if isNilConst(v) {
				return true
			}
			switch x := v.(type) {
			case *ssa.IndexAddr:
				// &t.Files[i] for a matched index i
				if f2, _ := loadedField(x.X); f2 == filesF {
					blk := at
					if blk == nil {
						blk = x.Block()
					}
					return matchedIndex(x.Index, blk)
				}
				return false
			case *ssa.Alloc:
				return at != nil && equalOn(x, at, from)
			case *ssa.Call:
				// file := lookupFile(t, pth): every non-nil result of the helper is &t.Files[i] for an i whose path
				// it found equal to the request it was handed
				h := x.Call.StaticCallee()
				if h == nil || h.Blocks == nil || x.Call.IsInvoke() || relPkg(h) != relPkg(fp) {
					return false
				}
				var pprm ssa.Value
				for k, a := range x.Call.Args {
					if isPth(a) && k < len(h.Params) {
						pprm = h.Params[k]
					}
				}
				if pprm == nil {
					return false
				}
				some := false
				for _, ret := range returnsOf(h) {
					res := retResults(ret)
					if len(res) != 1 {
						return false
					}
					if isNilConst(res[0]) {
						continue
					}
					ia, isIA := res[0].(*ssa.IndexAddr)
					if !isIA {
						return false
					}
					if f2, _ := loadedField(ia.X); f2 != filesF {
						return false
					}
					if !equalOnIndex(ia.Index, guardsOf(ret.Block()), pprm) {
						return false
					}
					some = true
				}
				return some
			case *ssa.Phi:
				for i, e := range x.Edges {
					if e == ssa.Value(x) {
						continue
					}
					if !rec(e, x.Block().Preds[i], nil, d+1) && !rec(e, x.Block(), x.Block().Preds[i], d+1) {
						return false
					}
				}
				return true
			}
			return false
		}
		return rec(base, nil, nil, 0)
	}
	nUse := 0
	allInstrs(fp, func(in ssa.Instruction) {
		ld, ok := in.(*ssa.UnOp)
		if !ok || ld.Op != token.MUL {
			return
		}
		fa, ok := ld.X.(*ssa.FieldAddr)
		if !ok || !typeIs(derefType(fa.X.Type()), modPath+"/tor", "Torfile") {
			return
		}
		fn := fieldVar(fa).Name()
		if fn != "Offset" && fn != "Length" {
			return
		}
		nUse++
		fileAlloc = fa.X
		if entryOK(fa.X) {
			okStore = true
		} else {
			r.Fail("R1", "fileParms/"+fn+"-of-matched-entry", ld.Pos(), "fileParms reads %s of an entry that was not selected by pth.Equal(entry.Path)", fn)
		}
	})
	_ = fileAlloc
	r.Check(okStore && nUse >= 2, "R1", "fileParms/offset-length-of-matched-entry", fp.Pos(), "offset and length come from the entry whose full path equals the request", "fileParms no longer takes offset and length from the entry matched by full-path equality")
	// (b) single-file branch: under Files == nil, success needs len(pth) == 1 && pth[0] == t.Name
	lenEq1 := edgeReq{Name: "len(pth) == 1", Match: func(cond ssa.Value, pol bool) bool {
		bo, ok := cond.(*ssa.BinOp)
		if !ok || !(isLenOf(bo.X, pth) || func() bool {
			c, isC := bo.X.(*ssa.Call)
			if !isC {
				return false
			}
			bi, isB := c.Call.Value.(*ssa.Builtin)
			return isB && bi.Name() == "len" && isPth(c.Call.Args[0])
		}()) {
			return false
		}
		k, okk := constInt(bo.Y)
		if !okk || k != 1 {
			return false
		}
		return (bo.Op == token.EQL && pol) || (bo.Op == token.NEQ && !pol)
	}}
	nameEq := edgeReq{Name: "pth[0] == t.Name", Match: func(cond ssa.Value, pol bool) bool {
		bo, ok := cond.(*ssa.BinOp)
		if !ok || (bo.Op != token.EQL && bo.Op != token.NEQ) {
			return false
		}
		isName := func(v ssa.Value) bool { fv, _ := loadedField(v); return fv == nameF }
		isFirst := func(v ssa.Value) bool {
			ld, ok := v.(*ssa.UnOp)
			if !ok {
				return false
			}
			ia, ok := ld.X.(*ssa.IndexAddr)
			if !ok || !isPth(ia.X) {
				return false
			}
			k, okk := constInt(ia.Index)
			return okk && k == 0
		}
		if !((isName(bo.X) && isFirst(bo.Y)) || (isName(bo.Y) && isFirst(bo.X))) {
			return false
		}
		return (bo.Op == token.EQL) == pol
	}}
	// start: the true edge of `t.Files == nil`
	var filesNil *ssa.If
	allInstrs(fp, func(in ssa.Instruction) {
		iff, ok := in.(*ssa.If)
		if !ok {
			return
		}
		bo, ok := iff.Cond.(*ssa.BinOp)
		if ok && isNilConst(bo.Y) && bo.Op == token.EQL {
			if fv, _ := loadedField(bo.X); fv == filesF && filesNil == nil {
				filesNil = iff
			}
		}
	})
	if filesNil == nil {
		r.Undecided("R1", "fileParms/single-file-branch", fp.Pos(), "cannot find the `t.Files == nil` test")
	} else {
		ne := newNilEnv(p)
		isSuccess := func(in ssa.Instruction) bool {
			ret, ok := in.(*ssa.Return)
			if !ok {
				return false
			}
			rr := retResults(ret)
			return ne.At(rr[len(rr)-1], ret.Block()) != NonNil
		}
		// paths of the multi-file branch are pruned: they pass a Path.Equal call
		viaEqual := func(in ssa.Instruction) bool {
			c, ok := in.(*ssa.Call)
			if !ok {
				return false
			}
			cal := c.Call.StaticCallee()
			return cal != nil && cal.Name() == "Equal" && relPkg(cal) == "path"
		}
		miss, reached := pathsMissing(filesNil, 0, isSuccess, viaEqual, []edgeReq{lenEq1, nameEq})
		// a return whose err is a phi is "possibly success": narrow by requiring that the offending path did not store an error
		if reached == 0 {
			r.Undecided("R1", "fileParms/single-file-branch", filesNil.Pos(), "no return reachable in the single-file branch")
		} else {
			r.Check(len(miss) == 0, "R1", "fileParms/single-file-needs-exact-name", filesNil.Pos(), "a single-file torrent resolves only the one-component path equal to its name",
				fmt.Sprintf("in the single-file branch a path reaches a successful return without passing %v: a crafted path (e.g. name/extra) resolves to the whole file", miss))
		}
	}
	// misses return os.ErrNotExist
	hasNotExist := false
	allInstrs(fp, func(in ssa.Instruction) {
		for _, op := range in.Operands(nil) {
			if op != nil && *op != nil {
				if ld, ok := (*op).(*ssa.UnOp); ok {
					if g, ok := ld.X.(*ssa.Global); ok && g.Name() == "ErrNotExist" {
						hasNotExist = true
					}
				}
			}
		}
	})
	r.Check(hasNotExist, "R1", "fileParms/miss-is-ErrNotExist", fp.Pos(), "a miss is reported as os.ErrNotExist (404)", "fileParms no longer reports a miss as os.ErrNotExist")
	_ = types.Typ
}

func c20R2(r *Report) {
	p := r.P
	rd := p.Func("fuse", "directory.ReadDirAll")
	if !r.Anchor("R2", "fuse.(directory).ReadDirAll", rd != nil) {
		return
	}
	r.Fn(rd)
	// appends of Dirent values inside the loop over t.Files
	n := 0
	allInstrs(rd, func(in ssa.Instruction) {
		c, ok := in.(*ssa.Call)
		if !ok {
			return
		}
		bi, ok := c.Call.Value.(*ssa.Builtin)
		if !ok || bi.Name() != "append" {
			return
		}
		// inside the files loop: dominated by a Within() == true guard
		inLoop := false
		for _, g := range guardsOf(c.Block()) {
			g = g.norm()
			if cc, ok := g.Cond.(*ssa.Call); ok && g.Pol {
				if cal := cc.Call.StaticCallee(); cal != nil && cal.Name() == "Within" && relPkg(cal) == "path" {
					inLoop = true
				}
			}
		}
		if !inLoop {
			return
		}
		n++
		pad := false
		for _, g := range guardsOf(c.Block()) {
			g = g.norm()
			if loadedFieldAnyName(g.Cond) == "Padding" && !g.Pol {
				pad = true
			}
		}
		r.Check(pad, "R2", "ReadDirAll/padding-hidden", c.Pos(), "padding files are not listed", "a directory entry is appended on a path not dominated by !f.Padding: padding files show up in the FUSE tree")
		// sub-directory dedup: exploring backwards from the append, the DT_Dir way in passes the false edge of a
		// map lookup and a map update with the same key; or the function sorts the table first
		sorted := anyInstr(rd, func(i ssa.Instruction) bool {
			cc, ok := i.(*ssa.Call)
			if !ok {
				return false
			}
			cal := cc.Call.StaticCallee()
			return cal != nil && (strings.HasPrefix(cal.Name(), "Sort") || strings.HasPrefix(cal.Name(), "sort"))
		}) != nil
		var look *ssa.Lookup
		var upd *ssa.MapUpdate
		allInstrs(rd, func(i ssa.Instruction) {
			switch x := i.(type) {
			case *ssa.Lookup:
				if _, isMap := x.X.Type().Underlying().(*types.Map); isMap {
					look = x
				}
			case *ssa.MapUpdate:
				upd = x
			}
		})
		dedup := false
		if look != nil && upd != nil && look.X == upd.Map && look.Index == upd.Key {
			// the update dominates the append on the directory path, and the lookup's true edge skips the append
			skip := true
			for _, ref := range *look.Referrers() {
				if iff, ok := ref.(*ssa.If); ok {
					if reachableFrom(iff.Block().Succs[0])[c.Block()] && !reachableFrom(iff.Block().Succs[0])[look.Block()] {
						skip = false
					}
				}
			}
			dedup = skip
		}
		// a name recorded as listed is listed: from the update of the set, the iteration does not end (next iteration,
		// or return) without passing the append — otherwise a sub-directory whose first file is skipped for another
		// reason (padding) is marked as seen and never shown
		if upd != nil {
			var head *ssa.BasicBlock
			for _, l := range naturalLoops(rd) {
				if l.Blocks[upd.Block()] && (head == nil || l.Blocks[head]) {
					head = l.Head // innermost
				}
			}
			isEnd := func(i ssa.Instruction) bool {
				if _, ok := i.(*ssa.Return); ok {
					return true
				}
				return head != nil && i.Block() == head && i == head.Instrs[0]
			}
			miss, reached := pathsMissing(upd, -1, isEnd, nil, []edgeReq{{Name: "append", Instr: func(i ssa.Instruction) bool { return i == ssa.Instruction(c) }}})
			r.Check(reached > 0 && len(miss) == 0, "R2", "ReadDirAll/recorded-name-is-listed", upd.Pos(), "every name entered in the set of listed names is appended to the listing in the same iteration",
				"after a name is recorded as listed the iteration can end without appending its entry: a sub-directory whose first file is skipped afterwards (a padding file) is never shown although it contains real files")
		}
		r.Check(dedup || sorted, "R2", "ReadDirAll/subdirectory-listed-once", c.Pos(), "a sub-directory is listed only if its name is not yet in the set of listed names",
			"sub-directory entries are not deduplicated against every name listed so far (a membership test in a set that accumulates each listed name, or a sorted table): files of one directory that are not adjacent in the file list make it appear several times")
	})
	r.Sentinel("R2", n, 1)
}

func c20R3(r *Report) {
	p := r.P
	n := 0
	pathF := p.Field("tor", "Torfile", "Path")
	for _, f := range p.SrcFuncs() {
		pk := relPkg(f)
		if pk != "http" && pk != "fuse" {
			continue
		}
		allInstrs(f, func(in ssa.Instruction) {
			bo, ok := in.(*ssa.BinOp)
			if !ok || bo.Op != token.SUB {
				return
			}
			k, okk := constInt(bo.Y)
			lc, isLen := bo.X.(*ssa.Call)
			if !okk || k != 1 || !isLen {
				return
			}
			bi, isb := lc.Call.Value.(*ssa.Builtin)
			if !isb || bi.Name() != "len" {
				return
			}
			// used as an index or slice bound?
			used := false
			for _, ref := range *bo.Referrers() {
				switch x := ref.(type) {
				case *ssa.IndexAddr:
					used = used || x.Index == ssa.Value(bo)
				case *ssa.Index:
					used = used || x.Index == ssa.Value(bo)
				case *ssa.Slice:
					used = used || x.High == ssa.Value(bo) || x.Low == ssa.Value(bo)
				}
			}
			if !used {
				return
			}
			n++
			r.Fn(f)
			x := lc.Call.Args[0]
			key := fmt.Sprintf("%s/len(%s)-1", fname(f), exprStr(x))
			// (a) dominating guard len(x) > 0 / >= 1 / != 0
			guarded := hasGuard(bo.Block(), func(op token.Token, a, b ssa.Value) bool {
				if !isLenOf(a, x) {
					return false
				}
				c, okc := constInt(b)
				if !okc {
					return false
				}
				return (op == token.GTR && c >= 0) || (op == token.GEQ && c >= 1) || (op == token.NEQ && c == 0)
			})
			why := "dominating length guard"
			// (b) construction: string concatenation with a non-empty constant
			if !guarded {
				if cat, ok := x.(*ssa.BinOp); ok && cat.Op == token.ADD {
					for _, side := range []ssa.Value{cat.X, cat.Y} {
						if s, oks := constString(side); oks && len(s) > 0 {
							guarded, why = true, "concatenation with a non-empty constant"
						}
					}
				}
			}
			// (c) producer guarantee: a file's path from the torrent's table
			if !guarded {
				if fv, _ := loadedFieldAny(x); fv == pathF && pathF != nil {
					guarded, why = true, "file paths in the table are non-empty (C13.R1 G6)"
				}
			}
			// (d) Within(x, d) == true  =>  len(x) > len(d) >= 0
			if !guarded {
				for _, g := range guardsOf(bo.Block()) {
					g = g.norm()
					if cc, ok := g.Cond.(*ssa.Call); ok && g.Pol {
						if cal := cc.Call.StaticCallee(); cal != nil && cal.Name() == "Within" && relPkg(cal) == "path" && cc.Call.Args[0] == x {
							guarded, why = true, "Within(x, d) implies len(x) > len(d)"
						}
					}
				}
			}
			if guarded {
				r.Ok("R3", key, bo.Pos(), "len-1 on a non-empty value (%s)", why)
			} else {
				r.Fail("R3", key, bo.Pos(), "`len(%s) - 1` is used as an index/bound where %s may be empty (no dominating length guard, not built from a non-empty constant, not a file path of the table): e.g. a single-file torrent named \"/\" parses to the empty path and the handler panics (the index page can no longer be rendered)", exprStr(x), exprStr(x))
			}
		})
	}
	r.Sentinel("R3", n, 4)
}

// ---------- R4: links ----------

// urlBuilders: functions of package http that turn a path into a URL by calling url.PathEscape.
func urlBuilders(p *Prog) map[*ssa.Function][]*ssa.Call {
	out := map[*ssa.Function][]*ssa.Call{}
	for _, f := range p.SrcFuncs() {
		if relPkg(f) != "http" {
			continue
		}
		allInstrs(f, func(in ssa.Instruction) {
			if c, ok := in.(*ssa.Call); ok && isStdCall(c, "net/url", "", "PathEscape") {
				out[f] = append(out[f], c)
			}
		})
	}
	return out
}

// opaqueConsumer: following v forwards through operations that keep its bytes (conversions, slicing, concatenation,
// append/copy, strings.Join, writes into a builder, stores into local cells and slice elements) up to a return, the
// first call that consumes it in any other way.
func opaqueConsumer(v ssa.Value) ssa.Instruction {
	seen := map[ssa.Value]bool{}
	var bad ssa.Instruction
	var walk func(v ssa.Value, d int)
	walk = func(v ssa.Value, d int) {
		if v == nil || seen[v] || bad != nil || d > 24 || v.Referrers() == nil {
			return
		}
		seen[v] = true
		for _, ref := range *v.Referrers() {
			switch x := ref.(type) {
			case *ssa.Phi, *ssa.Convert, *ssa.ChangeType, *ssa.Slice, *ssa.MakeInterface:
				walk(x.(ssa.Value), d+1)
			case *ssa.BinOp:
				if x.Op == token.ADD {
					walk(x, d+1)
				}
			case *ssa.Store:
				if x.Val != v {
					continue
				}
				switch a := x.Addr.(type) {
				case *ssa.Alloc:
					for _, r2 := range *a.Referrers() {
						if ld, ok := r2.(*ssa.UnOp); ok && ld.Op == token.MUL {
							walk(ld, d+1)
						}
					}
				case *ssa.IndexAddr:
					walk(a.X, d+1) // the slice the element belongs to
				}
			case *ssa.Call:
				if bi, ok := x.Call.Value.(*ssa.Builtin); ok {
					if bi.Name() == "append" {
						walk(x, d+1)
					}
					continue // len, copy, …
				}
				switch qualName(x) {
				case "strings.Join", "fmt.Sprint", "strings.Clone":
					walk(x, d+1)
				case "fmt.Sprintf":
					// transparent when the format prints its arguments as they are (%s, %v only)
					if f, ok := constString(x.Call.Args[0]); ok && !strings.ContainsAny(strings.NewReplacer("%s", "", "%v", "", "%%", "").Replace(f), "%") {
						walk(x, d+1)
					} else if bad == nil {
						bad = x
					}
				case "strings.Builder.WriteString", "bytes.Buffer.WriteString", "strings.Builder.Write", "bytes.Buffer.Write", "fmt.Fprint", "fmt.Fprintf", "io.WriteString":
				default:
					if bad == nil {
						bad = x
					}
				}
			}
		}
	}
	walk(v, 0)
	return bad
}

// pathComponent: v is an element of a path-typed parameter of f (ranged over or indexed), untransformed.
func pathComponent(v ssa.Value, f *ssa.Function, d int) bool {
	if d > 8 {
		return false
	}
	switch x := strip(v).(type) {
	case *ssa.Parameter:
		return x.Parent() == f
	case *ssa.UnOp:
		if x.Op == token.MUL {
			if ia, ok := x.X.(*ssa.IndexAddr); ok {
				return pathComponent(ia.X, f, d+1)
			}
		}
	case *ssa.Index:
		return pathComponent(x.X, f, d+1)
	case *ssa.Extract:
		if nx, ok := x.Tuple.(*ssa.Next); ok {
			if rg, ok := nx.Iter.(*ssa.Range); ok {
				return pathComponent(rg.X, f, d+1)
			}
		}
	case *ssa.Slice:
		return pathComponent(x.X, f, d+1)
	case *ssa.Phi:
		for _, e := range x.Edges {
			if !pathComponent(e, f, d+1) {
				return false
			}
		}
		return len(x.Edges) > 0
	}
	return false
}

func c20R4(r *Report) {
	p := r.P
	bs := urlBuilders(p)
	n := 0
	var fs []*ssa.Function
	for f := range bs {
		fs = append(fs, f)
	}
	sortFuncs(fs)
	for _, f := range fs {
		r.Fn(f)
		for _, c := range bs[f] {
			n++
			key := fmt.Sprintf("%s/PathEscape(%s)", fname(f), exprStr(strip(c.Call.Args[0])))
			if !pathComponent(c.Call.Args[0], f, 0) {
				r.Fail("R4", key+"/component-as-is", c.Pos(), "the string given to url.PathEscape is not a component of the path as it stands in the file table: the link names something else than the file")
			} else {
				r.Ok("R4", key+"/component-as-is", c.Pos(), "a component of the path, untransformed, is escaped")
			}
			if bad := opaqueConsumer(c); bad != nil {
				r.Fail("R4", key+"/escaped-once", bad.Pos(), "the URL-escaped component is transformed again (%s) before it becomes part of the link: the link no longer decodes to the file's path — in a playlist, where the URL is plain text, an HTML-escaped `&` makes the entry unresolvable", exprStr(bad.(ssa.Value)))
			} else {
				r.Ok("R4", key+"/escaped-once", c.Pos(), "the escaped component reaches the result through concatenation only")
			}
		}
	}
	r.Sentinel("R4", n, 1)
	// use sites: in a playlist the URL is written as it is; in an HTML page (an href attribute, whose value the browser
	// entity-decodes) it is HTML-escaped exactly once
	m3u := playlistFuncs(p)
	isBuilderCall := func(v ssa.Value) *ssa.Call {
		c, ok := strip(v).(*ssa.Call)
		if !ok {
			return nil
		}
		if cal := c.Call.StaticCallee(); cal != nil && bs[cal] != nil {
			return c
		}
		return nil
	}
	nUse := 0
	for _, f := range p.SrcFuncs() {
		if relPkg(f) != "http" {
			continue
		}
		allInstrs(f, func(in ssa.Instruction) {
			c, ok := in.(*ssa.Call)
			if !ok || qualName(c) != "fmt.Fprintf" || len(c.Call.Args) < 3 {
				return
			}
			for _, a := range variadicElems(c.Call.Args[2]) {
				if a == nil {
					continue
				}
				// the argument is a link: a builder's result, HTML-escaped some number of times, possibly through a
				// helper of the package all of whose returns have the same form (href(path))
				var linkForm func(v ssa.Value, d int) (int, *ssa.Call)
				linkForm = func(v ssa.Value, d int) (int, *ssa.Call) {
					v = strip(v)
					cc, ok := v.(*ssa.Call)
					if !ok || d > 4 {
						return 0, nil
					}
					if qualName(cc) == "html.EscapeString" {
						n, bc := linkForm(cc.Call.Args[0], d+1)
						return n + 1, bc
					}
					if bc := isBuilderCall(cc); bc != nil {
						return 0, bc
					}
					h := cc.Call.StaticCallee()
					if h == nil || h.Blocks == nil || relPkg(h) != "http" || cc.Call.IsInvoke() {
						return 0, nil
					}
					n, first := -1, (*ssa.Call)(nil)
					for _, ret := range returnsOf(h) {
						if len(ret.Results) != 1 {
							return 0, nil
						}
						if s, isS := constString(ret.Results[0]); isS && s == "" {
							continue
						}
						k, bc := linkForm(ret.Results[0], d+1)
						if bc == nil || (n >= 0 && k != n) {
							return 0, nil
						}
						n, first = k, bc
					}
					if first == nil {
						return 0, nil
					}
					return n, cc
				}
				nEsc, bc := linkForm(a, 0)
				if bc == nil {
					continue
				}
				nUse++
				r.Fn(f)
				key := fmt.Sprintf("%s/link(%s)", fname(f), exprStr(bc))
				if m3u[f] {
					r.Check(nEsc == 0, "R4", key+"/plain-in-playlist", c.Pos(), "the URL is written to the playlist as built", "the URL written to the playlist is HTML-escaped: players read the line verbatim and request a path that does not exist")
				} else {
					r.Check(nEsc == 1, "R4", key+"/html-escaped-in-page", c.Pos(), "the URL is HTML-escaped once where it is placed in the page",
						fmt.Sprintf("the URL placed in the page's href is HTML-escaped %d times instead of once: url.PathEscape leaves `&` as it is and the browser entity-decodes attribute values, so the link of a file whose name contains a character reference (\"Tom &amp; Jerry.mkv\") names a different, absent file", nEsc))
				}
			}
		})
	}
	r.Sentinel("R4.uses", nUse, 3)
}

// playlistFuncs: functions of package http that write a playlist (they set the mpegurl content type), and the package
// functions taking the ResponseWriter that they call.
func playlistFuncs(p *Prog) map[*ssa.Function]bool {
	m3u := map[*ssa.Function]bool{}
	for _, f := range p.SrcFuncs() {
		if relPkg(f) != "http" {
			continue
		}
		allInstrs(f, func(in ssa.Instruction) {
			c, ok := in.(*ssa.Call)
			if !ok {
				return
			}
			for _, a := range c.Call.Args {
				if s, oks := constString(a); oks && strings.Contains(s, "mpegurl") {
					m3u[f] = true
				}
			}
		})
	}
	for f := range m3u {
		allInstrs(f, func(in ssa.Instruction) {
			if cal := calleeOf(in); cal != nil && relPkg(cal) == "http" && len(cal.Params) > 0 && typeIs(cal.Params[0].Type(), "net/http", "ResponseWriter") {
				m3u[cal] = true
			}
		})
	}
	return m3u
}

// ---------- R1 (path package): comparisons are component-wise ----------

// elemOf: v is the element s[i] of one of the function's two path operands; returns which operand and the index value.
func elemOf(v ssa.Value, ops []ssa.Value) (int, ssa.Value) {
	var base, idx ssa.Value
	switch x := v.(type) {
	case *ssa.UnOp:
		if x.Op != token.MUL {
			return -1, nil
		}
		ia, ok := x.X.(*ssa.IndexAddr)
		if !ok {
			return -1, nil
		}
		base, idx = ia.X, ia.Index
	case *ssa.Index:
		base, idx = x.X, x.Index
	default:
		return -1, nil
	}
	for k, o := range ops {
		if strip(base) == o {
			return k, idx
		}
	}
	return -1, nil
}

func c20PathCmp(r *Report) {
	p := r.P
	for _, name := range []string{"Equal", "Within"} {
		f := p.Func("path", "Path."+name)
		if !r.Anchor("R1", "path.(Path)."+name, f != nil) {
			continue
		}
		r.Fn(f)
		if len(f.Params) != 2 {
			r.Undecided("R1", "path."+name+"/shape", f.Pos(), "unexpected signature")
			continue
		}
		ops := []ssa.Value{f.Params[0], f.Params[1]}
		key := "path." + name
		// (a) delegating to slices.Equal on the two operands is component-wise by definition
		delegated := false
		if name == "Equal" {
			all := true
			for _, ret := range returnsOf(f) {
				c, ok := strip(ret.Results[0]).(*ssa.Call)
				if !ok || calleeObj(c) == nil || calleeObj(c).Pkg() == nil || calleeObj(c).Pkg().Path() != "slices" || calleeObj(c).Name() != "Equal" ||
					len(c.Call.Args) != 2 || !((strip(c.Call.Args[0]) == ops[0] && strip(c.Call.Args[1]) == ops[1]) || (strip(c.Call.Args[0]) == ops[1] && strip(c.Call.Args[1]) == ops[0])) {
					all = false
				}
			}
			delegated = all && len(returnsOf(f)) > 0
		}
		if delegated {
			r.Ok("R1", key+"/component-wise", f.Pos(), "delegates to slices.Equal on the two paths")
			continue
		}
		// (b) every string comparison is between p[i] and q[i] for the same i; nothing else is compared or called
		var cw func(f *ssa.Function, ops []ssa.Value, depth int) (int, string)
		cw = func(f *ssa.Function, ops []ssa.Value, depth int) (int, string) {
			nCmp := 0
			bad := ""
			allInstrs(f, func(in ssa.Instruction) {
				switch x := in.(type) {
				case *ssa.BinOp:
					if !isStringKind(x.X.Type()) {
						return
					}
					switch x.Op {
					case token.EQL, token.NEQ, token.LSS, token.GTR, token.LEQ, token.GEQ:
					default:
						if bad == "" {
							bad = "strings are combined (" + exprStr(x) + ") at " + p.pos(x.Pos())
						}
						return
					}
					ka, ia := elemOf(x.X, ops)
					kb, ib := elemOf(x.Y, ops)
					if ka < 0 || kb < 0 || ka == kb || ia != ib {
						if bad == "" {
							bad = "the comparison " + exprStr(x) + " at " + p.pos(x.Pos()) + " is not between the components of the two paths at one index"
						}
						return
					}
					nCmp++
				case *ssa.Call:
					if bi, ok := x.Call.Value.(*ssa.Builtin); ok && (bi.Name() == "len" || bi.Name() == "min" || bi.Name() == "max") {
						return
					}
					base := func(v ssa.Value) int {
						v = strip(v)
						if sl, ok := v.(*ssa.Slice); ok {
							v = strip(sl.X)
						}
						for k, o := range ops {
							if v == o {
								return k
							}
						}
						return -1
					}
					// a component-wise comparison of (a slice of) one operand with (a slice of) the other: the sibling
					// Path.Equal — itself checked — or slices.Equal
					if o := calleeObj(x); o != nil && o.Pkg() != nil && o.Name() == "Equal" && (o.Pkg().Path() == "slices" || hasSuffix(o.Pkg().Path(), "/path")) && len(x.Call.Args) == 2 && x.Call.StaticCallee() != f {
						if a, b := base(x.Call.Args[0]), base(x.Call.Args[1]); a >= 0 && b >= 0 && a != b {
							nCmp++
							return
						}
					}
					// … or a private helper of the package handed the two operands, itself component-wise (p.hasPrefix(d))
					if h := x.Call.StaticCallee(); h != nil && h.Blocks != nil && !x.Call.IsInvoke() && relPkg(h) == "path" && h != f && depth < 2 && len(x.Call.Args) == 2 && len(h.Params) == 2 {
						if a, b := base(x.Call.Args[0]), base(x.Call.Args[1]); a >= 0 && b >= 0 && a != b {
							n2, bad2 := cw(h, []ssa.Value{h.Params[0], h.Params[1]}, depth+1)
							if bad2 == "" && n2 > 0 {
								r.Fn(h)
								nCmp += n2
								return
							}
							if bad == "" && bad2 != "" {
								bad = "its helper " + fname(h) + ": " + bad2
							}
							return
						}
					}
					if bad == "" {
						bad = "it calls " + exprStr(x) + " at " + p.pos(x.Pos())
					}
				}
			})
			return nCmp, bad
		}
		nCmp, bad := cw(f, ops, 0)
		if bad != "" || nCmp == 0 {
			if bad == "" {
				bad = "no comparison of components found"
			}
			r.Fail("R1", key+"/component-wise", f.Pos(), "path.%s does not compare the two paths component by component (%s): a representation that joins the components cannot tell [\"a/b\"] from [\"a\",\"b\"], so a crafted component makes a lookup resolve to another file", name, bad)
			continue
		}
		r.Ok("R1", key+"/component-wise", f.Pos(), "%d comparisons, each between p[i] and q[i]; no other calls", nCmp)
		// (c) the length relation guards every return that can be true
		isLenCmp := func(cond ssa.Value, pol bool) bool {
			bo, ok := cond.(*ssa.BinOp)
			if !ok {
				return false
			}
			a, b := bo.X, bo.Y
			op := bo.Op
			if isLenOf(b, ops[0]) && isLenOf(a, ops[1]) {
				a, b = b, a
				switch op {
				case token.LSS:
					op = token.GTR
				case token.GTR:
					op = token.LSS
				case token.LEQ:
					op = token.GEQ
				case token.GEQ:
					op = token.LEQ
				}
			}
			if !isLenOf(a, ops[0]) || !isLenOf(b, ops[1]) {
				return false
			}
			if name == "Equal" {
				return (op == token.EQL && pol) || (op == token.NEQ && !pol)
			}
			// Within: len(p) > len(d)
			return (op == token.GTR && pol) || (op == token.LEQ && !pol)
		}
		lenOK, reached := true, 0
		for _, ret := range returnsOf(f) {
			if b, isb := constBool(ret.Results[0]); isb && !b {
				continue
			}
			if ph, isPhi := ret.Results[0].(*ssa.Phi); isPhi && ph.Block() == ret.Block() {
				// return len(p) > len(d) && …: the result is false on the edge where the relation failed
				for i, e := range ph.Edges {
					if b, isb := constBool(e); isb && !b {
						continue
					}
					reached++
					held := false
					rel := map[token.Token]bool{}
					for _, g := range guardsOnEdge(ph.Block().Preds[i], ph.Block()) {
						g = g.norm()
						if isLenCmp(g.Cond, g.Pol) {
							held = true
						}
						if op, ok := lenRelation(g, ops[0], ops[1]); ok {
							rel[op] = true
						}
					}
					// len(p) != len(d) && p.hasPrefix(d): what the helper's true outcome says about the lengths
					if c, isC := e.(*ssa.Call); isC && !held {
						if h := c.Call.StaticCallee(); h != nil && h.Blocks != nil && !c.Call.IsInvoke() && relPkg(h) == "path" && len(c.Call.Args) == 2 && len(h.Params) == 2 {
							swap := -1
							if strip(c.Call.Args[0]) == ops[0] && strip(c.Call.Args[1]) == ops[1] {
								swap = 0
							} else if strip(c.Call.Args[0]) == ops[1] && strip(c.Call.Args[1]) == ops[0] {
								swap = 1
							}
							if swap >= 0 {
								var common map[token.Token]bool
								for _, hr := range returnsOf(h) {
									if b, isb := constBool(hr.Results[0]); isb && !b {
										continue
									}
									here := map[token.Token]bool{}
									for _, g := range guardsOf(hr.Block()) {
										if op, ok := lenRelation(g.norm(), h.Params[swap], h.Params[1-swap]); ok {
											here[op] = true
										}
									}
									if common == nil {
										common = here
									} else {
										for k := range common {
											if !here[k] {
												delete(common, k)
											}
										}
									}
								}
								for k := range common {
									rel[k] = true
								}
							}
						}
						if name == "Within" && (rel[token.GTR] || (rel[token.GEQ] && rel[token.NEQ])) {
							held = true
						}
						if name == "Equal" && (rel[token.EQL] || (rel[token.GEQ] && rel[token.LEQ])) {
							held = true
						}
					}
					if !held {
						lenOK = false
					}
				}
				continue
			}
			the := ret
			miss, n := pathsMissingEntry(f, func(in ssa.Instruction) bool { return in == ssa.Instruction(the) }, nil, []edgeReq{{Name: "length relation", Match: isLenCmp}})
			reached += n
			if len(miss) > 0 {
				lenOK = false
			}
		}
		want := "len(p) == len(q)"
		if name == "Within" {
			want = "len(p) > len(d)"
		}
		r.Check(reached > 0 && lenOK, "R1", key+"/length-relation", f.Pos(), "every return that can be true has passed "+want, "path."+name+" can return true without having established "+want+": a path that is a proper prefix (or extension) of a file's path resolves to that file")
	}
}

// lenRelation: guard g states len(a) OP len(b); returns OP (normalised to a on the left, polarity folded in).
func lenRelation(g Guard, a, b ssa.Value) (token.Token, bool) {
	op, x, y, ok := cmpFact(g)
	if !ok {
		return 0, false
	}
	if isLenOf(x, a) && isLenOf(y, b) {
		return op, true
	}
	if isLenOf(x, b) && isLenOf(y, a) {
		switch op {
		case token.LSS:
			return token.GTR, true
		case token.GTR:
			return token.LSS, true
		case token.LEQ:
			return token.GEQ, true
		case token.GEQ:
			return token.LEQ, true
		}
		return op, true
	}
	return 0, false
}

// ---------- R1 (continued): the file table is indexed by file indices ----------

// c20FilesIndex: in the front-ends, an index into Torrent.Files that is the position of a range loop must be the
// position in Torrent.Files itself. Lists of file indices (filtered, sorted) are ranged over by value; using the
// position in such a list as a file index names the first files of the table instead of the listed ones.
func c20FilesIndex(r *Report) {
	p := r.P
	filesF := p.Field("tor", "Torrent", "Files")
	if !r.Anchor("R1", "tor.Torrent.Files", filesF != nil) {
		return
	}
	n := 0
	for _, f := range p.SrcFuncs() {
		if pk := relPkg(f); pk != "http" && pk != "fuse" {
			continue
		}
		allInstrs(f, func(in ssa.Instruction) {
			var base, idx ssa.Value
			switch x := in.(type) {
			case *ssa.IndexAddr:
				base, idx = x.X, x.Index
			case *ssa.Index:
				base, idx = x.X, x.Index
			default:
				return
			}
			if fv, _ := loadedField(base); fv != filesF {
				return
			}
			n++
			idx = stripIntConv(idx)
			bo, ok := idx.(*ssa.BinOp)
			if !ok || bo.Op != token.ADD {
				return
			}
			ph, ok := bo.X.(*ssa.Phi)
			if !ok || ph.Comment != "rangeindex" {
				return
			}
			// the slice (or integer) the loop ranges over: idx < len(X)
			var ranged ssa.Value
			for _, ref := range *bo.Referrers() {
				cmp, ok := ref.(*ssa.BinOp)
				if !ok || cmp.Op != token.LSS || cmp.X != ssa.Value(bo) {
					continue
				}
				if c, okc := cmp.Y.(*ssa.Call); okc {
					if bi, okb := c.Call.Value.(*ssa.Builtin); okb && bi.Name() == "len" {
						ranged = c.Call.Args[0]
					}
				}
			}
			key := fmt.Sprintf("%s/Files[position]", fname(f))
			if ranged == nil {
				return // an integer range or a shape the rule does not know: not judged
			}
			r.Fn(f)
			fv, _ := loadedField(ranged)
			r.Check(fv == filesF, "R1", key, in.Pos(), "the file table is indexed by a position in the file table itself",
				"Torrent.Files is indexed by the position of a loop over another list ("+exprStr(ranged)+"): a filtered or sorted list of file indices must be ranged over by value — its positions name the first files of the table, so a sub-directory's playlist or listing shows other files than its own")
		})
	}
	r.Sentinel("R1.files-index", n, 3)
}

// ---------- the file table is immutable once published ----------

// c20FilesImmutable: Torrent.Files is shared by the scheduler (fileChunks walks it in offset order), the web-seed
// fetchers and both front-ends. After MetadataComplete has built it nothing may write through it: no store into one of
// its elements (or into a slice that is an element's field — a Path component) and no in-place reordering (sort.Slice,
// slices.SortFunc, slices.Reverse …) of the table or of an alias of it. Sorting for display is done on a list of indices.
func c20FilesImmutable(r *Report, rule string) {
	p := r.P
	filesF := p.Field("tor", "Torrent", "Files")
	mc := p.Func("tor", "Torrent.MetadataComplete")
	if !r.Anchor(rule, "tor.Torrent.Files", filesF != nil) {
		return
	}
	// aliases: values that denote the table or a part of it — also after travelling through a struct field (the path of
	// a fileChunk) or a parameter (the `file []string` of Webseed.Get): both sets are computed to a fixpoint below
	carrier := map[*types.Var]bool{}
	tainted := map[*ssa.Parameter]bool{}
	var isTable func(v ssa.Value, d int) bool
	isTable = func(v ssa.Value, d int) bool {
		if d > 6 || v == nil {
			return false
		}
		if fv, _ := loadedFieldAny(v); fv != nil && (fv == filesF || carrier[fv]) {
			return true
		}
		// a parameter that lives in a cell because a closure captures it
		if ld, ok := v.(*ssa.UnOp); ok {
			if prm := paramCell(ld); prm != nil {
				v = prm
			}
		}
		if prm, ok := v.(*ssa.Parameter); ok && tainted[prm] {
			return true
		}
		switch x := v.(type) {
		case *ssa.Slice:
			return isTable(x.X, d+1)
		case *ssa.Phi:
			for _, e := range x.Edges {
				if isTable(e, d+1) {
					return true
				}
			}
		case *ssa.UnOp:
			if x.Op == token.MUL {
				// a field of an element that is itself a slice (f.Path): &t.Files[i].Path
				if fa, ok := x.X.(*ssa.FieldAddr); ok {
					if ia, ok := fa.X.(*ssa.IndexAddr); ok {
						return isTable(ia.X, d+1)
					}
					// … of a local copy of an element (the range variable f lives in a cell)
					if al, ok := fa.X.(*ssa.Alloc); ok {
						for _, ref := range *al.Referrers() {
							if st, isSt := ref.(*ssa.Store); isSt && st.Addr == ssa.Value(al) {
								if ld, isLd := st.Val.(*ssa.UnOp); isLd && ld.Op == token.MUL {
									if ia, isIA := ld.X.(*ssa.IndexAddr); isIA && isTable(ia.X, d+1) {
										return true
									}
								}
							}
						}
					}
				}
			}
		case *ssa.Field:
			// f.Path of an element value loaded from the table (for _, f := range t.Files)
			if ld, ok := x.X.(*ssa.UnOp); ok && ld.Op == token.MUL {
				if ia, ok := ld.X.(*ssa.IndexAddr); ok {
					return isTable(ia.X, d+1)
				}
			}
		}
		return false
	}
	// fixpoint: which fields and parameters can hold (a part of) the table
	var scope []*ssa.Function
	for _, f := range p.SrcFuncs() {
		pk := relPkg(f)
		if pk == "tor" || pk == "http" || pk == "fuse" || pk == "webseed" || pk == "" {
			scope = append(scope, f)
		}
	}
	methodsNamed := map[string][]*ssa.Function{}
	for _, f := range scope {
		if f.Signature.Recv() != nil {
			methodsNamed[f.Name()] = append(methodsNamed[f.Name()], f)
		}
	}
	isSliceOfStrings := func(t types.Type) bool {
		sl, ok := t.Underlying().(*types.Slice)
		if !ok {
			return false
		}
		b, okb := sl.Elem().Underlying().(*types.Basic)
		return okb && b.Info()&types.IsString != 0
	}
	for iter := 0; iter < 6; iter++ {
		changed := false
		for _, f := range scope {
			allInstrs(f, func(in ssa.Instruction) {
				switch x := in.(type) {
				case *ssa.Store:
					if fa, ok := x.Addr.(*ssa.FieldAddr); ok && isSliceOfStrings(x.Val.Type()) && isTable(x.Val, 0) {
						if fv := fieldVar(fa); fv != nil && fv != filesF && !carrier[fv] {
							carrier[fv] = true
							changed = true
						}
					}
				case ssa.CallInstruction:
					com := x.Common()
					var callees []*ssa.Function
					off := 0
					if com.IsInvoke() {
						callees = methodsNamed[com.Method.Name()]
						off = 1
					} else if h := com.StaticCallee(); h != nil && h.Blocks != nil {
						callees = []*ssa.Function{h}
					}
					for ai, a := range com.Args {
						if !isSliceOfStrings(a.Type()) || !isTable(a, 0) {
							continue
						}
						for _, h := range callees {
							k := ai + off
							if k < len(h.Params) && !tainted[h.Params[k]] && isSliceOfStrings(h.Params[k].Type()) {
								tainted[h.Params[k]] = true
								changed = true
							}
						}
					}
				}
			})
		}
		if !changed {
			break
		}
	}
	n := 0
	mutators := map[string]bool{"sort.Slice": true, "sort.SliceStable": true, "sort.Sort": true, "sort.Stable": true, "slices.Sort": true, "slices.SortFunc": true, "slices.SortStableFunc": true, "slices.Reverse": true}
	for _, f := range p.SrcFuncs() {
		if mc != nil && (f == mc || enclosingNamed(f) == mc) {
			continue
		}
		pk := relPkg(f)
		if !(pk == "tor" || pk == "http" || pk == "fuse" || pk == "webseed" || pk == "") {
			continue
		}
		allInstrs(f, func(in ssa.Instruction) {
			switch x := in.(type) {
			case *ssa.Store:
				ia, ok := x.Addr.(*ssa.IndexAddr)
				if ok && isTable(ia.X, 0) {
					n++
					r.Fn(f)
					r.Fail(rule, fname(f)+"/store-into-Torrent.Files", x.Pos(), "%s stores into the published file table (or into a path that belongs to it): the scheduler, the web-seed fetchers and the front-ends share it and assume it never changes", fname(f))
				}
				if fa, ok := x.Addr.(*ssa.FieldAddr); ok {
					if ia2, ok2 := fa.X.(*ssa.IndexAddr); ok2 && isTable(ia2.X, 0) {
						n++
						r.Fn(f)
						r.Fail(rule, fname(f)+"/store-into-Torrent.Files", x.Pos(), "%s assigns a field of an entry of the published file table", fname(f))
					}
				}
			case *ssa.Call:
				qp, qn := calleePkgName(x)
				q := qp + "." + qn
				if !mutators[q] || len(x.Call.Args) == 0 {
					return
				}
				arg := x.Call.Args[0]
				if mi, ok := arg.(*ssa.MakeInterface); ok {
					arg = mi.X
				}
				if isTable(arg, 0) {
					n++
					r.Fn(f)
					r.Fail(rule, fname(f)+"/"+q+"(Torrent.Files)", x.Pos(), "%s reorders the published file table in place with %s: fileChunks walks the table in offset order, so after this a range near a file boundary is mapped to the wrong file (or to a padding chunk with a negative offset) and web-seed data is stored over other bytes; listings and lookups of the other front-end change too", fname(f), q)
				}
			}
		})
	}
	if n == 0 {
		r.Ok(rule, "Torrent.Files/immutable-after-publication", token.NoPos, "no store into the file table and no in-place reordering of it outside MetadataComplete")
	}
}

// ---------- searches of the file table are exhaustive ----------

// c20Exhaustive: the file list of a torrent is in no particular order of paths (files of one directory need not be
// adjacent). A loop over Torrent.Files in a front-end may stop early only because it found what it was looking for: every
// edge that leaves the loop from its body is taken under a positive match (Path.Equal, Path.Within or a string equality
// that holds). An exit under "we are past the directory" assumes an order the table does not have, and makes files that
// ReadDirAll lists impossible to look up.
func c20Exhaustive(r *Report) {
	p := r.P
	filesF := p.Field("tor", "Torrent", "Files")
	if filesF == nil {
		return
	}
	n := 0
	for _, f := range p.SrcFuncs() {
		if pk := relPkg(f); pk != "http" && pk != "fuse" {
			continue
		}
		for _, l := range naturalLoops(f) {
			// does the loop range over the file table?
			over := false
			for b := range l.Blocks {
				for _, in := range b.Instrs {
					var base, idx ssa.Value
					switch x := in.(type) {
					case *ssa.IndexAddr:
						base, idx = x.X, x.Index
					case *ssa.Index:
						base, idx = x.X, x.Index
					default:
						continue
					}
					if fv, _ := loadedField(base); fv != filesF {
						continue
					}
					if bo, ok := stripIntConv(idx).(*ssa.BinOp); ok && bo.Op == token.ADD {
						if ph, okp := bo.X.(*ssa.Phi); okp && ph.Comment == "rangeindex" && ph.Block() == l.Head {
							over = true
						}
					}
				}
			}
			if !over {
				continue
			}
			for b := range l.Blocks {
				if b == l.Head {
					continue
				}
				for _, s := range b.Succs {
					if l.Blocks[s] {
						continue
					}
					n++
					r.Fn(f)
					positive := false
					for _, g := range guardsOnEdge(b, s) {
						if g.If == nil || !l.Blocks[g.If.Block()] {
							continue
						}
						g = g.norm()
						if !g.Pol {
							if bo, ok := g.Cond.(*ssa.BinOp); ok && bo.Op == token.NEQ && isStringKind(bo.X.Type()) {
								positive = true // !(a != b)
							}
							continue
						}
						switch x := g.Cond.(type) {
						case *ssa.Call:
							if cal := x.Call.StaticCallee(); cal != nil && relPkg(cal) == "path" && (cal.Name() == "Equal" || cal.Name() == "Within") {
								positive = true
							}
						case *ssa.BinOp:
							if x.Op == token.EQL && isStringKind(x.X.Type()) {
								positive = true
							}
						}
					}
					pos := token.NoPos
					if len(b.Instrs) > 0 {
						pos = b.Instrs[len(b.Instrs)-1].Pos()
					}
					r.Check(positive, "R1", fmt.Sprintf("%s/Files-loop-exit-needs-a-match", fname(f)), pos, "the loop over the file table is left early only under a positive match",
						"a loop over Torrent.Files in "+fname(f)+" is left from its body on an edge that no positive match (Equal, Within, name equality) controls: stopping because the entries are past a directory assumes the files of a directory are adjacent in the table, which nothing guarantees — with an interleaved file list a file that the listing shows cannot be looked up")
				}
			}
		}
	}
	if n == 0 {
		r.Info("R1", "Files-loops/no-early-exit", token.NoPos, "no loop over the file table in the front-ends has an early exit")
	}
}

// c20FilesAfterComplete: the file table is published by the store of infoComplete that ends MetadataComplete; a
// front-end reads Torrent.Files only on a path on which InfoComplete() has answered true *before* the read. A value
// read first and tested afterwards can be the empty table of a magnet torrent whose metadata completed in between
// (the handler blocks on the torrent's goroutine in the meantime): a multi-file torrent is then served through the
// single-file branch.
func c20FilesAfterComplete(r *Report, rule string) {
	p := r.P
	files := p.Field("tor", "Torrent", "Files")
	ic := p.Func("tor", "Torrent.InfoComplete")
	if !r.Anchor(rule, "tor.Torrent.Files", files != nil) || !r.Anchor(rule, "tor.(*Torrent).InfoComplete", ic != nil) {
		return
	}
	n := 0
	seen := map[string]int{}
	for _, acc := range p.fieldAccesses(files) {
		f := acc.Fn
		if pk := relPkg(f); pk != "http" && pk != "fuse" {
			continue
		}
		n++
		r.Fn(f)
		isIC := func(g Guard) bool {
			c, ok := g.Cond.(*ssa.Call)
			return ok && c.Call.StaticCallee() == ic && g.Pol
		}
		held := p.factHolds(acc.Instr, isIC, 0)
		if !held && f.Parent() != nil {
			// a function literal (a sort comparator) made where the test has been passed
			held = true
			nMC := 0
			allInstrs(f.Parent(), func(in ssa.Instruction) {
				if mc, ok := in.(*ssa.MakeClosure); ok && mc.Fn == ssa.Value(f) {
					nMC++
					if !p.factHolds(mc, isIC, 0) {
						held = false
					}
				}
			})
			held = held && nMC > 0
		}
		if !held {
			// the torrent comes out of a local list that was filled only with torrents that had passed the test
			// (collected inside the tor.Range callback, read after the walk): InfoComplete never goes back to false
			if fa, isFA := acc.Instr.(*ssa.FieldAddr); isFA {
				held = c20FromTestedList(p, fa.X, ic)
			}
		}
		key := fmt.Sprintf("%s/Files-read-after-InfoComplete", fname(f))
		seen[key]++
		if seen[key] > 1 {
			key = fmt.Sprintf("%s#%d", key, seen[key])
		}
		r.Check(held, rule, key, acc.Instr.Pos(), "the file table is read on a path on which InfoComplete() already answered true",
			fname(f)+" reads Torrent.Files on a path on which InfoComplete() has not yet answered true: the value may be the empty table of a torrent whose metadata completes a moment later (between this read and the test), and a multi-file torrent is then listed and served as a single file — its real files unreachable, a name that is no file listed")
	}
	r.Sentinel(rule+".files-reads", n, 5)
}

// c20FromTestedList: t is an element of a local slice variable every append to which (in the function or in its
// function literals) adds a torrent on which InfoComplete() has just answered true.
func c20FromTestedList(p *Prog, t ssa.Value, ic *ssa.Function) bool {
	ld, ok := t.(*ssa.UnOp)
	if !ok || ld.Op != token.MUL {
		return false
	}
	ia, ok := ld.X.(*ssa.IndexAddr)
	if !ok {
		return false
	}
	// the slice value: a load of the variable's cell
	sl, ok := ia.X.(*ssa.UnOp)
	if !ok || sl.Op != token.MUL {
		return false
	}
	cell, ok := sl.X.(*ssa.Alloc)
	if !ok {
		return false
	}
	// every store into the cell, here and through closures that capture it
	type site struct {
		st *ssa.Store
	}
	var stores []*ssa.Store
	addStores := func(addr ssa.Value) {
		for _, ref := range *addr.Referrers() {
			if st, isSt := ref.(*ssa.Store); isSt && st.Addr == addr {
				stores = append(stores, st)
			}
		}
	}
	addStores(cell)
	for _, ref := range *cell.Referrers() {
		mc, isMC := ref.(*ssa.MakeClosure)
		if !isMC {
			continue
		}
		fn, _ := mc.Fn.(*ssa.Function)
		if fn == nil {
			return false
		}
		for bi, b := range mc.Bindings {
			if b == ssa.Value(cell) && bi < len(fn.FreeVars) {
				addStores(fn.FreeVars[bi])
			}
		}
	}
	n := 0
	for _, st := range stores {
		if isNilConst(st.Val) {
			continue
		}
		c, isC := st.Val.(*ssa.Call)
		if !isC {
			return false
		}
		bi, isB := c.Call.Value.(*ssa.Builtin)
		if !isB || bi.Name() != "append" {
			return false
		}
		els := variadicElems(c.Call.Args[1])
		if len(els) == 0 {
			return false
		}
		for _, el := range els {
			okEl := false
			for _, g := range guardsOf(c.Block()) {
				g = g.norm()
				gc, isGC := g.Cond.(*ssa.Call)
				if isGC && g.Pol && gc.Call.StaticCallee() == ic && len(gc.Call.Args) > 0 && gc.Call.Args[0] == el {
					okEl = true
				}
			}
			if !okEl {
				return false
			}
		}
		n++
	}
	return n > 0
}

// ---------- the file table's offsets are the running sum of all the files' lengths ----------

// c20OffsetsContiguous: every file of the info dictionary occupies its length in the torrent's byte space, whether or
// not it is listed. The Offset stored into a table entry is a running sum: a loop variable that starts at 0 and to
// which, on EVERY way round the loop, a file's Length is added — an iteration that goes round without adding (a file
// skipped by `continue` before the accumulation) gives every later file the offset of other bytes.
func c20OffsetsContiguous(r *Report, rule string) {
	p := r.P
	mc := p.Func("tor", "Torrent.MetadataComplete")
	if !r.Anchor(rule, "tor.(*Torrent).MetadataComplete", mc != nil) {
		return
	}
	isLen := func(v ssa.Value) bool {
		return fieldLoadOf("BFile", "Length")(v) || fieldLoadOf("Torfile", "Length")(v)
	}
	// runningSum: v is a loop phi Q, 0 on entry, and every value it is carried round with is Q + <a Length>
	runningSum := func(v ssa.Value) (ok bool, why string) {
		q, isPhi := stripIntConv(v).(*ssa.Phi)
		if !isPhi {
			return false, "the offset is not a loop-carried running sum"
		}
		nAcc := 0
		var carried func(e ssa.Value, seen map[ssa.Value]bool) string
		carried = func(e ssa.Value, seen map[ssa.Value]bool) string {
			if seen[e] {
				return ""
			}
			seen[e] = true
			switch x := e.(type) {
			case *ssa.Const:
				if k, isK := constInt(x); isK && k == 0 {
					return ""
				}
				return "the running sum does not start at 0"
			case *ssa.BinOp:
				if x.Op == token.ADD {
					other := x.Y
					base := x.X
					if stripIntConv(x.Y) == ssa.Value(q) {
						other, base = x.X, x.Y
					}
					if stripIntConv(base) == ssa.Value(q) && mentions(other, isLen, 0) {
						nAcc++
						return ""
					}
				}
				return "the value carried round the loop is not the sum plus a file's Length"
			case *ssa.Phi:
				if x == q {
					return "on one way round the loop the running sum is carried on unchanged: a file is passed over without its length being added, so every later file gets the offset of other bytes"
				}
				for _, ee := range x.Edges {
					if w := carried(ee, seen); w != "" {
						return w
					}
				}
				return ""
			}
			return "the value carried round the loop is not the sum plus a file's Length"
		}
		seen := map[ssa.Value]bool{}
		for _, e := range q.Edges {
			if w := carried(e, seen); w != "" {
				return false, w
			}
		}
		if nAcc == 0 {
			return false, "no accumulation of a file's Length feeds the offset"
		}
		return true, ""
	}
	n := 0
	for _, f := range p.SrcFuncs() {
		if relPkg(f) != "tor" {
			continue
		}
		allInstrs(f, func(in ssa.Instruction) {
			st, ok := in.(*ssa.Store)
			if !ok {
				return
			}
			fa, ok := st.Addr.(*ssa.FieldAddr)
			if !ok || !fieldLoadOf("Torfile", "Offset")(fa) {
				return
			}
			n++
			r.Fn(f)
			vals := []ssa.Value{st.Val}
			if pa, isPa := stripIntConv(st.Val).(*ssa.Parameter); isPa && f.Parent() == nil {
				// the entry is built by a helper that is handed the offset
				vals = nil
				idx := -1
				for i, fp := range f.Params {
					if fp == pa {
						idx = i
					}
				}
				calls, esc := p.callSitesOf(f)
				if idx < 0 || len(esc) > 0 || len(calls) == 0 {
					r.Undecided(rule, fname(f)+"/offset-is-running-sum", st.Pos(), "the offset stored is a parameter of a function whose callers cannot be enumerated")
					return
				}
				for _, cs := range calls {
					if idx < len(cs.Common().Args) {
						vals = append(vals, cs.Common().Args[idx])
					}
				}
			}
			for _, v := range vals {
				good, why := runningSum(v)
				r.Check(good, rule, fname(f)+"/offset-is-running-sum", st.Pos(), "the offset of a table entry is the sum of the lengths of all the files before it (added on every way round the loop)",
					"file-table offsets: "+why)
			}
		})
	}
	r.Sentinel(rule+".offset-stores", n, 1)
}
