package main

import (
	"fmt"
	"go/token"
	"go/types"
	"sort"
	"strings"

	"golang.org/x/tools/go/ssa"
)

// Atomic write discipline.  A variable or struct field that some function of the module accesses through sync/atomic
// is shared between goroutines without a lock; its owner may read it plainly, but every *write* has to be atomic:
// a plain `counter += n` is a load and a store, and two of them running at once lose an update (the allocation
// counter, the count of unchoked peers); a plain store of a flag may never become visible to the goroutine that polls
// it with an atomic load.  Composite-literal initialisation and package initialisers are exempt (nothing is shared
// yet).
//
// atomicTargets lists, for the whole module, the objects (globals, fields) whose address is passed to a sync/atomic
// function, and the plain stores to them.
type atomicTarget struct {
	Obj    types.Object
	Atomic []ssa.Instruction
	Plain  []*ssa.Store
}

func addrObject(v ssa.Value) types.Object {
	switch x := v.(type) {
	case *ssa.Global:
		return x.Object()
	case *ssa.FieldAddr:
		if fv := fieldVar(x); fv != nil {
			return fv
		}
	}
	return nil
}

var atomicTargetsCache map[*Prog]map[types.Object]*atomicTarget

func atomicTargets(p *Prog) map[types.Object]*atomicTarget {
	if atomicTargetsCache == nil {
		atomicTargetsCache = map[*Prog]map[types.Object]*atomicTarget{}
	}
	if m, ok := atomicTargetsCache[p]; ok {
		return m
	}
	m := map[types.Object]*atomicTarget{}
	for _, f := range p.SrcFuncs() {
		allInstrs(f, func(in ssa.Instruction) {
			c, ok := in.(ssa.CallInstruction)
			if !ok {
				return
			}
			h := c.Common().StaticCallee()
			if h == nil || h.Pkg == nil || h.Pkg.Pkg.Path() != "sync/atomic" || len(c.Common().Args) == 0 {
				return
			}
			if obj := addrObject(c.Common().Args[0]); obj != nil {
				t := m[obj]
				if t == nil {
					t = &atomicTarget{Obj: obj}
					m[obj] = t
				}
				t.Atomic = append(t.Atomic, in)
			}
		})
	}
	for _, f := range p.SrcFuncs() {
		if f.Name() == "init" && f.Parent() == nil && f.Signature.Recv() == nil {
			continue // package initialiser
		}
		allInstrs(f, func(in ssa.Instruction) {
			st, ok := in.(*ssa.Store)
			if !ok {
				return
			}
			obj := addrObject(st.Addr)
			if obj == nil || m[obj] == nil {
				return
			}
			if fa, isFA := st.Addr.(*ssa.FieldAddr); isFA {
				if al, isAlloc := fa.X.(*ssa.Alloc); isAlloc && (al.Comment == "complit" || strings.HasPrefix(al.Comment, "new")) {
					return // the object is being built
				}
			}
			m[obj].Plain = append(m[obj].Plain, st)
		})
	}
	atomicTargetsCache[p] = m
	return m
}

// atomicWrites: every write to the selected atomically accessed objects is atomic.
func atomicWrites(r *Report, rule string, sel func(obj types.Object) bool, min int) {
	p := r.P
	var list []*atomicTarget
	for _, t := range atomicTargets(p) {
		if sel(t.Obj) {
			list = append(list, t)
		}
	}
	sort.Slice(list, func(i, j int) bool { return list[i].Obj.Pos() < list[j].Obj.Pos() })
	for _, t := range list {
		name := t.Obj.Name()
		if fv, ok := t.Obj.(*types.Var); ok && fv.IsField() {
			name = "field " + name
		}
		pos := token.NoPos
		msg := ""
		if len(t.Plain) > 0 {
			st := t.Plain[0]
			pos = st.Pos()
			if pos == token.NoPos {
				pos = lastPosIn(st.Block())
			}
			r.Fn(st.Parent())
			msg = fmt.Sprintf("%s is written plainly in %s although it is shared through sync/atomic (%d atomic accesses, e.g. %s): a plain read-modify-write running concurrently with another update loses one of them, and a plain store is not ordered with the atomic loads of the goroutines that poll it", name, fname(st.Parent()), len(t.Atomic), p.Fset.Position(t.Atomic[0].Pos()))
		} else if len(t.Atomic) > 0 {
			pos = t.Atomic[0].Pos()
		}
		r.Check(len(t.Plain) == 0, rule, fmt.Sprintf("atomic-writes/%s", strings.TrimPrefix(name, "field ")), pos, fmt.Sprintf("every write to %s is atomic (%d atomic accesses)", name, len(t.Atomic)), msg)
	}
	r.Sentinel(rule+".atomic-objects", len(list), min)
}

func objNamed(pkgRel string, names ...string) func(obj types.Object) bool {
	return func(obj types.Object) bool {
		if obj.Pkg() == nil || obj.Pkg().Path() != modPath+"/"+pkgRel {
			return false
		}
		for _, n := range names {
			if obj.Name() == n {
				return true
			}
		}
		return false
	}
}
