package main

import (
	"fmt"
	"go/token"
	"go/types"

	"golang.org/x/tools/go/ssa"
)

func init() {
	register(&PropSpec{
		ID: "C16",
		Explanation: "Static decision of the structural conditions for upload and choking discipline: " +
			"(R1) Peer.amUnchoking is stored only in unchoke, each store next to the matching ±1 of numUnchoking, after a successful write of Unchoke/Choke, and in a branch where the flag provably has the opposite value (the relational guard `want == (flag != 0)` is read with the same SSA value as the branch); the only other modification of the counter is the −1 in peer.Run's first deferred function under flag != 0, which dominates every return; " +
			"(R2) a Piece is written only under amUnchoking != 0, after the served entry was taken off the queue, with a buffer ReadAt filled completely (C01.R7), at an offset computed in 64-bit arithmetic from the fields of that entry; requests are queued only under Info != nil and amUnchoking != 0; choking rejects and clears the queue; a Cancel removes the entry before the reject; " +
			"(R3) every append to the per-peer upload queue happens with len < reqQ established on all incoming paths; (R4) the requested length is bounded before it sizes a buffer (C05.R2's taint sink re-evaluated for Requested.Length); (R5) a request that cannot be served is answered only with a RejectRequest carrying that request's own three fields.",
		Rules:       []string{"R1 flag and counter move together (E-who + E-dom)", "R2 data only to unchoked peers, only verified bytes, served once (E-dom)", "R3 upload queue bounded (E-int on len)", "R4 request length bounded before sizing a buffer (shared taint)", "R5 unserved requests rejected with their own fields (def-use)"},
		NotDecided:  []string{"equality of the counter with the number of unchoked peers over whole histories", "the rotation policy of maybeUnchoke (at most five) — a bound on a runtime count", "rate limiting (rate.Estimator arithmetic)"},
		Assumptions: []string{"atomic Store/Add semantics", "peer.Run's goroutine is the only writer of peer state (C09.R1-style confinement is not re-derived here)"},
		Run:         runC16,
	})
}

func runC16(r *Report) {
	p := r.P
	am := p.Field("peer", "Peer", "amUnchoking")
	req := p.Field("peer", "Peer", "requested")
	unchoke := p.Func("peer", "unchoke")
	run := p.Func("peer", "Run")
	su := p.Func("peer", "scheduleUpload")
	hm := p.Func("peer", "handleMessage")
	if !r.Anchor("R1", "peer.Peer.amUnchoking", am != nil) || !r.Anchor("R1", "peer.Peer.requested", req != nil) || !r.Anchor("R1", "peer.unchoke", unchoke != nil) ||
		!r.Anchor("R1", "peer.Run", run != nil) || !r.Anchor("R2", "peer.scheduleUpload", su != nil) || !r.Anchor("R2", "peer.handleMessage", hm != nil) {
		return
	}
	numUn := p.SSAPkg("peer").Var("numUnchoking")
	if !r.Anchor("R1", "peer.numUnchoking", numUn != nil) {
		return
	}
	// ---------------- R1
	isAmLoadNonZero := func(v ssa.Value) (bool, bool) { // (matches, polarity: true means "flag != 0")
		bo, ok := v.(*ssa.BinOp)
		if !ok {
			return false, false
		}
		k, okk := constInt(bo.Y)
		if !okk || k != 0 {
			return false, false
		}
		fv, _ := loadedField(bo.X)
		if fv != am {
			return false, false
		}
		switch bo.Op {
		case token.NEQ, token.GTR:
			return true, true
		case token.EQL:
			return true, false
		}
		return false, false
	}
	// flagKnown: in block b the flag is known to be non-zero (want=true) / zero (want=false)
	flagKnown := func(b *ssa.BasicBlock, want bool) bool {
		gs := guardsOf(b)
		for _, g := range gs {
			g = g.norm()
			if m, pol := isAmLoadNonZero(g.Cond); m && (pol == g.Pol) == want {
				return true
			}
		}
		// relational: guard (X == (flag != 0)) false  and  guard X == x   =>  (flag != 0) == !x
		for _, g := range gs {
			g = g.norm()
			bo, ok := g.Cond.(*ssa.BinOp)
			if !ok || (bo.Op != token.EQL && bo.Op != token.NEQ) {
				continue
			}
			var X ssa.Value
			var polB bool
			if m, pol := isAmLoadNonZero(bo.Y); m {
				X, polB = bo.X, pol
			} else if m, pol := isAmLoadNonZero(bo.X); m {
				X, polB = bo.Y, pol
			} else {
				continue
			}
			equal := (bo.Op == token.EQL) == g.Pol // X == B holds?
			for _, g2 := range gs {
				g2 = g2.norm()
				if g2.Cond != X {
					continue
				}
				x := g2.Pol
				// B == x if equal, else B == !x ; B means (flag != 0) when polB, else (flag == 0)
				bval := x
				if !equal {
					bval = !x
				}
				nonZero := bval
				if !polB {
					nonZero = !bval
				}
				if nonZero == want {
					return true
				}
			}
		}
		return false
	}
	// flagKnownIP: known in the block, or — inside a private helper of unchoke (choke(peer)) — at every call of it
	var flagKnownIP func(in ssa.Instruction, want bool, depth int) bool
	flagKnownIP = func(in ssa.Instruction, want bool, depth int) bool {
		if flagKnown(in.Block(), want) {
			return true
		}
		f := in.Parent()
		if depth > 2 || f == unchoke || !p.inUnitOf(f, unchoke) {
			return false
		}
		calls, escapes := p.callSitesOf(f)
		if len(escapes) > 0 || len(calls) == 0 {
			return false
		}
		for _, cs := range calls {
			ci, ok := cs.(ssa.Instruction)
			if ok && callContradicts(cs, in) {
				continue
			}
			if !ok || !flagKnownIP(ci, want, depth+1) {
				return false
			}
		}
		return true
	}
	// counter updates: atomic.AddInt32(&numUnchoking, k), or a call of a private wrapper that passes its parameter on as
	// the delta (addNumUnchoking(delta))
	counterWrapper := map[*ssa.Function]int{}
	for _, f := range p.SrcFuncs() {
		if relPkg(f) != "peer" || f.Parent() != nil {
			continue
		}
		allInstrs(f, func(in ssa.Instruction) {
			cc, ok := in.(*ssa.Call)
			if !ok || !isStdCall(cc, "sync/atomic", "", "AddInt32") || cc.Call.Args[0] != ssa.Value(numUn) {
				return
			}
			for k, prm := range f.Params {
				if stripIntConv(cc.Call.Args[1]) == ssa.Value(prm) {
					counterWrapper[f] = k
				}
			}
		})
	}
	counterDelta := func(in ssa.Instruction) (int64, bool) {
		cc, ok := in.(*ssa.Call)
		if !ok {
			return 0, false
		}
		if isStdCall(cc, "sync/atomic", "", "AddInt32") && cc.Call.Args[0] == ssa.Value(numUn) {
			if _, isW := counterWrapper[cc.Parent()]; isW {
				return 0, false // the wrapper's own update: judged at its calls
			}
			d, _ := constInt(cc.Call.Args[1])
			return d, true
		}
		if h := cc.Call.StaticCallee(); h != nil {
			if k, isW := counterWrapper[h]; isW && k < len(cc.Call.Args) {
				d, _ := constInt(cc.Call.Args[k])
				return d, true
			}
		}
		return 0, false
	}
	nStores := 0
	for _, acc := range p.fieldAccesses(am) {
		fa, ok := acc.Instr.(*ssa.FieldAddr)
		if !ok {
			continue
		}
		for _, ref := range *fa.Referrers() {
			if st, isSt := ref.(*ssa.Store); isSt && st.Addr == ssa.Value(fa) {
				if al, isAl := fa.X.(*ssa.Alloc); isAl && al.Comment == "complit" {
					continue
				}
				nStores++
				r.Fail("R1", "amUnchoking/plain-store/"+fname(acc.Fn), st.Pos(), "Peer.amUnchoking is stored directly in %s", fname(acc.Fn))
			}
			c, isCall := ref.(*ssa.Call)
			if !isCall || !isStdCall(c, "sync/atomic", "", "StoreUint32") {
				continue
			}
			nStores++
			r.Fn(acc.Fn)
			v, _ := constInt(c.Call.Args[1])
			key := fmt.Sprintf("%s/amUnchoking=%d", fname(acc.Fn), v)
			if acc.Fn != unchoke && !(relPkg(acc.Fn) == "peer" && p.inUnitOf(acc.Fn, unchoke)) {
				r.Fail("R1", key, c.Pos(), "Peer.amUnchoking is stored in %s, outside unchoke: the flag can change without the counter", fname(acc.Fn))
				continue
			}
			// matching counter update in the same block
			delta := int64(0)
			for _, in := range c.Block().Instrs {
				if d, ok := counterDelta(in); ok {
					delta += d
				}
			}
			want := int64(1)
			if v == 0 {
				want = -1
			}
			if delta != want {
				r.Fail("R1", key, c.Pos(), "the store amUnchoking=%d is not accompanied, in the same straight-line block, by numUnchoking%+d (found %+d): the counter drifts from the flags", v, want, delta)
				continue
			}
			// after a successful write of the matching message
			msg := "protocol.Unchoke"
			if v == 0 {
				msg = "protocol.Choke"
			}
			// (in this function, or — for a private helper of unchoke such as setUnchoking(peer, on) — at every call
			// of it that can take this branch)
			wrote := p.guardedIP(c, func(g Guard) bool {
				bo, ok := g.Cond.(*ssa.BinOp)
				if !ok || !isNilConst(bo.Y) || !((bo.Op == token.EQL && g.Pol) || (bo.Op == token.NEQ && !g.Pol)) {
					return false
				}
				if wc, ok := bo.X.(*ssa.Call); ok && isCallNamed(wc, "peer", "write") {
					if sl := litOf(wc.Call.Args[1]); sl != nil && sl.Type == msg {
						return true
					}
				}
				return false
			}, 0)
			if !wrote {
				r.Fail("R1", key, c.Pos(), "the store amUnchoking=%d is not dominated by a successful write of %s: the flag says one thing and the peer was told another", v, msg)
				continue
			}
			// the flag provably had the opposite value
			if !flagKnownIP(c, v == 0, 0) {
				r.Fail("R1", key, c.Pos(), "the flag is set to %d (and the counter changed by %+d) in a branch where it is not known to be %s: a redundant or stale (un)choke decision moves the counter for a peer that never counted — e.g. the `nothing to do` test is made on a value that is changed afterwards", v, want, map[bool]string{true: "non-zero", false: "zero"}[v == 0])
				continue
			}
			r.Ok("R1", key, c.Pos(), "flag and counter move together, after a successful write of %s, in a branch where the flag had the opposite value", msg)
		}
	}
	r.Sentinel("R1", nStores, 2)
	// other modifications of the counter
	for _, f := range p.SrcFuncs() {
		if relPkg(f) != "peer" || f == unchoke || p.inUnitOf(f, unchoke) {
			continue
		}
		allInstrs(f, func(in ssa.Instruction) {
			d, isDelta := counterDelta(in)
			if !isDelta {
				return
			}
			cc := in.(*ssa.Call)
			r.Fn(f)
			key := "numUnchoking-modified/" + fname(f)
			isRunDefer := false
			var theDefer *ssa.Defer
			allInstrs(run, func(i2 ssa.Instruction) {
				if dd, ok := i2.(*ssa.Defer); ok {
					// the deferred function itself, or a private helper it calls (releaseUnchoking(peer))
					if df := deferredFunc(dd); df != nil && (df == f || p.inUnitOf(f, df)) {
						isRunDefer = true
						theDefer = dd
					}
				}
			})
			if !isRunDefer || d != -1 {
				r.Fail("R1", key, cc.Pos(), "numUnchoking is modified in %s (by %+d): only unchoke and peer.Run's exit defer may change it", fname(f), d)
				return
			}
			under := p.guardedIP(cc, func(g Guard) bool {
				m, pol := isAmLoadNonZero(g.Cond)
				return m && pol == g.Pol
			}, 0)
			dom, _ := deferDominatesReturns(theDefer)
			r.Check(under && dom, "R1", key, cc.Pos(), "the exit defer releases the count only when the peer was unchoked, and is registered before every return", "peer.Run's exit decrement of numUnchoking is not under amUnchoking != 0, or its defer does not dominate every return")
			// … and on every path through the deferred function: no earlier return of that function (the event flush
			// giving up when the torrent is gone, say) may skip the release while the flag is set
			zeroEdge := func(cond ssa.Value, pol bool) bool {
				m, nz := isAmLoadNonZero(cond)
				return m && nz != pol
			}
			isRet := func(i ssa.Instruction) bool { _, ok := i.(*ssa.Return); return ok }
			df := deferredFunc(theDefer)
			cur := f
			var via ssa.Instruction = cc
			every := true
			why := ""
			for depth := 0; depth < 4; depth++ {
				target := via
				miss, reached := pathsMissingEntry(cur, isRet, nil, []edgeReq{{Name: "release", Match: zeroEdge, Instr: func(i ssa.Instruction) bool { return i == target }}})
				if reached == 0 || len(miss) > 0 {
					every = false
					why = fmt.Sprintf("a path through %s returns without reaching it", fname(cur))
					break
				}
				if cur == df {
					break
				}
				calls, esc := p.callSitesOf(cur)
				if len(esc) > 0 || len(calls) != 1 {
					every = false
					why = fmt.Sprintf("%s is not called from exactly one place", fname(cur))
					break
				}
				ci, ok := calls[0].(ssa.Instruction)
				if _, isDefer := calls[0].(*ssa.Defer); !ok || isDefer {
					if calls[0].Parent() == run {
						break // the helper is itself the deferred function
					}
					every = false
					why = "the release is reached through a construct the rule does not follow"
					break
				}
				via, cur = ci, ci.Parent()
			}
			r.Check(every, "R1", key+"/on-every-exit-path", cc.Pos(), "every path through the exit defer releases the count when the flag is set", "peer.Run's exit decrement of numUnchoking can be skipped while amUnchoking != 0 ("+why+"): the global count of unchoked peers stays too high for ever and starves the other peers of unchoke slots")
		})
	}
	// ---------------- R2
	r.Fn(su)
	_ = p
	var pieceWrite *ssa.Call
	var pieceLit *structLit
	var suUnit []*ssa.Function
	for _, f := range p.SrcFuncs() {
		// scheduleUpload or a private helper factored out of it (uploadHead)
		if relPkg(f) == "peer" && f.Parent() == nil && (f == su || p.inUnitOf(f, su)) {
			suUnit = append(suUnit, f)
		}
	}
	for _, f := range suUnit {
		allInstrs(f, func(in ssa.Instruction) {
			c, ok := in.(*ssa.Call)
			if !ok || !isCallNamed(c, "peer", "write") {
				return
			}
			if sl := litOf(c.Call.Args[1]); sl != nil && sl.Type == "protocol.Piece" {
				pieceWrite, pieceLit = c, sl
				r.Fn(f)
			}
		})
	}
	if pieceWrite == nil {
		r.Fail("R2", "scheduleUpload/write(Piece)", su.Pos(), "scheduleUpload no longer writes a Piece message the rule can identify")
	} else {
		under := p.guardedIP(pieceWrite, func(g Guard) bool {
			m, pol := isAmLoadNonZero(g.Cond)
			return m && pol == g.Pol
		}, 0)
		r.Check(under, "R2", "scheduleUpload/Piece-only-when-unchoking", pieceWrite.Pos(), "data is sent only under amUnchoking != 0", "a Piece is written on a path not dominated by amUnchoking != 0: data is sent to a choked peer")
		// the served entry was removed before the write: a store requested = requested[1:] dominates it
		popped := false
		allInstrs(pieceWrite.Parent(), func(in ssa.Instruction) {
			if st, ok := isStoreToField(in, req); ok && instrDominates(st, pieceWrite) {
				if sl, ok := st.Val.(*ssa.Slice); ok && sl.Low != nil {
					if k, okk := constInt(sl.Low); okk && k == 1 {
						popped = true
					}
				}
			}
		})
		r.Check(popped, "R2", "scheduleUpload/served-entry-popped-first", pieceWrite.Pos(), "the request is taken off the queue before it is answered (served at most once)", "the served request is not removed from peer.requested before the Piece is written: it can be answered twice")
		// Index/Begin of the Piece are the entry's own
		idx, beg := pieceLit.Fields["Index"], pieceLit.Fields["Begin"]
		fi, bi := loadedFieldAnyName(idx), loadedFieldAnyName(beg)
		r.Check(fi == "Index" && bi == "Begin", "R2", "scheduleUpload/Piece-fields-from-request", pieceWrite.Pos(), "the Piece carries the request's own index and begin", "the Piece message's Index/Begin are not the served request's Index/Begin")
	}
	// ReadAt offset in 64-bit arithmetic from the entry's fields
	uploadOffset64(r, "R2")
	// queueing: appends to peer.requested
	r.Fn(hm)
	nApp := 0
	var peerFns []*ssa.Function
	for _, f := range p.SrcFuncs() {
		// handleMessage, scheduleUpload, or a helper of package peer the queueing was factored into (enqueueRequested)
		if relPkg(f) == "peer" {
			peerFns = append(peerFns, f)
		}
	}
	for _, f := range peerFns {
		allInstrs(f, func(in ssa.Instruction) {
			st, ok := isStoreToField(in, req)
			if !ok {
				return
			}
			c, ok := st.Val.(*ssa.Call)
			if !ok {
				return
			}
			bi, ok := c.Call.Value.(*ssa.Builtin)
			if !ok || bi.Name() != "append" {
				return
			}
			// append(peer.requested, X) grows the queue; append([]Requested{r}, peer.requested...) puts one back
			first := c.Call.Args[0]
			if fv, _ := loadedField(first); fv != req {
				// re-queue of the entry just popped (congestion): net size unchanged
				r.Ok("R3", fname(f)+"/requeue", st.Pos(), "the entry just taken off the queue is put back (size unchanged)")
				return
			}
			nApp++
			key := fmt.Sprintf("%s/append(requested)", fname(f))
			// R2: only when metadata known and unchoking
			underAm := p.guardedIP(st, func(g Guard) bool {
				m, pol := isAmLoadNonZero(g.Cond)
				return m && pol == g.Pol
			}, 0)
			r.Check(underAm, "R2", key+"/only-when-unchoking", st.Pos(), "requests are queued only while unchoking", "a request is queued on a path not dominated by amUnchoking != 0")
			// R3: len < reqQ on every incoming path: explore backwards from the append; every path must pass either the
			// false edge of `len(requested) >= reqQ` or a store that shortens the queue (requested[1:])
			bounded := queueBoundedBefore(st, req)
			r.Check(bounded, "R3", key+"/len<reqQ", st.Pos(), "the queue is shorter than reqQ on every path that appends to it",
				"a path reaches the append to peer.requested with len >= reqQ (after a failed head-drop the new request is queued anyway): the per-peer upload queue is unbounded while the peer does not read")
		})
	}
	r.Sentinel("R3", nApp, 1)
	// choking clears the queue; cancel removes before reject
	r.Fn(unchoke)
	cleared := false
	for _, f := range p.SrcFuncs() {
		// unchoke or a private helper of it (choke)
		if relPkg(f) != "peer" || !(f == unchoke || p.inUnitOf(f, unchoke)) {
			continue
		}
		allInstrs(f, func(in ssa.Instruction) {
			if st, ok := isStoreToField(in, req); ok && isNilConst(st.Val) {
				cleared = true
			}
		})
	}
	r.Check(cleared, "R2", "unchoke/choke-clears-queue", unchoke.Pos(), "choking discards the queued requests", "choking no longer clears peer.requested: requests that were choked away are served after the next unchoke")
	// … on every path: once the flag says "choking", no return is reached with the queue still in place (a reject that
	// cannot be written — ErrCongested — must not leave the choked-away requests to be served after the next unchoke)
	{
		isRet := func(i ssa.Instruction) bool { _, ok := i.(*ssa.Return); return ok }
		isClear := func(i ssa.Instruction) bool {
			st, ok := isStoreToField(i, req)
			return ok && isNilConst(st.Val)
		}
		alwaysClears := map[*ssa.Function]int{}
		var clears func(i ssa.Instruction) bool
		clears = func(i ssa.Instruction) bool {
			if isClear(i) {
				return true
			}
			c, ok := i.(*ssa.Call)
			if !ok {
				return false
			}
			h := c.Call.StaticCallee()
			if h == nil || h.Blocks == nil || relPkg(h) != "peer" || !(p.inUnitOf(h, unchoke)) {
				return false
			}
			switch alwaysClears[h] {
			case 1:
				return true
			case 2, 3:
				return false
			}
			alwaysClears[h] = 3
			miss, reached := pathsMissingEntry(h, isRet, nil, []edgeReq{{Name: "clear", Instr: clears}})
			if reached > 0 && len(miss) == 0 {
				alwaysClears[h] = 1
				return true
			}
			alwaysClears[h] = 2
			return false
		}
		var clearedAfter func(start ssa.Instruction, depth int) (bool, string)
		clearedAfter = func(start ssa.Instruction, depth int) (bool, string) {
			miss, _ := pathsMissing(start, -1, isRet, nil, []edgeReq{{Name: "clear", Instr: clears}})
			if len(miss) == 0 {
				return true, ""
			}
			f := start.Parent()
			if f == unchoke || depth > 2 || !p.inUnitOf(f, unchoke) {
				return false, fname(f)
			}
			calls, esc := p.callSitesOf(f)
			if len(esc) > 0 || len(calls) == 0 {
				return false, fname(f)
			}
			for _, cs := range calls {
				ci, ok := cs.(ssa.Instruction)
				if !ok {
					return false, fname(f)
				}
				if callContradicts(cs, start) {
					continue
				}
				if ok2, where := clearedAfter(ci, depth+1); !ok2 {
					return false, where
				}
			}
			return true, ""
		}
		nZero := 0
		for _, acc := range p.fieldAccesses(am) {
			fa, ok := acc.Instr.(*ssa.FieldAddr)
			if !ok {
				continue
			}
			for _, ref := range *fa.Referrers() {
				c, isCall := ref.(*ssa.Call)
				if !isCall || !isStdCall(c, "sync/atomic", "", "StoreUint32") {
					continue
				}
				if v, okv := constInt(c.Call.Args[1]); !okv || v != 0 {
					continue
				}
				nZero++
				okc, where := clearedAfter(c, 0)
				r.Check(okc, "R2", fname(acc.Fn)+"/choke-clears-queue-on-every-path", c.Pos(), "after the flag is cleared every path to a return has emptied the queue",
					"after amUnchoking is set to 0 a path through "+where+" returns with peer.requested still in place (an error return inside the reject loop): a caller that ignores the error — the NotInterested handler does — keeps a peer whose choked-away requests are served after the next unchoke")
			}
		}
		r.Sentinel("R2.choke-paths", nZero, 1)
	}
	// ---------------- R4 (shared taint)
	{
		t := newTaint(TaintCfg{P: p, Scope: c05Scope(), IsSource: wireSource(p), Limit: 1 << 27})
		t.propagate()
		gb := p.Func("protocol", "GetBuffer")
		if r.Anchor("R4", "protocol.GetBuffer", gb != nil) {
			n := 0
			var gbCalls []ssa.CallInstruction
			for _, f := range p.SrcFuncs() {
				// every buffer the upload path sizes: scheduleUpload, or a helper factored out of it
				if relPkg(f) == "peer" {
					for _, ci := range callsIn(f) {
						if ci.Common().StaticCallee() == gb {
							gbCalls = append(gbCalls, ci)
						}
					}
				}
			}
			for _, ci := range gbCalls {
				n++
				r.Fn(ci.Parent())
				arg := ci.Common().Args[0]
				in := ci.(ssa.Instruction)
				ok, why := t.boundedAt(arg, in.Block(), 0)
				if ok {
					r.Ok("R4", "scheduleUpload/GetBuffer(length)", ci.Pos(), "the requested length is bounded before it sizes the buffer (%s)", why)
				} else {
					o := t.of(arg)
					r.Fail("R4", "scheduleUpload/GetBuffer(length)", ci.Pos(), "the buffer for an upload is sized by a length the remote peer chose without bound: %s", o.chain(p))
				}
			}
			r.Sentinel("R4", n, 1)
		}
	}
	// ---------------- R5
	n5 := 0
	var suCalls []ssa.CallInstruction
	for _, f := range suUnit {
		suCalls = append(suCalls, callsIn(f)...)
	}
	for _, ci := range suCalls {
		c, ok := ci.(*ssa.Call)
		if !ok || !isCallNamed(c, "peer", "reject") {
			continue
		}
		n5++
		a := c.Call.Args // peer, index, begin, length
		names := []string{loadedFieldAnyName(a[1]), loadedFieldAnyName(a[2]), loadedFieldAnyName(a[3])}
		sameBaseAll := sameFieldBase(a[1], a[2]) && sameFieldBase(a[2], a[3])
		r.Check(names[0] == "Index" && names[1] == "Begin" && names[2] == "Length" && sameBaseAll, "R5", "scheduleUpload/reject(r.Index,r.Begin,r.Length)", c.Pos(), "an unservable request is rejected with its own three fields", "the RejectRequest sent for an unservable request does not carry that request's own Index, Begin and Length")
	}
	r.Sentinel("R5", n5, 1)
	// the short-read edge leads to reject and not to a Piece: C01.R7 (re-evaluated)
	// … and the bytes served are copied out of a complete piece while the store's lock is held (C01.R2 re-evaluated):
	// a copy made after the lock is released can return the contents of a buffer that eviction freed or reused
	if c := newPieceCtx(r, "R2"); c.ok {
		c.r7("R2")
		c.r2("R2")
	}
	atomicWrites(r, "R1", objNamed("peer", "numUnchoking", "amUnchoking", "interested", "unchoked"), 3)
	// … and the buffer an upload's payload lives in goes back to the pool once
	bufferOnce(r, "R6")
	bufferUseAfterGiveBack(r, "R6")
	_ = types.Typ
}

func loadedFieldAnyName(v ssa.Value) string {
	if v == nil {
		return ""
	}
	f, _ := loadedFieldAny(stripIntConv(v))
	if f == nil {
		return ""
	}
	return f.Name()
}

func sameFieldBase(a, b ssa.Value) bool {
	_, ba := loadedFieldAny(a)
	_, bb := loadedFieldAny(b)
	return ba != nil && ba == bb
}

// queueBoundedBefore: exploring backwards from the append, every path passes the false edge of `len(q) >= N`
// (true edge of `len(q) < N`) or a store q = q[1:].
func queueBoundedBefore(st *ssa.Store, q *types.Var) bool {
	seen := map[*ssa.BasicBlock]bool{}
	isBoundEdge := func(pred, to *ssa.BasicBlock) bool {
		if len(pred.Instrs) == 0 {
			return false
		}
		iff, ok := pred.Instrs[len(pred.Instrs)-1].(*ssa.If)
		if !ok || pred.Succs[0] == pred.Succs[1] {
			return false
		}
		g := Guard{Cond: iff.Cond, Pol: pred.Succs[0] == to}.norm()
		bo, ok := g.Cond.(*ssa.BinOp)
		if !ok {
			return false
		}
		c, ok := bo.X.(*ssa.Call)
		if !ok {
			return false
		}
		bi, ok := c.Call.Value.(*ssa.Builtin)
		if !ok || bi.Name() != "len" {
			return false
		}
		if fv, _ := loadedField(c.Call.Args[0]); fv != q {
			return false
		}
		if _, isConst := bo.Y.(*ssa.Const); !isConst {
			// a configurable limit: bounded above on every path (limit := uploadQueueLimit(), clamped to reqQ)
			if iv := (&IntEnv{}).At(bo.Y, pred); iv.Hi > 1<<16 {
				return false
			}
		}
		return (bo.Op == token.GEQ && !g.Pol) || (bo.Op == token.LSS && g.Pol)
	}
	var walk func(b *ssa.BasicBlock, upto int) bool
	walk = func(b *ssa.BasicBlock, upto int) bool {
		for i := upto - 1; i >= 0; i-- {
			if s2, ok := isStoreToField(b.Instrs[i], q); ok {
				if sl, ok := s2.Val.(*ssa.Slice); ok && sl.Low != nil {
					if k, okk := constInt(sl.Low); okk && k >= 1 {
						return true
					}
				}
			}
		}
		if len(b.Preds) == 0 {
			return false
		}
		for _, pr := range b.Preds {
			if isBoundEdge(pr, b) {
				continue
			}
			if seen[pr] {
				continue
			}
			seen[pr] = true
			if !walk(pr, len(pr.Instrs)) {
				return false
			}
		}
		return true
	}
	return walk(st.Block(), instrIndex(st))
}

// uploadOffset64: wherever package peer reads piece bytes for a remote peer (scheduleUpload, or a helper factored out
// of it), the byte offset handed to Pieces.ReadAt is index*pieceSize+begin of the served request, computed in 64-bit
// arithmetic: a 32-bit product wraps beyond 4 GiB and the peer is sent verified bytes of another range
// (shared by C16.R2 and C01.R7: "returned at the offset it occupies").
func uploadOffset64(r *Report, rule string) {
	p := r.P
	readAt := p.Func("tor/piece", "Pieces.ReadAt")
	if !r.Anchor(rule, "piece.(*Pieces).ReadAt", readAt != nil) {
		return
	}
	calls, _ := p.callSitesOf(readAt)
	n := 0
	for _, ci := range calls {
		if relPkg(ci.Parent()) != "peer" {
			continue
		}
		n++
		r.Fn(ci.Parent())
		off := ci.Common().Args[2]
		narrow := ""
		var walk func(v ssa.Value, d int)
		walk = func(v ssa.Value, d int) {
			if d > 8 || narrow != "" {
				return
			}
			switch x := v.(type) {
			case *ssa.BinOp:
				if (x.Op == token.MUL || x.Op == token.ADD || x.Op == token.SHL) && intBits(x.Type()) < 64 {
					narrow = exprStr(x)
					return
				}
				walk(x.X, d+1)
				walk(x.Y, d+1)
			case *ssa.Convert:
				walk(x.X, d+1)
			case *ssa.Phi:
				for _, e := range x.Edges {
					walk(e, d+1)
				}
			}
		}
		walk(off, 0)
		usesIdx := mentions(off, func(v ssa.Value) bool { return loadedFieldAnyName(v) == "Index" }, 0)
		usesBeg := mentions(off, func(v ssa.Value) bool { return loadedFieldAnyName(v) == "Begin" }, 0)
		r.Check(narrow == "" && usesIdx && usesBeg, rule, fname(ci.Parent())+"/ReadAt-offset-64bit", ci.Pos(), "the byte offset is index*pieceSize+begin computed in 64-bit arithmetic",
			"the byte offset passed to ReadAt is not computed from the request's Index and Begin in 64-bit arithmetic ("+narrow+" is evaluated in a 32-bit type and wraps beyond 4 GiB: the peer is sent the content of another range)")
	}
	r.Sentinel(rule+".upload-offset", n, 1)
}

// pieceSizeProducts64: a product with the piece size is a byte offset into the torrent, which exceeds 32 bits for
// torrents of 4 GiB and more: every integer multiplication one factor of which is Pieces.PieceSize() (or the
// pieceSize field), through conversions, is evaluated in a 64-bit type. `int64(index*PieceSize()+offset)` wraps
// before it is widened and maps the request to the wrong bytes of the wrong file.
// (shared by C14 — web-seed ranges — and C01/C16 — uploads.)
func pieceSizeProducts64(r *Report, rule string) {
	p := r.P
	ps := p.Func("tor/piece", "Pieces.PieceSize")
	psF := p.Field("tor/piece", "Pieces", "pieceSize")
	if !r.Anchor(rule, "piece.(*Pieces).PieceSize", ps != nil) {
		return
	}
	isPS := func(v ssa.Value) bool {
		for i := 0; i < 4; i++ {
			switch x := v.(type) {
			case *ssa.Convert:
				v = x.X
				continue
			case *ssa.ChangeType:
				v = x.X
				continue
			}
			break
		}
		if c, ok := v.(*ssa.Call); ok && c.Call.StaticCallee() == ps {
			return true
		}
		if fv, _ := loadedField(v); fv != nil && fv == psF {
			return true
		}
		return false
	}
	n := 0
	for _, f := range p.SrcFuncs() {
		switch relPkg(f) {
		case "tor", "peer", "tor/piece", "http", "fuse", "webseed":
		default:
			continue
		}
		allInstrs(f, func(in ssa.Instruction) {
			bo, ok := in.(*ssa.BinOp)
			if !ok || bo.Op != token.MUL || !isInteger(bo.Type()) {
				return
			}
			if !isPS(bo.X) && !isPS(bo.Y) {
				return
			}
			n++
			r.Fn(f)
			r.Check(intBits(bo.Type()) >= 64, rule, fname(f)+"/piece-size-product-64bit", bo.Pos(), "the product with the piece size is computed in 64 bits",
				"the byte offset "+exprStr(bo)+" is computed in a "+bo.Type().String()+": beyond 4 GiB it wraps (before any widening), and the range is mapped to the wrong bytes of the wrong file / the wrong piece")
		})
	}
	r.Sentinel(rule+".piece-size-products", n, 2)
}

// offsetsNotNarrowed: byte offsets and lengths in a torrent are int64 (a torrent can exceed 4 GiB); an int64 taken as
// it stands — a parameter, a field, a call result — is not converted to a type of 32 bits or fewer unless its range is
// known to fit: the reduction (off % pieceSize, off / pieceSize, a difference clipped by a guard) comes first.
// uint32(off) % pieceSize is right for every torrent under 4 GiB and for every power-of-two piece size, and wrong
// beyond: the reader is served verified bytes of another place.
func offsetsNotNarrowed(r *Report, rule string) {
	p := r.P
	env := &IntEnv{}
	n := 0
	raw := func(v ssa.Value) bool {
		switch x := v.(type) {
		case *ssa.Parameter:
			return true
		case *ssa.UnOp:
			if x.Op != token.MUL {
				return false
			}
			switch x.X.(type) {
			case *ssa.FieldAddr, *ssa.Alloc, *ssa.Global:
				return true
			}
		case *ssa.Field:
			return true
		}
		return false
	}
	sized32 := func(t types.Type) bool {
		b, ok := t.Underlying().(*types.Basic)
		if !ok {
			return false
		}
		switch b.Kind() {
		case types.Int8, types.Int16, types.Int32, types.Uint8, types.Uint16, types.Uint32:
			return true
		}
		return false
	}
	is64 := func(t types.Type) bool {
		b, ok := t.Underlying().(*types.Basic)
		return ok && (b.Kind() == types.Int64 || b.Kind() == types.Uint64)
	}
	for _, f := range p.SrcFuncs() {
		switch relPkg(f) {
		case "tor", "peer", "tor/piece", "http", "fuse", "webseed":
		default:
			continue
		}
		allInstrs(f, func(in ssa.Instruction) {
			cv, ok := in.(*ssa.Convert)
			if !ok || !sized32(cv.Type()) || !is64(cv.X.Type()) || !raw(cv.X) {
				return
			}
			n++
			r.Fn(f)
			iv := env.At(cv.X, cv.Block())
			tr := typeRange(cv.Type())
			good := iv.Lo >= tr.Lo && iv.Hi <= tr.Hi
			r.Check(good, rule, fmt.Sprintf("%s/%s(%s)-fits", fname(f), cv.Type().String(), exprStr(cv.X)), cv.Pos(), "the 64-bit quantity is known to fit the narrower type here ("+iv.String()+")",
				fmt.Sprintf("the 64-bit byte quantity %s is cut down to %s while it is only known to be in %s: for torrents of 4 GiB and more the high bits are lost before the value is reduced (off %% pieceSize, off / pieceSize), and the data served or stored belongs to another place", exprStr(cv.X), cv.Type().String(), iv))
		})
	}
	r.Sentinel(rule+".narrowings", n, 0)
	// … and the other way round: a product computed in 32 bits is not widened afterwards. int64(chunk*ChunkSize) has
	// already wrapped when the conversion sees it; the conversion belongs on the factors.
	nW := 0
	for _, f := range p.SrcFuncs() {
		switch relPkg(f) {
		case "tor", "peer", "tor/piece", "http", "fuse", "webseed":
		default:
			continue
		}
		allInstrs(f, func(in ssa.Instruction) {
			cv, ok := in.(*ssa.Convert)
			if !ok || !isInteger(cv.Type()) || intBits(cv.Type()) < 64 || !isInteger(cv.X.Type()) || !sized32(cv.X.Type()) {
				return
			}
			bo, isB := cv.X.(*ssa.BinOp)
			if !isB || bo.Op != token.MUL {
				return
			}
			if _, isK := bo.X.(*ssa.Const); isK {
				if _, isK2 := bo.Y.(*ssa.Const); isK2 {
					return
				}
			}
			nW++
			r.Fn(f)
			l, rr := env.At(bo.X, cv.Block()), env.At(bo.Y, cv.Block())
			tr := typeRange(bo.Type())
			hi := satMul(l.Hi, rr.Hi)
			good := l.Lo >= 0 && rr.Lo >= 0 && hi <= tr.Hi
			r.Check(good, rule, fmt.Sprintf("%s/%s(%s)-product-widened-first", fname(f), cv.Type().String(), exprStr(bo)), cv.Pos(), "the 32-bit product cannot wrap here",
				fmt.Sprintf("the product %s is computed in %s and only then converted to %s: for blocks at or beyond 4 GiB it has already wrapped (factors in %s and %s), and the length or offset derived from it belongs to another place of the torrent", exprStr(bo), bo.Type().String(), cv.Type().String(), l, rr))
		})
	}
	r.Sentinel(rule+".widenings", nW, 0)
}
