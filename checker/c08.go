package main

import (
	"fmt"
	"go/token"
	"go/types"
	"sort"
	"strings"

	"golang.org/x/tools/go/ssa"
)

func init() {
	register(&PropSpec{
		ID: "C08",
		Explanation: "Static decision of the structural conditions for 'encryption policy honoured, stream transparent': " +
			"(R1) in the MSE server every store that selects RC4 is dominated by 'client offered RC4' and AllowEncryption, every store that selects plaintext by 'client offered plaintext' and !ForceEncryption, and the reply is sent only with a non-zero selection; " +
			"(R2) the MSE client offers plaintext only under !ForceEncryption and RC4 only under AllowEncryption, and accepts a selection only under the same bits (nil-error returns of each switch case are guarded); " +
			"(R3) the encrypting wrapper is constructed exactly in the RC4 branches, with the ciphers of R4; " +
			"(R4) the key schedule read from both roles' code — labels, argument kinds and order of every hash(…) call, which cipher becomes enc/dec, the 1024-byte discard, S serialised as a fixed 96-byte big-endian integer — agrees with a table transcribed from the MSE specification and is mirrored between the roles; " +
			"(R5) a plaintext BitTorrent handshake is sent/accepted only on paths that tested both ForceCryptoHandshake and ForceEncryption false; " +
			"(R6) Conn.Write returns before encrypting when an error is latched, and latches every write error or short write before returning. For all 2^6 x 2^6 option pairs because the rules quantify over paths, not over option values sampled.",
		Rules: []string{"R1 server selection dominated by policy bits (E-dom)", "R2 client offer and acceptance (E-dom + E-nil)", "R3 wrapper iff RC4 mode", "R4 key schedule per spec and mirrored (sibling tables)",
			"R5 plaintext paths respect force (required-edge paths)", "R6 sticky write error (E-must)"},
		NotDecided:  []string{"keystream transparency for every pattern of write/read sizes (value property)", "Diffie-Hellman arithmetic", "tor.DialClient's fallback choice between handshakes (it can no longer select a forbidden mode because both handshake functions enforce the policy locally)"},
		Assumptions: []string{"crypto/rc4, crypto/sha1, math/big behave as documented", "the MSE table in the checker is transcribed correctly from the specification (keyA/keyB/req1/req2/req3, 1024-byte discard, 96-byte S)"},
		Run:         runC08,
	})
}

func optCond(name string) func(ssa.Value) bool { return fieldLoadCond("/crypto", "Options", name) }

// hasOptGuard: block b is dominated by Options.<name> == pol.
func hasOptGuard(b *ssa.BasicBlock, name string, pol bool) bool {
	c := optCond(name)
	for _, g := range guardsOf(b) {
		g = g.norm()
		if g.Pol == pol && c(g.Cond) {
			return true
		}
	}
	return false
}

// hasMaskGuard: dominated by (v & bit) != 0, where v is any integer value (the offered set).
func hasMaskGuard(b *ssa.BasicBlock, bit int64) bool {
	for _, g := range guardsOf(b) {
		g = g.norm()
		bo, ok := g.Cond.(*ssa.BinOp)
		if !ok {
			continue
		}
		z, okz := constInt(bo.Y)
		if !okz || z != 0 {
			continue
		}
		and, ok := bo.X.(*ssa.BinOp)
		if !ok || and.Op != token.AND {
			continue
		}
		k, okk := constInt(and.Y)
		if !okk || k != bit {
			continue
		}
		if (bo.Op == token.NEQ && g.Pol) || (bo.Op == token.EQL && !g.Pol) {
			return true
		}
	}
	return false
}

func runC08(r *Report) {
	p := r.P
	ch := p.Func("crypto", "ClientHandshake")
	sh := p.Func("crypto", "ServerHandshake")
	if !r.Anchor("R1", "crypto.ClientHandshake", ch != nil) || !r.Anchor("R1", "crypto.ServerHandshake", sh != nil) {
		return
	}
	r.Fn(ch)
	r.Fn(sh)
	c08R1(r, sh)
	c08Sticky(r)
	c08FlagsAtInit(r, "R7")
	c08R2(r, ch)
	c08R3(r, ch, sh)
	c08R4(r, ch, sh)
	c08R5(r)
	c08R6(r)
	c08ReadExact(r, "R6")
	c08Serialised(r, "R6")
	// the staging buffer is not given back to its pool while the write still uses it (shared with C16.R6)
	bufferUseAfterGiveBack(r, "R6")
}

// storesToByteIndex: stores of constants into slice element [idx] of a make([]byte, 4) slice.
type selStore struct {
	st  *ssa.Store
	val int64
	or  bool // x[idx] |= val
}

func selectionStores(f *ssa.Function) []selStore {
	var out []selStore
	allInstrs(f, func(in ssa.Instruction) {
		st, ok := in.(*ssa.Store)
		if !ok {
			return
		}
		ia, ok := st.Addr.(*ssa.IndexAddr)
		if !ok {
			return
		}
		if k, okk := constInt(ia.Index); !okk || k != 3 {
			return
		}
		if l, okl := madeLen(ia.X); !okl || l != 4 {
			return
		}
		if c, okc := constInt(st.Val); okc {
			out = append(out, selStore{st, c, false})
			return
		}
		if bo, okb := st.Val.(*ssa.BinOp); okb && bo.Op == token.OR {
			if c, okc := constInt(bo.Y); okc {
				out = append(out, selStore{st, c, true})
			}
		}
	})
	return out
}

func c08R1(r *Report, sh *ssa.Function) {
	n := 0
	sites := selectionSites(sh)
	for _, s := range sites {
		n++
		key := fmt.Sprintf("ServerHandshake/select=%d", s.val)
		switch s.val {
		case 2:
			ok := hasMaskIn(s.guards, 2) && hasOptIn(s.guards, "AllowEncryption", true)
			r.Check(ok, "R1", key, s.pos, "RC4 is selected only when offered and allowed", "the server selects RC4 on a path not dominated by (crypto_provide&2 != 0) and AllowEncryption: a mode is selected that the client did not offer or that the server's policy forbids")
		case 1:
			ok := hasMaskIn(s.guards, 1) && hasOptIn(s.guards, "ForceEncryption", false)
			r.Check(ok, "R1", key, s.pos, "plaintext is selected only when offered and not forced", "the server selects plaintext on a path not dominated by (crypto_provide&1 != 0) and !ForceEncryption: a server that forces encryption would continue in the clear")
		case -1:
			r.Undecided("R1", "ServerHandshake/select=?", s.pos, "the value written to crypto_select cannot be traced back to constants")
		default:
			r.Fail("R1", key, s.pos, "unknown crypto_select value %d", s.val)
		}
	}
	r.Sentinel("R1", n, 4)
	// the reply (conn.Write) is sent only with a non-zero selection
	var w *ssa.Call
	allInstrs(sh, func(in ssa.Instruction) {
		if c, ok := in.(*ssa.Call); ok && c.Call.IsInvoke() && c.Call.Method.Name() == "Write" {
			w = c
		}
	})
	if w == nil {
		r.Undecided("R1", "ServerHandshake/reply", sh.Pos(), "no reply write found")
		return
	}
	nz := false
	for _, g := range guardsOf(w.Block()) {
		g = g.norm()
		bo, ok := g.Cond.(*ssa.BinOp)
		if !ok {
			continue
		}
		if z, okz := constInt(bo.Y); okz && z == 0 {
			if ld, okl := bo.X.(*ssa.UnOp); okl && ld.Op == token.MUL {
				if ia, oki := ld.X.(*ssa.IndexAddr); oki {
					if k, okk := constInt(ia.Index); okk && k == 3 {
						if (bo.Op == token.EQL && !g.Pol) || (bo.Op == token.NEQ && g.Pol) {
							nz = true
						}
					}
				}
			}
		}
	}
	if !nz {
		// selected := choose(…); if selected == 0 { return err }; binary.BigEndian.PutUint32(cryptoSelect, selected)
		allInstrs(sh, func(in ssa.Instruction) {
			c, ok := in.(*ssa.Call)
			if !ok || calleeObj(c) == nil || calleeObj(c).Name() != "PutUint32" || calleeObj(c).Pkg() == nil || calleeObj(c).Pkg().Path() != "encoding/binary" {
				return
			}
			args := c.Call.Args
			if l, okl := madeLen(args[len(args)-2]); !okl || l != 4 {
				return
			}
			sel := stripIntConv(args[len(args)-1])
			for _, g := range guardsOf(w.Block()) {
				if op, x, y, okc := cmpFact(g); okc && op == token.NEQ {
					if k, okk := constInt(y); okk && k == 0 && stripIntConv(x) == sel {
						nz = true
					}
				}
			}
		})
	}
	if !nz {
		// no explicit test: then every path to the reply has made a selection (switch with a rejecting default)
		isSel := map[ssa.Instruction]bool{}
		for _, st := range sites {
			if st.val > 0 && !st.or {
				isSel[st.in] = true
			}
		}
		// a store whose traced values include "nothing" (0) is not a selection on every path: only constant stores count
		constSel := func(in ssa.Instruction) bool {
			st, ok := in.(*ssa.Store)
			if !ok || !isSel[in] {
				return false
			}
			k, okk := constInt(st.Val)
			return okk && k != 0
		}
		miss, reached := pathsMissingEntry(sh, func(in ssa.Instruction) bool { return in == ssa.Instruction(w) }, nil, []edgeReq{{Name: "selection", Instr: constSel}})
		nz = reached > 0 && len(miss) == 0
	}
	r.Check(nz, "R1", "ServerHandshake/reply-needs-selection", w.Pos(), "the server replies only after something was selected", "the server's reply is not dominated by crypto_select != 0")
}

func c08R2(r *Report, ch *ssa.Function) {
	n := 0
	nOffer := 0
	for _, s := range selectionSites(ch) {
		n++
		nOffer++
		key := fmt.Sprintf("ClientHandshake/provide|=%d", s.val)
		switch s.val {
		case 1:
			r.Check(hasOptIn(s.guards, "ForceEncryption", false), "R2", key, s.pos, "plaintext is offered only when encryption is not forced", "the client offers plaintext on a path not dominated by !ForceEncryption")
		case 2:
			r.Check(hasOptIn(s.guards, "AllowEncryption", true), "R2", key, s.pos, "RC4 is offered only when allowed", "the client offers RC4 on a path not dominated by AllowEncryption")
		case 3:
			r.Check(hasOptIn(s.guards, "ForceEncryption", false) && hasOptIn(s.guards, "AllowEncryption", true), "R2", key, s.pos, "both methods are offered only when both are permitted", "the client offers both methods on a path not dominated by !ForceEncryption and AllowEncryption")
		case -1:
			r.Undecided("R2", "ClientHandshake/provide=?", s.pos, "the value written to crypto_provide cannot be traced back to constants")
		default:
			r.Fail("R2", key, s.pos, "unknown crypto_provide bit %d", s.val)
		}
	}
	r.Sentinel("R2.offer", nOffer, 2)
	// acceptance: returns inside the switch on cryptoSelect
	ne := newNilEnv(r.P)
	nilReturnsExpand = expandBitGuards // a test of the offer's bits (provide&1 != 0) implies what setting the bit required
	defer func() { nilReturnsExpand = nil }()
	seenCase := map[int64]bool{}
	for _, ret := range returnsOf(ch) {
		// which case? dominated by cryptoSelect == k
		var k int64 = -1
		for _, g := range guardsOf(ret.Block()) {
			bo, ok := g.Cond.(*ssa.BinOp)
			if !ok || bo.Op != token.EQL || !g.Pol {
				continue
			}
			if c, okc := constInt(bo.Y); okc {
				if cl, okl := bo.X.(*ssa.Call); okl && isBEDecode(cl, 32) {
					k = c
				}
			}
		}
		if k < 0 {
			continue
		}
		resErr := ret.Results[len(ret.Results)-1]
		if ne.At(resErr, ret.Block()) == NonNil {
			continue
		}
		n++
		seenCase[k] = true
		key := fmt.Sprintf("ClientHandshake/accept-select=%d", k)
		var okG bool
		switch k {
		case 1:
			c := optCond("ForceEncryption")
			okG = nilReturnsGuarded(ne, ret, len(ret.Results)-1, func(g Guard) bool { return !g.Pol && c(g.Cond) })
			r.Check(okG, "R2", key, ret.Pos(), "a plaintext selection is accepted only when encryption is not forced", "the client can return success for crypto_select=1 on a path that did not test ForceEncryption false: a client that forces encryption continues in the clear")
		case 2:
			c := optCond("AllowEncryption")
			okG = nilReturnsGuarded(ne, ret, len(ret.Results)-1, func(g Guard) bool { return g.Pol && c(g.Cond) })
			r.Check(okG, "R2", key, ret.Pos(), "an RC4 selection is accepted only when allowed", "the client can return success for crypto_select=2 without AllowEncryption")
		default:
			r.Fail("R2", key, ret.Pos(), "the client can return success for crypto_select=%d", k)
		}
	}
	r.Check(seenCase[1] && seenCase[2], "R2", "ClientHandshake/both-cases", ch.Pos(), "both selection values are handled", "the client no longer handles both crypto_select values explicitly")
	// the bytes that arrived glued to the server's reply are payload: they are decrypted exactly when RC4 was selected
	{
		var decrypted func(v ssa.Value, d int) (bool, bool) // (decrypted, known)
		decrypted = func(v ssa.Value, d int) (bool, bool) {
			if d > 8 || v == nil {
				return false, false
			}
			switch x := v.(type) {
			case *ssa.Call:
				if h := x.Call.StaticCallee(); h != nil && h.Blocks != nil && relPkg(h) == "crypto" && !x.Call.IsInvoke() {
					for ai := range x.Call.Args {
						if ai < len(h.Params) && isByteSlice(h.Params[ai].Type()) && xorsParam(h, ai) {
							return true, true
						}
						if ai < len(h.Params) && variadicElems(x.Call.Args[ai]) != nil && xorsParam(h, ai) {
							return true, true
						}
					}
				}
				return false, true
			case *ssa.Slice:
				if al, ok := x.X.(*ssa.Alloc); ok {
					return decrypted(al, d+1)
				}
				return decrypted(x.X, d+1)
			case *ssa.MakeSlice, *ssa.Alloc:
				// a fresh buffer: what was copied into it
				res, known := false, false
				var holders []ssa.Value
				holders = append(holders, v)
				if al, ok := v.(*ssa.Alloc); ok {
					for _, ref := range *al.Referrers() {
						if sl, ok := ref.(*ssa.Slice); ok {
							holders = append(holders, sl)
						}
					}
				}
				for _, hv := range holders {
					for _, ref := range *hv.Referrers() {
						c, ok := ref.(*ssa.Call)
						if !ok {
							continue
						}
						if bi, okb := c.Call.Value.(*ssa.Builtin); okb && bi.Name() == "copy" && c.Call.Args[0] == hv {
							res, known = decrypted(c.Call.Args[1], d+1)
						}
					}
				}
				return res, known
			case *ssa.Phi:
				first := true
				var val bool
				for _, e := range x.Edges {
					b, k := decrypted(e, d+1)
					if !k {
						return false, false
					}
					if first {
						val, first = b, false
					} else if b != val {
						return false, false
					}
				}
				return val, !first
			case *ssa.Extract, *ssa.Parameter:
				return false, true // bytes as they came from the connection
			}
			return false, false
		}
		for _, ret := range returnsOf(ch) {
			var k int64 = -1
			for _, g := range guardsOf(ret.Block()) {
				bo, ok := g.Cond.(*ssa.BinOp)
				if !ok || bo.Op != token.EQL || !g.Pol {
					continue
				}
				if c, okc := constInt(bo.Y); okc {
					if cl, okl := stripIntConv(bo.X).(*ssa.Call); okl && isBEDecode(cl, 32) {
						k = c
					}
				}
			}
			if k != 1 && k != 2 {
				continue
			}
			if len(ret.Results) < 3 || ne.At(ret.Results[len(ret.Results)-1], ret.Block()) == NonNil {
				continue
			}
			var bufRes ssa.Value
			for _, res := range ret.Results {
				if isByteSlice(res.Type()) {
					bufRes = res
				}
			}
			if bufRes == nil {
				continue
			}
			dec, known := decrypted(bufRes, 0)
			key := fmt.Sprintf("ClientHandshake/surplus-decrypted-iff-rc4/select=%d", k)
			if !known {
				r.Info("R3", key, ret.Pos(), "the provenance of the returned surplus bytes is not understood")
				continue
			}
			r.Check(dec == (k == 2), "R3", key, ret.Pos(), map[bool]string{true: "surplus bytes are decrypted when RC4 was selected", false: "surplus bytes are passed on as they are when plaintext was selected"}[k == 2],
				map[bool]string{true: "with RC4 selected the bytes that arrived glued to the server's reply are returned without being decrypted", false: "with plaintext selected the bytes that arrived glued to the server's reply are run through the stream cipher: they reach the message layer garbled (only visible when the server's next bytes are coalesced with its reply)"}[k == 2])
		}
	}
	r.Sentinel("R2", n, 4)
}

// connLits: &crypto.Conn{…} constructions (Alloc of Conn with field stores).
type connLit struct {
	al     *ssa.Alloc
	fields map[string]ssa.Value
}

func connLits(f *ssa.Function) []connLit {
	var out []connLit
	allInstrs(f, func(in ssa.Instruction) {
		al, ok := in.(*ssa.Alloc)
		if !ok || !typeIs(al.Type(), modPath+"/crypto", "Conn") {
			return
		}
		cl := connLit{al: al, fields: map[string]ssa.Value{}}
		for _, ref := range *al.Referrers() {
			if fa, ok := ref.(*ssa.FieldAddr); ok {
				for _, r2 := range *fa.Referrers() {
					if st, ok := r2.(*ssa.Store); ok && st.Addr == ssa.Value(fa) {
						cl.fields[fieldVar(fa).Name()] = st.Val
					}
				}
			}
		}
		out = append(out, cl)
	})
	return out
}

func c08R3(r *Report, ch, sh *ssa.Function) {
	n := 0
	for _, f := range []*ssa.Function{ch, sh} {
		for _, cl := range connLits(f) {
			n++
			key := fmt.Sprintf("%s/Conn-literal", f.Name())
			// dominated by select == 2
			ok := false
			for _, g := range guardsOf(cl.al.Block()) {
				bo, isb := g.Cond.(*ssa.BinOp)
				if !isb || bo.Op != token.EQL || !g.Pol {
					continue
				}
				if c, okc := constInt(bo.Y); okc && c == 2 {
					ok = true
				}
			}
			r.Check(ok, "R3", key, cl.al.Pos(), "the encrypting wrapper is built only in the RC4 branch", "an encrypting Conn is constructed outside the crypto_select == 2 branch")
		}
		// the select==1 branch returns the raw connection: no Conn literal reachable there (covered above),
		// and the returned conn on that branch is the parameter
		for _, ret := range returnsOf(f) {
			is1 := false
			for _, g := range guardsOf(ret.Block()) {
				bo, isb := g.Cond.(*ssa.BinOp)
				if isb && bo.Op == token.EQL && g.Pol {
					if c, okc := constInt(bo.Y); okc && c == 1 {
						if _, isLoad := bo.X.(*ssa.UnOp); isLoad || isCallResult(bo.X) {
							is1 = true
						}
					}
				}
			}
			if !is1 {
				continue
			}
			n++
			key := fmt.Sprintf("%s/plaintext-branch-returns-raw-conn", f.Name())
			r.Check(derivesOnlyFrom(ret.Results[0], func(v ssa.Value) bool { return strip(v) == ssa.Value(f.Params[0]) }), "R3", key, ret.Pos(), "the plaintext branch returns the unwrapped connection", "the crypto_select == 1 branch does not return the raw connection")
		}
	}
	r.Sentinel("R3", n, 4)
}

func isCallResult(v ssa.Value) bool {
	_, ok := v.(*ssa.Call)
	return ok
}

// ---------- R4 key schedule ----------

type hashCall struct {
	Label string
	Args  []string // "S" or "SKEY"
	Call  *ssa.Call
}

// cipherCtor: a helper of package crypto that builds a cipher from hash(label, …) of its own parameters
// (newCipher(label string, sb, skey []byte) (*rc4.Cipher, error)): which parameter is the label, which parameters are
// hashed in which order, and whether it discards the first 1024 keystream bytes before handing the cipher out.
type cipherCtor struct {
	labelIdx int
	argIdx   []int
	discards bool
}

var cipherCtorMemo = map[*ssa.Function]*cipherCtor{}

func cipherCtorOf(h *ssa.Function) *cipherCtor {
	if c, ok := cipherCtorMemo[h]; ok {
		return c
	}
	cipherCtorMemo[h] = nil
	if h == nil || h.Blocks == nil || relPkg(h) != "crypto" {
		return nil
	}
	paramIdx := func(v ssa.Value) int {
		v = strip(v)
		if cv, ok := v.(*ssa.Convert); ok {
			v = cv.X
		}
		for i, p := range h.Params {
			if ssa.Value(p) == v {
				return i
			}
		}
		return -1
	}
	var ctor *cipherCtor
	allInstrs(h, func(in ssa.Instruction) {
		nc, ok := in.(*ssa.Call)
		if !ok || !isStdCall(nc, "crypto/rc4", "", "NewCipher") {
			return
		}
		hc, ok := nc.Call.Args[0].(*ssa.Call)
		if !ok || !isCallNamed(hc, "crypto", "hash") || len(hc.Call.Args) != 1 {
			return
		}
		el := variadicElems(hc.Call.Args[0])
		if len(el) < 2 {
			return
		}
		c := &cipherCtor{labelIdx: paramIdx(el[0])}
		if c.labelIdx < 0 {
			return
		}
		for _, e := range el[1:] {
			k := paramIdx(e)
			if k < 0 {
				return
			}
			c.argIdx = append(c.argIdx, k)
		}
		// discard before every return that hands the cipher out
		cv := extractOf(nc, 0)
		if cv == nil {
			return
		}
		var disc *ssa.Call
		for _, u := range cipherUsers(cv) {
			if x, ok := u.(*ssa.Call); ok && isStdCall(x, "crypto/rc4", "Cipher", "XORKeyStream") && x.Call.Args[1] == x.Call.Args[2] {
				if l, okl := madeLen(x.Call.Args[1]); okl && l == 1024 {
					disc = x
				}
			}
		}
		c.discards = disc != nil
		if disc != nil {
			for _, ret := range returnsOf(h) {
				res := retResults(ret)
				if len(res) > 0 && !isNilConst(res[0]) && !instrDominates(disc, ret) {
					c.discards = false
				}
			}
		}
		ctor = c
	})
	cipherCtorMemo[h] = ctor
	return ctor
}

// hashCalls lists hash("label", …) calls of f with their argument kinds: direct ones, and those made on f's behalf by
// a cipher constructor helper called with a constant label.
func hashCalls(f *ssa.Function, sb ssa.Value) []hashCall {
	var out []hashCall
	allInstrs(f, func(in ssa.Instruction) {
		c, ok := in.(*ssa.Call)
		if ok && !c.Call.IsInvoke() {
			if ct := cipherCtorOf(c.Call.StaticCallee()); ct != nil {
				if lbl, okl := constString(c.Call.Args[ct.labelIdx]); okl {
					hc := hashCall{Label: lbl, Call: c}
					for _, k := range ct.argIdx {
						if c.Call.Args[k] == sb {
							hc.Args = append(hc.Args, "S")
						} else {
							hc.Args = append(hc.Args, "SKEY")
						}
					}
					out = append(out, hc)
				}
				return
			}
		}
		if !ok || !isCallNamed(c, "crypto", "hash") || len(c.Call.Args) != 1 {
			return
		}
		el := variadicElems(c.Call.Args[0])
		if len(el) == 0 {
			return
		}
		lbl, okl := bytesOfString(el[0])
		if !okl {
			return
		}
		hc := hashCall{Label: lbl, Call: c}
		for _, e := range el[1:] {
			if e == sb {
				hc.Args = append(hc.Args, "S")
			} else {
				hc.Args = append(hc.Args, "SKEY")
			}
		}
		out = append(out, hc)
	})
	return out
}

// sharedSecretBytes finds the value `sb`: a make([]byte, 96) that is the argument of (*big.Int).FillBytes.
func sharedSecretBytes(f *ssa.Function) (ssa.Value, string) {
	var sb ssa.Value
	why := "no (*big.Int).FillBytes call on a fixed-size buffer found"
	allInstrs(f, func(in ssa.Instruction) {
		c, ok := in.(*ssa.Call)
		if !ok || !isStdCall(c, "math/big", "Int", "FillBytes") {
			return
		}
		if l, okl := madeLen(c.Call.Args[1]); okl && l == 96 {
			sb = c.Call.Args[1]
		}
	})
	return sb, why
}

func c08R4(r *Report, ch, sh *ssa.Function) {
	spec := map[string][]string{"keyA": {"S", "SKEY"}, "keyB": {"S", "SKEY"}, "req1": {"S"}, "req2": {"SKEY"}, "req3": {"S"}}
	// which label becomes enc / dec per role (MSE: A = initiator; initiator encrypts with keyA, receiver with keyB)
	want := map[string][2]string{"ClientHandshake": {"keyA", "keyB"}, "ServerHandshake": {"keyB", "keyA"}}
	n := 0
	for _, f := range []*ssa.Function{ch, sh} {
		sb, why := sharedSecretBytes(f)
		n++
		if sb == nil {
			r.Fail("R4", f.Name()+"/S-serialised-96-bytes", f.Pos(), "the DH secret S is not serialised into a fixed 96-byte buffer with FillBytes (%s): when S has leading zero bytes the hashes and RC4 keys differ from what the MSE specification prescribes and an independent implementation cannot interoperate", why)
			continue
		}
		r.Ok("R4", f.Name()+"/S-serialised-96-bytes", sb.Pos(), "S is hashed as a fixed-width 96-byte big-endian integer")
		hcs := hashCalls(f, sb)
		seen := map[string]bool{}
		for _, hc := range hcs {
			n++
			seen[hc.Label] = true
			key := fmt.Sprintf("%s/hash(%s)", f.Name(), hc.Label)
			w, known := spec[hc.Label]
			if !known {
				r.Fail("R4", key, hc.Call.Pos(), "hash label %q is not part of the MSE key schedule", hc.Label)
				continue
			}
			r.Check(strings.Join(hc.Args, ",") == strings.Join(w, ","), "R4", key, hc.Call.Pos(), "hash("+hc.Label+", "+strings.Join(w, ", ")+") as the specification prescribes",
				fmt.Sprintf("hash(%s, %s) — the MSE specification prescribes hash(%s, %s)", hc.Label, strings.Join(hc.Args, ", "), hc.Label, strings.Join(w, ", ")))
		}
		var missing []string
		for l := range spec {
			if !seen[l] {
				missing = append(missing, l)
			}
		}
		sort.Strings(missing)
		r.Check(len(missing) == 0, "R4", f.Name()+"/all-labels", f.Pos(), "all five MSE hashes are computed", "MSE hashes missing from "+f.Name()+": "+strings.Join(missing, ", "))
		// ciphers: rc4.NewCipher(hash(label…)) -> enc / dec of the Conn literal
		cipherLabel := map[ssa.Value]string{}
		ctorDiscards := map[ssa.Value]bool{}
		fromCtor := map[ssa.Value]bool{}
		var ciphers []ssa.Value
		allInstrs(f, func(in ssa.Instruction) {
			c, ok := in.(*ssa.Call)
			if ok && !c.Call.IsInvoke() {
				if ct := cipherCtorOf(c.Call.StaticCallee()); ct != nil {
					for _, x := range hcs {
						if x.Call == c {
							if ex := extractOf(c, 0); ex != nil {
								cipherLabel[ex] = x.Label
								ciphers = append(ciphers, ex)
								fromCtor[ex] = true
								ctorDiscards[ex] = ct.discards
							}
						}
					}
					return
				}
			}
			if !ok || !isStdCall(c, "crypto/rc4", "", "NewCipher") {
				return
			}
			if hc, ok := c.Call.Args[0].(*ssa.Call); ok {
				for _, x := range hcs {
					if x.Call == hc {
						if ex := extractOf(c, 0); ex != nil {
							cipherLabel[ex] = x.Label
							ciphers = append(ciphers, ex)
						}
					}
				}
			}
		})
		resolve := func(v ssa.Value) ssa.Value {
			// through captured-variable allocs
			if ld, ok := v.(*ssa.UnOp); ok && ld.Op == token.MUL {
				if al, ok := ld.X.(*ssa.Alloc); ok {
					for _, ref := range *al.Referrers() {
						if st, ok := ref.(*ssa.Store); ok && st.Addr == ssa.Value(al) {
							return st.Val
						}
					}
				}
			}
			return v
		}
		for _, cl := range connLits(f) {
			n++
			enc, dec := cipherLabel[resolve(cl.fields["enc"])], cipherLabel[resolve(cl.fields["dec"])]
			key := fmt.Sprintf("%s/Conn{enc,dec}", f.Name())
			w := want[f.Name()]
			r.Check(enc == w[0] && dec == w[1], "R4", key, cl.al.Pos(), fmt.Sprintf("enc=%s dec=%s as the specification prescribes for this role", w[0], w[1]),
				fmt.Sprintf("the wrapper encrypts with %q and decrypts with %q; this role must use enc=%s dec=%s (the roles are no longer mirrored)", enc, dec, w[0], w[1]))
		}
		// each cipher discards 1024 bytes before any other use
		for _, cv := range ciphers {
			n++
			key := fmt.Sprintf("%s/%s-discard-1024", f.Name(), cipherLabel[cv])
			if fromCtor[cv] {
				r.Check(ctorDiscards[cv], "R4", key, cv.Pos(), "the constructor helper discards 1024 bytes of keystream before it hands the cipher out", fmt.Sprintf("the first 1024 bytes of the %s keystream are not discarded by the helper that builds the cipher (MSE specification)", cipherLabel[cv]))
				continue
			}
			var disc *ssa.Call
			users := cipherUsers(cv)
			for _, u := range users {
				c, ok := u.(*ssa.Call)
				if !ok || !isStdCall(c, "crypto/rc4", "Cipher", "XORKeyStream") {
					continue
				}
				if c.Call.Args[1] == c.Call.Args[2] {
					if l, okl := madeLen(c.Call.Args[1]); okl && l == 1024 {
						disc = c
					}
				}
			}
			if disc == nil {
				r.Fail("R4", key, cv.Pos(), "the first 1024 bytes of the %s keystream are not discarded (MSE specification)", cipherLabel[cv])
				continue
			}
			first := true
			for _, u := range users {
				if u != ssa.Instruction(disc) && !instrDominates(disc, u) {
					first = false
				}
			}
			r.Check(first, "R4", key, disc.Pos(), "1024 bytes of keystream are discarded before the cipher is used", "the cipher is used before its first 1024 keystream bytes are discarded")
		}
	}
	r.Sentinel("R4", n, 16)
}

// cipherUsers: instructions of the defining function that use the cipher value (directly, via the local it is
// stored in, or by capturing it in a closure).
func cipherUsers(cv ssa.Value) []ssa.Instruction {
	var out []ssa.Instruction
	for _, ref := range *cv.Referrers() {
		switch x := ref.(type) {
		case *ssa.DebugRef:
		case *ssa.Store:
			if al, ok := x.Addr.(*ssa.Alloc); ok {
				for _, r2 := range *al.Referrers() {
					switch y := r2.(type) {
					case *ssa.UnOp:
						for _, r3 := range *y.Referrers() {
							if _, isd := r3.(*ssa.DebugRef); !isd {
								out = append(out, r3)
							}
						}
					case *ssa.MakeClosure:
						out = append(out, y)
					}
				}
			} else {
				out = append(out, x)
			}
		default:
			out = append(out, ref)
		}
	}
	return out
}

// ---------- R5 ----------

func c08R5(r *Report) {
	p := r.P
	fce := optCond("ForceCryptoHandshake")
	fe := optCond("ForceEncryption")
	reqs := []edgeReq{
		{Name: "!ForceCryptoHandshake", ViaHelper: true, Match: func(c ssa.Value, pol bool) bool { return !pol && fce(c) }},
		{Name: "!ForceEncryption", ViaHelper: true, Match: func(c ssa.Value, pol bool) bool { return !pol && fe(c) }},
	}
	// (a) server: from checkHeader(buf) == true, every path that reaches the handshake reply without going through
	// crypto.ServerHandshake tested both force bits false
	sh := p.Func("protocol", "ServerHandshake")
	csh := p.Func("crypto", "ServerHandshake")
	cch := p.Func("crypto", "ClientHandshake")
	if r.Anchor("R5", "protocol.ServerHandshake", sh != nil) && r.Anchor("R5", "crypto.ServerHandshake", csh != nil) {
		r.Fn(sh)
		var chk *ssa.Call
		for _, ci := range callsIn(sh) {
			if c, ok := ci.(*ssa.Call); ok && isCallNamed(c, "protocol", "checkHeader") && chk == nil {
				chk = c
			}
		}
		if chk == nil {
			r.Undecided("R5", "server/checkHeader", sh.Pos(), "no checkHeader call found")
		} else {
			isReply := func(in ssa.Instruction) bool {
				c, ok := in.(*ssa.Call)
				return ok && c.Call.IsInvoke() && c.Call.Method.Name() == "Write"
			}
			viaCrypto := func(in ssa.Instruction) bool { return calleeOf(in) == csh }
			// paths on which the header check said "plaintext": prune the ok==false edge
			okFalse := func(cond ssa.Value, pol bool) bool { return cond == ssa.Value(chk) && !pol }
			missing, reached := pathsMissingX(chk, -1, isReply, viaCrypto, reqs, okFalse)
			if reached == 0 {
				r.Undecided("R5", "server/plaintext-path", chk.Pos(), "no plaintext path to the handshake reply found")
			} else {
				r.Check(len(missing) == 0, "R5", "server/plaintext-needs-no-force", chk.Pos(), "a plaintext handshake is answered only when neither the crypto handshake nor encryption is forced",
					"a plaintext BitTorrent handshake is accepted on a path that did not test "+strings.Join(missing, " and ")+" false: a server whose policy forces encryption continues in the clear")
			}
		}
	}
	// (b) client: in protocol.ClientHandshake every path to the plaintext write of the handshake (a conn.Write not
	// preceded by crypto.ClientHandshake) tested both force bits false
	chs := p.Func("protocol", "ClientHandshake")
	if r.Anchor("R5", "protocol.ClientHandshake", chs != nil) && r.Anchor("R5", "crypto.ClientHandshake", cch != nil) {
		r.Fn(chs)
		isWrite := func(in ssa.Instruction) bool {
			c, ok := in.(*ssa.Call)
			return ok && c.Call.IsInvoke() && c.Call.Method.Name() == "Write"
		}
		viaCrypto := func(in ssa.Instruction) bool { return calleeOf(in) == cch }
		first := chs.Blocks[0].Instrs[0]
		missing, reached := pathsMissing(first, -1, isWrite, viaCrypto, reqs)
		if reached == 0 {
			r.Undecided("R5", "client/plaintext-path", chs.Pos(), "no plaintext handshake write found in protocol.ClientHandshake")
		} else {
			r.Check(len(missing) == 0, "R5", "client/plaintext-needs-no-force", chs.Pos(), "a plaintext handshake is sent only when neither the crypto handshake nor encryption is forced",
				"a plaintext BitTorrent handshake is sent on a path that did not test "+strings.Join(missing, " and ")+" false: a client whose policy forces encryption (e.g. after tor.DialClient's fallback, or with Force but not Prefer) talks in the clear")
		}
	}
}

// ---------- R6 ----------

// c08Sticky: the latched write error is final. Conn.err is stored only by Conn.Write (and the helpers factored out of
// it) and never with nil: forgetting it — after a timeout, say — lets a later Write succeed although a chunk that was
// encrypted never reached the wire, so the keystream is ahead of the receiver for good.
func c08Sticky(r *Report) {
	p := r.P
	w := p.Func("crypto", "Conn.Write")
	errF := p.Field("crypto", "Conn", "err")
	if w == nil || errF == nil {
		return
	}
	n := 0
	for _, acc := range p.fieldAccesses(errF) {
		if !acc.Write {
			continue
		}
		fa, ok := acc.Instr.(*ssa.FieldAddr)
		if !ok {
			continue
		}
		for _, ref := range *fa.Referrers() {
			st, isSt := ref.(*ssa.Store)
			if !isSt || st.Addr != ssa.Value(fa) {
				continue
			}
			if al, isAl := fa.X.(*ssa.Alloc); isAl && al.Comment == "complit" {
				continue
			}
			n++
			f := enclosingNamed(acc.Fn)
			r.Fn(f)
			key := fmt.Sprintf("%s/Conn.err-store", fname(f))
			switch {
			case !(f == w || p.inUnitOf(f, w)):
				r.Fail("R6", key, st.Pos(), "Conn.err is written in %s, outside Conn.Write: the latch that keeps the keystream from running ahead of the wire can be changed behind Write's back", fname(f))
			case isNilConst(st.Val):
				r.Fail("R6", key, st.Pos(), "Conn.err is reset to nil: after a failed or partial write the keystream is ahead of what the receiver got, and every later write would be decrypted to garbage")
			default:
				r.Ok("R6", key, st.Pos(), "the error is latched by Write and never cleared")
			}
		}
	}
	r.Sentinel("R6.sticky", n, 1)
}

// c08FlagsAtInit: the encryption (and privacy) policy lives in package config's variables, which main sets from the
// command line. No package-level initialiser or init function of the module may read such a variable: it runs before
// flag.Parse and freezes the zero default (var dialOptions = crypto.DefaultOptions(config.PreferEncryption, …)).
func c08FlagsAtInit(r *Report, rule string) {
	p := r.P
	// flag targets: &config.X handed to the flag package, and config variables assigned in package main
	targets := map[*ssa.Global]bool{}
	for _, f := range p.SrcFuncs() {
		if funcPkgPath(f) != modPath {
			continue
		}
		allInstrs(f, func(in ssa.Instruction) {
			switch x := in.(type) {
			case *ssa.Call:
				if o := calleeObj(x); o != nil && o.Pkg() != nil && o.Pkg().Path() == "flag" {
					for _, a := range x.Call.Args {
						if g, ok := a.(*ssa.Global); ok && g.Pkg != nil && strings.HasPrefix(g.Pkg.Pkg.Path(), modPath+"/config") {
							targets[g] = true
						}
					}
				}
			case *ssa.Store:
				if g, ok := x.Addr.(*ssa.Global); ok && g.Pkg != nil && strings.HasPrefix(g.Pkg.Pkg.Path(), modPath+"/config") {
					targets[g] = true
				}
			}
		})
	}
	if len(targets) == 0 {
		r.Undecided(rule, "flags-at-init/targets", token.NoPos, "no configuration variable set from the command line was found in package main")
		return
	}
	n := 0
	seen := map[*ssa.Function]bool{}
	var scan func(f *ssa.Function, root *ssa.Function, d int)
	scan = func(f *ssa.Function, root *ssa.Function, d int) {
		if f == nil || f.Blocks == nil || seen[f] || d > 3 {
			return
		}
		seen[f] = true
		allInstrs(f, func(in ssa.Instruction) {
			if ld, ok := in.(*ssa.UnOp); ok && ld.Op == token.MUL {
				if g, okg := ld.X.(*ssa.Global); okg && targets[g] {
					n++
					r.Fail(rule, fmt.Sprintf("flags-at-init/%s/config.%s", funcPkgPath(root), g.Name()), ld.Pos(), "config.%s, which main sets from the command line, is read during the initialisation of package %s (%s): it is read before flag.Parse, so the value frozen there is the zero default whatever the user asked for — a forced encryption policy is silently not applied to what was built from it", g.Name(), funcPkgPath(root), fname(f))
				}
			}
			if ci, ok := in.(ssa.CallInstruction); ok {
				if cal := ci.Common().StaticCallee(); cal != nil && strings.HasPrefix(funcPkgPath(cal), modPath) && cal.Name() != "init" {
					scan(cal, root, d+1)
				}
			}
		})
	}
	nInit := 0
	for _, pk := range p.SSA.AllPackages() {
		if pk.Pkg == nil || !(pk.Pkg.Path() == modPath || strings.HasPrefix(pk.Pkg.Path(), modPath+"/")) {
			continue
		}
		for name, m := range pk.Members {
			fn, ok := m.(*ssa.Function)
			if !ok || !(name == "init" || strings.HasPrefix(name, "init#")) {
				continue
			}
			nInit++
			seen = map[*ssa.Function]bool{}
			scan(fn, fn, 0)
		}
	}
	if n == 0 {
		r.Ok(rule, "flags-at-init", token.NoPos, "%d configuration variables set from the command line; none is read by the %d package initialisers of the module", len(targets), nInit)
	}
}

func c08R6(r *Report) {
	p := r.P
	w := p.Func("crypto", "Conn.Write")
	errF := p.Field("crypto", "Conn", "err")
	if !r.Anchor("R6", "crypto.(*Conn).Write", w != nil) || !r.Anchor("R6", "crypto.Conn.err", errF != nil) {
		return
	}
	// Conn.Write and the private helpers factored out of it (writeChunk): the rules apply to each of them
	n := 0
	var unit []*ssa.Function
	for _, f := range p.SrcFuncs() {
		if relPkg(f) == "crypto" && f.Parent() == nil && (f == w || p.inUnitOf(f, w)) {
			unit = append(unit, f)
		}
	}
	for _, w := range unit {
		r.Fn(w)
		// (1) every XORKeyStream is dominated by c.err == nil
		allInstrs(w, func(in ssa.Instruction) {
			c, ok := in.(*ssa.Call)
			if !ok || !isStdCall(c, "crypto/rc4", "Cipher", "XORKeyStream") {
				return
			}
			n++
			muF := p.Field("crypto", "Conn", "writemu")
			// the write mutex is taken in the function before instruction i
			lockedAt := func(i ssa.Instruction) bool {
				held := false
				allInstrs(i.Parent(), func(j ssa.Instruction) {
					cc, okc := j.(*ssa.Call)
					if !okc || cc.Call.IsInvoke() || calleeObj(cc) == nil || calleeObj(cc).Name() != "Lock" || len(cc.Call.Args) == 0 {
						return
					}
					if fa, okf := cc.Call.Args[0].(*ssa.FieldAddr); okf && fieldVar(fa) == muF && instrDominates(cc, i) {
						held = true
					}
				})
				return held
			}
			ok2 := p.guardedIP(c, func(g Guard) bool {
				x, isNil, okn := nilFact(g)
				if !okn || !isNil {
					return false
				}
				fv, _ := loadedField(x)
				if fv != errF {
					return false
				}
				// the latched error is read while the write mutex is held: a test made before queueing on the mutex
				// says nothing about what the writer ahead of us is about to latch
				if ld, isI := strip(x).(ssa.Instruction); isI && muF != nil && ld.Parent() == w && w.Name() == "Write" {
					return lockedAt(ld)
				}
				return true
			}, 0)
			r.Check(ok2, "R6", "Conn.Write/no-encrypt-after-error", c.Pos(), "nothing is encrypted once a write error is latched", "Conn.Write advances the keystream although a previous write failed: the keystream runs ahead of the wire")
			// a write larger than the staging buffer goes out in chunks: each chunk is the next unsent part of the
			// caller's bytes — src = b[n : n+len(dst)] for the loop's own progress counter n
			inLoop := false
			var head *ssa.BasicBlock
			for _, l := range naturalLoops(w) {
				if l.Blocks[c.Block()] {
					inLoop = true
					head = l.Head
				}
			}
			if inLoop && len(c.Call.Args) == 3 {
				okChunk := false
				why := "the source is not a slice expression of the caller's buffer"
				if src, isS := c.Call.Args[2].(*ssa.Slice); isS {
					why = "the source slice does not start at the loop's progress counter"
					// the progress counter: what the loop's own exit test compares with the length of the caller's buffer (a
					// header phi, or the cell of a named result)
					var progress ssa.Value
					if len(head.Instrs) > 0 {
						if iff, isIf := head.Instrs[len(head.Instrs)-1].(*ssa.If); isIf {
							if cmp, isB := iff.Cond.(*ssa.BinOp); isB {
								for _, side := range []ssa.Value{cmp.X, cmp.Y} {
									sv := stripIntConv(side)
									if ph, isPhi := sv.(*ssa.Phi); isPhi && ph.Block() == head {
										progress = ph
									}
									if ld, isLd := sv.(*ssa.UnOp); isLd && ld.Op == token.MUL {
										if al, isAl := ld.X.(*ssa.Alloc); isAl {
											progress = al
										}
									}
								}
							}
						}
					}
					isProgress := func(v ssa.Value) bool {
						v = stripIntConv(v)
						if progress == nil {
							return false
						}
						if v == progress {
							return true
						}
						ld, isLd := v.(*ssa.UnOp)
						return isLd && ld.Op == token.MUL && ld.X == progress
					}
					if src.Low != nil {
						if isProgress(src.Low) {
							okChunk = true
							// and is as long as the destination
							if dst, isD := c.Call.Args[1].(*ssa.Slice); isD && src.High != nil && dst.High != nil {
								dl := polyOf(dst.High, 0)
								if dst.Low != nil {
									dl = polyAdd(dl, polyOf(dst.Low, 0), -1)
								}
								lenOK := false
								if hb, isAdd := stripIntConv(src.High).(*ssa.BinOp); isAdd && hb.Op == token.ADD {
									for _, pr := range [][2]ssa.Value{{hb.X, hb.Y}, {hb.Y, hb.X}} {
										if isProgress(pr[0]) {
											if d := polyAdd(polyOf(pr[1], 0), dl, -1); d.ok && len(d.t) == 0 {
												lenOK = true
											}
										}
									}
								}
								if !lenOK {
									okChunk = false
									why = "the source chunk is not as long as the destination chunk"
								}
							}
						}
					}
				}
				// the other idiom: the loop re-slices what is left (for rest := b; len(rest) > 0; { chunk := rest[:k]; rest =
				// rest[len(chunk):]; … }): the source is (a prefix of) the header phi, which advances by len(source)
				judged := true
				if !okChunk {
					srcV := c.Call.Args[2]
					base := srcV
					if sl, isS := base.(*ssa.Slice); isS && sl.Low == nil {
						base = sl.X
					}
					var restPhi *ssa.Phi
					var find func(v ssa.Value, d int)
					find = func(v ssa.Value, d int) {
						if d > 3 || restPhi != nil {
							return
						}
						switch x := v.(type) {
						case *ssa.Phi:
							if x.Block() == head {
								restPhi = x
								return
							}
							for _, e := range x.Edges {
								find(e, d+1)
							}
						case *ssa.Slice:
							if x.Low == nil {
								find(x.X, d+1)
							}
						}
					}
					find(base, 0)
					if restPhi != nil {
						adv := false
						for _, e := range restPhi.Edges {
							if sl, isS := e.(*ssa.Slice); isS && sl.X == ssa.Value(restPhi) && sl.High == nil && sl.Low != nil {
								if lc, isC := stripIntConv(sl.Low).(*ssa.Call); isC {
									if bi, isB := lc.Call.Value.(*ssa.Builtin); isB && bi.Name() == "len" && (lc.Call.Args[0] == srcV || lc.Call.Args[0] == base) {
										adv = true
									}
								}
							}
						}
						okChunk = adv
						if !adv {
							why = "what is left of the caller's bytes does not advance by the length of the chunk that was encrypted"
						}
					} else if _, isParamSlice := srcV.(*ssa.Slice); !isParamSlice {
						judged = false
					}
				}
				if !judged {
					r.Info("R6", "Conn.Write/chunk-is-next-unsent-part", c.Pos(), "the chunking idiom is not one the rule knows: not judged")
				} else {
					r.Check(okChunk, "R6", "Conn.Write/chunk-is-next-unsent-part", c.Pos(), "each chunk encrypted is b[n:n+m] for the loop's progress counter n",
						"in Conn.Write's chunk loop "+why+": for a write larger than the staging buffer the second and later chunks re-encrypt other bytes than the ones they stand for — lengths and keystream stay right, so the payload of a large Piece or Bitfield is silently corrupted on an RC4 connection")
				}
			}
		})
		// (2) after the underlying write, a non-nil error (incl. short write) is stored in c.err before returning
		// A private helper that makes the underlying write and hands count and error back without latching
		// (writeChunkLocked(buf, b) (int, error)) is judged at its calls: there the call stands for the write.
		relay := func(h *ssa.Function) bool {
			if h == nil || h.Blocks == nil || relPkg(h) != "crypto" || h.Parent() != nil || h.Signature.Results().Len() != 2 || !isErrorType(h.Signature.Results().At(1).Type()) {
				return false
			}
			if anyInstr(h, func(i ssa.Instruction) bool { _, ok := isStoreToField(i, errF); return ok }) != nil {
				return false
			}
			return anyInstr(h, func(i ssa.Instruction) bool {
				cc, ok := i.(*ssa.Call)
				return ok && cc.Call.IsInvoke() && cc.Call.Method.Name() == "Write"
			}) != nil
		}
		if relay(w) {
			continue
		}
		helperShort := func(h *ssa.Function) bool {
			// the helper turns a short write into io.ErrShortWrite itself
			found := false
			allInstrs(h, func(i ssa.Instruction) {
				if ld, ok := i.(*ssa.UnOp); ok && ld.Op == token.MUL {
					if g, isG := ld.X.(*ssa.Global); isG && g.Name() == "ErrShortWrite" {
						found = true
					}
				}
			})
			return found
		}
		allInstrs(w, func(in ssa.Instruction) {
			c, ok := in.(*ssa.Call)
			if !ok {
				return
			}
			isRelayCall := !c.Call.IsInvoke() && relay(c.Call.StaticCallee())
			if !isRelayCall && (!c.Call.IsInvoke() || c.Call.Method.Name() != "Write") {
				return
			}
			n++
			isLatch := func(i ssa.Instruction) bool {
				_, ok := isStoreToField(i, errF)
				return ok
			}
			// the error of this write, as the code sees it later: the call's second result, the same value replaced by
			// io.ErrShortWrite on some path (a phi, or the cell of a named result / local variable)
			errv := extractOf(c, 1)
			isShortGlobal := func(v ssa.Value) bool {
				ld, ok := v.(*ssa.UnOp)
				if !ok || ld.Op != token.MUL {
					return false
				}
				g, ok := ld.X.(*ssa.Global)
				return ok && g.Name() == "ErrShortWrite"
			}
			var errLike func(v ssa.Value, d int) bool
			errLike = func(v ssa.Value, d int) bool {
				if d > 4 || v == nil {
					return false
				}
				if errv != nil && v == errv {
					return true
				}
				switch x := v.(type) {
				case *ssa.Phi:
					some := false
					for _, e := range x.Edges {
						if isShortGlobal(e) || isNilConst(e) {
							continue
						}
						if !errLike(e, d+1) {
							return false
						}
						some = true
					}
					return some
				case *ssa.UnOp:
					al, ok := x.X.(*ssa.Alloc)
					if !ok || x.Op != token.MUL {
						return false
					}
					var base *ssa.Store
					for _, ref := range *al.Referrers() {
						if st, ok := ref.(*ssa.Store); ok && st.Addr == ssa.Value(al) && errv != nil && st.Val == errv && instrDominates(st, x) {
							base = st
						}
					}
					if base == nil {
						return false
					}
					for _, ref := range *al.Referrers() {
						st, ok := ref.(*ssa.Store)
						if !ok || st.Addr != ssa.Value(al) || st == base {
							continue
						}
						if instrReaches(base, st) && instrReaches(st, x) && !isShortGlobal(st.Val) && st.Val != errv {
							return false
						}
					}
					return true
				}
				return false
			}
			var excuses []excuse
			short := false
			allInstrs(w, func(i2 ssa.Instruction) {
				switch y := i2.(type) {
				case *ssa.BinOp:
					if (y.Op == token.NEQ || y.Op == token.EQL) && isNilConst(y.Y) && errLike(y.X, 0) {
						// excused on the edge where the error is nil
						excuses = append(excuses, excuse{y, y.Op == token.EQL})
					}
				case *ssa.Store:
					if _, ok := isStoreToField(y, errF); ok {
						// what is latched: the write's error, with io.ErrShortWrite on the short-write path
						var mentionsShort func(v ssa.Value, d int) bool
						mentionsShort = func(v ssa.Value, d int) bool {
							if d > 4 {
								return false
							}
							if isShortGlobal(v) {
								return true
							}
							switch z := v.(type) {
							case *ssa.Phi:
								for _, e := range z.Edges {
									if mentionsShort(e, d+1) {
										return true
									}
								}
							case *ssa.UnOp:
								if al, ok := z.X.(*ssa.Alloc); ok {
									for _, ref := range *al.Referrers() {
										if st, ok := ref.(*ssa.Store); ok && st.Addr == ssa.Value(al) && isShortGlobal(st.Val) {
											return true
										}
									}
								}
							}
							return false
						}
						if mentionsShort(y.Val, 0) {
							short = true
						}
						if isRelayCall && helperShort(c.Call.StaticCallee()) {
							short = true
						}
					}
				}
			})
			if len(excuses) == 0 {
				r.Fail("R6", "Conn.Write/latch-on-error", c.Pos(), "no test of the underlying write's error leads to the latch of the write error")
				return
			}
			firstSeen := false
			exits := unreportedExitsAny(c, func(i ssa.Instruction) bool {
				if i == ssa.Instruction(c) {
					// the exploration starts at the write; coming back to it around the loop is the next write
					if !firstSeen {
						firstSeen = true
						return false
					}
					return true
				}
				return isLatch(i)
			}, excuses)
			r.Check(len(exits) == 0, "R6", "Conn.Write/latch-on-error", c.Pos(), "every failed or short underlying write is latched before returning", "a path returns after a failed underlying write without latching the error: the next Write would encrypt with a keystream the peer is no longer in step with")
			n++
			r.Check(short, "R6", "Conn.Write/short-write-is-error", c.Pos(), "a short underlying write is turned into an error (and latched)", "a short underlying write is no longer turned into an error")
		})
	}
	r.Sentinel("R6", n, 3)
}

func anyReach(b *ssa.BasicBlock, pred func(ssa.Instruction) bool) bool {
	for bb := range reachableFrom(b) {
		for _, in := range bb.Instrs {
			if pred(in) {
				return true
			}
		}
	}
	return false
}

var _ = types.Typ

// madeLen: v is make([]T, n) with constant n — either a MakeSlice or, for small constant sizes, the slice of a
// fresh array that go/ssa emits (`new [n]T (makeslice)` + slice).
func madeLen(v ssa.Value) (int64, bool) {
	switch x := v.(type) {
	case *ssa.MakeSlice:
		return constInt(x.Len)
	case *ssa.Slice:
		al, ok := x.X.(*ssa.Alloc)
		if !ok || al.Comment != "makeslice" {
			return 0, false
		}
		at, ok := derefType(al.Type()).Underlying().(*types.Array)
		if !ok {
			return 0, false
		}
		if x.High != nil {
			if h, okh := constInt(x.High); !okh || h != at.Len() {
				return 0, false
			}
		}
		return at.Len(), true
	}
	return 0, false
}

// selSite: a place where a bit/value of crypto_select or crypto_provide is chosen, with the facts that hold there.
// The field may be written byte-wise (buf[3] = 2, buf[3] |= 1), as a 32-bit value serialised with PutUint32
// (provided |= cryptoRC4; binary.BigEndian.PutUint32(buf, provided)), or computed by a helper of package crypto
// (buf[3] = selectCrypto(provide, options)): the value is traced back to the constants it can take.
type selSite struct {
	pos    token.Pos
	val    int64 // -1: not understood
	or     bool
	guards []Guard
	in     ssa.Instruction // the instruction in the analysed function that fixes the value (store / call)
}

func hasOptIn(gs []Guard, name string, pol bool) bool {
	c := optCond(name)
	for _, g := range expandBitGuards(gs) {
		g = g.norm()
		if g.Pol == pol && c(g.Cond) {
			return true
		}
	}
	return false
}

func hasMaskIn(gs []Guard, bit int64) bool {
	for _, g := range expandBitGuards(gs) {
		g = g.norm()
		if bf, isBF := g.Cond.(*bitFact); isBF {
			if g.Pol && bf.Bit == bit {
				return true
			}
			continue
		}
		bo, ok := g.Cond.(*ssa.BinOp)
		if !ok {
			continue
		}
		and, ok := stripIntConv(bo.X).(*ssa.BinOp)
		z, okz := constInt(bo.Y)
		if !ok || !okz || and.Op != token.AND {
			continue
		}
		k, okk := constInt(and.Y)
		if !okk {
			k, okk = constInt(and.X)
		}
		if !okk || k != bit {
			continue
		}
		set := false
		switch z {
		case 0:
			set = (bo.Op == token.NEQ) == g.Pol
		case bit:
			set = (bo.Op == token.EQL) == g.Pol
		default:
			continue
		}
		if set && (bo.Op == token.NEQ || bo.Op == token.EQL) {
			return true
		}
	}
	return false
}

func selectionSites(f *ssa.Function) []selSite {
	var out []selSite
	var trace func(v ssa.Value, gs []Guard, at ssa.Instruction, d int, seen map[ssa.Value]bool)
	// fixedBy: the guards say v == K for a constant K
	fixedBy := func(v ssa.Value, gs []Guard) (int64, bool) {
		for _, g := range gs {
			g = g.norm()
			bo, ok := g.Cond.(*ssa.BinOp)
			if !ok || (bo.Op == token.EQL) != g.Pol || (bo.Op != token.EQL && bo.Op != token.NEQ) {
				continue
			}
			if k, okk := constInt(bo.Y); okk && stripIntConv(bo.X) == v {
				return k, true
			}
			if k, okk := constInt(bo.X); okk && stripIntConv(bo.Y) == v {
				return k, true
			}
		}
		return 0, false
	}
	// splitByEdges: v is used in block b; every way into b fixes v to a constant (switch v { case 1, 2: use(v) })
	var splitByEdges func(v ssa.Value, b *ssa.BasicBlock, d int) ([]selSite, bool)
	splitByEdges = func(v ssa.Value, b *ssa.BasicBlock, d int) ([]selSite, bool) {
		if b == nil || d > 3 || len(b.Preds) == 0 {
			return nil, false
		}
		var res []selSite
		for _, p := range b.Preds {
			gs := guardsOnEdge(p, b)
			if k, ok := fixedBy(v, gs); ok {
				res = append(res, selSite{val: k, guards: gs})
				continue
			}
			sub, ok := splitByEdges(v, p, d+1)
			if !ok {
				return nil, false
			}
			res = append(res, sub...)
		}
		return res, true
	}
	var useBlock *ssa.BasicBlock
	trace = func(v ssa.Value, gs []Guard, at ssa.Instruction, d int, seen map[ssa.Value]bool) {
		v = stripIntConv(v)
		if cv, ok := v.(*ssa.Convert); ok {
			v = cv.X // narrowing conversions keep the low bits the field uses
			v = stripIntConv(v)
		}
		if d > 8 {
			out = append(out, selSite{pos: at.Pos(), val: -1, guards: gs, in: at})
			return
		}
		if seen[v] {
			return
		}
		seen[v] = true
		ub := useBlock
		useBlock = nil
		if _, isC := v.(*ssa.Const); !isC {
			// a variable that the branch taken fixes to a constant
			if k, ok := fixedBy(v, gs); ok {
				if k != 0 {
					out = append(out, selSite{pos: at.Pos(), val: k, guards: gs, in: at})
				}
				return
			}
			if sub, ok := splitByEdges(v, ub, 0); ok {
				for _, s := range sub {
					if s.val != 0 {
						out = append(out, selSite{pos: at.Pos(), val: s.val, guards: append(append([]Guard{}, gs...), s.guards...), in: at})
					}
				}
				return
			}
		}
		switch x := v.(type) {
		case *ssa.Const:
			if k, ok := constInt(x); ok {
				if k != 0 {
					out = append(out, selSite{pos: at.Pos(), val: k, guards: gs, in: at})
				}
				return
			}
		case *ssa.Phi:
			for i, e := range x.Edges {
				useBlock = x.Block().Preds[i]
				trace(e, append(append([]Guard{}, gs...), guardsOnEdge(x.Block().Preds[i], x.Block())...), at, d+1, seen)
			}
			return
		case *ssa.BinOp:
			if x.Op == token.OR {
				a, b := x.X, x.Y
				if ka, oka := constInt(a); oka {
					if kb, okb := constInt(b); okb {
						// 0 | 1: the first bit set into a fresh mask
						if ka|kb != 0 {
							out = append(out, selSite{pos: x.Pos(), val: ka | kb, or: true, guards: append(append([]Guard{}, gs...), guardsOf(x.Block())...), in: at})
						}
						return
					}
					a, b = b, a
				}
				if k, ok := constInt(b); ok {
					out = append(out, selSite{pos: x.Pos(), val: k, or: true, guards: append(append([]Guard{}, gs...), guardsOf(x.Block())...), in: at})
					trace(a, gs, at, d+1, seen)
					return
				}
			}
		case *ssa.UnOp:
			// a load of the field's own byte (buf[3] |= 1 reads it back): nothing new
			if x.Op == token.MUL {
				if _, ok := x.X.(*ssa.IndexAddr); ok {
					return
				}
			}
		case *ssa.Call:
			h := x.Call.StaticCallee()
			if h != nil && h.Blocks != nil && !x.Call.IsInvoke() && relPkg(h) == relPkg(f) {
				for _, ret := range returnsOf(h) {
					res := retResults(ret)
					if len(res) != 1 {
						break
					}
					// the helper's own branch facts (about its parameters) hold for the arguments
					useBlock = ret.Block()
					trace(res[0], append(append([]Guard{}, gs...), guardsOf(ret.Block())...), at, d+1, map[ssa.Value]bool{})
				}
				return
			}
		}
		out = append(out, selSite{pos: at.Pos(), val: -1, guards: gs, in: at})
	}
	is4 := func(v ssa.Value) bool { l, ok := madeLen(v); return ok && l == 4 }
	allInstrs(f, func(in ssa.Instruction) {
		switch x := in.(type) {
		case *ssa.Store:
			ia, ok := x.Addr.(*ssa.IndexAddr)
			if !ok || !is4(ia.X) {
				return
			}
			if k, okk := constInt(ia.Index); !okk || k != 3 {
				return
			}
			useBlock = x.Block()
			trace(x.Val, guardsOf(x.Block()), x, 0, map[ssa.Value]bool{})
		case *ssa.Call:
			if o := calleeObj(x); o != nil && o.Pkg() != nil && o.Pkg().Path() == "encoding/binary" && o.Name() == "PutUint32" {
				args := x.Call.Args
				if len(args) >= 2 && is4(args[len(args)-2]) {
					useBlock = x.Block()
					trace(args[len(args)-1], guardsOf(x.Block()), x, 0, map[ssa.Value]bool{})
				}
			}
		}
	})
	return out
}

// c08ReadExact: Conn.Read runs through the cipher exactly the bytes the connection returned: XORKeyStream over b[:n]
// for the n of the underlying Read in the same call.  Decrypting the whole buffer advances the keystream past bytes
// that were never received; everything after the first short read (every read, on a real TCP connection) is garbage.
func c08ReadExact(r *Report, rule string) {
	p := r.P
	rd := p.Func("crypto", "Conn.Read")
	if !r.Anchor(rule, "crypto.(*Conn).Read", rd != nil) {
		return
	}
	n := 0
	for _, f := range p.SrcFuncs() {
		if relPkg(f) != "crypto" || !(f == rd || p.inUnitOf(enclosingNamed(f), rd)) {
			continue
		}
		// counts returned by reads of the underlying connection in this function
		counts := map[ssa.Value]bool{}
		allInstrs(f, func(in ssa.Instruction) {
			c, ok := in.(*ssa.Call)
			if !ok || !c.Call.IsInvoke() || c.Call.Method.Name() != "Read" {
				return
			}
			if ex := extractOf(c, 0); ex != nil {
				counts[ex] = true
			}
		})
		isCount := func(v ssa.Value) bool {
			v = stripIntConv(v)
			if counts[v] {
				return true
			}
			// a named result: n, err = c.conn.Read(b) stores the count in the result cell
			if ld, ok := v.(*ssa.UnOp); ok {
				if al, isAl := ld.X.(*ssa.Alloc); isAl {
					for _, ref := range *al.Referrers() {
						if st, oks := ref.(*ssa.Store); oks && st.Addr == ssa.Value(al) && counts[stripIntConv(st.Val)] {
							return true
						}
					}
				}
			}
			return false
		}
		allInstrs(f, func(in ssa.Instruction) {
			c, ok := in.(*ssa.Call)
			if !ok || !isStdCall(c, "crypto/rc4", "Cipher", "XORKeyStream") || len(c.Call.Args) != 3 {
				return
			}
			n++
			r.Fn(f)
			good := true
			for _, a := range c.Call.Args[1:] {
				sl, isSl := a.(*ssa.Slice)
				if !isSl || sl.High == nil || !isCount(sl.High) {
					good = false
				}
				if isSl && sl.Low != nil {
					if k, okk := constInt(sl.Low); !okk || k != 0 {
						good = false
					}
				}
			}
			r.Check(good, rule, fname(f)+"/decrypts-exactly-what-was-read", c.Pos(), "the cipher is run over b[:n] for the count n the connection returned",
				"Conn.Read runs the RC4 keystream over something other than the n bytes the connection just returned (b[:n]): after a short read the keystream is ahead of the data and every later byte is decrypted wrongly")
		})
		// … and on every way out: a read may deliver bytes together with an error (n > 0, err != nil); those bytes
		// are handed to the caller like any others and have to pass through the cipher first
		allInstrs(f, func(in ssa.Instruction) {
			c, ok := in.(*ssa.Call)
			if !ok || !c.Call.IsInvoke() || c.Call.Method.Name() != "Read" {
				return
			}
			isRet := func(i ssa.Instruction) bool { _, isR := i.(*ssa.Return); return isR }
			isDec := func(i ssa.Instruction) bool {
				x, isC := i.(*ssa.Call)
				return isC && isStdCall(x, "crypto/rc4", "Cipher", "XORKeyStream")
			}
			nothingRead := func(cond ssa.Value, pol bool) bool {
				// n == 0 (n <= 0, !(n > 0), …): nothing to decrypt on this way out
				op, x, y, okc := cmpFact(Guard{Cond: cond, Pol: pol})
				if !okc {
					return false
				}
				k, isK := constInt(y)
				if !isK || !isCount(x) {
					return false
				}
				return (op == token.EQL && k == 0) || (op == token.LEQ && k == 0) || (op == token.LSS && k == 1)
			}
			miss, reached := pathsMissing(c, -1, isRet, nil, []edgeReq{{Name: "decrypted", Instr: isDec, Match: nothingRead}})
			r.Check(len(miss) == 0 || reached == 0, rule, fname(f)+"/decrypts-on-every-way-out", c.Pos(), "every way from the connection's Read to a return runs the cipher over what was read",
				"Conn.Read can return without running the cipher over the bytes the connection delivered (a return taken when the read also reported an error): a read may deliver its last bytes together with the error, and those reach the caller as ciphertext — whether that happens depends on how the transport splits the stream")
		})
	}
	r.Sentinel(rule+".read-decrypt", n, 1)
}

// ---------- the two directions of a connection are each serialised by their mutex ----------

// mutexHeldAt: on every path from the entry of in's function to in, the last Lock/Unlock of the mutex field mu is a
// Lock (deferred unlocks run at exit and do not count).
func mutexHeldAt(in ssa.Instruction, mu *types.Var) bool {
	f := in.Parent()
	op := func(i ssa.Instruction) int { // +1 lock, -1 unlock, 0 other
		c, ok := i.(*ssa.Call)
		if !ok || c.Call.IsInvoke() || len(c.Call.Args) == 0 {
			return 0
		}
		o := calleeObj(c)
		if o == nil || o.Pkg() == nil {
			return 0
		}
		if o.Pkg().Path() != "sync" {
			// c.lockWrite(): a method of the same type whose whole body is the Lock (Unlock) of the mutex
			h := c.Call.StaticCallee()
			if h == nil || h.Blocks == nil || len(h.Blocks) != 1 || funcPkgPath(h) != funcPkgPath(f) || len(h.Params) == 0 {
				return 0
			}
			res := 0
			nCalls := 0
			for _, hi := range h.Blocks[0].Instrs {
				hc, isC := hi.(*ssa.Call)
				if !isC {
					continue
				}
				nCalls++
				ho := calleeObj(hc)
				if ho == nil || ho.Pkg() == nil || ho.Pkg().Path() != "sync" || hc.Call.IsInvoke() || len(hc.Call.Args) == 0 {
					return 0
				}
				hfa, okf := hc.Call.Args[0].(*ssa.FieldAddr)
				if !okf || fieldVar(hfa) != mu || hfa.X != ssa.Value(h.Params[0]) {
					return 0
				}
				switch ho.Name() {
				case "Lock", "RLock":
					res = 1
				case "Unlock", "RUnlock":
					res = -1
				}
			}
			if nCalls != 1 {
				return 0
			}
			return res
		}
		fa, okf := c.Call.Args[0].(*ssa.FieldAddr)
		if !okf || fieldVar(fa) != mu {
			return 0
		}
		switch o.Name() {
		case "Lock", "RLock":
			return 1
		case "Unlock", "RUnlock":
			return -1
		}
		return 0
	}
	out := map[*ssa.BasicBlock]bool{}
	known := map[*ssa.BasicBlock]bool{}
	transfer := func(b *ssa.BasicBlock, held bool, upto ssa.Instruction) bool {
		for _, i := range b.Instrs {
			if i == upto {
				break
			}
			switch op(i) {
			case 1:
				held = true
			case -1:
				held = false
			}
		}
		return held
	}
	inState := func(b *ssa.BasicBlock) bool {
		if len(b.Preds) == 0 {
			return false
		}
		held := true
		for _, p := range b.Preds {
			if known[p] && !out[p] {
				held = false
			}
		}
		return held
	}
	for iter := 0; iter < 20; iter++ {
		changed := false
		for _, b := range f.Blocks {
			h := transfer(b, inState(b), nil)
			if !known[b] || out[b] != h {
				known[b], out[b] = true, h
				changed = true
			}
		}
		if !changed {
			break
		}
	}
	return transfer(in.Block(), inState(in.Block()), in)
}

// c08Serialised: everything that advances a keystream and the transfer it belongs to happen in one hold of the
// direction's mutex: in Conn.Write (and its private helpers) the encryption and the underlying Write, in Conn.Read the
// underlying Read and the decryption. Two writers that encrypt under the lock but write outside it put their
// ciphertexts on the wire in another order than they were encrypted in; a reader that reads outside the lock decrypts
// its bytes with the keystream position of another reader.
func c08Serialised(r *Report, rule string) {
	p := r.P
	cn := p.Named("crypto", "Conn")
	if !r.Anchor(rule, "crypto.Conn", cn != nil) {
		return
	}
	var mus []*types.Var
	if st, ok := cn.Underlying().(*types.Struct); ok {
		for i := 0; i < st.NumFields(); i++ {
			if typeIs(st.Field(i).Type(), "sync", "Mutex") || typeIs(st.Field(i).Type(), "sync", "RWMutex") {
				mus = append(mus, st.Field(i))
			}
		}
	}
	var heldIP func(in ssa.Instruction, mu *types.Var, d int) bool
	heldIP = func(in ssa.Instruction, mu *types.Var, d int) bool {
		if mutexHeldAt(in, mu) {
			return true
		}
		f := in.Parent()
		obj, isFn := f.Object().(*types.Func)
		if d > 2 || f.Parent() != nil || !isFn || obj.Exported() {
			return false
		}
		calls, esc := p.callSitesOf(f)
		if len(esc) > 0 || len(calls) == 0 {
			return false
		}
		for _, cs := range calls {
			ci, ok := cs.(*ssa.Call)
			if !ok || !heldIP(ci, mu, d+1) {
				return false
			}
		}
		return true
	}
	for _, dir := range []struct{ fn, method, what string }{{"Conn.Write", "Write", "write"}, {"Conn.Read", "Read", "read"}} {
		root := p.Func("crypto", dir.fn)
		if !r.Anchor(rule, "crypto.(*Conn)."+dir.method, root != nil) {
			continue
		}
		var ops []ssa.Instruction
		for _, f := range p.SrcFuncs() {
			if relPkg(f) != "crypto" || f.Parent() != nil || !(f == root || p.inUnitOf(f, root)) {
				continue
			}
			r.Fn(f)
			allInstrs(f, func(in ssa.Instruction) {
				c, ok := in.(*ssa.Call)
				if !ok {
					return
				}
				if isStdCall(c, "crypto/rc4", "Cipher", "XORKeyStream") || (c.Call.IsInvoke() && c.Call.Method.Name() == dir.method && typeIs(c.Call.Value.Type(), "net", "Conn")) {
					ops = append(ops, in)
				}
			})
		}
		var good *types.Var
		for _, mu := range mus {
			all := len(ops) > 0
			for _, o := range ops {
				if !heldIP(o, mu, 0) {
					all = false
				}
			}
			if all {
				good = mu
			}
		}
		pos := root.Pos()
		msg := ""
		if good == nil {
			for _, o := range ops {
				ok := false
				for _, mu := range mus {
					if heldIP(o, mu, 0) {
						ok = true
					}
				}
				if !ok {
					pos = o.Pos()
					break
				}
			}
			msg = fmt.Sprintf("the %s direction of crypto.Conn is not serialised: not every cipher step and underlying %s of Conn.%s happens while one and the same mutex of the connection is held (e.g. %s): concurrent callers interleave keystream positions and bytes on the wire, and the stream the other side decrypts is garbage from that point on", dir.what, dir.method, dir.method, p.Fset.Position(pos))
		}
		r.Check(good != nil, rule, "Conn."+dir.method+"/cipher-and-transfer-in-one-lock-hold", pos, fmt.Sprintf("%d cipher/transfer steps, all under one mutex", len(ops)), msg)
	}
}
