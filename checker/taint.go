package main

// E-taint: whole-scope, field-sensitive (by struct field object), context-insensitive taint
// of attacker-chosen integers, with "bounded by an untainted value" as the sanitiser.

import (
	"fmt"
	"go/token"
	"go/types"
	"os"
	"sort"
	"strings"

	"golang.org/x/tools/go/ssa"
)

type origin struct {
	Desc string
	Pos  token.Pos
	Prev *origin
}

func (o *origin) chain(p *Prog) string {
	s := ""
	n := 0
	for x := o; x != nil && n < 6; x = x.Prev {
		if s != "" {
			s += " <- "
		}
		s += fmt.Sprintf("%s (%s)", x.Desc, p.pos(x.Pos))
		n++
	}
	return s
}

type TaintCfg struct {
	P     *Prog
	Scope map[string]bool
	// IsSource: a load of field fv by instruction in (in function f) is attacker-controlled.
	IsSource func(fv *types.Var, f *ssa.Function) bool
	Limit    int64 // constant bounds up to this are accepted
}

type Taint struct {
	cfg      TaintCfg
	fields   map[*types.Var]*origin
	params   map[*ssa.Parameter]*origin
	free     map[*ssa.FreeVar]*origin
	results  map[*ssa.Function]*origin
	funcs    []*ssa.Function
	changed  bool
	memo     map[ssa.Value]*origin
	memoOK   map[ssa.Value]bool
	stores   map[*ssa.Function]map[*types.Var]bool // fields stored to in a function
	visiting map[*ssa.Phi]bool
	sanit    map[string]int
	extra    map[ssa.Value]*origin // containers made here and filled from a tainted source (copy, element stores)
	// resultsAlways: results that are tainted independently of the arguments (read from tainted state)
	resultsAlways map[*ssa.Function]*origin
}

func newTaint(cfg TaintCfg) *Taint {
	t := &Taint{cfg: cfg, resultsAlways: map[*ssa.Function]*origin{}, extra: map[ssa.Value]*origin{}, fields: map[*types.Var]*origin{}, params: map[*ssa.Parameter]*origin{},
		free: map[*ssa.FreeVar]*origin{}, results: map[*ssa.Function]*origin{}, stores: map[*ssa.Function]map[*types.Var]bool{}}
	for _, f := range cfg.P.SrcFuncs() {
		if cfg.Scope[relPkg(f)] {
			t.funcs = append(t.funcs, f)
		}
	}
	return t
}

func (t *Taint) resetMemo() {
	t.memo = map[ssa.Value]*origin{}
	t.memoOK = map[ssa.Value]bool{}
}

// of returns the origin if v is (derived from) an attacker-chosen integer.
func (t *Taint) of(v ssa.Value) *origin {
	if o, ok := t.memo[v]; ok || t.memoOK[v] {
		return o
	}
	t.memoOK[v] = true // cycle guard: assume untainted while computing
	o := t.compute(v)
	t.memo[v] = o
	return o
}

func (t *Taint) compute(v ssa.Value) *origin {
	switch x := v.(type) {
	case *ssa.Parameter:
		return t.params[x]
	case *ssa.FreeVar:
		return t.free[x]
	case *ssa.Convert:
		if isInteger(x.Type()) || isFloat(x.Type()) {
			return t.of(x.X)
		}
	case *ssa.ChangeType:
		return t.of(x.X)
	case *ssa.Field:
		fv := fieldVar(x)
		if fv != nil && carries(fv.Type()) {
			if t.cfg.IsSource(fv, x.Parent()) {
				return &origin{Desc: "wire field " + typeShort(x.X.Type()) + "." + fv.Name(), Pos: x.Pos()}
			}
			if o := t.fields[fv]; o != nil {
				return &origin{Desc: "field " + fv.Name(), Pos: x.Pos(), Prev: o}
			}
		}
	case *ssa.UnOp:
		if x.Op == token.MUL {
			switch a := x.X.(type) {
			case *ssa.IndexAddr:
				// an element of a container
				return t.of(a.X)
			case *ssa.FieldAddr:
				fv := fieldVar(a)
				if fv != nil && carries(fv.Type()) {
					if t.cfg.IsSource(fv, x.Parent()) {
						return &origin{Desc: "wire field " + typeShort(derefType(a.X.Type())) + "." + fv.Name(), Pos: x.Pos()}
					}
					if o := t.fields[fv]; o != nil {
						return &origin{Desc: "field " + fv.Name(), Pos: x.Pos(), Prev: o}
					}
				}
			case *ssa.Alloc:
				// local variable: tainted if any store to it is
				for _, r := range *a.Referrers() {
					if st, ok := r.(*ssa.Store); ok && st.Addr == ssa.Value(a) {
						if o := t.of(st.Val); o != nil {
							return o
						}
					}
				}
			case *ssa.FreeVar:
				return t.free[a]
			}
		}
		if x.Op == token.SUB || x.Op == token.XOR {
			return t.of(x.X)
		}
		if x.Op == token.ARROW {
			// received from a channel: what was sent on the channel that lives in the same struct field
			if fv := chanField(x.X); fv != nil {
				if o := t.fields[fv]; o != nil {
					return &origin{Desc: "received from channel " + fv.Name(), Pos: x.Pos(), Prev: o}
				}
			}
		}
	case *ssa.Slice:
		if isContainer(x.Type()) {
			if o := t.of(x.X); o != nil {
				return o
			}
		}
	case *ssa.MakeSlice:
		if o := t.extra[x]; o != nil {
			return o
		}
	case *ssa.Alloc:
		if o := t.extra[x]; o != nil {
			return o
		}
	case *ssa.BinOp:
		switch x.Op {
		case token.ADD, token.SUB, token.MUL, token.QUO, token.REM, token.SHL, token.SHR, token.AND, token.OR, token.XOR, token.AND_NOT:
			if o := t.of(x.X); o != nil {
				return o
			}
			return t.of(x.Y)
		}
	case *ssa.Phi:
		for _, e := range x.Edges {
			if o := t.of(e); o != nil {
				return o
			}
		}
	case *ssa.Call:
		if f := x.Call.StaticCallee(); f != nil {
			if o := t.resultsAlways[f]; o != nil {
				// tainted whatever the arguments: the result comes from state (a field, a reply channel)
				return &origin{Desc: "result of " + fname(f), Pos: x.Pos(), Prev: o}
			}
			if o := t.results[f]; o != nil && anyArgTainted(t, x) {
				return &origin{Desc: "result of " + fname(f), Pos: x.Pos(), Prev: o}
			}
		}
		if bi, ok := x.Call.Value.(*ssa.Builtin); ok && bi.Name() == "append" && len(x.Call.Args) == 2 && isContainer(x.Type()) {
			if o := t.of(x.Call.Args[0]); o != nil {
				return o
			}
			if els := variadicElems(x.Call.Args[1]); len(els) > 0 {
				for _, el := range els {
					if o := t.of(el); o != nil {
						if ok, _ := t.boundedAt(el, x.Block(), 0); !ok {
							return &origin{Desc: "appended to a list", Pos: x.Pos(), Prev: o}
						}
					}
				}
			} else if o := t.of(x.Call.Args[1]); o != nil {
				return o
			}
		}
		if bi, ok := x.Call.Value.(*ssa.Builtin); ok && (bi.Name() == "min") {
			// min is bounded if any operand is; tainted only if all are
			var first *origin
			for _, a := range x.Call.Args {
				o := t.of(a)
				if o == nil {
					return nil
				}
				if first == nil {
					first = o
				}
			}
			return first
		}
	case *ssa.Extract:
		if sel, ok := x.Tuple.(*ssa.Select); ok && x.Index >= 2 && carries(x.Type()) {
			// the value received by the (Index-2)-th receive case of a select
			k := 0
			for _, st := range sel.States {
				if st.Dir != types.RecvOnly {
					continue
				}
				if k == x.Index-2 {
					if fv := chanField(st.Chan); fv != nil {
						if o := t.fields[fv]; o != nil {
							return &origin{Desc: "received from channel " + fv.Name(), Pos: x.Pos(), Prev: o}
						}
					}
				}
				k++
			}
		}
		if c, ok := x.Tuple.(*ssa.Call); ok && carries(x.Type()) {
			return t.of(c)
		}
	}
	return nil
}

// carries: values of this type can carry an attacker-chosen integer: integers, and slices / arrays / channels of
// carriers (a peer's allowed-fast list, the copy of it handed over a reply channel).
func carries(t types.Type) bool {
	return carriesD(t, 0)
}

func carriesD(t types.Type, d int) bool {
	if d > 3 {
		return false
	}
	if isInteger(t) {
		return true
	}
	switch u := t.Underlying().(type) {
	case *types.Slice:
		return carriesD(u.Elem(), d+1)
	case *types.Array:
		return carriesD(u.Elem(), d+1)
	case *types.Chan:
		return carriesD(u.Elem(), d+1)
	}
	return false
}

func isContainer(t types.Type) bool { return carries(t) && !isInteger(t) }

// chanField: the struct field a channel value lives in: a load of the field, or a fresh channel that is stored into
// the field of a struct literal (ch := make(chan []uint32); ev := PeerGetFast{ch}).
func chanField(c ssa.Value) *types.Var {
	c = strip(c)
	if fv, _ := loadedFieldAny(c); fv != nil {
		return fv
	}
	if mk, ok := c.(*ssa.MakeChan); ok {
		for _, ref := range *mk.Referrers() {
			switch x := ref.(type) {
			case *ssa.Store:
				if fa, ok := x.Addr.(*ssa.FieldAddr); ok && x.Val == ssa.Value(mk) {
					return fieldVar(fa)
				}
			case *ssa.ChangeType:
				for _, r2 := range *x.Referrers() {
					if st, ok := r2.(*ssa.Store); ok {
						if fa, ok := st.Addr.(*ssa.FieldAddr); ok && st.Val == ssa.Value(x) {
							return fieldVar(fa)
						}
					}
				}
			}
		}
	}
	return nil
}

func isFloat(t types.Type) bool {
	b, ok := t.Underlying().(*types.Basic)
	return ok && b.Info()&types.IsFloat != 0
}

func anyArgTainted(t *Taint, c *ssa.Call) bool {
	for _, a := range c.Call.Args {
		if t.of(a) != nil {
			return true
		}
	}
	return false
}

// sameLoadVal: a and b always hold the same value (same SSA value; Field extraction of the same
// struct value; load of the same field through the same base with no store to that field in the function).
func (t *Taint) sameLoadVal(a, b ssa.Value) bool {
	return t.sameLoadValD(a, b, 0)
}

// stripIntConv removes integer-to-integer conversions (used only to match guards to uses; a
// guard on a converted copy bounds the original when the conversion is widening or same-width,
// which is checked by the caller through the interval of the source type).
func stripIntConv(v ssa.Value) ssa.Value {
	for {
		c, ok := v.(*ssa.Convert)
		if !ok || !isInteger(c.Type()) || !isInteger(c.X.Type()) {
			return v
		}
		// only strip conversions that cannot truncate: target at least as wide as source
		if intBits(c.Type()) < intBits(c.X.Type()) {
			return v
		}
		v = c.X
	}
}

func intBits(t types.Type) int {
	b, ok := t.Underlying().(*types.Basic)
	if !ok {
		return 0
	}
	switch b.Kind() {
	case types.Int8, types.Uint8:
		return 8
	case types.Int16, types.Uint16:
		return 16
	case types.Int32, types.Uint32:
		return 32
	case types.Int64, types.Uint64:
		return 64
	case types.Int, types.Uint, types.Uintptr:
		return 32 // conservative: the narrowest platform
	}
	return 0
}

func (t *Taint) sameLoadValD(a, b ssa.Value, d int) bool {
	if a == b {
		return true
	}
	if d > 5 {
		return false
	}
	if ca, ok := a.(*ssa.Const); ok {
		if cb, ok := b.(*ssa.Const); ok {
			x, ok1 := constInt(ca)
			y, ok2 := constInt(cb)
			return ok1 && ok2 && x == y
		}
		return false
	}
	if sameLen(a, b) || sameSliceVal(a, b) {
		return true
	}
	switch x := a.(type) {
	case *ssa.BinOp:
		y, ok := b.(*ssa.BinOp)
		if !ok || x.Op != y.Op {
			return false
		}
		switch x.Op {
		case token.ADD, token.SUB, token.MUL, token.QUO, token.REM, token.SHL, token.SHR, token.AND, token.OR, token.XOR:
			return t.sameLoadValD(x.X, y.X, d+1) && t.sameLoadValD(x.Y, y.Y, d+1)
		}
		return false
	}
	switch x := a.(type) {
	case *ssa.Field:
		y, ok := b.(*ssa.Field)
		return ok && x.Field == y.Field && x.X == y.X
	case *ssa.UnOp:
		y, ok := b.(*ssa.UnOp)
		if !ok || x.Op != token.MUL || y.Op != token.MUL {
			return false
		}
		fa, ok1 := x.X.(*ssa.FieldAddr)
		fb, ok2 := y.X.(*ssa.FieldAddr)
		if !ok1 || !ok2 || fa.Field != fb.Field || !sameBase(fa.X, fb.X) && fa.X != fb.X {
			return false
		}
		fv := fieldVar(fa)
		if fv == nil {
			return false
		}
		if al, ok := fa.X.(*ssa.Alloc); ok && fa.X == fb.X {
			// a local struct: only stores through this very alloc can change the field,
			// provided its address does not escape
			return !allocFieldMutated(al, fa.Field)
		}
		return !t.storesTo(x.Parent(), fv)
	case *ssa.Convert:
		y, ok := b.(*ssa.Convert)
		return ok && types.Identical(x.Type(), y.Type()) && t.sameLoadValD(x.X, y.X, d+1)
	}
	return false
}

func (t *Taint) storesTo(f *ssa.Function, fv *types.Var) bool {
	m, ok := t.stores[f]
	if !ok {
		m = map[*types.Var]bool{}
		allInstrs(f, func(in ssa.Instruction) {
			if st, ok := in.(*ssa.Store); ok {
				if fa, ok := st.Addr.(*ssa.FieldAddr); ok {
					if v := fieldVar(fa); v != nil {
						m[v] = true
					}
				}
			}
		})
		t.stores[f] = m
	}
	return m[fv]
}

// boundedAt: the tainted value v, used in block b, is bounded by something the attacker does not choose.
func (t *Taint) boundedAt(v ssa.Value, b *ssa.BasicBlock, depth int) (bool, string) {
	if depth > 8 {
		return false, ""
	}
	if t.of(v) == nil {
		return true, "not attacker-chosen"
	}
	env := &IntEnv{SameVal: t.sameLoadVal}
	iv := env.At(v, b)
	if iv.Hi <= t.cfg.Limit && iv.Hi != posInf {
		return true, fmt.Sprintf("interval %s from constant guards", iv)
	}
	// dominating guard against an untainted value
	for _, g := range guardsOf(b) {
		g = g.norm()
		bo, ok := g.Cond.(*ssa.BinOp)
		if !ok {
			continue
		}
		op := bo.Op
		if !g.Pol {
			switch op {
			case token.LSS:
				op = token.GEQ
			case token.LEQ:
				op = token.GTR
			case token.GTR:
				op = token.LEQ
			case token.GEQ:
				op = token.LSS
			case token.EQL:
				op = token.NEQ
			case token.NEQ:
				op = token.EQL
			default:
				continue
			}
		}
		var other ssa.Value
		sv := stripIntConv(v)
		switch {
		case t.sameLoadVal(bo.X, v) || t.sameLoadVal(stripIntConv(bo.X), sv):
			other = bo.Y
		case t.sameLoadVal(bo.Y, v) || t.sameLoadVal(stripIntConv(bo.Y), sv):
			other = bo.X
			switch op {
			case token.LSS:
				op = token.GTR
			case token.LEQ:
				op = token.GEQ
			case token.GTR:
				op = token.LSS
			case token.GEQ:
				op = token.LEQ
			}
		default:
			continue
		}
		if (op == token.LSS || op == token.LEQ || op == token.EQL) && t.of(other) == nil {
			return true, fmt.Sprintf("dominating guard against the untainted bound %s", exprStr(other))
		}
	}
	// dominating guard on the outcome of a module-local validation helper that was handed v:
	//   if err := checkIndex(peer, v); err != nil { return err }      (error result nil on this edge)
	//   if !inRange(peer, v) { return ErrRange }                      (boolean result true on this edge)
	// holds when, inside the helper, the corresponding parameter is bounded at every return that can
	// produce that outcome (a sanitiser summary, computed with the same rule).
	for _, g := range guardsOf(b) {
		g = g.norm()
		var call *ssa.Call
		outcome := 0 // 1: error result is nil; 2: bool true; 3: bool false
		switch c := g.Cond.(type) {
		case *ssa.Call:
			call = c
			outcome = 3
			if g.Pol {
				outcome = 2
			}
		case *ssa.BinOp:
			if (c.Op == token.EQL || c.Op == token.NEQ) && (isNilConst(c.Y) || isNilConst(c.X)) {
				x := c.X
				if isNilConst(x) {
					x = c.Y
				}
				if !isErrorType(x.Type()) {
					break
				}
				isNil := (c.Op == token.EQL) == g.Pol
				if !isNil {
					break
				}
				call, _ = callOfValue(x)
				outcome = 1
			}
		}
		if call == nil || call.Call.IsInvoke() {
			continue
		}
		h := call.Call.StaticCallee()
		if h == nil || h.Blocks == nil || !strings.HasPrefix(funcPkgPath(h), modPath) {
			continue
		}
		sv := stripIntConv(v)
		for k, a := range call.Call.Args {
			if k >= len(h.Params) {
				break
			}
			if !(t.sameLoadVal(a, v) || t.sameLoadVal(stripIntConv(a), sv)) {
				continue
			}
			if t.sanitises(h, k, outcome, depth) {
				return true, fmt.Sprintf("validated by %s (parameter %d bounded on every return with this outcome)", fname(h), k)
			}
		}
	}
	switch x := v.(type) {
	case *ssa.Convert:
		return t.boundedAt(x.X, b, depth+1)
	case *ssa.ChangeType:
		return t.boundedAt(x.X, b, depth+1)
	case *ssa.BinOp:
		switch x.Op {
		case token.REM:
			if t.of(x.Y) == nil {
				return true, "remainder by an untainted divisor"
			}
		case token.AND:
			if t.of(x.Y) == nil || t.of(x.X) == nil {
				return true, "masked by an untainted value"
			}
		}
		switch x.Op {
		case token.ADD, token.SUB, token.MUL, token.QUO, token.REM, token.SHR, token.AND:
			ok1, _ := t.boundedAt(x.X, b, depth+1)
			ok2, _ := t.boundedAt(x.Y, b, depth+1)
			if ok1 && ok2 {
				return true, "arithmetic on bounded operands"
			}
		}
	case *ssa.Phi:
		// co-inductive on loop phis: while a phi is being evaluated, a reference to itself
		// (the loop-carried value) is assumed bounded; the loop's own exit condition, not the
		// peer, then decides how far it runs. (In-range-ness of such counters is value arithmetic
		// and is left to the owning property, e.g. C01.R8.)
		if t.visiting == nil {
			t.visiting = map[*ssa.Phi]bool{}
		}
		if t.visiting[x] {
			return true, "loop-carried"
		}
		t.visiting[x] = true
		defer delete(t.visiting, x)
		for i, e := range x.Edges {
			var pb *ssa.BasicBlock
			if i < len(x.Block().Preds) {
				pb = x.Block().Preds[i]
			}
			if ok, _ := t.boundedAt(e, pb, depth+1); !ok {
				return false, ""
			}
		}
		return true, "all incoming values bounded"
	case *ssa.UnOp:
		if x.Op == token.MUL {
			if a, ok := x.X.(*ssa.Alloc); ok {
				// every store to the local is bounded where it is stored
				for _, r := range *a.Referrers() {
					if st, ok := r.(*ssa.Store); ok && st.Addr == ssa.Value(a) {
						if ok, _ := t.boundedAt(st.Val, st.Block(), depth+1); !ok {
							return false, ""
						}
					}
				}
				return true, "all stores to the local are bounded"
			}
		}
	}
	return false, ""
}

// sanitises: in helper h, parameter k is bounded at every return that can produce the given outcome
// (1: the error result may be nil; 2: the boolean result may be true; 3: may be false).
func (t *Taint) sanitises(h *ssa.Function, k int, outcome int, depth int) bool {
	if depth > 5 {
		return false
	}
	key := fmt.Sprintf("%p/%d/%d", h, k, outcome)
	if t.sanit == nil {
		t.sanit = map[string]int{}
	}
	switch t.sanit[key] {
	case 1:
		return true
	case 2:
		return false
	}
	t.sanit[key] = 2
	ne := newNilEnv(t.cfg.P)
	prm := h.Params[k]
	any := false
	for _, ret := range returnsOf(h) {
		res := retResults(ret)
		can := true
		switch outcome {
		case 1:
			can = false
			for i := len(res) - 1; i >= 0; i-- {
				if isErrorType(res[i].Type()) {
					can = isNilConst(res[i]) || ne.At(res[i], ret.Block()) != NonNil
					break
				}
			}
		case 2, 3:
			if len(res) == 0 {
				return false
			}
			if bv, isb := constBool(res[len(res)-1]); isb {
				can = bv == (outcome == 2)
			}
		}
		if !can {
			continue
		}
		any = true
		if ok, _ := t.boundedAt(prm, ret.Block(), depth+1); !ok {
			return false
		}
	}
	if any {
		t.sanit[key] = 1
	}
	return any
}

// propagate runs the global fixpoint.
func (t *Taint) propagate() int {
	rounds := 0
	for {
		rounds++
		t.changed = false
		t.resetMemo()
		for _, f := range t.funcs {
			t.scan(f)
		}
		if !t.changed || rounds > 20 {
			break
		}
	}
	t.resetMemo()
	return rounds
}

func (t *Taint) mark(kind string, set func() bool) {
	if set() {
		t.changed = true
	}
}

func (t *Taint) scan(f *ssa.Function) {
	allInstrs(f, func(in ssa.Instruction) {
		switch x := in.(type) {
		case *ssa.Store:
			fa, ok := x.Addr.(*ssa.FieldAddr)
			if !ok {
				return
			}
			fv := fieldVar(fa)
			if fv == nil || !carries(fv.Type()) || t.fields[fv] != nil {
				return
			}
			if al, ok := fa.X.(*ssa.Alloc); ok && searchKeyOnly(al) {
				// a struct literal built only to be looked up (slices.Index(list, T{…})): it never becomes
				// part of any state, so what it holds says nothing about the field elsewhere
				return
			}
			if o := t.of(x.Val); o != nil {
				if ok, _ := t.boundedAt(x.Val, x.Block(), 0); !ok || isContainer(fv.Type()) {
					t.fields[fv] = &origin{Desc: "stored unbounded into " + typeShort(derefType(fa.X.Type())) + "." + fv.Name() + " in " + fname(f), Pos: x.Pos(), Prev: o}
					t.changed = true
				}
			}
		case *ssa.Select:
			for _, st := range x.States {
				if st.Dir != types.SendOnly || st.Send == nil {
					continue
				}
				if fv := chanField(st.Chan); fv != nil && t.fields[fv] == nil {
					if o := t.of(st.Send); o != nil {
						t.fields[fv] = &origin{Desc: "sent on channel " + fv.Name() + " in " + fname(f), Pos: x.Pos(), Prev: o}
						t.changed = true
					}
				}
			}
			return
		case *ssa.Send:
			// a tainted value sent on a channel that lives in a struct field taints what is received from it
			if fv := chanField(x.Chan); fv != nil && t.fields[fv] == nil {
				if o := t.of(x.X); o != nil {
					t.fields[fv] = &origin{Desc: "sent on channel " + fv.Name() + " in " + fname(f), Pos: x.Pos(), Prev: o}
					t.changed = true
				}
			}
			return
		case ssa.CallInstruction:
			c := x.Common()
			if bi, ok := c.Value.(*ssa.Builtin); ok && bi.Name() == "copy" && len(c.Args) == 2 {
				// copy(dst, src): a locally made dst now holds src's elements
				dst := c.Args[0]
				if sl, ok := dst.(*ssa.Slice); ok {
					dst = sl.X
				}
				switch dst.(type) {
				case *ssa.MakeSlice, *ssa.Alloc:
					if t.extra[dst] == nil {
						if o := t.of(c.Args[1]); o != nil {
							t.extra[dst] = &origin{Desc: "copied into a local list in " + fname(f), Pos: in.Pos(), Prev: o}
							t.changed = true
							t.resetMemo()
						}
					}
				}
				return
			}
			var callee *ssa.Function
			var bindings []ssa.Value
			if sc := c.StaticCallee(); sc != nil {
				callee = sc
				if mc, ok := c.Value.(*ssa.MakeClosure); ok {
					bindings = mc.Bindings
				}
			}
			if callee == nil || callee.Blocks == nil || !t.cfg.Scope[relPkg(callee)] {
				return
			}
			for i, a := range c.Args {
				if i >= len(callee.Params) {
					break
				}
				p := callee.Params[i]
				if t.params[p] != nil || !(carries(a.Type()) || isFloat(a.Type())) {
					continue
				}
				if o := t.of(a); o != nil {
					ok, why := t.boundedAt(a, in.Block(), 0)
					if isContainer(a.Type()) {
						ok = false
					}
					if os.Getenv("STORCHECK_DEBUG_TAINT") != "" {
						fmt.Fprintf(os.Stderr, "taint-arg %s -> %s.%s bounded=%v (%s) at %s\n", exprStr(a), fname(callee), p.Name(), ok, why, t.cfg.P.pos(in.Pos()))
					}
					if !ok {
						t.params[p] = &origin{Desc: "argument " + p.Name() + " of " + fname(callee) + " called from " + fname(f), Pos: in.Pos(), Prev: o}
						t.changed = true
					}
				}
			}
			_ = bindings
		case *ssa.MakeClosure:
			fn, ok := x.Fn.(*ssa.Function)
			if !ok {
				return
			}
			for i, bnd := range x.Bindings {
				if i >= len(fn.FreeVars) {
					break
				}
				fvv := fn.FreeVars[i]
				if t.free[fvv] != nil {
					continue
				}
				// captured by reference: binding is an *Alloc; taint if any store is tainted
				var o *origin
				if al, ok := bnd.(*ssa.Alloc); ok {
					for _, r := range *al.Referrers() {
						if st, ok := r.(*ssa.Store); ok && st.Addr == ssa.Value(al) && isInteger(st.Val.Type()) {
							if oo := t.of(st.Val); oo != nil {
								if ok, _ := t.boundedAt(st.Val, st.Block(), 0); !ok {
									o = oo
								}
							}
						}
					}
				} else if isInteger(bnd.Type()) {
					if oo := t.of(bnd); oo != nil {
						if ok, _ := t.boundedAt(bnd, x.Block(), 0); !ok {
							o = oo
						}
					}
				}
				if o != nil {
					t.free[fvv] = &origin{Desc: "captured by " + fname(fn), Pos: x.Pos(), Prev: o}
					t.changed = true
				}
			}
		case *ssa.Return:
			if t.resultsAlways[f] == nil {
				// is a result tainted even when no parameter is? (evaluate with f's parameters taken as clean)
				saved := map[*ssa.Parameter]*origin{}
				for _, prm := range f.Params {
					if o := t.params[prm]; o != nil {
						saved[prm] = o
						delete(t.params, prm)
					}
				}
				memo, memoOK := t.memo, t.memoOK
				t.resetMemo()
				for _, res := range x.Results {
					if !carries(res.Type()) {
						continue
					}
					if o := t.of(res); o != nil {
						if ok, _ := t.boundedAt(res, x.Block(), 0); !ok || isContainer(res.Type()) {
							t.resultsAlways[f] = &origin{Desc: "returned by " + fname(f), Pos: x.Pos(), Prev: o}
							t.changed = true
						}
					}
				}
				for prm, o := range saved {
					t.params[prm] = o
				}
				t.memo, t.memoOK = memo, memoOK
			}
			if t.results[f] != nil {
				return
			}
			for _, res := range x.Results {
				if !carries(res.Type()) {
					continue
				}
				if o := t.of(res); o != nil {
					if ok, _ := t.boundedAt(res, x.Block(), 0); !ok || isContainer(res.Type()) {
						t.results[f] = &origin{Desc: "returned by " + fname(f), Pos: x.Pos(), Prev: o}
						t.changed = true
					}
				}
			}
		}
	})
}

// taintedFieldNames lists the struct fields found to carry unbounded attacker-chosen integers.
func (t *Taint) taintedFieldNames() []string {
	var out []string
	for _, o := range t.fields {
		out = append(out, o.Desc)
	}
	sort.Strings(out)
	return out
}

// allocFieldMutated: the local struct `al` has field #k stored after initialisation, or its address escapes.
func allocFieldMutated(al *ssa.Alloc, k int) bool {
	whole := 0
	for _, r := range *al.Referrers() {
		switch x := r.(type) {
		case *ssa.FieldAddr:
			if x.Field != k {
				continue
			}
			for _, rr := range *x.Referrers() {
				switch y := rr.(type) {
				case *ssa.Store:
					if y.Addr == ssa.Value(x) {
						return true
					}
					return true // address stored somewhere
				case *ssa.UnOp:
				case *ssa.DebugRef:
				default:
					return true
				}
			}
		case *ssa.Store:
			if x.Addr == ssa.Value(al) {
				whole++
			} else {
				return true
			}
		case *ssa.UnOp, *ssa.DebugRef:
		case *ssa.MakeClosure:
			// captured by a closure: look for stores in the closure? conservative: mutated only if
			// some closure stores through the free variable; closures here only read, but we do not
			// inspect them: treat as escaping unless the capture is read-only in every closure.
			if fn, ok := x.Fn.(*ssa.Function); ok {
				for i, b := range x.Bindings {
					if b == ssa.Value(al) && i < len(fn.FreeVars) {
						if freeVarFieldStored(fn.FreeVars[i], k) {
							return true
						}
					}
				}
			}
		default:
			return true
		}
	}
	return whole > 1
}

func freeVarFieldStored(fv *ssa.FreeVar, k int) bool {
	for _, r := range *fv.Referrers() {
		switch x := r.(type) {
		case *ssa.FieldAddr:
			if x.Field != k {
				continue
			}
			for _, rr := range *x.Referrers() {
				if _, ok := rr.(*ssa.UnOp); !ok {
					if _, isd := rr.(*ssa.DebugRef); !isd {
						return true
					}
				}
			}
		case *ssa.UnOp, *ssa.DebugRef:
		default:
			return true
		}
	}
	return false
}

// searchKeyOnly: the local struct is written field by field, loaded as a whole, and the loaded value is used only as
// the key of a read-only search (slices.Index, slices.Contains, …) or compared: it is never stored, appended, sent,
// returned or handed to module code.
func searchKeyOnly(al *ssa.Alloc) bool {
	searches := map[string]bool{"Index": true, "Contains": true, "IndexFunc": true, "ContainsFunc": true, "Equal": true, "BinarySearch": true}
	loads := 0
	for _, ref := range *al.Referrers() {
		switch x := ref.(type) {
		case *ssa.FieldAddr:
			for _, r2 := range *x.Referrers() {
				switch r2.(type) {
				case *ssa.Store, *ssa.UnOp, *ssa.DebugRef:
				default:
					return false
				}
			}
		case *ssa.DebugRef:
		case *ssa.UnOp:
			if x.Op != token.MUL {
				return false
			}
			loads++
			for _, r2 := range *x.Referrers() {
				switch y := r2.(type) {
				case *ssa.DebugRef:
				case *ssa.BinOp:
					if y.Op != token.EQL && y.Op != token.NEQ {
						return false
					}
				case *ssa.Call:
					pk, nm := calleePkgName(y)
					if pk != "slices" || !searches[nm] {
						return false
					}
				default:
					return false
				}
			}
		default:
			return false
		}
	}
	return loads > 0
}
