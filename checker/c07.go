package main

import (
	"fmt"
	"go/token"
	"go/types"
	"strings"

	"golang.org/x/tools/go/ssa"
)

func init() {
	register(&PropSpec{
		ID: "C07",
		Explanation: "Static decision of the structural conditions for handshakes that do not depend on TCP segmentation: " +
			"(R1) in packages crypto and protocol every partial read (io.ReadAtLeast, Read) has its returned count flow into the re-slice of the buffer it read into — a discarded count leaves unreceived zero bytes in a buffer that later stages treat as data — unless the read is provably full; the pattern search of synchronise runs over the whole accumulated buffer; " +
			"(R2) the surplus bytes returned by the handshake reach the message layer through an unbroken def-use chain (handshake result → NewPeer → TorAddPeer.Init → peer.Run → protocol.Reader → MultiReader(init, conn)), together with the (possibly wrapped) connection the handshake returned, and nobody else reads the connection; " +
			"(R3) on the encrypted path the server's reply is reachable only through a successful comparison of the MSE key's torrent with the info-hash of the BitTorrent handshake; (R4) every decrypt of the handshake (keystream advance) that consumes received bytes is kept: the pad lengths read from the peer are passed through decrypt before the buffer is advanced.",
		Rules:       []string{"R1 partial-read counts honoured (SSA def-use)", "R2 surplus and connection delivered once (def-use chain)", "R3 server hash check gates the reply (required-edge paths)", "R4 keystream advanced over every consumed encrypted byte"},
		NotDecided:  []string{"equality of outcomes for every segmentation of every byte stream (value property)", "that client and server compute the same values (see C08.R4 for the mirrored key schedule)"},
		Assumptions: []string{"io.ReadAtLeast/Read/ReadFull semantics", "bytes.Index finds every occurrence in the slice it is given"},
		Run:         runC07,
	})
}

func runC07(r *Report) {
	c07R1(r)
	c07R2(r)
	c07R3(r)
	c07R4(r)
	c07R5(r)
	c07R6(r)
}

// R5 (from round-2 seeded changes):
// (a) once the MSE handshake has returned, the BitTorrent handshake reads and writes through the connection it
//
//	returned: a read from the raw socket after negotiation takes ciphertext for the peer id and leaves the RC4
//	stream out of step — but only when those bytes arrive in a later segment than the rest (short or empty IA);
//
// (b) both ends agree on the mode: the server selects only what the client offered (C08.R1, shared).
func c07R5(r *Report) {
	p := r.P
	n := 0
	for _, sp := range [][2]string{{"ClientHandshake", "ClientHandshake"}, {"ServerHandshake", "ServerHandshake"}} {
		f := p.Func("protocol", sp[0])
		cf := p.Func("crypto", sp[1])
		if !r.Anchor("R5", "protocol."+sp[0], f != nil) || !r.Anchor("R5", "crypto."+sp[1], cf != nil) {
			continue
		}
		r.Fn(f)
		raw := f.Params[0]
		var neg []*ssa.Call
		allInstrs(f, func(in ssa.Instruction) {
			if c, ok := in.(*ssa.Call); ok && c.Call.StaticCallee() == cf {
				neg = append(neg, c)
			}
		})
		if len(neg) == 0 {
			r.Info("R5", sp[0]+"/no-mse-call", f.Pos(), "protocol.%s does not call crypto.%s", sp[0], sp[1])
			continue
		}
		harmless := map[string]bool{"SetDeadline": true, "SetReadDeadline": true, "SetWriteDeadline": true, "Close": true, "RemoteAddr": true, "LocalAddr": true}
		bad := ""
		allInstrs(f, func(in ssa.Instruction) {
			ci, ok := in.(ssa.CallInstruction)
			if !ok {
				return
			}
			cc := ci.Common()
			if cc.StaticCallee() == cf {
				return
			}
			uses := false
			if cc.IsInvoke() {
				if strip(cc.Value) == ssa.Value(raw) && !harmless[cc.Method.Name()] {
					uses = true
				}
			}
			for _, a := range cc.Args {
				if strip(a) == ssa.Value(raw) {
					uses = true
				}
			}
			if !uses {
				return
			}
			for _, nc := range neg {
				if instrReaches(nc, in) {
					bad = p.pos(in.Pos())
				}
			}
		})
		n++
		r.Check(bad == "", "R5", sp[0]+"/io-through-negotiated-conn", f.Pos(), "after the MSE handshake every read and write uses the connection it returned",
			"the raw socket is used ("+bad+") after crypto."+sp[1]+" has returned the negotiated connection: when RC4 was selected, bytes read there are ciphertext (a peer id made of ciphertext) and the cipher stream falls out of step — only for segmentations that deliver those bytes in a later read")
	}
	r.Sentinel("R5", n, 2)
	if sh := p.Func("crypto", "ServerHandshake"); sh != nil {
		c08R1(r.sub("R5"), sh)
	}
	// the client's side of the agreement, including what happens to the bytes glued to the server's reply (C08.R2/R3)
	if ch := p.Func("crypto", "ClientHandshake"); ch != nil {
		c08R2(r.sub("R5"), ch)
	}
}

// underlyingBuf follows re-slicing / append(buf, …) back to the buffer variable's defining values.
func flowsToSliceHigh(cnt ssa.Value, depth int, seen map[ssa.Value]bool) bool {
	if depth > 6 || seen[cnt] {
		return false
	}
	seen[cnt] = true
	for _, ref := range *cnt.Referrers() {
		switch x := ref.(type) {
		case *ssa.Slice:
			if x.High == cnt {
				return true
			}
		case *ssa.BinOp:
			if x.Op == token.ADD && flowsToSliceHigh(x, depth+1, seen) {
				return true
			}
		case *ssa.Phi:
			if flowsToSliceHigh(x, depth+1, seen) {
				return true
			}
		case *ssa.Convert:
			if flowsToSliceHigh(x, depth+1, seen) {
				return true
			}
		case *ssa.Return:
			// returned to the caller together with the buffer (named result n): acceptable when the
			// function is itself a Read-like method; checked by the caller rule
			if x.Parent().Name() == "Read" {
				return true
			}
		case *ssa.Store:
			// stored into a named result / local, then loaded: follow loads of that alloc
			if al, ok := x.Addr.(*ssa.Alloc); ok {
				for _, r2 := range *al.Referrers() {
					if ld, ok := r2.(*ssa.UnOp); ok && ld.Op == token.MUL {
						if flowsToSliceHigh(ld, depth+1, seen) {
							return true
						}
					}
				}
			}
		}
	}
	return false
}

func c07R1(r *Report) {
	p := r.P
	readCountsUsed(r, "R1", map[string]bool{"crypto": true, "protocol": true}, 6)
	c08ReadExact(r.sub("R1"), "R6")
	readFullChecked(r, "R1", map[string]bool{"crypto": true, "protocol": true}, 5)
	c07R1b(r, p)
}

// readCountsUsed: in the packages given, a read that may fill only part of its buffer (Read, ReadAtLeast with a
// minimum below the buffer's length) has its count used to cut the buffer down; io.ReadFull needs no such care.
func readCountsUsed(r *Report, rule string, pkgs map[string]bool, minN int) {
	p := r.P
	n := 0
	for _, f := range p.SrcFuncs() {
		pk := relPkg(f)
		if !pkgs[pk] {
			continue
		}
		allInstrs(f, func(in ssa.Instruction) {
			c, ok := in.(*ssa.Call)
			if !ok {
				return
			}
			kind := ""
			var buf, min ssa.Value
			switch {
			case isStdCall(c, "io", "", "ReadAtLeast"):
				kind, buf, min = "io.ReadAtLeast", c.Call.Args[1], c.Call.Args[2]
			case c.Call.IsInvoke() && c.Call.Method.Name() == "Read" && len(c.Call.Args) == 1 && isByteSlice(c.Call.Args[0].Type()):
				kind, buf = "Read", c.Call.Args[0]
			case !c.Call.IsInvoke() && c.Call.StaticCallee() != nil && c.Call.StaticCallee().Name() == "Read" && len(c.Call.Args) == 2 && isByteSlice(c.Call.Args[1].Type()) &&
				c.Call.StaticCallee().Signature.Recv() != nil:
				kind, buf = "Read", c.Call.Args[1]
			default:
				return
			}
			n++
			r.Fn(f)
			key := fmt.Sprintf("%s/%s(%s)", fname(f), kind, exprStr(buf))
			cnt := extractOf(c, 0)
			// full read: min == len(buf) structurally
			if min != nil {
				if cl, ok := min.(*ssa.Call); ok && isLenOf(cl, buf) {
					r.Ok(rule, key, c.Pos(), "full read (min == len(buf))")
					return
				}
				if ms, ok := buf.(*ssa.MakeSlice); ok && symEq(ms.Len, min, 0) {
					r.Ok(rule, key, c.Pos(), "full read (buffer made with the minimum length)")
					return
				}
			}
			if cnt == nil || len(*cnt.Referrers()) == 0 {
				r.Fail(rule, key, c.Pos(), "the byte count returned by %s is discarded while the buffer may be longer than the minimum: bytes that were never received (zeros) stay in the buffer and are parsed as data, so the outcome depends on how TCP segments the stream", kind)
				return
			}
			if flowsToSliceHigh(cnt, 0, map[ssa.Value]bool{}) {
				r.Ok(rule, key, c.Pos(), "the returned count bounds the re-slice of the buffer")
			} else {
				r.Fail(rule, key, c.Pos(), "the byte count returned by %s never bounds a re-slice of the buffer: unreceived bytes can be treated as received", kind)
			}
		})
	}
	r.Sentinel(rule+".partial-reads", n, minN)
}

func c07R1b(r *Report, p *Prog) {
	// synchronise searches the whole accumulated buffer
	if sy := p.Func("crypto", "synchronise"); r.Anchor("R1", "crypto.synchronise", sy != nil) {
		r.Fn(sy)
		ok := false
		allInstrs(sy, func(in ssa.Instruction) {
			c, isc := in.(*ssa.Call)
			if !isc || !isStdCall(c, "bytes", "", "Index") {
				return
			}
			// first argument is the buffer variable itself (phi of the parameter and the re-sliced appends), not a sub-slice
			if _, isSlice := c.Call.Args[0].(*ssa.Slice); !isSlice {
				ok = true
			} else if sl := c.Call.Args[0].(*ssa.Slice); sl.Low == nil {
				ok = true
			} else if mentionsLenOf(sl.Low, sy.Params[2], 0) {
				// an optimised search may skip what was already searched, but it has to back up by the
				// pattern length: accept any lower bound computed from len(pattern)
				ok = true
			}
		})
		r.Check(ok, "R1", "synchronise/search-whole-buffer", sy.Pos(), "the synchronisation pattern is searched in the whole accumulated buffer", "synchronise searches only a suffix of the accumulated buffer: a pattern that straddles two reads is never found")
	}
}

func isByteSlice(t types.Type) bool {
	s, ok := t.Underlying().(*types.Slice)
	if !ok {
		return false
	}
	b, ok := s.Elem().Underlying().(*types.Basic)
	return ok && b.Kind() == types.Uint8
}

func c07R2(r *Report) {
	p := r.P
	newPeer := p.Func("tor", "Torrent.NewPeer")
	run := p.Func("peer", "Run")
	reader := p.Func("protocol", "Reader")
	pnew := p.Func("peer", "New")
	if !r.Anchor("R2", "tor.(*Torrent).NewPeer", newPeer != nil) || !r.Anchor("R2", "peer.Run", run != nil) || !r.Anchor("R2", "protocol.Reader", reader != nil) || !r.Anchor("R2", "peer.New", pnew != nil) {
		return
	}
	n := 0
	// links 1: tor.Client / tor.Server hand the handshake's conn and init to NewPeer
	for _, sp := range [][2]string{{"Client", "ClientHandshake"}, {"Server", "ServerHandshake"}} {
		f := p.Func("tor", sp[0])
		hs := p.Func("protocol", sp[1])
		if !r.Anchor("R2", "tor."+sp[0], f != nil) || !r.Anchor("R2", "protocol."+sp[1], hs != nil) {
			continue
		}
		r.Fn(f)
		var hc *ssa.Call
		allInstrs(f, func(in ssa.Instruction) {
			if calleeOf(in) == hs {
				hc = in.(*ssa.Call)
			}
		})
		if hc == nil {
			r.Fail("R2", "tor."+sp[0]+"/handshake-call", f.Pos(), "tor.%s no longer calls protocol.%s", sp[0], sp[1])
			continue
		}
		for _, ci := range callsIn(f) {
			if ci.Common().StaticCallee() != newPeer {
				continue
			}
			n++
			a := ci.Common().Args // t, proxy, conn, addr, incoming, result, init
			r.Check(isOrCellOf(a[2], extractOf(hc, 0)), "R2", "tor."+sp[0]+"/NewPeer(conn)", ci.Pos(), "the peer is created on the connection the handshake returned (wrapped when encrypted)",
				"NewPeer is not given the connection returned by the handshake: an encrypted session would continue on the raw connection")
			r.Check(isOrCellOf(a[6], extractOf(hc, 2)), "R2", "tor."+sp[0]+"/NewPeer(init)", ci.Pos(), "the handshake's surplus bytes are handed to the peer", "NewPeer is not given the surplus bytes (init) returned by the handshake: bytes glued to the handshake are lost")
		}
	}
	// link 2: NewPeer -> peer.New(conn) and TorAddPeer{p, init}
	r.Fn(newPeer)
	okNew, okInit := false, false
	allInstrs(newPeer, func(in ssa.Instruction) {
		if calleeOf(in) == pnew {
			okNew = callArgs(in)[1] == ssa.Value(newPeer.Params[2])
		}
		if mi, ok := in.(*ssa.MakeInterface); ok {
			if sl := litOf(mi); sl != nil && sl.Type == "peer.TorAddPeer" {
				okInit = sl.Fields["Init"] == ssa.Value(newPeer.Params[6])
			}
		}
	})
	n += 2
	r.Check(okNew, "R2", "NewPeer/peer.New(conn)", newPeer.Pos(), "peer.New receives NewPeer's connection", "peer.New is not given NewPeer's conn parameter")
	r.Check(okInit, "R2", "NewPeer/TorAddPeer.Init", newPeer.Pos(), "TorAddPeer.Init carries NewPeer's init", "TorAddPeer.Init is not NewPeer's init parameter")
	// link 3: handleEvent: go peer.Run(c.Peer, …, c.Init)
	if he := p.Func("tor", "handleEvent"); r.Anchor("R2", "tor.handleEvent", he != nil) {
		okk := false
		allInstrs(he, func(in ssa.Instruction) {
			g, ok := in.(*ssa.Go)
			if !ok || g.Call.StaticCallee() != run {
				return
			}
			last := g.Call.Args[len(g.Call.Args)-1]
			if fv, _ := loadedField(last); fv != nil && fv.Name() == "Init" {
				okk = true
			}
		})
		n++
		r.Check(okk, "R2", "handleEvent/go-Run(c.Init)", he.Pos(), "peer.Run is started with the event's Init", "peer.Run is not started with TorAddPeer.Init")
	}
	// link 4: Run -> go protocol.Reader(peer.conn, init, …)
	r.Fn(run)
	okR := false
	connF := p.Field("peer", "Peer", "conn")
	runInit := ssa.Value(run.Params[len(run.Params)-1])
	allInstrs(run, func(in ssa.Instruction) {
		g, ok := in.(*ssa.Go)
		if !ok || g.Call.StaticCallee() != reader {
			return
		}
		fv, _ := loadedField(g.Call.Args[0])
		okR = g.Call.Args[1] == runInit && fv == connF
	})
	if !okR {
		// reader := startReader(peer, init, logger): a private helper of Run that starts the reader with the
		// connection of the peer and the init it is handed
		allInstrs(run, func(in ssa.Instruction) {
			c, ok := in.(*ssa.Call)
			if !ok || c.Call.IsInvoke() {
				return
			}
			h := c.Call.StaticCallee()
			if h == nil || h.Blocks == nil || relPkg(h) != "peer" || !p.inUnitOf(h, run) || len(c.Call.Args) != len(h.Params) {
				return
			}
			allInstrs(h, func(i2 ssa.Instruction) {
				g, ok := i2.(*ssa.Go)
				if !ok || g.Call.StaticCallee() != reader {
					return
				}
				fv, _ := loadedField(g.Call.Args[0])
				for k, prm := range h.Params {
					if g.Call.Args[1] == ssa.Value(prm) && c.Call.Args[k] == runInit && fv == connF {
						r.Fn(h)
						okR = true
					}
				}
			})
		})
	}
	n++
	r.Check(okR, "R2", "Run/go-Reader(peer.conn,init)", run.Pos(), "the reader goroutine gets the peer's connection and Run's init", "protocol.Reader is not started with (peer.conn, init)")
	// link 5: Reader prepends init exactly once
	r.Fn(reader)
	okM := false
	// in Reader itself, or in a private helper it hands (conn, init) to (withInitialData(c, init))
	for _, f := range p.SrcFuncs() {
		if relPkg(f) != "protocol" || !(f == reader || p.inUnitOf(f, reader)) {
			continue
		}
		// what Reader's init and conn are called in f
		var initV, connV ssa.Value
		if f == reader {
			initV, connV = reader.Params[1], reader.Params[0]
		} else {
			calls, esc := p.callSitesOf(f)
			if len(esc) > 0 || len(calls) != 1 || calls[0].Parent() != reader {
				continue
			}
			for i, a := range calls[0].Common().Args {
				if i >= len(f.Params) {
					break
				}
				if strip(a) == ssa.Value(reader.Params[1]) {
					initV = f.Params[i]
				}
				if strip(a) == ssa.Value(reader.Params[0]) {
					connV = f.Params[i]
				}
			}
		}
		if initV == nil || connV == nil {
			continue
		}
		allInstrs(f, func(in ssa.Instruction) {
			c, ok := in.(*ssa.Call)
			if !ok || !isStdCall(c, "io", "", "MultiReader") {
				return
			}
			el := variadicElems(c.Call.Args[0])
			if len(el) != 2 {
				return
			}
			first, _ := strip(el[0]).(*ssa.Call)
			if first != nil && isStdCall(first, "bytes", "", "NewReader") && first.Call.Args[0] == initV && strip(el[1]) == connV {
				okM = true
			}
		})
	}
	n++
	r.Check(okM, "R2", "Reader/MultiReader(init,conn)", reader.Pos(), "init is read before the connection, once", "protocol.Reader does not read MultiReader(bytes.NewReader(init), conn): surplus bytes are lost, duplicated or reordered")
	// nobody else reads the connection: no Read on a net.Conn in packages peer and tor
	bad := 0
	for _, f := range p.SrcFuncs() {
		if pk := relPkg(f); pk != "peer" && pk != "tor" {
			continue
		}
		allInstrs(f, func(in ssa.Instruction) {
			c, ok := in.(*ssa.Call)
			if ok && c.Call.IsInvoke() && c.Call.Method.Name() == "Read" && typeIs(c.Call.Value.Type(), "net", "Conn") {
				bad++
				r.Fail("R2", "other-reader/"+fname(f), c.Pos(), "%s reads the peer connection directly: bytes bypass the message reader", fname(f))
			}
		})
	}
	n++
	if bad == 0 {
		r.Ok("R2", "single-reader", token.NoPos, "only protocol.Reader reads a peer connection after the handshake")
	}
	r.Sentinel("R2", n, 8)
}

func c07R3(r *Report) {
	p := r.P
	sh := p.Func("protocol", "ServerHandshake")
	csh := p.Func("crypto", "ServerHandshake")
	if !r.Anchor("R3", "protocol.ServerHandshake", sh != nil) || !r.Anchor("R3", "crypto.ServerHandshake", csh != nil) {
		return
	}
	r.Fn(sh)
	var cc *ssa.Call
	allInstrs(sh, func(in ssa.Instruction) {
		if calleeOf(in) == csh {
			cc = in.(*ssa.Call)
		}
	})
	if cc == nil {
		r.Fail("R3", "ServerHandshake/crypto-call", sh.Pos(), "protocol.ServerHandshake no longer calls crypto.ServerHandshake")
		return
	}
	skey := extractOf(cc, 1)
	isReply := func(in ssa.Instruction) bool {
		c, ok := in.(*ssa.Call)
		if !ok || !c.Call.IsInvoke() || c.Call.Method.Name() != "Write" {
			return false
		}
		return true
	}
	eqCond := func(v ssa.Value) bool {
		c, ok := v.(*ssa.Call)
		if !ok {
			return false
		}
		cal := c.Call.StaticCallee()
		if cal == nil || cal.Name() != "Equal" || relPkg(cal) != "hash" {
			return false
		}
		// receiver derives from skey (through the named variable's phi)
		return derivesFrom(c.Call.Args[0], skey, 0) || derivesFrom(c.Call.Args[1], skey, 0)
	}
	// after a successful MSE handshake skey is non-nil (checked below in crypto.ServerHandshake): the
	// `skey == nil` edge is infeasible on paths that start at the crypto call
	skeyNil := func(cond ssa.Value, pol bool) bool {
		bo, ok := cond.(*ssa.BinOp)
		if !ok || !isNilConst(bo.Y) || !derivesFrom(bo.X, skey, 0) {
			return false
		}
		return (bo.Op == token.NEQ && !pol) || (bo.Op == token.EQL && pol)
	}
	// the comparison may be made in a helper (findTorrent(hashes, hsh, skey) → pair, err): inside it the key is the
	// parameter that receives skey, and — there as here — the `skey == nil` edge belongs to connections that made no
	// MSE handshake, so it counts as met
	matchS := func(subj []ssa.Value, cond ssa.Value, pol bool) bool {
		if len(subj) == 0 || subj[0] == nil {
			return false
		}
		k := subj[0]
		if c, ok := cond.(*ssa.Call); ok && pol {
			if cal := c.Call.StaticCallee(); cal != nil && cal.Name() == "Equal" && relPkg(cal) == "hash" && len(c.Call.Args) == 2 {
				if derivesFrom(c.Call.Args[0], k, 0) || derivesFrom(c.Call.Args[1], k, 0) {
					return true
				}
			}
		}
		if k != skey {
			if bo, ok := cond.(*ssa.BinOp); ok && isNilConst(bo.Y) && derivesFrom(bo.X, k, 0) {
				return (bo.Op == token.NEQ && !pol) || (bo.Op == token.EQL && pol)
			}
		}
		return false
	}
	_ = eqCond
	missing, reached := pathsMissingX(cc, -1, isReply, nil, []edgeReq{{Name: "skey.Equal(info-hash)", MatchS: matchS, Subj: []ssa.Value{skey}, ViaHelper: true,
		SubjSame: func(a, sv ssa.Value) bool { return derivesFrom(a, sv, 0) }}}, skeyNil)
	// premise: crypto.ServerHandshake never succeeds with a nil skey
	{
		r.Fn(csh)
		okPrem := true
		nsucc := 0
		ne := newNilEnv(p)
		for _, ret := range returnsOf(csh) {
			if ne.At(ret.Results[3], ret.Block()) == NonNil {
				continue
			}
			nsucc++
			// possibly-successful return: dominated by skey != nil
			g := false
			for _, gg := range guardsOf(ret.Block()) {
				gg = gg.norm()
				if bo, ok := gg.Cond.(*ssa.BinOp); ok && isNilConst(bo.Y) && isByteSlice(bo.X.Type()) {
					if (bo.Op == token.EQL && !gg.Pol) || (bo.Op == token.NEQ && gg.Pol) {
						g = true
					}
				}
			}
			// returns before the key lookup carry an error set earlier (named result) — only count returns after the lookup loop
			if !g && instrReachesFromNamed(csh, ret) {
				okPrem = false
			}
		}
		r.Check(okPrem && nsucc > 0, "R3", "crypto.ServerHandshake/success-implies-skey", csh.Pos(), "crypto.ServerHandshake returns success only with a matched torrent key", "crypto.ServerHandshake can return success without a matched torrent key (skey == nil)")
	}
	if reached == 0 {
		r.Undecided("R3", "ServerHandshake/reply-after-hash-check", cc.Pos(), "no handshake reply (conn.Write) reachable after the crypto handshake")
		return
	}
	r.Check(len(missing) == 0, "R3", "ServerHandshake/reply-after-hash-check", cc.Pos(), "after an MSE handshake the server replies only when the MSE key's torrent equals the info-hash in the BitTorrent handshake",
		"a path from the MSE handshake to the server's reply does not pass the skey/info-hash comparison: a peer can complete the handshake for a torrent other than the one whose key it proved")
}

func derivesFrom(v, src ssa.Value, d int) bool {
	if v == src {
		return true
	}
	if d > 5 || src == nil {
		return false
	}
	switch x := v.(type) {
	case *ssa.Phi:
		for _, e := range x.Edges {
			if derivesFrom(e, src, d+1) {
				return true
			}
		}
	case *ssa.ChangeType:
		return derivesFrom(x.X, src, d+1)
	case *ssa.Convert:
		return derivesFrom(x.X, src, d+1)
	case *ssa.UnOp:
		if x.Op == token.MUL {
			if al, ok := x.X.(*ssa.Alloc); ok {
				for _, ref := range *al.Referrers() {
					if st, ok := ref.(*ssa.Store); ok && st.Addr == ssa.Value(al) && derivesFrom(st.Val, src, d+1) {
						return true
					}
				}
			}
		}
	}
	return false
}

// R4: every time the handshake advances its buffer past bytes that were encrypted with the stream cipher (pads of a
// length announced by the peer), those bytes are first run through decrypt: otherwise the keystream is out of step
// with the sender for everything that follows.
func c07R4(r *Report) {
	p := r.P
	n := 0
	// derives: x is v, possibly converted
	var derives func(x, v ssa.Value) bool
	derives = func(x, v ssa.Value) bool {
		for d := 0; d < 6 && x != nil; d++ {
			if x == v {
				return true
			}
			cv, ok := x.(*ssa.Convert)
			if !ok {
				return false
			}
			x = cv.X
		}
		return false
	}
	// decryptsArg: call c runs its idx-th argument through the stream cipher. A call through a function-typed
	// parameter (decrypt func([]byte) []byte) is accepted provisionally: needFn records the parameter, to be checked
	// at the call sites of the enclosing helper.
	decryptsArg := func(c *ssa.Call, idx int, needFn *[]*ssa.Parameter) bool {
		if isStdCall(c, "crypto/rc4", "Cipher", "XORKeyStream") {
			return idx == 2
		}
		if h := c.Call.StaticCallee(); h != nil {
			if h.Blocks == nil || !strings.HasPrefix(funcPkgPath(h), modPath) {
				return false
			}
			k := idx
			if c.Call.IsInvoke() {
				return false
			}
			return xorsParam(h, k)
		}
		if prm, ok := c.Call.Value.(*ssa.Parameter); ok && needFn != nil {
			if _, isSig := prm.Type().Underlying().(*types.Signature); isSig && idx == 0 {
				*needFn = append(*needFn, prm)
				return true
			}
		}
		return false
	}
	// padHandled: in function f, every place where the buffer is advanced by v (x[v:]) is accompanied by a decrypting
	// call on x[:v]; v may be handed to a helper of the package, which is then examined in the same way.
	var padHandled func(f *ssa.Function, v ssa.Value, depth int) (skips int, ok bool)
	padHandled = func(f *ssa.Function, v ssa.Value, depth int) (int, bool) {
		var skips []*ssa.Slice
		type dec struct {
			c      *ssa.Call
			needFn []*ssa.Parameter
		}
		var decs []dec
		total, good := 0, true
		allInstrs(f, func(in ssa.Instruction) {
			switch x := in.(type) {
			case *ssa.Slice:
				if x.Low != nil && derives(x.Low, v) {
					skips = append(skips, x)
				}
			case *ssa.Call:
				var need []*ssa.Parameter
				for ai, a := range x.Call.Args {
					elems := []ssa.Value{a}
					if ve := variadicElems(a); ve != nil {
						elems = ve
					}
					for _, e := range elems {
						if sl, okS := e.(*ssa.Slice); okS && sl.Low == nil && sl.High != nil && derives(sl.High, v) && decryptsArg(x, ai, &need) {
							decs = append(decs, dec{x, need})
						}
					}
					// v handed to a helper
					if derives(a, v) && depth < 2 {
						if h := x.Call.StaticCallee(); h != nil && h.Blocks != nil && relPkg(h) == relPkg(f) && !x.Call.IsInvoke() && ai < len(h.Params) && h != f {
							k, okH := padHandled(h, h.Params[ai], depth+1)
							if k > 0 {
								total += k
								if !okH {
									good = false
								}
								// function-typed parameters of the helper used to decrypt: the caller passes a decrypting function
								for _, prm := range helperFnParams[h] {
									for pi, hp := range h.Params {
										if hp != prm || pi >= len(x.Call.Args) {
											continue
										}
										var fn *ssa.Function
										switch y := x.Call.Args[pi].(type) {
										case *ssa.MakeClosure:
											fn, _ = y.Fn.(*ssa.Function)
										case *ssa.Function:
											fn = y
										}
										if fn == nil || !xorsParam(fn, 0) {
											good = false
										}
									}
								}
							}
						}
					}
				}
			}
		})
		for _, sk := range skips {
			total++
			found := false
			for _, d := range decs {
				if instrDominates(d.c, sk) || instrDominates(sk, d.c) {
					found = true
					helperFnParams[f] = append(helperFnParams[f], d.needFn...)
				}
			}
			if !found {
				good = false
			}
		}
		return total, good
	}
	for _, name := range []string{"ClientHandshake", "ServerHandshake"} {
		f := p.Func("crypto", name)
		if !r.Anchor("R4", "crypto."+name, f != nil) {
			continue
		}
		r.Fn(f)
		// lengths announced by the peer inside the encrypted part: uint16 values read with binary.BigEndian.Uint16
		allInstrs(f, func(in ssa.Instruction) {
			c, ok := in.(*ssa.Call)
			if !ok || !isBEDecode(c, 16) || c.Parent() == nil || relPkg(c.Parent()) != "crypto" || (c.Call.StaticCallee() != nil && c.Call.StaticCallee() == c.Parent()) {
				return
			}
			helperFnParams = map[*ssa.Function][]*ssa.Parameter{}
			k, okH := padHandled(f, c, 0)
			if k == 0 {
				return // the value does not advance the buffer
			}
			n++
			key := fmt.Sprintf("%s/pad(%s)-decrypted", name, exprStr(c))
			r.Check(okH, "R4", key, c.Pos(), "bytes of a length announced by the peer are run through the stream cipher wherever the buffer is advanced past them",
				"the pad of peer-announced length is skipped without being decrypted: the RC4 keystream falls out of step and every later byte decrypts to garbage (only visible with a peer that sends a non-empty pad)")
		})
	}
	r.Sentinel("R4", n, 2)
}

// helperFnParams: per helper, the function-typed parameters through which it decrypts (scratch of c07R4).
var helperFnParams = map[*ssa.Function][]*ssa.Parameter{}

// derivesFromSliceHigh: v is x[:h] (or a variable assigned from it) with h derived from lenv.
func derivesFromSliceHigh(v, lenv ssa.Value) bool {
	sl, ok := v.(*ssa.Slice)
	if !ok || sl.High == nil {
		return false
	}
	h := sl.High
	for {
		if h == lenv {
			return true
		}
		cv, ok := h.(*ssa.Convert)
		if !ok {
			return false
		}
		h = cv.X
	}
}

// instrReachesFromNamed: ret is reachable from the Conn literal / final write region, i.e. it is one of the
// late returns of the handshake (after the reply write). Early returns always carry the error just assigned.
func instrReachesFromNamed(f *ssa.Function, ret *ssa.Return) bool {
	var w ssa.Instruction
	allInstrs(f, func(in ssa.Instruction) {
		if c, ok := in.(*ssa.Call); ok && c.Call.IsInvoke() && c.Call.Method.Name() == "Write" {
			w = in
		}
	})
	return w != nil && instrReaches(w, ret)
}

// mentionsLenOf: the expression tree of v contains len(of).
func mentionsLenOf(v, of ssa.Value, d int) bool {
	if d > 6 {
		return false
	}
	if isLenOf(v, of) {
		return true
	}
	switch x := v.(type) {
	case *ssa.BinOp:
		return mentionsLenOf(x.X, of, d+1) || mentionsLenOf(x.Y, of, d+1)
	case *ssa.Convert:
		return mentionsLenOf(x.X, of, d+1)
	case *ssa.Phi:
		for _, e := range x.Edges {
			if mentionsLenOf(e, of, d+1) {
				return true
			}
		}
	case *ssa.Call:
		if bi, ok := x.Call.Value.(*ssa.Builtin); ok && (bi.Name() == "max" || bi.Name() == "min") {
			for _, a := range x.Call.Args {
				if mentionsLenOf(a, of, d+1) {
					return true
				}
			}
		}
	}
	return false
}

// xorsParam: the function passes the bytes of its idx-th parameter (a []byte, or the elements of a ...[]byte) to
// rc4.Cipher.XORKeyStream as the source operand.
func xorsParam(f *ssa.Function, idx int) bool {
	if idx >= len(f.Params) {
		return false
	}
	seen := map[ssa.Value]bool{}
	var flows func(v ssa.Value, d int) bool
	flows = func(v ssa.Value, d int) bool {
		if v == nil || seen[v] || d > 10 || v.Referrers() == nil {
			return false
		}
		seen[v] = true
		for _, ref := range *v.Referrers() {
			switch x := ref.(type) {
			case *ssa.Call:
				if isStdCall(x, "crypto/rc4", "Cipher", "XORKeyStream") && len(x.Call.Args) == 3 && x.Call.Args[2] == v {
					return true
				}
			case *ssa.Index, *ssa.Phi, *ssa.Range, *ssa.Next, *ssa.Extract, *ssa.ChangeType:
				if flows(x.(ssa.Value), d+1) {
					return true
				}
			case *ssa.IndexAddr:
				if x.X == v && flows(x, d+1) {
					return true
				}
			case *ssa.UnOp:
				if x.Op == token.MUL && flows(x, d+1) {
					return true
				}
			case *ssa.Slice:
				// v[:] keeps every byte
				if x.X == v && x.Low == nil && x.High == nil && flows(x, d+1) {
					return true
				}
			}
		}
		return false
	}
	return flows(f.Params[idx], 0)
}

// c07R6: two more conditions of "the outcome does not depend on how the streams are cut".
//
// (a) A stage that may find part of its bytes already in the buffer asks the connection for what is missing, not for
// the whole stage: io.ReadAtLeast(conn, buf[l:], n-l). With `n` as the minimum the stage fails ("short buffer") or
// waits for bytes the peer will never send exactly when a segment boundary fell inside the previous stage's surplus.
// The two readMore siblings (crypto, protocol) are judged by the same rule.
//
// (b) In the MSE handshakes each side sends a message of a length the other side does not know while the other side
// may itself still be sending (pads): such a write overlaps the reading — it is started with writeAsync and its
// result collected only after a read. A blocking conn.Write followed by a read in the same function waits for a peer
// that is itself waiting: over a transport that does not buffer, the handshake then succeeds or times out depending
// on how the first reads happened to be cut.
func c07R6(r *Report) {
	p := r.P
	// (a)
	n := 0
	for _, f := range p.SrcFuncs() {
		if pk := relPkg(f); pk != "crypto" && pk != "protocol" {
			continue
		}
		allInstrs(f, func(in ssa.Instruction) {
			c, ok := in.(*ssa.Call)
			if !ok || !isStdCall(c, "io", "", "ReadAtLeast") || len(c.Call.Args) != 3 {
				return
			}
			n++
			r.Fn(f)
			good := true
			why := ""
			if sl, isSl := strip(c.Call.Args[1]).(*ssa.Slice); isSl && sl.Low != nil {
				if k, isK := constInt(sl.Low); !(isK && k == 0) {
					// the minimum must be (something) - low
					bo, isB := stripIntConv(c.Call.Args[2]).(*ssa.BinOp)
					if !isB || bo.Op != token.SUB || stripIntConv(bo.Y) != stripIntConv(sl.Low) {
						good = false
						why = fmt.Sprintf("the destination starts at %s but the minimum %s is not reduced by it", exprStr(sl.Low), exprStr(c.Call.Args[2]))
					}
				}
			}
			r.Check(good, "R1", fname(f)+"/ReadAtLeast-min-is-what-is-missing", c.Pos(), "the minimum asked of the connection is the stage's length minus what the buffer already holds",
				"a handshake stage asks the connection for its whole length although part of it is already in the buffer ("+why+"): when the previous read brought some of this stage's bytes along, the stage fails with a short buffer or waits for bytes that will never come — the outcome depends on where the segment boundaries fell")
		})
	}
	r.Sentinel("R1.readatleast", n, 2)
	// (b)
	wa := p.Func("crypto", "writeAsync")
	if !r.Anchor("R1", "crypto.writeAsync", wa != nil) {
		return
	}
	isRead := func(in ssa.Instruction) bool {
		c, ok := in.(*ssa.Call)
		if !ok {
			return false
		}
		if c.Call.IsInvoke() {
			return c.Call.Method.Name() == "Read"
		}
		h := c.Call.StaticCallee()
		if h == nil {
			return false
		}
		if relPkg(h) == "crypto" && (h.Name() == "synchronise" || h.Name() == "readMore") {
			return true
		}
		return isStdCall(c, "io", "", "ReadFull") || isStdCall(c, "io", "", "ReadAtLeast")
	}
	nW := 0
	for _, name := range []string{"ClientHandshake", "ServerHandshake"} {
		f := p.Func("crypto", name)
		if f == nil {
			continue
		}
		r.Fn(f)
		allInstrs(f, func(in ssa.Instruction) {
			c, ok := in.(*ssa.Call)
			if !ok || !c.Call.IsInvoke() || c.Call.Method.Name() != "Write" || !typeIs(c.Call.Value.Type(), "net", "Conn") {
				return
			}
			nW++
			var rd ssa.Instruction
			allInstrs(f, func(i2 ssa.Instruction) {
				if rd == nil && isRead(i2) && instrReaches(c, i2) {
					rd = i2
				}
			})
			msg := ""
			if rd != nil {
				msg = fmt.Sprintf("crypto.%s writes to the connection synchronously and reads from it afterwards (%s): while this side waits for the write to be taken, the peer may be waiting for its own write (a pad of a length this side cannot know) to be read — whether the handshake completes then depends on how the earlier reads were cut and on the transport's buffering", name, p.Fset.Position(rd.Pos()))
			}
			r.Check(rd == nil, "R1", name+"/no-blocking-write-before-a-read", c.Pos(), "a synchronous write is the last thing the handshake does with the connection", msg)
		})
	}
	r.Sentinel("R1.sync-writes", nW, 1)
}

// isOrCellOf: v is the value want, or a load of a variable's cell (a variable captured by a closure lives in one) whose
// last store before the load is want.
func isOrCellOf(v, want ssa.Value) bool {
	if v == want {
		return true
	}
	ld, ok := v.(*ssa.UnOp)
	if !ok || ld.Op != token.MUL || want == nil {
		return false
	}
	cell, ok := ld.X.(*ssa.Alloc)
	if !ok {
		return false
	}
	var st0 *ssa.Store
	for _, ref := range *cell.Referrers() {
		if st, isSt := ref.(*ssa.Store); isSt && st.Addr == ssa.Value(cell) && st.Val == want {
			st0 = st
		}
	}
	if st0 == nil || !instrReaches(st0, ld) {
		return false
	}
	for _, ref := range *cell.Referrers() {
		if st, isSt := ref.(*ssa.Store); isSt && st != st0 && st.Addr == ssa.Value(cell) && st.Parent() == ld.Parent() && instrReaches(st0, st) && instrReaches(st, ld) {
			return false
		}
	}
	return true
}
