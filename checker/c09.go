package main

import (
	"fmt"
	"go/token"
	"go/types"
	"sort"
	"strings"

	"golang.org/x/tools/go/ssa"
)

func init() {
	register(&PropSpec{
		ID: "C09",
		Explanation: "Static decision of the structural conditions for conserved scheduler bookkeeping: " +
			"(R1) Torrent.inFlight and Torrent.available are written only by noteInFlight / noteAvailable, whose callers are the enumerated increment and decrement sites, all confined to the torrent's event-loop goroutine (no exported entry, go target or escaping function value reaches them), and increments happen only after the peer accepted the command; " +
			"(R2) in package peer every removal of a request from the request queue (Del, DelRequested, Dequeue, Clear, Expire, failed Enqueue of a commanded block) is followed on every path by exactly the report that lets the torrent decrement: drop, a TorData event, or putting the request back — path exploration over the CFG with the removal's boolean results as excuses; " +
			"(R3) increments and decrements count in the same unit: the decrementing handlers' loop bound is ceil(Length/ChunkSize); " +
			"(R4) every mutation of a peer's advertised bitmap is mirrored by the matching have(true)/have(false) event, overwrites are preceded by a retraction, and bitmaps handed to the torrent are copies. These hold for every history because they quantify over CFG paths and call sites.",
		Rules: []string{"R1 counter writers enumerated and loop-confined (E-who + E-cone)", "R2 every removed request is reported (E-must, path exploration)",
			"R3 unit agreement ceil(Length/ChunkSize) on the decrement side", "R4 peer bitmap mutations mirrored by availability events; events carry copies"},
		NotDecided:  []string{"equality of the counters with the true counts at quiescence over whole histories", "that exactly one (not two) report is sent per removal when a path contains several report calls", "events still in transit"},
		Assumptions: []string{"cgo/DHT callbacks do not call into package tor's unexported functions (outside the call graph)"},
		Run:         runC09,
	})
}

// ---------- struct literal helpers ----------

type structLit struct {
	Type   string
	Named  *types.Named
	Fields map[string]ssa.Value
	MI     *ssa.MakeInterface
}

// litOf decodes `make iface <- T(load of complit alloc)`.
func litOf(v ssa.Value) *structLit {
	mi, ok := v.(*ssa.MakeInterface)
	if !ok {
		return nil
	}
	sl := &structLit{Type: typeShort(mi.X.Type()), Fields: map[string]ssa.Value{}, MI: mi}
	sl.Named, _ = mi.X.Type().(*types.Named)
	ld, ok := mi.X.(*ssa.UnOp)
	if !ok || ld.Op != token.MUL {
		return sl
	}
	al, ok := ld.X.(*ssa.Alloc)
	if !ok {
		return sl
	}
	best := map[string]*ssa.Store{}
	for _, ref := range *al.Referrers() {
		fa, ok := ref.(*ssa.FieldAddr)
		if !ok {
			continue
		}
		fv := fieldVar(fa)
		for _, r2 := range *fa.Referrers() {
			st, ok := r2.(*ssa.Store)
			if !ok || st.Addr != ssa.Value(fa) || fv == nil {
				continue
			}
			// the value the field holds when the literal is boxed: the closest store that precedes the
			// MakeInterface (named locals such as `m := T{…}; …; m.Data = nil` are stored to again later)
			if !instrDominates(st, ld) {
				continue
			}
			if prev, has := best[fv.Name()]; has && !instrDominates(prev, st) {
				continue
			}
			best[fv.Name()] = st
			sl.Fields[fv.Name()] = st.Val
		}
	}
	return sl
}

// eventCall: instr is writeEvent(peer, T{...}) (package peer) — returns the literal.
func eventCall(in ssa.Instruction) *structLit {
	c, ok := in.(*ssa.Call)
	if !ok {
		return nil
	}
	f := c.Call.StaticCallee()
	if f == nil || f.Name() != "writeEvent" || len(c.Call.Args) != 2 {
		return nil
	}
	return litOf(c.Call.Args[1])
}

func isCallNamed(in ssa.Instruction, pkg, name string) bool {
	f := calleeOf(in)
	return f != nil && f.Name() == name && relPkg(f) == pkg
}

// callsTransitively: fn (a closure or small helper) contains a call satisfying pred.
func containsCall(fn *ssa.Function, pred func(ssa.Instruction) bool) bool {
	return anyInstr(fn, pred) != nil
}

// ---------- R2 path exploration ----------

type excuse struct {
	V   ssa.Value
	Pol bool
}

type mustCfg struct {
	start    ssa.Instruction
	isReport func(ssa.Instruction) bool
	excuses  []excuse // all must be taken for the path to be excused; empty = never excused
}

// unreportedExits explores the CFG forward from cfg.start and returns the instructions at which a path
// ends (function return, or arriving at start again) without having passed a report and without being excused.
func unreportedExits(cfg mustCfg) []ssa.Instruction {
	type st struct {
		b    *ssa.BasicBlock
		mask int
	}
	full := 1<<len(cfg.excuses) - 1
	seen := map[st]bool{}
	var out []ssa.Instruction
	var walk func(b *ssa.BasicBlock, from, mask int)
	walk = func(b *ssa.BasicBlock, from, mask int) {
		for i := from; i < len(b.Instrs); i++ {
			in := b.Instrs[i]
			if in == cfg.start {
				out = append(out, in) // came around a loop
				return
			}
			if cfg.isReport(in) {
				return
			}
			switch t := in.(type) {
			case *ssa.Return:
				out = append(out, in)
				return
			case *ssa.Panic:
				return
			case *ssa.If:
				g := Guard{Cond: t.Cond, Pol: true}.norm()
				for si, succ := range b.Succs {
					pol := (si == 0) == g.Pol // polarity of g.Cond on this edge
					m := mask
					dead := false
					for k, ex := range cfg.excuses {
						if ex.V == g.Cond {
							if ex.Pol == pol {
								m |= 1 << k
							} else {
								// the opposite edge: this excuse can no longer be completed
								dead = true
							}
						}
					}
					_ = dead
					if len(cfg.excuses) > 0 && m == full {
						continue // excused
					}
					s := st{succ, m}
					if !seen[s] {
						seen[s] = true
						walk(succ, 0, m)
					}
				}
				return
			}
		}
		for _, succ := range b.Succs {
			s := st{succ, mask}
			if !seen[s] {
				seen[s] = true
				walk(succ, 0, mask)
			}
		}
	}
	walk(cfg.start.Block(), instrIndex(cfg.start)+1, 0)
	return out
}

// extractsOf returns the Extract #k values of a tuple-returning call (or the call itself for single results).
func extractOf(c *ssa.Call, k int) ssa.Value {
	for _, ref := range *c.Referrers() {
		if ex, ok := ref.(*ssa.Extract); ok && ex.Index == k {
			return ex
		}
	}
	return nil
}

func c09R2(r *Report) {
	p := r.P
	c09DataReleases(r, "R2")
	reqPkg := "peer/requests"
	isReport := func(in ssa.Instruction) bool {
		if isCallNamed(in, "peer", "drop") {
			return true
		}
		if isCallNamed(in, reqPkg, "EnqueueRequest") {
			return true
		}
		if sl := eventCall(in); sl != nil && (sl.Type == "peer.TorData" || sl.Type == "peer.TorDrop") {
			return true
		}
		return false
	}
	dropCallback := func(v ssa.Value) bool {
		var fn *ssa.Function
		switch x := v.(type) {
		case *ssa.MakeClosure:
			fn, _ = x.Fn.(*ssa.Function)
		case *ssa.Function:
			fn = x
		}
		if fn == nil {
			return false
		}
		return containsCall(fn, func(in ssa.Instruction) bool {
			if !isCallNamed(in, "peer", "drop") {
				return false
			}
			// the dropped chunk is the callback's parameter
			args := callArgs(in)
			return len(args) == 2 && len(fn.Params) >= 1 && args[1] == ssa.Value(fn.Params[len(fn.Params)-1])
		})
	}
	n := 0
	for _, f := range p.SrcFuncs() {
		if relPkg(f) != "peer" {
			continue
		}
		for _, ci := range callsIn(f) {
			c, ok := ci.(*ssa.Call)
			if !ok {
				continue
			}
			cal := c.Call.StaticCallee()
			if cal == nil || relPkg(cal) != reqPkg {
				continue
			}
			pos := c.Pos()
			key := fmt.Sprintf("%s/requests.%s", fname(f), cal.Name())
			report := func(exits []ssa.Instruction, what string) {
				n++
				r.Fn(f)
				if len(exits) == 0 {
					r.Ok("R2", key, pos, "%s: every path on which a request was removed reaches drop / TorData / EnqueueRequest", what)
				} else {
					var ls []string
					for _, e := range exits {
						ls = append(ls, p.pos(e.Pos()))
					}
					r.Fail("R2", key, pos, "%s: a path on which the request was removed ends (at %s) without drop, TorData or EnqueueRequest: the torrent never decrements the block's in-flight count and stops requesting it", what, strings.Join(dedupe(ls), ", "))
				}
			}
			switch cal.Name() {
			case "Del":
				q, rr := extractOf(c, 0), extractOf(c, 1)
				var ex []excuse
				if q != nil {
					ex = append(ex, excuse{q, false})
				}
				if rr != nil {
					ex = append(ex, excuse{rr, false})
				}
				if len(ex) < 2 {
					// a result is ignored: the removal cannot be excused by it
					ex = nil
				}
				report(unreportedExits(mustCfg{c, isReport, ex}), "Del (removes a queued or requested block when q||r)")
			case "DelRequested":
				report(unreportedExits(mustCfg{c, isReport, []excuse{{c, false}}}), "DelRequested (removes when true)")
			case "Dequeue":
				report(unreportedExits(mustCfg{c, isReport, nil}), "Dequeue (always removes the head of the queue)")
			case "Clear":
				n++
				r.Fn(f)
				r.Check(len(c.Call.Args) == 3 && dropCallback(c.Call.Args[2]), "R2", key, pos, "Clear's callback drops each removed block", "Clear is called with a callback that does not drop the removed block")
			case "Expire":
				n++
				r.Fn(f)
				r.Check(len(c.Call.Args) == 5 && dropCallback(c.Call.Args[3]), "R2", key, pos, "Expire's drop callback drops each expired block", "Expire is called with a drop callback that does not drop the removed block")
			case "Enqueue":
				// a commanded block that is not enqueued must be dropped: excuse = the true edge of the
				// boolean that carries Enqueue's result (possibly through a phi with constant false).
				// When the call sits in a private helper that hands that boolean back (enqueue(peer, chunk) bool:
				// every return is `false` or Enqueue's own result), the obligation is the caller's: the rule is
				// applied to each call of the helper instead.
				var checkAt func(c *ssa.Call, depth int)
				checkAt = func(c *ssa.Call, depth int) {
					f := c.Parent()
					var carrier ssa.Value = c
					for _, ref := range *c.Referrers() {
						if ph, ok := ref.(*ssa.Phi); ok {
							okPhi := true
							for _, e := range ph.Edges {
								if e == ssa.Value(c) {
									continue
								}
								if b, isb := constBool(e); !isb || b {
									okPhi = false
								}
							}
							if okPhi {
								carrier = ph
							}
						}
					}
					// hands the boolean back?
					if depth < 3 && f.Parent() == nil && f.Signature.Results().Len() == 1 && types.Identical(f.Signature.Results().At(0).Type(), types.Typ[types.Bool]) {
						if obj, ok := f.Object().(*types.Func); ok && !obj.Exported() {
							hands := true
							for _, ret := range returnsOf(f) {
								v := retResults(ret)[0]
								if b, isb := constBool(v); isb && !b {
									continue
								}
								if v == carrier || v == ssa.Value(c) {
									continue
								}
								hands = false
							}
							calls, escapes := p.callSitesOf(f)
							if hands && len(escapes) == 0 && len(calls) > 0 {
								for _, cs := range calls {
									cc, ok := cs.(*ssa.Call)
									if !ok || relPkg(cs.Parent()) != "peer" {
										hands = false
									}
									_ = cc
								}
								if hands {
									for _, cs := range calls {
										checkAt(cs.(*ssa.Call), depth+1)
									}
									return
								}
							}
						}
					}
					// exploration starts at the loop-body entry: the first instruction of the block that
					// dominates the Enqueue call and extracts the range element; approximate by the call to fromChunk
					start := ssa.Instruction(c)
					for _, ci2 := range callsIn(f) {
						if c2, ok := ci2.(*ssa.Call); ok && isCallNamed(c2, "peer", "fromChunk") && c2.Block().Dominates(c.Block()) {
							if ph, isPhi := carrier.(*ssa.Phi); isPhi && c2.Block().Dominates(ph.Block()) {
								start = c2
							}
						}
					}
					key = fmt.Sprintf("%s/requests.%s", fname(f), cal.Name())
					pos = c.Pos()
					report(unreportedExits(mustCfg{start, isReport, []excuse{{carrier, true}}}), "Enqueue (a commanded block that is refused or not advertised must be dropped)")
				}
				checkAt(c, 0)
			}
		}
	}
	r.Sentinel("R2", n, 8)

	// inside package requests: Expire drops what it deletes; Clear calls f for every removed entry
	if ex := p.Func(reqPkg, "Requests.Expire"); r.Anchor("R2", "requests.(*Requests).Expire", ex != nil) {
		r.Fn(ex)
		for _, ci := range callsIn(ex) {
			c, ok := ci.(*ssa.Call)
			if !ok || !isCallNamed(c, reqPkg, "DelRequested") {
				continue
			}
			exits := unreportedExits(mustCfg{c, func(in ssa.Instruction) bool {
				cc, ok := in.(*ssa.Call)
				return ok && cc.Call.Value == ssa.Value(ex.Params[3]) // drop callback parameter
			}, nil})
			// the `!found → panic` branch is not an exit
			r.Check(len(exits) == 0, "R2", "requests.Expire/DelRequested-then-drop", c.Pos(), "Expire calls the drop callback for every request it deletes", "Expire deletes a request without calling the drop callback")
		}
	}
}

// ---------- R1 ----------

func c09R1(r *Report) {
	p := r.P
	run := p.Func("tor", "Torrent.run")
	if !r.Anchor("R1", "tor.(*Torrent).run", run != nil) {
		return
	}
	outside := outsideReach(p, map[*ssa.Function]bool{run: true})
	cone := loopCone(p, run)
	type ctr struct {
		field  string
		writer string
	}
	for _, c := range []ctr{{"inFlight", "noteInFlight"}, {"available", "noteAvailable"}} {
		fv := p.Field("tor", "Torrent", c.field)
		wf := p.Func("tor", c.writer)
		if !r.Anchor("R1", "tor.Torrent."+c.field, fv != nil) || !r.Anchor("R1", "tor."+c.writer, wf != nil) {
			continue
		}
		// who writes elements of the counter (store through an IndexAddr of the loaded slice) or the slice itself
		writers := map[*ssa.Function]token.Pos{}
		readers := map[*ssa.Function]bool{}
		for _, acc := range p.fieldAccesses(fv) {
			fa, ok := acc.Instr.(*ssa.FieldAddr)
			if !ok {
				readers[acc.Fn] = true
				continue
			}
			if acc.Write {
				// a store of the slice itself: growing it by zero counters (append(t.available, make(…)…)) keeps every
				// existing counter and adds blocks nobody has counted yet; anything else is a counter write
				grows := false
				for _, ref := range *fa.Referrers() {
					st, ok := ref.(*ssa.Store)
					if !ok || st.Addr != ssa.Value(fa) {
						continue
					}
					if ap, ok := st.Val.(*ssa.Call); ok {
						if bi, okb := ap.Call.Value.(*ssa.Builtin); okb && bi.Name() == "append" && len(ap.Call.Args) == 2 {
							f0, _ := loadedField(ap.Call.Args[0])
							_, zeros := ap.Call.Args[1].(*ssa.MakeSlice)
							if f0 == fv && zeros {
								grows = true
							}
						}
					}
				}
				if !grows {
					writers[acc.Fn] = fa.Pos()
				}
			}
			for _, ref := range *fa.Referrers() {
				ld, ok := ref.(*ssa.UnOp)
				if !ok {
					continue
				}
				readers[acc.Fn] = true
				for _, r2 := range *ld.Referrers() {
					if ia, ok := r2.(*ssa.IndexAddr); ok {
						for _, r3 := range *ia.Referrers() {
							if st, ok := r3.(*ssa.Store); ok && st.Addr == ssa.Value(ia) {
								writers[acc.Fn] = st.Pos()
							}
						}
					}
				}
			}
		}
		for f, pos := range writers {
			key := fmt.Sprintf("writes(%s)/%s", c.field, fname(f))
			r.Fn(f)
			switch {
			case f == wf:
				r.Ok("R1", key, pos, "%s is written by its designated writer", c.field)
			case p.inUnitOf(f, wf):
				r.Ok("R1", key, pos, "%s is written by a private helper of its designated writer %s", c.field, c.writer)
			case f.Name() == "MetadataComplete" && c.field == "inFlight":
				r.Ok("R1", key, pos, "exception: MetadataComplete allocates the (all-zero) counter array once, before any request exists")
			default:
				r.Fail("R1", key, pos, "%s is modified outside %s: a second writer bypasses the overflow/underflow checks and the increment/decrement pairing", c.field, c.writer)
			}
		}
		// confinement of every function touching the counter
		var fs []*ssa.Function
		for f := range readers {
			fs = append(fs, f)
		}
		for f := range writers {
			if !readers[f] {
				fs = append(fs, f)
			}
		}
		sort.Slice(fs, func(i, j int) bool { return fname(fs[i]) < fname(fs[j]) })
		for _, f := range fs {
			key := fmt.Sprintf("confined(%s)/%s", c.field, fname(f))
			if f.Name() == "MetadataComplete" {
				r.Ok("R1", key, f.Pos(), "exception: MetadataComplete runs before the torrent is published (ReadTorrent) or inside the loop (gotMetadata); it only replaces the slice")
				continue
			}
			if why, out := outside[enclosingNamed(f)]; out || outside[f] != "" {
				if why == "" {
					why = outside[f]
				}
				r.Fail("R1", key, f.Pos(), "%s touches Torrent.%s but is reachable from outside the torrent's event loop (%s): data race on the scheduler counters", fname(f), c.field, why)
			} else if !cone[f] {
				r.Info("R1", key, f.Pos(), "not reachable from run at all (dead code?)")
			} else {
				r.Ok("R1", key, f.Pos(), "reachable only through (*Torrent).run")
			}
		}
		// call sites of the writer, by constant direction
		calls, esc := p.callSitesOf(wf)
		for _, e := range esc {
			r.Fail("R1", "escapes/"+c.writer, e.Pos(), "%s is used as a function value: its callers can no longer be enumerated", c.writer)
		}
		for _, cs := range calls {
			f := cs.Parent()
			args := cs.Common().Args
			dir := "var"
			if b, ok := constBool(args[len(args)-1]); ok {
				if b {
					dir = "inc"
				} else {
					dir = "dec"
				}
			}
			key := fmt.Sprintf("call(%s,%s)/%s", c.writer, dir, fname(enclosingNamed(f)))
			owner := enclosingNamed(f).Name()
			// the enumerated sites, or private helpers factored out of them (reserveChunks)
			inUnit := func(names ...string) bool {
				var roots []*ssa.Function
				for _, nm := range names {
					if owner == nm {
						return true
					}
					if rf := p.Func("tor", nm); rf != nil {
						roots = append(roots, rf)
					}
				}
				return len(roots) > 0 && relPkg(f) == "tor" && p.inUnitOf(enclosingNamed(f), roots...)
			}
			okSite := false
			switch c.writer {
			case "noteInFlight":
				okSite = (dir == "inc" && inUnit("request", "maybeWebseed")) || (dir == "dec" && inUnit("handleEvent"))
			case "noteAvailable":
				okSite = inUnit("handleEvent")
			}
			if okSite {
				r.Ok("R1", key, cs.Pos(), "%s %s site in %s", c.writer, dir, owner)
			} else {
				r.Fail("R1", key, cs.Pos(), "unexpected %s(%s) call in %s: the enumerated increment sites are request and maybeWebseed, the decrement sites the TorData/TorDrop handlers", c.writer, dir, owner)
			}
		}
	}
	// request(): increments only after the peer accepted the command
	if req := p.Func("tor", "request"); r.Anchor("R1", "tor.request", req != nil) {
		r.Fn(req)
		for _, ci := range callsIn(req) {
			if !isCallNamed(ci, "tor", "noteInFlight") {
				continue
			}
			ok := false
			for _, g := range guardsOf(ci.Block()) {
				if x, isNil, okn := nilFact(g); okn && isNil {
					if c, isc := x.(*ssa.Call); isc && isCallNamed(c, "tor", "maybeWritePeer") {
						ok = true
					}
				}
			}
			r.Check(ok, "R1", "request/inc-after-accept", ci.Pos(), "blocks are counted in flight only when maybeWritePeer succeeded", "noteInFlight(true) in request is not guarded by maybeWritePeer's success: blocks are counted that no peer was asked for")
		}
	}
}

// ---------- R3 ----------

func c09R3(r *Report) {
	p := r.P
	he := p.Func("tor", "handleEvent")
	if !r.Anchor("R3", "tor.handleEvent", he != nil) {
		return
	}
	r.Fn(he)
	n := 0
	chunk, okc := chunkSizeConst(p)
	if !r.Anchor("R3", "config.ChunkSize", okc) {
		return
	}
	// loop bounds in the decrementing handlers: a value `x / ChunkSize` compared with a loop counter,
	// in a loop that calls noteInFlight(…, false)
	for _, ci := range callsIn(he) {
		if !isCallNamed(ci, "tor", "noteInFlight") {
			continue
		}
		args := ci.Common().Args
		if b, ok := constBool(args[len(args)-1]); !ok || b {
			continue
		}
		// find the dominating loop guard i < bound
		var bound ssa.Value
		for _, g := range guardsOf(ci.Block()) {
			bo, ok := g.Cond.(*ssa.BinOp)
			if !ok || bo.Op != token.LSS || !g.Pol {
				continue
			}
			if _, _, isCtr := loopCounter(bo.X); isCtr {
				bound = bo.Y
				break
			}
		}
		n++
		ev := eventTypeOfBlock(ci.Block())
		key := fmt.Sprintf("handleEvent/%s/dec-loop-bound", ev)
		if bound == nil {
			r.Undecided("R3", key, ci.Pos(), "cannot find the loop bound that drives noteInFlight(false)")
			continue
		}
		divForm := c09DivForm(chunk)
		q, base, add, why := divForm(bound, 0)
		if q == nil {
			r.Undecided("R3", key, ci.Pos(), "%s", why)
			continue
		}
		// ceil form: (Length + ChunkSize-1) / ChunkSize
		fv, _ := loadedField(stripIntConv(base))
		isLen := fv != nil && fv.Name() == "Length"
		switch {
		case isLen && add == chunk-1:
			r.Ok("R3", key, q.Pos(), "decrements ceil(Length/%d) blocks: a short final block is released", chunk)
		case isLen && add == 0 && hasGuard(ci.Block(), func(op token.Token, x, y ssa.Value) bool {
			rem, okr := x.(*ssa.BinOp)
			z, okz := constInt(y)
			return op == token.EQL && okz && z == 0 && okr && rem.Op == token.REM && symEq(rem.X, q.X, 0)
		}):
			r.Ok("R3", key, q.Pos(), "Length is a multiple of the block size here")
		default:
			r.Fail("R3", key, q.Pos(), "the handler releases floor(Length/%d) blocks (%s) while requests reserve one block per started %d bytes: a short final block (torrent length not a multiple of the block size) is never released and, after maxInFlight fetches, never requested again", chunk, exprStr(bound), chunk)
		}
	}
	r.Sentinel("R3", n, 2)
	// increment side in maybeWebseed: for i := 0; i < l; i += ChunkSize
	if mw := p.Func("tor", "maybeWebseed"); r.Anchor("R3", "tor.maybeWebseed", mw != nil) {
		r.Fn(mw)
		for _, ci := range callsIn(mw) {
			if !isCallNamed(ci, "tor", "noteInFlight") {
				continue
			}
			ok := false
			for _, g := range guardsOf(ci.Block()) {
				bo, isb := g.Cond.(*ssa.BinOp)
				if !isb || bo.Op != token.LSS || !g.Pol {
					continue
				}
				if init, step, isCtr := loopCounter(bo.X); isCtr && init == 0 && step == chunk {
					ok = true
				} else if isCtr && init == 0 && step == 1 {
					// for i := 0; i < chunks; i++ with chunks = ceil(l / ChunkSize), possibly from a helper
					if q, _, add, _ := c09DivForm(chunk)(bo.Y, 0); q != nil && add == chunk-1 {
						ok = true
					}
				}
			}
			r.Check(ok, "R3", "maybeWebseed/inc-loop-step", ci.Pos(), "reserves one block per started block-size bytes of the hole (ceil)", "the reservation loop in maybeWebseed does not step by the block size from 0")
		}
	}
}

// c09DivForm returns the recogniser of "x / ChunkSize" forms (see c09R3).
func c09DivForm(chunk int64) func(v ssa.Value, d int) (q *ssa.BinOp, base ssa.Value, add int64, why string) {
	var divForm func(v ssa.Value, d int) (q *ssa.BinOp, base ssa.Value, add int64, why string)
	// divForm: v is x / ChunkSize; returns x split as base + const. Seen through a helper of package tor that
	// computes the count from one of its parameters (chunkSpan(t, index, begin, length) → first, count, err):
	// every return's value is either the constant 0 (the error returns) or the same form of the same parameter.
	divForm = func(v ssa.Value, d int) (*ssa.BinOp, ssa.Value, int64, string) {
		v = stripIntConv(v)
		if ex, ok := v.(*ssa.Extract); ok && d < 3 {
			if call, ok := ex.Tuple.(*ssa.Call); ok {
				h := call.Call.StaticCallee()
				if h != nil && h.Blocks != nil && relPkg(h) == "tor" && !call.Call.IsInvoke() {
					var q0 *ssa.BinOp
					idx, add0 := -1, int64(0)
					for _, ret := range returnsOf(h) {
						res := retResults(ret)
						if ex.Index >= len(res) {
							return nil, nil, 0, "helper result missing"
						}
						if k, isk := constInt(res[ex.Index]); isk && k == 0 {
							continue
						}
						q, base, add, why := divForm(res[ex.Index], d+1)
						if q == nil {
							return nil, nil, 0, why
						}
						prm, isP := stripIntConv(base).(*ssa.Parameter)
						if !isP {
							return nil, nil, 0, "the helper's count is not computed from one of its parameters"
						}
						k := -1
						for i, pp := range h.Params {
							if pp == prm {
								k = i
							}
						}
						if k < 0 || (idx >= 0 && (idx != k || add0 != add)) {
							return nil, nil, 0, "the helper's returns compute the count differently"
						}
						q0, idx, add0 = q, k, add
					}
					if idx >= 0 && idx < len(call.Call.Args) {
						return q0, call.Call.Args[idx], add0, ""
					}
				}
			}
		}
		q, ok := v.(*ssa.BinOp)
		if !ok || q.Op != token.QUO {
			return nil, nil, 0, fmt.Sprintf("loop bound %s is not a division by the block size", exprStr(v))
		}
		if c, okk := constInt(q.Y); !okk || c != chunk {
			return nil, nil, 0, fmt.Sprintf("loop bound divides by %s, not by the block size", exprStr(q.Y))
		}
		base, add := splitAddConst(q.X)
		return q, base, add, ""
	}
	return divForm
}

func chunkSizeConst(p *Prog) (int64, bool) {
	pk := p.Pkg("config")
	if pk == nil {
		return 0, false
	}
	c, ok := pk.Types.Scope().Lookup("ChunkSize").(*types.Const)
	if !ok {
		return 0, false
	}
	v, ok2 := constantInt64(c)
	return v, ok2
}

// eventTypeOfBlock: the asserted type of the type-switch case that dominates block b.
func eventTypeOfBlock(b *ssa.BasicBlock) string {
	for _, g := range guardsOf(b) {
		if ex, ok := g.Cond.(*ssa.Extract); ok && ex.Index == 1 && g.Pol {
			if ta, ok := ex.Tuple.(*ssa.TypeAssert); ok {
				return typeShort(ta.AssertedType)
			}
		}
	}
	return "?"
}

// ---------- R4 ----------

func c09R4(r *Report) {
	p := r.P
	// the peer loop answers queries and reports to the torrent with copies of its bitmap and lists
	stateRefsSent(r, "R4", func(f *ssa.Function) bool { return relPkg(f) == "peer" },
		func(t types.Type) bool { return typeIs(derefType(t), modPath+"/peer", "Peer") }, 2)
	stateRefsSent(r, "R4", func(f *ssa.Function) bool { return relPkg(f) == "tor" },
		func(t types.Type) bool { return typeIs(derefType(t), modPath+"/tor", "Torrent") }, 1)
	sentSlicesNotReused(r, "R4", map[string]bool{"tor": true, "peer": true}, 1)
	bm := p.Field("peer", "Peer", "bitmap")
	if !r.Anchor("R4", "peer.Peer.bitmap", bm != nil) {
		return
	}
	haveEvent := func(in ssa.Instruction, typ string, have bool) bool {
		sl := eventCall(in)
		if sl == nil || sl.Type != typ {
			return false
		}
		v, ok := sl.Fields["Have"]
		if !ok {
			return !have // zero value
		}
		b, isb := constBool(v)
		return isb && b == have
	}
	n := 0
	for _, f := range p.SrcFuncs() {
		if relPkg(f) != "peer" {
			continue
		}
		allInstrs(f, func(in ssa.Instruction) {
			switch x := in.(type) {
			case *ssa.Call:
				cal := x.Call.StaticCallee()
				if cal == nil || relPkg(cal) != "bitmap" || len(x.Call.Args) == 0 {
					return
				}
				fa, ok := x.Call.Args[0].(*ssa.FieldAddr)
				if !ok || fieldVar(fa) != bm {
					return
				}
				switch cal.Name() {
				case "Set", "SetMultiple":
					n++
					r.Fn(f)
					key := fmt.Sprintf("%s/bitmap.%s", fname(f), cal.Name())
					exits := exitsAvoiding(in, func(i ssa.Instruction) bool {
						return haveEvent(i, "peer.TorPeerHave", true) || haveEvent(i, "peer.TorPeerBitmap", true)
					}, false)
					r.Check(len(exits) == 0, "R4", key, x.Pos(), "the newly advertised piece(s) are reported with have=true on every path",
						"a path after setting bits in the peer's bitmap returns without a TorPeerHave/TorPeerBitmap{…, true} event: the torrent's availability undercounts this peer")
				case "Reset":
					n++
					r.Fn(f)
					key := fmt.Sprintf("%s/bitmap.Reset", fname(f))
					exits := exitsAvoiding(in, func(i ssa.Instruction) bool { return haveEvent(i, "peer.TorPeerHave", false) }, false)
					r.Check(len(exits) == 0, "R4", key, x.Pos(), "the withdrawn piece is reported with have=false on every path",
						"a path after clearing a bit in the peer's bitmap returns without TorPeerHave{…, false}: availability stays too high")
				}
			case *ssa.Store:
				fa, ok := x.Addr.(*ssa.FieldAddr)
				if !ok || fieldVar(fa) != bm {
					return
				}
				if al, isAl := fa.X.(*ssa.Alloc); isAl && al.Comment == "complit" {
					return
				}
				n++
				r.Fn(f)
				kind := "value"
				if isNilConst(x.Val) {
					kind = "nil"
				}
				key := fmt.Sprintf("%s/bitmap=%s", fname(f), kind)
				// backwards: every path reaching the store passed a retraction, a store of nil, or the
				// false edge of `bitmap != nil`
				if ok, where := retractedBefore(x, bm, func(i ssa.Instruction) bool { return haveEvent(i, "peer.TorPeerBitmap", false) }); ok {
					if kind == "value" {
						exits := exitsAvoiding(in, func(i ssa.Instruction) bool { return haveEvent(i, "peer.TorPeerBitmap", true) }, false)
						r.Check(len(exits) == 0, "R4", key, x.Pos(), "the previous bitmap is retracted (or was nil) before the overwrite and the new one is announced on every path",
							"the new bitmap is not announced with TorPeerBitmap{…, true} on every path")
					} else {
						r.Ok("R4", key, x.Pos(), "the previous bitmap is retracted (or was nil) on every path reaching the overwrite")
					}
				} else {
					r.Fail("R4", key, x.Pos(), "a path reaches this overwrite of the peer's bitmap (from %s) without retracting the old bitmap (TorPeerBitmap{old, false}) and without knowing it is nil: the pieces it advertised stay counted forever", where)
				}
			}
		})
		// aliasing: bitmaps handed to the torrent are copies
		allInstrs(f, func(in ssa.Instruction) {
			sl := eventCall(in)
			if sl == nil || sl.Type != "peer.TorPeerBitmap" {
				return
			}
			n++
			r.Fn(f)
			v := sl.Fields["Bitmap"]
			okCopy := false
			if c, ok := v.(*ssa.Call); ok {
				if cal := c.Call.StaticCallee(); cal != nil && cal.Name() == "Copy" && relPkg(cal) == "bitmap" {
					// fresh: the copy is used by nothing but this event
					uses := 0
					for _, ref := range *c.Referrers() {
						if _, isd := ref.(*ssa.DebugRef); !isd {
							uses++
						}
					}
					okCopy = uses == 1
				}
			}
			key := fmt.Sprintf("%s/TorPeerBitmap-carries-copy", fname(f))
			if !okCopy {
				// sharing is harmless when the peer drops its own reference before it can mutate the
				// array again: on every path the next thing that happens to Peer.bitmap is an overwrite
				// (or the peer's goroutine is ending: the function closes Peer.Done)
				if fv, _ := loadedField(v); fv == bm {
					exits := exitsAvoiding(in, func(i ssa.Instruction) bool {
						st, ok := i.(*ssa.Store)
						if !ok {
							return false
						}
						fa, ok := st.Addr.(*ssa.FieldAddr)
						return ok && fieldVar(fa) == bm
					}, false)
					mut := anyMutationBeforeOverwrite(in, bm)
					dying := false
					if done := p.Field("peer", "Peer", "Done"); done != nil {
						for _, c := range closesIn(f) {
							if cs := chanSourceOf(c.Call.Args[0]); cs.Field == done {
								dying = true
							}
						}
					}
					if (len(exits) == 0 && !mut) || dying {
						r.Ok("R4", key, in.Pos(), "the event shares the array, but the peer drops its reference before any further mutation")
						return
					}
				}
			}
			r.Check(okCopy, "R4", key, in.Pos(), "the event carries a private copy of the bitmap",
				"the TorPeerBitmap event shares its backing array with the live peer bitmap: a later Have/DontHave handled before the torrent consumes the event is counted twice (or retracted twice)")
		})
	}
	r.Sentinel("R4", n, 12)
}

// retractedBefore explores backwards from the store: each path must meet a retraction, a nil store to the
// same field, or arrive through the false edge of `field != nil` (true edge of `field == nil`).
func retractedBefore(st *ssa.Store, fv *types.Var, isRetract func(ssa.Instruction) bool) (bool, string) {
	return retractedBeforeAt(st.Block(), instrIndex(st), fv, isRetract, 0)
}

var helperRetractsMemo = map[*ssa.Function]int{}

// helperRetracts: every return of the package-local helper h is reached only after a retraction, a nil store or the
// knowledge that the field is nil (forgetBitmap(peer)).
func helperRetracts(h *ssa.Function, fv *types.Var, isRetract func(ssa.Instruction) bool, depth int) bool {
	if h == nil || h.Blocks == nil || depth > 2 {
		return false
	}
	switch helperRetractsMemo[h] {
	case 1:
		return true
	case 2, 3:
		return false
	}
	helperRetractsMemo[h] = 3
	ok := len(returnsOf(h)) > 0
	for _, ret := range returnsOf(h) {
		if good, _ := retractedBeforeAt(ret.Block(), instrIndex(ret), fv, isRetract, depth+1); !good {
			ok = false
			break
		}
	}
	if ok {
		helperRetractsMemo[h] = 1
	} else {
		helperRetractsMemo[h] = 2
	}
	return ok
}

func retractedBeforeAt(startB *ssa.BasicBlock, startIdx int, fv *types.Var, isRetract func(ssa.Instruction) bool, depth int) (bool, string) {
	seen := map[*ssa.BasicBlock]bool{}
	bad := ""
	var walk func(b *ssa.BasicBlock, upto int) bool
	isNilGuardEdge := func(pred, to *ssa.BasicBlock) bool {
		if len(pred.Instrs) == 0 {
			return false
		}
		iff, ok := pred.Instrs[len(pred.Instrs)-1].(*ssa.If)
		if !ok || pred.Succs[0] == pred.Succs[1] {
			return false
		}
		g := Guard{Cond: iff.Cond, Pol: pred.Succs[0] == to}.norm()
		bo, ok := g.Cond.(*ssa.BinOp)
		if !ok || (bo.Op != token.NEQ && bo.Op != token.EQL) || !isNilConst(bo.Y) {
			return false
		}
		f2, _ := loadedField(bo.X)
		if f2 != fv {
			return false
		}
		isNil := (bo.Op == token.EQL) == g.Pol
		return isNil
	}
	walk = func(b *ssa.BasicBlock, upto int) bool {
		for i := upto - 1; i >= 0; i-- {
			in := b.Instrs[i]
			if isRetract(in) {
				return true
			}
			if s2, ok := in.(*ssa.Store); ok {
				if fa, ok := s2.Addr.(*ssa.FieldAddr); ok && fieldVar(fa) == fv && isNilConst(s2.Val) {
					return true
				}
			}
			if c, ok := in.(*ssa.Call); ok {
				if h := c.Call.StaticCallee(); h != nil && !c.Call.IsInvoke() && h.Blocks != nil && funcPkgPath(h) == funcPkgPath(startB.Parent()) && h != startB.Parent() {
					if helperRetracts(h, fv, isRetract, depth) {
						return true
					}
				}
			}
		}
		if len(b.Preds) == 0 {
			bad = "function entry"
			return false
		}
		for _, pr := range b.Preds {
			if isNilGuardEdge(pr, b) {
				continue
			}
			if seen[pr] {
				continue
			}
			seen[pr] = true
			if !walk(pr, len(pr.Instrs)) {
				return false
			}
		}
		return true
	}
	ok := walk(startB, startIdx)
	return ok, bad
}

func runC09(r *Report) {
	c09R1(r)
	c09R2(r)
	c09R3(r)
	c09R4(r)
	c09R5(r)
	c09R5b(r)
	c09R6(r)
	c14R2(r.sub("R7"))
}

// anyMutationBeforeOverwrite: some path from `from` reaches a mutating bitmap call on the field before a store to it.
func anyMutationBeforeOverwrite(from ssa.Instruction, bm *types.Var) bool {
	found := false
	seen := map[*ssa.BasicBlock]bool{}
	var walk func(b *ssa.BasicBlock, idx int)
	walk = func(b *ssa.BasicBlock, idx int) {
		for i := idx; i < len(b.Instrs); i++ {
			switch x := b.Instrs[i].(type) {
			case *ssa.Store:
				if fa, ok := x.Addr.(*ssa.FieldAddr); ok && fieldVar(fa) == bm {
					return
				}
			case *ssa.Call:
				if cal := x.Call.StaticCallee(); cal != nil && relPkg(cal) == "bitmap" && len(x.Call.Args) > 0 {
					if fa, ok := x.Call.Args[0].(*ssa.FieldAddr); ok && fieldVar(fa) == bm {
						switch cal.Name() {
						case "Set", "SetMultiple", "Reset", "Extend":
							found = true
							return
						}
					}
				}
			}
		}
		for _, s := range b.Succs {
			if !seen[s] {
				seen[s] = true
				walk(s, 0)
			}
		}
	}
	walk(from.Block(), instrIndex(from)+1)
	return found
}

// R5 (from a round-2 seeded change): what the peer side reports is accepted by the torrent side. peer.drop always
// reports a whole nominal block (TorDrop{index, begin, ChunkSize}), also for the short final block of the torrent,
// so the range test that precedes the decrement in the TorData/TorDrop handlers must compare Begin+Length with a
// bound that does not depend on the piece: with a per-piece bound (the real length of the last piece) the drop of
// the final short block is refused and its in-flight count never comes down.
func c09R5(r *Report) {
	p := r.P
	he := p.Func("tor", "handleEvent")
	if !r.Anchor("R5", "tor.handleEvent", he != nil) {
		return
	}
	r.Fn(he)
	n := 0
	// judge(f, isIdx, isLen): every branch of f whose condition involves the length subject must not compare it with
	// something computed from the index subject
	var judge func(f *ssa.Function, isIdx, isLen func(ssa.Value) bool, only func(*ssa.BasicBlock) bool, ev string, depth int)
	judge = func(f *ssa.Function, isIdx, isLen func(ssa.Value) bool, only func(*ssa.BasicBlock) bool, ev string, depth int) {
		allInstrs(f, func(in ssa.Instruction) {
			if only != nil && !only(in.Block()) {
				return
			}
			switch x := in.(type) {
			case *ssa.If:
				bo, ok := x.Cond.(*ssa.BinOp)
				if !ok {
					return
				}
				switch bo.Op {
				case token.LSS, token.GTR, token.LEQ, token.GEQ:
				default:
					return
				}
				var other ssa.Value
				if mentions(bo.X, isLen, 0) {
					other = bo.Y
				} else if mentions(bo.Y, isLen, 0) {
					other = bo.X
				} else {
					return
				}
				n++
				key := fmt.Sprintf("%s/%s/range-bound-not-per-piece", fname(f), ev)
				r.Check(!mentions(other, isIdx, 0), "R5", key, x.Pos(), "the block range is tested against a bound that is the same for every piece",
					"the TorData/TorDrop range test compares Begin+Length with "+exprStr(other)+", which depends on the piece index: peers report dropped blocks with the nominal block size, so the drop of the short final block of the torrent is refused and its in-flight count is never decremented (the block is not requested again after maxInFlight tries)")
			case *ssa.Call:
				// a validation helper handed the event's index and length
				h := x.Call.StaticCallee()
				if depth > 1 || h == nil || h.Blocks == nil || relPkg(h) != "tor" || x.Call.IsInvoke() {
					return
				}
				ik, lk := -1, -1
				for k, a := range x.Call.Args {
					if isIdx(stripIntConv(a)) {
						ik = k
					}
					if isLen(stripIntConv(a)) {
						lk = k
					}
				}
				if ik < 0 || lk < 0 || ik >= len(h.Params) || lk >= len(h.Params) {
					return
				}
				ip, lp := h.Params[ik], h.Params[lk]
				judge(h, func(v ssa.Value) bool { return v == ssa.Value(ip) }, func(v ssa.Value) bool { return v == ssa.Value(lp) }, nil, ev, depth+1)
			}
		})
	}
	for _, ev := range []string{"peer.TorData", "peer.TorDrop"} {
		ev := ev
		inCase := func(b *ssa.BasicBlock) bool { return eventTypeOfBlock(b) == ev }
		fieldOf := func(name string) func(ssa.Value) bool {
			return func(v ssa.Value) bool {
				fv, base := loadedFieldAny(v)
				if fv == nil || fv.Name() != name || base == nil {
					return false
				}
				return typeShort(derefType(base.Type())) == ev
			}
		}
		judge(he, fieldOf("Index"), fieldOf("Length"), inCase, ev, 0)
	}
	r.Sentinel("R5", n, 2)
}

// R6 (from a round-2 seeded change): a peer's events reach the torrent in the order they were produced. Events that
// cannot be delivered at once wait in peer.events; every send on peer.torEvent therefore either delivers the head of
// that queue or, for a new event, is made only when the queue is empty. A new event that overtakes queued ones
// (a bitmap retraction before the bitmap it retracts) leaves the availability counters off by one for good.
func c09R6(r *Report) {
	p := r.P
	te := p.Field("peer", "Peer", "torEvent")
	evs := p.Field("peer", "Peer", "events")
	if !r.Anchor("R6", "peer.Peer.torEvent", te != nil) || !r.Anchor("R6", "peer.Peer.events", evs != nil) {
		return
	}
	var isHead func(v ssa.Value, d int) bool
	isHead = func(v ssa.Value, d int) bool {
		if d > 3 {
			return false
		}
		switch x := v.(type) {
		case *ssa.UnOp:
			if x.Op == token.MUL {
				if ia, ok := x.X.(*ssa.IndexAddr); ok {
					if k, okk := constInt(ia.Index); okk && k == 0 {
						fv, _ := loadedField(ia.X)
						return fv == evs
					}
				}
			}
		case *ssa.Phi:
			some := false
			for _, e := range x.Edges {
				if isNilConst(e) {
					continue
				}
				if !isHead(e, d+1) {
					return false
				}
				some = true
			}
			return some
		}
		return false
	}
	n := 0
	for _, f := range p.SrcFuncs() {
		if relPkg(f) != "peer" {
			continue
		}
		for _, op := range chanOpsIn(f) {
			for _, st := range op.States {
				if st.Dir != types.SendOnly {
					continue
				}
				cs := chanSourceOf(st.Chan)
				if cs.Field != te {
					continue
				}
				n++
				r.Fn(f)
				key := fmt.Sprintf("%s/send(torEvent)#%d", fname(f), n)
				if isHead(st.Send, 0) {
					r.Ok("R6", key, st.Pos, "delivers the head of the queue")
					continue
				}
				empty := p.guardedIP(op.Instr, func(g Guard) bool {
					opc, x, y, ok := cmpFact(g)
					if !ok {
						return false
					}
					isLenEvs := func(v ssa.Value) bool {
						c, ok := stripIntConv(v).(*ssa.Call)
						if !ok {
							return false
						}
						bi, ok := c.Call.Value.(*ssa.Builtin)
						if !ok || bi.Name() != "len" {
							return false
						}
						fv, _ := loadedField(c.Call.Args[0])
						return fv == evs
					}
					kx, okx := constInt(x)
					ky, oky := constInt(y)
					switch {
					case isLenEvs(x) && oky:
						return (opc == token.EQL && ky == 0) || (opc == token.LEQ && ky == 0) || (opc == token.LSS && ky == 1)
					case isLenEvs(y) && okx:
						return (opc == token.EQL && kx == 0) || (opc == token.GEQ && kx == 0) || (opc == token.GTR && kx == 1)
					}
					if nx, isNil, okn := nilFact(g); okn && isNil {
						fv, _ := loadedField(nx)
						return fv == evs
					}
					return false
				}, 0)
				r.Check(empty, "R6", key, st.Pos, "a new event is sent directly only when nothing is queued before it",
					"a new event is sent on peer.torEvent without testing that peer.events is empty: it overtakes the events waiting in the overflow queue (e.g. TorPeerBitmap(false) before the queued TorPeerBitmap(true)), and the torrent's availability/in-flight counters end up wrong after the peer is gone")
			}
		}
	}
	r.Sentinel("R6", n, 3)
}

// R5 (continued): a peer reports one dropped block per TorDrop. Every TorDrop value that package peer turns into an
// event is a literal whose Length is the nominal block size: the torrent's handler refuses a range that leaves the
// piece ("TorDrop spans pieces") without releasing anything, so an event that was merged or extended across a piece
// boundary leaves its whole run in flight for good.
func c09R5b(r *Report) {
	p := r.P
	n := 0
	chunk, okc := configConst(p, "ChunkSize")
	if !r.Anchor("R5", "config.ChunkSize", okc) {
		return
	}
	for _, f := range p.SrcFuncs() {
		if relPkg(f) != "peer" {
			continue
		}
		allInstrs(f, func(in ssa.Instruction) {
			mi, ok := in.(*ssa.MakeInterface)
			if !ok || typeShort(mi.X.Type()) != "peer.TorDrop" {
				return
			}
			n++
			r.Fn(f)
			key := fmt.Sprintf("%s/TorDrop-is-one-block", fname(f))
			sl := litOf(mi)
			okLit := false
			if sl != nil {
				if k, okk := constInt(sl.Fields["Length"]); okk && k == chunk {
					okLit = true
				}
			}
			r.Check(okLit, "R5", key, mi.Pos(), "the event is a fresh TorDrop of one nominal block",
				"a TorDrop event in package peer is not a literal with Length == ChunkSize (it was taken from the queue and extended, or built with another length): a range that crosses a piece boundary is refused by the torrent's handler and none of its blocks is released")
		})
	}
	r.Sentinel("R5.drops", n, 1)
}

// c09DataReleases: a TorData event stands for a request that has been taken out of a peer's (or a web-seed fetch's)
// bookkeeping, and the torrent counts off ceil(Length/16384) blocks for it. Its Length is therefore positive wherever
// the event is built: with Length 0 nothing is counted off and the block stays in flight for ever — once that has
// happened maxInFlight times the block is never requested from anybody again (F30: a peer answering requests with
// Piece messages that carry no data).
func c09DataReleases(r *Report, rule string) {
	p := r.P
	env := &IntEnv{}
	n := 0
	for _, f := range p.SrcFuncs() {
		if pk := relPkg(f); pk != "peer" && pk != "tor" {
			continue
		}
		allInstrs(f, func(in ssa.Instruction) {
			mi, ok := in.(*ssa.MakeInterface)
			if !ok {
				return
			}
			sl := litOf(mi)
			if sl == nil || sl.Type != "peer.TorData" {
				return
			}
			n++
			r.Fn(f)
			lv := sl.Fields["Length"]
			good := false
			why := "the event is built without a Length"
			if lv != nil {
				iv := env.At(lv, mi.Block())
				// a length converted from an int: the bound may be stated on the value before the conversion
				if cv, isCv := lv.(*ssa.Convert); isCv && iv.Lo < 1 {
					if iv2 := env.At(cv.X, mi.Block()); iv2.Lo >= 1 {
						iv = iv2
					}
				}
				good = iv.Lo >= 1
				why = fmt.Sprintf("Length %s is only known to be in %s here", exprStr(lv), iv)
			}
			// … and it is the number of bytes the store took: AddData's count itself, or a value a dominating branch
			// found equal to it. The torrent trusts the event: a length larger than what was stored (a payload running
			// past the end of a short last piece is stored only in part, without an error) walks the in-flight table
			// past its end.
			add := p.Func("tor/piece", "Pieces.AddData")
			isStored := func(v ssa.Value) bool {
				ex, ok := stripIntConv(v).(*ssa.Extract)
				if !ok || ex.Index != 0 {
					return false
				}
				c, ok := ex.Tuple.(*ssa.Call)
				return ok && add != nil && c.Call.StaticCallee() == add
			}
			stored := lv != nil && isStored(lv)
			if lv != nil && !stored {
				for _, e := range eqFacts(mi.Block()) {
					a, b := stripIntConv(e[0]), stripIntConv(e[1])
					l := stripIntConv(lv)
					if (isStored(a) && (b == l || sameConvOperand(b, l))) || (isStored(b) && (a == l || sameConvOperand(a, l))) {
						stored = true
					}
				}
			}
			r.Check(stored, rule, fmt.Sprintf("%s/TorData-length-is-what-was-stored", fname(f)), mi.Pos(), "the length reported is the count AddData returned (itself, or tested equal to it)",
				"a TorData event reports a Length that is not tied to the count Pieces.AddData returned: AddData stores only what fits the piece and reports no error for the rest, so a Piece message whose payload runs past the end of a short last piece is reported in full, and the torrent's handler — which bounds the range by the nominal piece size only — counts off blocks beyond the end of its in-flight table (index out of range in the torrent's goroutine)")
			r.Check(good, rule, fmt.Sprintf("%s/TorData-length-positive", fname(f)), mi.Pos(), "the data event counts off at least one block",
				"a TorData event can be reported with Length 0 ("+why+"): the request it stands for is gone from the sender's bookkeeping, but the torrent counts off ceil(0/16384) = 0 blocks — the block stays counted in flight for ever and, after maxInFlight such replies, is never requested again (a remote peer only has to answer requests with empty Piece messages)")
		})
	}
	r.Sentinel(rule+".data-events", n, 2)
}

// sameConvOperand: a and b are conversions of one and the same value (uint32(length) written twice).
func sameConvOperand(a, b ssa.Value) bool {
	ca, ok1 := a.(*ssa.Convert)
	cb, ok2 := b.(*ssa.Convert)
	if ok1 && ok2 {
		return ca.X == cb.X && types.Identical(ca.Type(), cb.Type())
	}
	if ok1 {
		return ca.X == b
	}
	if ok2 {
		return cb.X == a
	}
	return false
}
