package main

// Units: a rule that names a function ("only AddData allocates", "only the event loop touches the counter")
// means that function together with the private helpers factored out of it. A private helper is an unexported
// package-level function or method (or a closure) every reference to which is a static call; it belongs to the
// units of all the functions that call it. unitRoots walks the static callers upwards until it meets functions
// the rule's table names.

import (
	"go/token"
	"go/types"

	"golang.org/x/tools/go/ssa"
)

// unitRoots returns the table functions (isRoot) from which f is reachable through chains of private helpers.
// ok is false when some chain ends in a function that is neither in the table nor a private helper
// (exported, address taken, called from another package, or never called): `stray` names it.
func (p *Prog) unitRoots(f *ssa.Function, isRoot func(*ssa.Function) bool) (roots []*ssa.Function, stray *ssa.Function) {
	seen := map[*ssa.Function]bool{}
	rootSet := map[*ssa.Function]bool{}
	var walk func(g *ssa.Function)
	walk = func(g *ssa.Function) {
		if seen[g] || stray != nil {
			return
		}
		seen[g] = true
		if isRoot(g) {
			rootSet[g] = true
			return
		}
		if g.Parent() != nil {
			// a closure runs on behalf of the function that creates it
			walk(g.Parent())
			return
		}
		if obj, ok := g.Object().(*types.Func); !ok || obj.Exported() {
			stray = g
			return
		}
		calls, escapes := p.callSitesOf(g)
		if len(escapes) > 0 || len(calls) == 0 {
			stray = g
			return
		}
		for _, cs := range calls {
			caller := cs.Parent()
			if funcPkgPath(caller) != funcPkgPath(g) {
				stray = g
				return
			}
			if _, isGo := cs.(*ssa.Go); isGo {
				stray = g
				return
			}
			walk(caller)
		}
	}
	walk(f)
	for r := range rootSet {
		roots = append(roots, r)
	}
	return roots, stray
}

// inUnitOf: f is root or one of root's private helpers (every chain of callers ends in root).
func (p *Prog) inUnitOf(f *ssa.Function, roots ...*ssa.Function) bool {
	is := func(g *ssa.Function) bool {
		for _, r := range roots {
			if g == r {
				return true
			}
		}
		return false
	}
	rs, stray := p.unitRoots(f, is)
	return stray == nil && len(rs) > 0
}

// guardedIP: on every way to instruction in, a guard satisfying match holds: a dominating guard in the
// instruction's own function, or — when that function is a private helper or a local closure — a guard that holds
// (in the same sense) at every one of its call sites. match must judge the guard by what it tests (a field, a
// callee), not by identity with values of the instruction's function: the guard may live in a caller.
func (p *Prog) guardedIP(in ssa.Instruction, match func(g Guard) bool, depth int) bool {
	for _, g := range guardsOf(in.Block()) {
		if match(g.norm()) {
			return true
		}
	}
	if depth > 3 {
		return false
	}
	f := in.Parent()
	if f.Parent() == nil {
		if obj, ok := f.Object().(*types.Func); !ok || obj.Exported() {
			return false
		}
	}
	calls, escapes := p.callSitesOf(f)
	if len(escapes) > 0 || len(calls) == 0 {
		return false
	}
	for _, cs := range calls {
		ci, ok := cs.(ssa.Instruction)
		if !ok {
			return false
		}
		if _, isGo := cs.(*ssa.Go); isGo {
			return false
		}
		if funcPkgPath(cs.Parent()) != funcPkgPath(f) {
			return false
		}
		if callContradicts(cs, in) {
			continue // this caller passes a constant with which the instruction's branch is not taken
		}
		if !p.guardedIP(ci, match, depth+1) {
			return false
		}
	}
	return true
}

// callContradicts: the instruction sits in a branch of its function that tests a parameter (if unchoking {…},
// switch mode { case 2: … }) and this call passes a constant for which that branch is not taken.
func callContradicts(cs ssa.CallInstruction, in ssa.Instruction) bool {
	f := in.Parent()
	args := cs.Common().Args
	if len(args) != len(f.Params) {
		return false
	}
	argOf := func(v ssa.Value) ssa.Value {
		for i, pa := range f.Params {
			if ssa.Value(pa) == v {
				return args[i]
			}
		}
		return nil
	}
	for _, g := range guardsOf(in.Block()) {
		g = g.norm()
		if a := argOf(g.Cond); a != nil {
			if b, ok := constBool(a); ok && b != g.Pol {
				return true
			}
			continue
		}
		bo, ok := g.Cond.(*ssa.BinOp)
		if !ok || (bo.Op != token.EQL && bo.Op != token.NEQ) {
			continue
		}
		a := argOf(stripIntConv(bo.X))
		k, okk := constInt(bo.Y)
		if a == nil || !okk {
			continue
		}
		if ka, oka := constInt(stripIntConv(a)); oka {
			if ((ka == k) == (bo.Op == token.EQL)) != g.Pol {
				return true
			}
		}
	}
	return false
}

// factHolds: on every way to instruction in, a guard satisfying match holds — as a dominating guard, through the
// callers of a private helper (guardedIP), or as the consequence of a validation helper's outcome that a dominating
// guard tests:
//
//	err := checkIncoming(t, id); if err != nil { return }      the fact holds at every return of the helper that can yield nil
//	ws := pickWebseed(t, idle); if ws == nil { return }         … at every return that can yield a non-nil value
//	if !allowed(t) { return }                                   … at every return that can yield true
//
// (recursively, two levels). match must judge a guard by what it tests, not by identity with local values.
func (p *Prog) factHolds(in ssa.Instruction, match func(g Guard) bool, depth int) bool {
	if p.guardedIP(in, match, 0) {
		return true
	}
	if depth > 2 {
		return false
	}
	ne := newNilEnv(p)
	for _, g := range guardsOf(in.Block()) {
		g = g.norm()
		var call *ssa.Call
		resIdx := 0
		outcome := 0 // 1 nil, 2 non-nil, 3 true, 4 false
		if c, ok := g.Cond.(*ssa.Call); ok {
			call = c
			outcome = 4
			if g.Pol {
				outcome = 3
			}
		} else if ex, ok := g.Cond.(*ssa.Extract); ok && isBoolType(ex.Type()) {
			// port, ok := t.announcePort(ipv6); if !ok { return }
			if c, isC := ex.Tuple.(*ssa.Call); isC {
				call, resIdx = c, ex.Index
				outcome = 4
				if g.Pol {
					outcome = 3
				}
			}
		} else if x, isNil, ok := nilFact(g); ok {
			call, resIdx = callOfValue(x)
			switch y := x.(type) {
			case *ssa.Phi:
				// err reused: every non-nil-constant edge is a result of the same helper call — keep it simple: one call
				var only *ssa.Call
				okPhi := true
				for _, e := range y.Edges {
					switch z := e.(type) {
					case *ssa.Call:
						if only != nil && only != z {
							okPhi = false
						}
						only = z
					case *ssa.Extract:
						cc, _ := z.Tuple.(*ssa.Call)
						if only != nil && only != cc {
							okPhi = false
						}
						only, resIdx = cc, z.Index
					default:
						okPhi = false
					}
				}
				if okPhi {
					call = only
				}
			}
			outcome = 2
			if isNil {
				outcome = 1
			}
		}
		if call == nil || call.Call.IsInvoke() {
			continue
		}
		h := call.Call.StaticCallee()
		if h == nil || h.Blocks == nil || call.Parent() == nil || funcPkgPath(h) != funcPkgPath(call.Parent()) {
			continue
		}
		any, all := false, true
		for _, ret := range returnsOf(h) {
			res := retResults(ret)
			if resIdx >= len(res) {
				all = false
				break
			}
			rv := res[resIdx]
			extra := []Guard{}
			switch outcome {
			case 1:
				if !isNilConst(rv) && ne.At(rv, ret.Block()) == NonNil {
					continue
				}
			case 2:
				if isNilConst(rv) || ne.At(rv, ret.Block()) == IsNil {
					continue
				}
			case 3, 4:
				want := outcome == 3
				if b, isb := constBool(rv); isb {
					if b != want {
						continue
					}
				} else {
					extra = append(extra, Guard{Cond: rv, Pol: want})
				}
			}
			any = true
			held := false
			for _, fg := range expandGuards(append(guardsOfRaw(ret.Block()), extra...)) {
				if match(fg.norm()) {
					held = true
				}
			}
			if !held && !p.factHolds(ret, match, depth+1) {
				all = false
				break
			}
		}
		if any && all {
			return true
		}
	}
	// the instruction sits in a private helper (or closure) and the fact holds, in this wider sense, at every one of its
	// call sites (t, err := getTorrent(h); if err != nil { return }; o, l, err := extent(t, name))
	f := in.Parent()
	if f.Parent() == nil {
		if obj, ok := f.Object().(*types.Func); !ok || obj.Exported() {
			return false
		}
	}
	calls, escapes := p.callSitesOf(f)
	if len(escapes) > 0 || len(calls) == 0 {
		return false
	}
	for _, cs := range calls {
		ci, ok := cs.(ssa.Instruction)
		if !ok || funcPkgPath(cs.Parent()) != funcPkgPath(f) {
			return false
		}
		if _, isGo := cs.(*ssa.Go); isGo {
			return false
		}
		if callContradicts(cs, in) {
			continue
		}
		if !p.factHolds(ci, match, depth+1) {
			return false
		}
	}
	return true
}

func isBoolType(t types.Type) bool {
	b, ok := t.Underlying().(*types.Basic)
	return ok && b.Info()&types.IsBoolean != 0
}

// eqFacts: the equalities x == y that hold on entry to block b — tested directly by a dominating branch, or implied by
// the outcome of a boolean helper of the module that a dominating branch tests (if !pooled(len(buf)) { return }: inside
// pooled every return that can yield true has established length == chunkLen). The helper's parameters are replaced
// by the call's arguments.
func eqFacts(b *ssa.BasicBlock) [][2]ssa.Value {
	var out [][2]ssa.Value
	for _, g := range expandGuards(guardsOfRaw(b)) {
		if op, x, y, ok := cmpFact(g); ok && op == token.EQL {
			out = append(out, [2]ssa.Value{x, y})
			continue
		}
		g = g.norm()
		if c, ok := g.Cond.(*ssa.Call); ok {
			out = append(out, helperOutcomeEqs(c, g.Pol)...)
		}
	}
	return out
}

// helperOutcomeEqs: the equalities that hold whenever the boolean helper call c answered pol (see eqFacts).
func helperOutcomeEqs(c *ssa.Call, pol bool) [][2]ssa.Value {
	var out [][2]ssa.Value
	if c.Call.IsInvoke() {
		return nil
	}
	h := c.Call.StaticCallee()
	if h == nil || h.Blocks == nil || h.Pkg == nil || c.Parent() == nil || funcPkgPath(h) != funcPkgPath(c.Parent()) || len(c.Call.Args) != len(h.Params) {
		return nil
	}
	back := func(v ssa.Value) ssa.Value {
		w := v
		for {
			if cv, okc := w.(*ssa.Convert); okc {
				w = cv.X
				continue
			}
			break
		}
		for i, pa := range h.Params {
			if ssa.Value(pa) == w {
				return c.Call.Args[i]
			}
		}
		return v
	}
	var common map[[2]ssa.Value]bool
	for _, ret := range returnsOf(h) {
		res := retResults(ret)
		if len(res) != 1 {
			return nil
		}
		gs := guardsOfRaw(ret.Block())
		if bv, isb := constBool(res[0]); isb {
			if bv != pol {
				continue
			}
		} else {
			gs = append(gs, Guard{Cond: res[0], Pol: pol})
		}
		here := map[[2]ssa.Value]bool{}
		for _, hg := range expandGuards(gs) {
			if op, x, y, ok := cmpFact(hg); ok && op == token.EQL {
				here[[2]ssa.Value{back(x), back(y)}] = true
			}
		}
		if common == nil {
			common = here
		} else {
			for k := range common {
				if !here[k] {
					delete(common, k)
				}
			}
		}
	}
	for k := range common {
		out = append(out, k)
	}
	return out
}
