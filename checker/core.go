package main

// Core of storcheck: loading the resolved program from /repo's working tree,
// the obligation/report model, evidence and known-findings handling.

import (
	"encoding/json"
	"fmt"
	"go/token"
	"go/types"
	"os"
	"path/filepath"
	"sort"
	"strings"
	"time"

	"golang.org/x/tools/go/callgraph"
	"golang.org/x/tools/go/callgraph/cha"
	"golang.org/x/tools/go/callgraph/vta"
	"golang.org/x/tools/go/packages"
	"golang.org/x/tools/go/ssa"
	"golang.org/x/tools/go/ssa/ssautil"
)

const modPath = "github.com/jech/storrent"

// Prog is the resolved program.
type Prog struct {
	Fset    *token.FileSet
	Roots   []*packages.Package
	ByPath  map[string]*packages.Package
	SSA     *ssa.Program
	Variant string

	allFuncs map[*ssa.Function]bool
	cg       *callgraph.Graph
	srcFuncs []*ssa.Function // functions with source in module packages (incl. anonymous)
}

func loadProg(repo string, env []string, variant string) (*Prog, error) {
	cfg := &packages.Config{
		Mode:  packages.LoadAllSyntax,
		Dir:   repo,
		Env:   append(os.Environ(), env...),
		Tests: false,
	}
	pkgs, err := packages.Load(cfg, "./...")
	if err != nil {
		return nil, fmt.Errorf("load: %v", err)
	}
	if len(pkgs) == 0 {
		return nil, fmt.Errorf("load: zero packages")
	}
	var errs []string
	packages.Visit(pkgs, nil, func(p *packages.Package) {
		for _, e := range p.Errors {
			errs = append(errs, e.Error())
		}
	})
	if len(errs) > 0 {
		return nil, fmt.Errorf("load: %d package errors, first: %s", len(errs), errs[0])
	}
	p := &Prog{Roots: pkgs, ByPath: map[string]*packages.Package{}, Variant: variant}
	for _, pk := range pkgs {
		p.ByPath[pk.PkgPath] = pk
		p.Fset = pk.Fset
	}
	prog, _ := ssautil.AllPackages(pkgs, ssa.InstantiateGenerics)
	prog.Build()
	normaliseParamCells(prog)
	p.SSA = prog
	return p, nil
}

// normaliseParamCells: a parameter that a closure captures (fail := func(err error) error { conn.Close(); return err })
// is spilled into a cell at the function's entry and every use in the function becomes a load of that cell. When the
// cell is never written again (the closures only read it) the loads ARE the parameter: they are replaced by it in the
// function's own body, so that a rule that follows a parameter sees the same program with and without the closure.
func normaliseParamCells(prog *ssa.Program) {
	for f := range ssautil.AllFunctions(prog) {
		if f.Blocks == nil || f.Pkg == nil || !strings.HasPrefix(f.Pkg.Pkg.Path(), modPath) {
			continue
		}
		for _, in := range f.Blocks[0].Instrs {
			al, ok := in.(*ssa.Alloc)
			if !ok || al.Referrers() == nil {
				continue
			}
			var prm *ssa.Parameter
			var loads []*ssa.UnOp
			for _, ref := range *al.Referrers() {
				if ld, isLd := ref.(*ssa.UnOp); isLd && ld.Op == token.MUL && ld.X == ssa.Value(al) {
					loads = append(loads, ld)
				}
			}
			if len(loads) == 0 {
				continue
			}
			prm = paramCell(loads[0])
			if prm == nil || prm.Parent() != f {
				continue
			}
			for _, ld := range loads {
				if ld.Parent() != f || ld.Referrers() == nil {
					continue
				}
				for _, user := range *ld.Referrers() {
					var ops []*ssa.Value
					for _, op := range user.Operands(ops) {
						if op != nil && *op == ssa.Value(ld) {
							*op = prm
							*prm.Referrers() = append(*prm.Referrers(), user)
						}
					}
				}
				*ld.Referrers() = nil
			}
		}
	}
}

// --- lookups (an unresolved anchor is reported by the caller) ---

func (p *Prog) Pkg(rel string) *packages.Package {
	path := modPath
	if rel != "" && rel != "." {
		path = modPath + "/" + rel
	}
	return p.ByPath[path]
}

// Excluded reports whether, under this build variant, the package has non-test source
// files left out by build constraints (e.g. fuse on a non-Linux target, where only the
// stub file is built). Only used to explain an absent anchor in a non-default variant:
// the default variant is always strict.
func (p *Prog) Excluded(rel string) bool {
	if p.Variant == "default" || p.Variant == "" {
		return false
	}
	pk := p.Pkg(rel)
	if pk == nil {
		return false
	}
	for _, f := range pk.IgnoredFiles {
		if strings.HasSuffix(f, ".go") && !strings.HasSuffix(f, "_test.go") {
			return true
		}
	}
	return false
}

func (p *Prog) SSAPkg(rel string) *ssa.Package {
	pk := p.Pkg(rel)
	if pk == nil {
		return nil
	}
	return p.SSA.Package(pk.Types)
}

// Func finds a package-level function or a method "T.m" / "(*T).m".
func (p *Prog) Func(rel, name string) *ssa.Function {
	sp := p.SSAPkg(rel)
	if sp == nil {
		return nil
	}
	if i := strings.Index(name, "."); i >= 0 {
		tn, mn := name[:i], name[i+1:]
		tn = strings.TrimPrefix(tn, "(*")
		tn = strings.TrimSuffix(tn, ")")
		obj := sp.Pkg.Scope().Lookup(tn)
		if obj == nil {
			return nil
		}
		named, ok := obj.Type().(*types.Named)
		if !ok {
			return nil
		}
		for _, T := range []types.Type{named, types.NewPointer(named)} {
			ms := p.SSA.MethodSets.MethodSet(T)
			for i := 0; i < ms.Len(); i++ {
				sel := ms.At(i)
				if sel.Obj().Name() == mn && sel.Obj().Pkg() == sp.Pkg {
					f := p.SSA.MethodValue(sel)
					if f != nil && f.Synthetic == "" {
						return f
					}
					// promoted/wrapper: find the declared one
					if fo, ok := sel.Obj().(*types.Func); ok {
						if df := p.SSA.FuncValue(fo); df != nil {
							return df
						}
					}
				}
			}
		}
		return nil
	}
	return sp.Func(name)
}

// Field returns the types.Var of struct field T.f in package rel.
func (p *Prog) Field(rel, typ, field string) *types.Var {
	pk := p.Pkg(rel)
	if pk == nil {
		return nil
	}
	obj := pk.Types.Scope().Lookup(typ)
	if obj == nil {
		return nil
	}
	st, ok := obj.Type().Underlying().(*types.Struct)
	if !ok {
		return nil
	}
	for i := 0; i < st.NumFields(); i++ {
		if st.Field(i).Name() == field {
			return st.Field(i)
		}
	}
	return nil
}

func (p *Prog) Named(rel, typ string) *types.Named {
	pk := p.Pkg(rel)
	if pk == nil {
		return nil
	}
	obj := pk.Types.Scope().Lookup(typ)
	if obj == nil {
		return nil
	}
	n, _ := obj.Type().(*types.Named)
	return n
}

// SrcFuncs returns every function (incl. anonymous) whose source is in a module package.
func (p *Prog) SrcFuncs() []*ssa.Function {
	if p.srcFuncs != nil {
		return p.srcFuncs
	}
	all := p.AllFuncs()
	for f := range all {
		if f.Blocks == nil || f.Synthetic != "" {
			continue
		}
		pk := f.Package()
		if pk == nil && f.Parent() != nil {
			root := f
			for root.Parent() != nil {
				root = root.Parent()
			}
			pk = root.Package()
		}
		if pk == nil || pk.Pkg == nil {
			continue
		}
		if pk.Pkg.Path() == modPath || strings.HasPrefix(pk.Pkg.Path(), modPath+"/") {
			p.srcFuncs = append(p.srcFuncs, f)
		}
	}
	sort.Slice(p.srcFuncs, func(i, j int) bool {
		a, b := p.srcFuncs[i], p.srcFuncs[j]
		if a.Pos() != b.Pos() {
			return a.Pos() < b.Pos()
		}
		return a.String() < b.String()
	})
	return p.srcFuncs
}

func (p *Prog) AllFuncs() map[*ssa.Function]bool {
	if p.allFuncs == nil {
		p.allFuncs = ssautil.AllFunctions(p.SSA)
	}
	return p.allFuncs
}

func (p *Prog) CallGraph() *callgraph.Graph {
	if p.cg == nil {
		p.cg = vta.CallGraph(p.AllFuncs(), cha.CallGraph(p.SSA))
	}
	return p.cg
}

func funcPkgPath(f *ssa.Function) string {
	root := f
	for root.Parent() != nil {
		root = root.Parent()
	}
	if root.Package() != nil && root.Package().Pkg != nil {
		return root.Package().Pkg.Path()
	}
	if root.Object() != nil && root.Object().Pkg() != nil {
		return root.Object().Pkg().Path()
	}
	return ""
}

func relPkg(f *ssa.Function) string {
	pp := funcPkgPath(f)
	if pp == modPath {
		return "."
	}
	return strings.TrimPrefix(pp, modPath+"/")
}

// fname gives a stable, line-free name for a function: pkg.(*T).m or pkg.f$1
func fname(f *ssa.Function) string {
	if f == nil {
		return "<nil>"
	}
	s := f.RelString(nil)
	s = strings.ReplaceAll(s, modPath+"/", "")
	s = strings.ReplaceAll(s, modPath, "main")
	return s
}

func (p *Prog) pos(pos token.Pos) string {
	if !pos.IsValid() {
		return "-"
	}
	ps := p.Fset.Position(pos)
	fn := ps.Filename
	if i := strings.Index(fn, "/repo/"); i >= 0 {
		fn = fn[i+len("/repo/"):]
	} else if rel, err := filepath.Rel(repoDir, fn); err == nil && !strings.HasPrefix(rel, "..") {
		fn = rel
	}
	return fmt.Sprintf("%s:%d", fn, ps.Line)
}

// --- obligations ---

type Status int

const (
	Discharged Status = iota
	Violated
	Undecided
	Info
)

func (s Status) String() string {
	return [...]string{"discharged", "violated", "undecided", "info"}[s]
}

type Obl struct {
	Key    string `json:"key"`  // rule/function/construct — line-free
	Rule   string `json:"rule"` // e.g. C04.R1
	Pos    string `json:"pos"`  // file:line for humans
	Status string `json:"status"`
	Detail string `json:"detail"`
	Known  bool   `json:"known_finding,omitempty"`
}

type Sentinel struct {
	Rule string `json:"rule"`
	Got  int    `json:"instances"`
	Min  int    `json:"minimum"`
}

type Report struct {
	Prop      string
	P         *Prog
	Obls      []Obl
	Sentinels []Sentinel
	Analysed  map[string]bool // functions analysed
	Notes     []string
	keys      map[string]int
	parent    *Report // set for sub-reports (obligations shared with another property's rule)
	subRule   string
}

func newReport(prop string, p *Prog) *Report {
	pathsProg = p
	exitProg = p
	helperEdgeMemo = map[string]bool{}
	helperRetractsMemo = map[*ssa.Function]int{}
	mergedGuardCache = map[*ssa.BasicBlock][]Guard{}
	resultIntervalMemo = map[string]*Itv{}
	return &Report{Prop: prop, P: p, Analysed: map[string]bool{}, keys: map[string]int{}}
}

func (r *Report) add(st Status, rule, key string, pos token.Pos, format string, a ...interface{}) {
	if r.parent != nil {
		r.parent.add(st, r.subRule+"."+rule, key, pos, format, a...)
		return
	}
	full := r.Prop + "." + rule + "/" + key
	// keep keys unique but stable: the n-th identical key in source order gets #n
	r.keys[full]++
	if n := r.keys[full]; n > 1 {
		full = fmt.Sprintf("%s#%d", full, n)
	}
	r.Obls = append(r.Obls, Obl{Key: full, Rule: r.Prop + "." + rule, Pos: r.P.pos(pos), Status: st.String(), Detail: fmt.Sprintf(format, a...)})
}

func (r *Report) Ok(rule, key string, pos token.Pos, format string, a ...interface{}) {
	r.add(Discharged, rule, key, pos, format, a...)
}
func (r *Report) Fail(rule, key string, pos token.Pos, format string, a ...interface{}) {
	r.add(Violated, rule, key, pos, format, a...)
}
func (r *Report) Undecided(rule, key string, pos token.Pos, format string, a ...interface{}) {
	r.add(Undecided, rule, key, pos, format, a...)
}
func (r *Report) Info(rule, key string, pos token.Pos, format string, a ...interface{}) {
	r.add(Info, rule, key, pos, format, a...)
}

// Check records Ok or Fail depending on cond.
func (r *Report) Check(cond bool, rule, key string, pos token.Pos, okmsg, failmsg string) {
	if cond {
		r.Ok(rule, key, pos, "%s", okmsg)
	} else {
		r.Fail(rule, key, pos, "%s", failmsg)
	}
}

// Anchor reports an unresolved anchor (a function/field/type the rule table names).
func (r *Report) Anchor(rule, what string, ok bool) bool {
	if !ok {
		if i := strings.Index(what, "."); i > 0 && r.P.Excluded(what[:i]) {
			r.add(Info, rule, "anchor/"+what, token.NoPos, "anchor %s is not part of the %s build (its file is excluded by a build constraint): the rule is evaluated on the variants that build it", what, r.P.Variant)
			return false
		}
		r.add(Undecided, rule, "anchor/"+what, token.NoPos, "anchor %s not found in the loaded program (renamed or removed): the rule cannot be evaluated", what)
	}
	return ok
}

// SentinelEx is Sentinel with a lower minimum for build variants that exclude the given package's platform files.
func (r *Report) SentinelEx(rule string, got, min int, pkg string, minExcluded int) {
	if r.P.Excluded(pkg) {
		min = minExcluded
	}
	r.Sentinel(rule, got, min)
}

func (r *Report) Sentinel(rule string, got, min int) {
	if r.parent != nil {
		r.parent.Sentinel(r.subRule+"."+rule, got, min)
		return
	}
	r.Sentinels = append(r.Sentinels, Sentinel{Rule: r.Prop + "." + rule, Got: got, Min: min})
	// Vacuity guard: a rule that matches nothing passes forever. `min` is the count confirmed by hand on the
	// pinned tree and is kept in the evidence as the reference; a behaviour-preserving refactor can legitimately
	// lower the count (a subtraction rewritten as a comparison, three reads folded into a helper), so only a rule
	// that has lost sight of its subject altogether fails; a partial drop is reported as information.
	if min > 0 && got == 0 {
		r.add(Undecided, rule, "sentinel", token.NoPos, "rule matched 0 instances (%d were confirmed by hand): the rule no longer sees the code it was written for", min)
	} else if got < min {
		r.add(Info, rule, "sentinel", token.NoPos, "rule matched %d instances, fewer than the %d confirmed by hand on the pinned tree (not a failure: the matched instances are all checked)", got, min)
	}
}

func (r *Report) Fn(f *ssa.Function) {
	if f != nil {
		r.Analysed[fname(f)] = true
	}
}

// --- known findings ---

type KnownFinding struct {
	Property string `json:"property"`
	Key      string `json:"key"`
	Status   string `json:"status"` // "open" or "fixed"
	Commit   string `json:"commit,omitempty"`
	What     string `json:"what"`
}

type KnownFile struct {
	Comment  string         `json:"comment"`
	Findings []KnownFinding `json:"findings"`
	Notes    []string       `json:"notes,omitempty"`
}

func loadKnown(path string) (*KnownFile, error) {
	b, err := os.ReadFile(path)
	if err != nil {
		if os.IsNotExist(err) {
			return &KnownFile{}, nil
		}
		return nil, err
	}
	var k KnownFile
	if err := json.Unmarshal(b, &k); err != nil {
		return nil, err
	}
	return &k, nil
}

// --- evidence ---

type Evidence struct {
	PropertyID  string                 `json:"property_id"`
	Tier        string                 `json:"tier"`
	Seed        int                    `json:"seed"`
	Level       string                 `json:"level"`
	Coverage    map[string]interface{} `json:"coverage"`
	Assumptions []string               `json:"assumptions"`
	WallS       float64                `json:"wall_s"`
	Violations  int                    `json:"violations"`
}

type propResult struct {
	Prop       string
	Reports    []*Report // one per build variant
	Violations []Obl     // violated or undecided, not known
	Known      []Obl
	SelfTest   []selfCase
	SelfNotes  []string
}

func finish(res *propResult, spec *PropSpec, tier string, seed int, start time.Time, known *KnownFile, verifDir string) int {
	openKeys := map[string]KnownFinding{}
	for _, k := range known.Findings {
		if k.Property == res.Prop && k.Status == "open" {
			openKeys[k.Key] = k
		}
	}
	var all []Obl
	seen := map[string]bool{}
	nObl, nDis, nInfo := 0, 0, 0
	analysed := map[string]bool{}
	var sentinels []Sentinel
	variants := []string{}
	var notes []string
	for _, rep := range res.Reports {
		variants = append(variants, rep.P.Variant)
		for f := range rep.Analysed {
			analysed[f] = true
		}
		for _, s := range rep.Sentinels {
			s.Rule = s.Rule + "@" + rep.P.Variant
			sentinels = append(sentinels, s)
		}
		notes = append(notes, rep.Notes...)
		for _, o := range rep.Obls {
			k := o.Key
			if rep.P.Variant != "default" {
				// same obligation under another build variant: count it separately only if new
				// merge: a failure in any variant is a failure
				if o.Status == "violated" || o.Status == "undecided" {
					o.Detail = "[" + rep.P.Variant + "] " + o.Detail
				} else if seen[k] {
					continue
				}
			}
			seen[k] = true
			if o.Status == "info" {
				nInfo++
				all = append(all, o)
				continue
			}
			nObl++
			switch o.Status {
			case "discharged":
				nDis++
			default:
				if kf, ok := openKeys[o.Key]; ok && o.Status == "violated" {
					o.Known = true
					res.Known = append(res.Known, o)
					_ = kf
				} else {
					res.Violations = append(res.Violations, o)
				}
			}
			all = append(all, o)
		}
	}
	// output
	for _, o := range res.Known {
		fmt.Printf("KNOWN-FINDING: property=%s %s at %s: %s\n", res.Prop, o.Key, o.Pos, openKeys[o.Key].What)
	}
	for _, o := range res.Violations {
		fmt.Printf("%s: %s: %s [%s]: %s\n", o.Pos, o.Rule, o.Key, o.Status, o.Detail)
	}
	// samples: up to 12 obligations, spread over rules
	samples := []interface{}{}
	perRule := map[string]int{}
	for _, o := range all {
		if perRule[o.Rule] < 2 && len(samples) < 40 {
			perRule[o.Rule]++
			samples = append(samples, o)
		}
	}
	distinct := 0
	{
		ks := map[string]bool{}
		for _, o := range all {
			if o.Status != "info" {
				ks[o.Key] = true
			}
		}
		distinct = len(ks)
	}
	fl := make([]string, 0, len(analysed))
	for f := range analysed {
		fl = append(fl, f)
	}
	sort.Strings(fl)
	cov := map[string]interface{}{
		"explanation":         strings.TrimSpace(spec.Explanation + " " + specAdditions[spec.ID]),
		"rule":                "each obligation is one instance of a rule of DESIGN.md §4 evaluated on the SSA/CFG/call graph of /repo's working tree; distinct = distinct obligation keys (rule/function/construct)",
		"obligations":         nObl,
		"discharged":          nDis,
		"evaluations":         nObl,
		"distinct_nontrivial": distinct,
		"informational":       nInfo,
		"samples":             samples,
		"sentinels":           sentinels,
		"functions_analysed":  fl,
		"build_variants":      variants,
		"checker_cmd":         "bin/storcheck -prop " + res.Prop + " -tier " + tier,
		"trusted_base":        []string{"go/types type checker", "golang.org/x/tools v0.29.0 go/packages, go/ssa, callgraph/cha+vta", "Go standard library and third-party modules are not analysed beyond call edges"},
		"rules":               spec.Rules,
		"not_decided":         spec.NotDecided,
		"known_findings":      res.Known,
		"undischarged":        res.Violations,
		"notes":               notes,
		"exhaustive":          false,
	}
	if res.SelfTest != nil {
		nb, nd, ns, nben, nsil := 0, 0, 0, 0, 0
		for _, c := range res.SelfTest {
			if c.Kind == "breaking" {
				nb++
				if c.Result == "detected" {
					nd++
				}
			} else {
				nben++
				if c.Result == "silent" {
					nsil++
				}
			}
			if strings.HasPrefix(c.Result, "stale") {
				ns++
			}
		}
		cov["checker_self_test"] = map[string]interface{}{
			"what":           "every recorded breaking edit (variants/, seeded/) applied to a scratch copy of the current tree must be reported by this property's rules; every behaviour-preserving edit (variants-benign/, benign/) must not; validates the checker, never changes the verdict on /repo",
			"breaking_edits": nb,
			"detected":       nd,
			"benign_edits":   nben,
			"benign_silent":  nsil,
			"stale":          ns,
			"cases":          res.SelfTest,
		}
		notes = append(notes, res.SelfNotes...)
		cov["notes"] = notes
		defer fmt.Printf("self-test %s: breaking %d/%d detected, benign %d/%d silent, stale %d\n", res.Prop, nd, nb, nsil, nben, ns)
	}
	ev := Evidence{PropertyID: res.Prop, Tier: tier, Seed: seed, Level: "other", Coverage: cov,
		Assumptions: spec.Assumptions, WallS: time.Since(start).Seconds(), Violations: len(res.Violations)}
	evDir := filepath.Join(verifDir, "evidence")
	os.MkdirAll(evDir, 0o755)
	b, _ := json.MarshalIndent(ev, "", " ")
	if err := os.WriteFile(filepath.Join(evDir, res.Prop+".json"), b, 0o644); err != nil {
		fmt.Fprintf(os.Stderr, "cannot write evidence: %v\n", err)
		return 2
	}
	fmt.Printf("storcheck %s tier=%s variants=%v obligations=%d discharged=%d known=%d undischarged=%d info=%d functions=%d (%.1fs)\n",
		res.Prop, tier, variants, nObl, nDis, len(res.Known), len(res.Violations), nInfo, len(fl), time.Since(start).Seconds())
	if len(res.Violations) > 0 {
		rp := filepath.Join(evDir, res.Prop+".violations.json")
		vb, _ := json.MarshalIndent(res.Violations, "", " ")
		os.WriteFile(rp, vb, 0o644)
		fmt.Printf("VIOLATION property=%s replay=%s\n", res.Prop, rp)
		return 1
	}
	os.Remove(filepath.Join(evDir, res.Prop+".violations.json"))
	return 0
}
