package main

import (
	"fmt"
	"go/token"
	"go/types"

	"golang.org/x/tools/go/ssa"
)

func init() {
	register(&PropSpec{
		ID: "C02",
		Explanation: "The value part of this property (bytes at p equal the true content, EOF exactly at length, progress under an honest seed) quantifies over runtime values and is NOT decided. Decided are the structural clauses: " +
			"(R1) a blocked read cannot outlive its context or its torrent: every blocking channel operation on the read path (Reader.Read, Torrent.Request) is a select that also waits on the torrent's Done, and the wait for the piece also on the reader's context (C17.R1 re-evaluated); the wake-up cannot be lost to a race with completion (C10.R3's re-test in requestPiece, re-evaluated); " +
			"(R2) the destination handed to Pieces.ReadAt is clipped to length − position: either it is a[:length−position], or the call is dominated by position+len(a) < length on the reader's own relative fields with no store to them in between; " +
			"(R3) EOF is latched by comparing the returned count with length − position; (R4) every Reader created by the HTTP front-end is closed on all paths; (R5) FUSE reads are serialised: the semaphore is taken before Seek/ReadFull/Close and released by a defer registered after the acquisition.",
		Rules:       []string{"R1 blocked reads are abandonable and cannot lose their wake-up (shared with C17/C10)", "R2 read clipped to the window (difference form on the reader's fields)", "R3 EOF latch tied to the clip", "R4 readers closed (E-must)", "R5 FUSE reads serialised (acquire/release pairing)"},
		NotDecided:  []string{"byte equality with the true content", "EOF position under every sequence of seeks", "liveness under an honest seed and after evictions", "FUSE Release being called by the kernel (callback contract)"},
		Assumptions: []string{"net/http.ServeContent uses only Seek/Read of the reader", "bazil.org/fuse calls Release once per handle"},
		Run:         runC02,
	})
}

func runC02(r *Report) {
	p := r.P
	read := p.Func("tor", "Reader.Read")
	treq := p.Func("tor", "Torrent.Request")
	readAt := p.Func("tor/piece", "Pieces.ReadAt")
	posF := p.Field("tor", "Reader", "position")
	lenF := p.Field("tor", "Reader", "length")
	if !r.Anchor("R1", "tor.(*Reader).Read", read != nil) || !r.Anchor("R1", "tor.(*Torrent).Request", treq != nil) || !r.Anchor("R2", "piece.(*Pieces).ReadAt", readAt != nil) ||
		!r.Anchor("R2", "tor.Reader.position/length", posF != nil && lenF != nil) {
		return
	}
	// ---- R1 (shared)
	lt := lifetimeOf(r, "R1")
	dummy := 0
	n := 0
	// Reader.Read and Torrent.Request, with the private helpers factored out of them (Reader.wait)
	unit := []*ssa.Function{read, treq}
	var readUnit []*ssa.Function
	readUnit = append(readUnit, read)
	for _, f := range p.SrcFuncs() {
		if relPkg(f) != "tor" || f.Parent() != nil || f == read || f == treq {
			continue
		}
		if p.inUnitOf(f, read) {
			unit = append(unit, f)
			readUnit = append(readUnit, f)
		} else if p.inUnitOf(f, treq) {
			unit = append(unit, f)
		}
	}
	for _, f := range unit {
		r.Fn(f)
		for _, op := range chanOpsIn(f) {
			n++
			checkChanOp(r, "R1", lt, op, &dummy)
		}
	}
	r.Sentinel("R1", n, 3)
	// the piece wait also watches the reader's context
	ctxOK := false
	var readOps []chanOp
	for _, f := range readUnit {
		readOps = append(readOps, chanOpsIn(f)...)
	}
	for _, op := range readOps {
		if op.Kind != opSelect {
			continue
		}
		hasCtx, hasDone := false, false
		for _, st := range op.States {
			cs := chanSourceOf(st.Chan)
			if cs.CtxDone {
				hasCtx = true
			}
			if cs.Field != nil && cs.Field.Name() == "Done" {
				hasDone = true
			}
		}
		if hasCtx && hasDone {
			ctxOK = true
		}
	}
	r.Check(ctxOK, "R1", "Reader.Read/wait-watches-context-and-torrent", read.Pos(), "the wait for a piece is abandoned when the context is cancelled or the torrent dies", "the wait for a piece in Reader.Read does not select on both the reader's context and the torrent's Done")
	// lost wake-up: re-test in requestPiece (C10.R3)
	c10R3(r.sub("R1"))
	c10R6(r.sub("R1"))
	// a reader that gives up and is used again (FUSE keeps one reader per handle) must register its request again:
	// the reader-side bookkeeping rules of C10.R4 (shortcut cache refreshed/reset, withdrawals) are necessary for
	// "a blocked read eventually returns"
	c10R4(r.sub("R1"))
	// … and so is the release of in-flight reservations when a request is dropped (C09.R3/R5): a block whose
	// reservation leaks reaches the in-flight limit and is never requested again
	c09R3(r.sub("R6"))
	c09R5(r.sub("R6"))
	// … and that the torrent's loop itself can never block for ever on a peer (or anything else): the whole inventory
	// of channel operations (C17.R1) — a loop stuck in peer.GetStatus on a peer that has exited starves every reader
	c17Inventory(r.sub("R7"))
	// ---- R2
	// linear form over the reader's own fields (and len(a)): offsets that cancel are accepted
	type lin struct {
		coef map[string]int64
		c    int64
		ok   bool
	}
	var linear func(v ssa.Value, d int) lin
	linear = func(v ssa.Value, d int) lin {
		v = stripIntConv(v)
		out := lin{coef: map[string]int64{}, ok: true}
		if d > 8 {
			return lin{}
		}
		if k, ok := constInt(v); ok {
			if _, isC := v.(*ssa.Const); isC {
				out.c = k
				return out
			}
		}
		if f2, base := loadedField(v); f2 != nil && base == ssa.Value(read.Params[0]) {
			out.coef[f2.Name()] = 1
			return out
		}
		if isLenOf(v, read.Params[1]) {
			out.coef["len(a)"] = 1
			return out
		}
		bo, ok := v.(*ssa.BinOp)
		if !ok || (bo.Op != token.ADD && bo.Op != token.SUB) {
			return lin{}
		}
		l, rr := linear(bo.X, d+1), linear(bo.Y, d+1)
		if !l.ok || !rr.ok {
			return lin{}
		}
		sign := int64(1)
		if bo.Op == token.SUB {
			sign = -1
		}
		for k, c := range l.coef {
			out.coef[k] += c
		}
		for k, c := range rr.coef {
			out.coef[k] += sign * c
		}
		out.c = l.c + sign*rr.c
		return out
	}
	linIs := func(l lin, want map[string]int64) bool {
		if !l.ok || l.c != 0 {
			return false
		}
		for k, c := range l.coef {
			if c != want[k] {
				return false
			}
		}
		for k, c := range want {
			if l.coef[k] != c {
				return false
			}
		}
		return true
	}
	isRemaining := func(v ssa.Value) bool { // length - position (possibly written in absolute coordinates that cancel)
		return linIs(linear(v, 0), map[string]int64{"length": 1, "position": -1})
	}
	storesWindow := func(in ssa.Instruction) bool {
		if _, ok := isStoreToField(in, posF); ok {
			return true
		}
		_, ok := isStoreToField(in, lenF)
		return ok
	}
	nRA := 0
	for _, ci := range callsIn(read) {
		c, ok := ci.(*ssa.Call)
		if !ok || c.Call.StaticCallee() != readAt {
			continue
		}
		nRA++
		buf := c.Call.Args[1]
		key := "Reader.Read/ReadAt-destination-clipped"
		a := read.Params[1]
		// fitsGuard: among the guards, one that states position + len(a) <= length on the reader's own fields
		fitsGuard := func(gs []Guard) *ssa.If {
			var guard *ssa.If
			for _, g := range gs {
				g2 := g.norm()
				bo, isb := g2.Cond.(*ssa.BinOp)
				if !isb {
					continue
				}
				// X - Y  as a linear form; we need  position + len(a) - length  (X<Y) or its negation (X>Y)
				lx, ly := linear(bo.X, 0), linear(bo.Y, 0)
				if !lx.ok || !ly.ok {
					continue
				}
				diff := lin{coef: map[string]int64{}, ok: true, c: lx.c - ly.c}
				for k, c := range lx.coef {
					diff.coef[k] += c
				}
				for k, c := range ly.coef {
					diff.coef[k] -= c
				}
				fits := map[string]int64{"position": 1, "len(a)": 1, "length": -1}
				neg := map[string]int64{"position": -1, "len(a)": -1, "length": 1}
				lessForm := (bo.Op == token.LSS || bo.Op == token.LEQ) && g2.Pol || (bo.Op == token.GEQ || bo.Op == token.GTR) && !g2.Pol
				moreForm := (bo.Op == token.GTR || bo.Op == token.GEQ) && g2.Pol || (bo.Op == token.LSS || bo.Op == token.LEQ) && !g2.Pol
				if (lessForm && linIs(diff, fits)) || (moreForm && linIs(diff, neg)) {
					guard = g.If
				}
			}
			return guard
		}
		// destOK: the value handed to ReadAt is a prefix of the caller's buffer no longer than length - position:
		// a[:length-position], or a itself under position + len(a) <= length, or a phi of such values
		// (`if len(a) > remain { a = a[:remain] }`), each edge judged under the guards of that edge.
		var destOK func(v ssa.Value, gs []Guard, d int) (bool, string)
		destOK = func(v ssa.Value, gs []Guard, d int) (bool, string) {
			if d > 4 {
				return false, "the destination of ReadAt is too indirect to analyse"
			}
			switch x := v.(type) {
			case *ssa.Slice:
				if x.X == ssa.Value(a) && x.Low == nil && x.High != nil {
					if isRemaining(x.High) {
						return true, ""
					}
					return false, "the destination of ReadAt is sliced to " + exprStr(x.High) + ", not to r.length - r.position: bytes beyond the reader's range (the next file) can be returned"
				}
			case *ssa.Phi:
				for i, e := range x.Edges {
					pred := x.Block().Preds[i]
					egs := guardsOnEdge(pred, x.Block())
					if ok, why := destOK(e, egs, d+1); !ok {
						return false, why
					}
				}
				return true, ""
			}
			if v != ssa.Value(a) {
				return false, "ReadAt is given a destination that is neither the caller's buffer nor a prefix of it"
			}
			guard := fitsGuard(gs)
			if guard == nil {
				return false, "ReadAt is given the caller's whole buffer on a path not dominated by r.position + len(a) <= r.length (both relative to the reader's range): a read near the end of the range returns bytes that lie beyond it, without EOF"
			}
			if pathHas(guard, c, storesWindow) {
				return false, "position or length is modified between the clipping test and ReadAt"
			}
			return true, ""
		}
		ok2, why := destOK(buf, guardsOf(c.Block()), 0)
		if ok2 {
			r.Ok("R2", key, c.Pos(), "the destination is the caller's buffer clipped to length - position on every path")
		} else {
			r.Fail("R2", key, c.Pos(), "%s", why)
		}
	}
	r.Sentinel("R2", nRA, 2)
	// ---- R3
	eof := false
	allInstrs(read, func(in ssa.Instruction) {
		bo, ok := in.(*ssa.BinOp)
		if !ok || bo.Op != token.EQL {
			return
		}
		cnt := func(v ssa.Value) bool {
			return sumsOnlyOf(stripIntConv(v), func(x ssa.Value) bool {
				if k, isk := constInt(x); isk && k == 0 {
					return true
				}
				ex, ok := x.(*ssa.Extract)
				if !ok || ex.Index != 0 {
					return false
				}
				c, ok := ex.Tuple.(*ssa.Call)
				return ok && c.Call.StaticCallee() == readAt
			}) && !func() bool { _, isC := stripIntConv(v).(*ssa.Const); return isC }()
		}
		if (cnt(bo.X) && isRemaining(bo.Y)) || (cnt(bo.Y) && isRemaining(bo.X)) {
			// its true edge leads to err = io.EOF
			for _, ref := range *bo.Referrers() {
				if iff, ok := ref.(*ssa.If); ok {
					t := iff.Block().Succs[0]
					// the phi of err in/after t has io.EOF from t
					for b := range reachableFrom(t) {
						for _, i2 := range b.Instrs {
							if ph, ok := i2.(*ssa.Phi); ok && isErrorType(ph.Type()) {
								for _, e := range ph.Edges {
									if ld, ok := e.(*ssa.UnOp); ok {
										if g, ok := ld.X.(*ssa.Global); ok && g.Name() == "EOF" {
											eof = true
										}
									}
								}
							}
						}
					}
				}
			}
		}
	})
	r.Check(eof, "R3", "Reader.Read/EOF-when-count==length-position", read.Pos(), "EOF is reported when the count returned by ReadAt reaches length − position", "Reader.Read no longer latches io.EOF by comparing ReadAt's count with r.length - r.position")
	// ---- R4
	nr := p.Func("tor", "Torrent.NewReader")
	closeF := p.Func("tor", "Reader.Close")
	if r.Anchor("R4", "tor.(*Torrent).NewReader", nr != nil) && r.Anchor("R4", "tor.(*Reader).Close", closeF != nil) {
		calls, _ := p.callSitesOf(nr)
		m := 0
		for _, cs := range calls {
			f := cs.Parent()
			r.Fn(f)
			m++
			key := fmt.Sprintf("%s/NewReader-closed", fname(f))
			switch relPkg(f) {
			case "http":
				// a defer reader.Close() right after creation, before any return
				c := cs.(*ssa.Call)
				okD := false
				allInstrs(f, func(in ssa.Instruction) {
					d, ok := in.(*ssa.Defer)
					if !ok || d.Call.StaticCallee() != closeF || d.Call.Args[0] != ssa.Value(c) {
						return
					}
					// no return between creation and the defer
					if len(exitsAvoiding(c, func(i ssa.Instruction) bool { return i == ssa.Instruction(d) }, false)) == 0 {
						okD = true
					}
				})
				r.Check(okD, "R4", key, cs.Pos(), "the reader is closed by a defer registered right after it is created", "the Reader created by the HTTP handler is not closed on every path (no `defer reader.Close()` reached before every return): its piece priorities are never withdrawn")
			case "fuse":
				// stored in the handle; Release closes it
				rel := p.Func("fuse", "handle.Release")
				okR := rel != nil && anyInstr(rel, func(in ssa.Instruction) bool { return calleeOf(in) == closeF }) != nil
				r.Check(okR, "R4", key, cs.Pos(), "the FUSE handle's Release closes the reader (kernel callback contract assumed)", "handle.Release no longer closes the handle's reader")
			default:
				r.Fail("R4", key, cs.Pos(), "NewReader is called from %s: a consumer the rule does not know", fname(f))
			}
		}
		r.SentinelEx("R4", m, 2, "fuse", 1)
	}
	// ---- R5
	c02R5(r)
	c02FuseCount(r, "R5")
	// the reader's 64-bit offset reaches the store unclipped (shared with C01.R7)
	offsetsNotNarrowed(r, "R2")
}

// c02R5: FUSE reads are serialised (shared with C01: a reply for offset X must carry the bytes of offset X).
func c02R5(r *Report) {
	p := r.P
	sema := p.Field("fuse", "handle", "sema")
	if r.Anchor("R5", "fuse.handle.sema", sema != nil) {
		for _, name := range []string{"handle.Read", "handle.Release"} {
			f := p.Func("fuse", name)
			if !r.Anchor("R5", "fuse."+name, f != nil) {
				continue
			}
			r.Fn(f)
			// acquisition: a send on handle.sema (bare or in a select), or a call of a helper of package fuse that
			// reports by a boolean whether it took the semaphore (acquire(ctx) bool)
			var acq ssa.Instruction
			var acqBlockAfter *ssa.BasicBlock
			semaSend := func(g *ssa.Function) (ssa.Instruction, *ssa.BasicBlock) {
				var a ssa.Instruction
				var blk *ssa.BasicBlock
				for _, op := range chanOpsIn(g) {
					for k, st := range op.States {
						cs := chanSourceOf(st.Chan)
						if st.Dir == types.SendOnly && cs.Field == sema {
							a = op.Instr
							if sel, ok := op.Instr.(*ssa.Select); ok {
								blk = selectCaseBlock(sel, k)
							}
						}
					}
				}
				return a, blk
			}
			acq, acqBlockAfter = semaSend(f)
			if acq == nil {
				for _, ci := range callsIn(f) {
					c, ok := ci.(*ssa.Call)
					if !ok {
						continue
					}
					h := c.Call.StaticCallee()
					if h == nil || h.Blocks == nil || relPkg(h) != "fuse" {
						continue
					}
					ha, hb := semaSend(h)
					if ha == nil {
						continue
					}
					held := func(ret *ssa.Return) bool {
						if hb != nil {
							return hb.Dominates(ret.Block())
						}
						return instrDominates(ha, ret)
					}
					// boolean result: true exactly on the returns that hold the semaphore; no result: every return holds it
					res := h.Signature.Results()
					switch {
					case res.Len() == 0:
						all := true
						for _, ret := range returnsOf(h) {
							all = all && held(ret)
						}
						if all {
							acq = c
						}
					case res.Len() == 1 && types.Identical(res.At(0).Type(), types.Typ[types.Bool]):
						good := true
						for _, ret := range returnsOf(h) {
							b, isb := constBool(retResults(ret)[0])
							if !isb || b != held(ret) {
								good = false
							}
						}
						if good && acq == nil {
							// handle.lock(context.Background()): the only way not to get the semaphore is the
							// context's Done channel, and this context has none: the call returns holding it
							for i, a := range c.Call.Args {
								bg, isCall := a.(*ssa.Call)
								if !isCall || !(isStdCall(bg, "context", "", "Background") || isStdCall(bg, "context", "", "TODO")) || i >= len(h.Params) {
									continue
								}
								onlyDone := true
								for _, op := range chanOpsIn(h) {
									for _, st := range op.States {
										if st.Dir == types.SendOnly && chanSourceOf(st.Chan).Field == sema {
											continue
										}
										dc, isDone := st.Chan.(*ssa.Call)
										if !(st.Dir == types.RecvOnly && isDone && dc.Call.IsInvoke() && dc.Call.Method.Name() == "Done" && dc.Call.Value == ssa.Value(h.Params[i])) {
											onlyDone = false
										}
									}
								}
								if onlyDone {
									acq = c
								}
							}
						}
						if good {
							// the region entered on result == true
							for _, ref := range *c.Referrers() {
								var iff *ssa.If
								pol := true
								switch x := ref.(type) {
								case *ssa.If:
									iff = x
								case *ssa.UnOp:
									if x.Op == token.NOT {
										for _, r2 := range *x.Referrers() {
											if i2, ok := r2.(*ssa.If); ok {
												iff, pol = i2, false
											}
										}
									}
								}
								if iff != nil {
									acq = c
									if pol {
										acqBlockAfter = iff.Block().Succs[0]
									} else {
										acqBlockAfter = iff.Block().Succs[1]
									}
								}
							}
						}
					}
				}
			}
			key := fmt.Sprintf("%s/serialised", fname(f))
			if acq == nil {
				r.Fail("R5", key, f.Pos(), "%s no longer takes the handle's semaphore: concurrent FUSE reads interleave Seek and Read on one Reader", fname(f))
				continue
			}
			// the uses of the reader come after the acquisition
			readerF := p.Field("fuse", "handle", "reader")
			okOrder := true
			allInstrs(f, func(in ssa.Instruction) {
				c, ok := in.(*ssa.Call)
				if !ok || len(c.Call.Args) == 0 {
					return
				}
				if fv, _ := loadedField(c.Call.Args[0]); fv == readerF {
					dom := instrDominates(acq, in)
					if acqBlockAfter != nil {
						dom = acqBlockAfter.Dominates(in.Block())
					}
					if !dom {
						okOrder = false
					}
				}
			})
			// release: a defer whose closure receives from sema, registered after the acquisition, dominating the returns that follow it
			okRel := false
			allInstrs(f, func(in ssa.Instruction) {
				d, ok := in.(*ssa.Defer)
				if !ok {
					return
				}
				df := deferredFunc(d)
				if df == nil {
					return
				}
				recv := false
				for _, op := range chanOpsIn(df) {
					for _, st := range op.States {
						if cs := chanSourceOf(st.Chan); st.Dir == types.RecvOnly && cs.Field == sema {
							recv = true
						}
					}
				}
				if !recv {
					return
				}
				after := instrDominates(acq, d)
				if acqBlockAfter != nil {
					after = acqBlockAfter.Dominates(d.Block())
				}
				all := true
				for _, ret := range returnsOf(f) {
					holds := instrDominates(acq, ret)
					if acqBlockAfter != nil {
						holds = acqBlockAfter.Dominates(ret.Block())
					}
					if holds && !instrDominates(d, ret) {
						all = false
					}
				}
				okRel = after && all
			})
			r.Check(okOrder && okRel, "R5", key, acq.Pos(), "the reader is used only between taking the semaphore and its deferred release", "the handle's reader is used before the semaphore is taken, or the semaphore is not released by a defer registered right after it was taken (a return in between leaks it and every later read blocks)")
		}
	}
}

// sub returns a view of the report that records under another rule name (for shared obligations).
func (r *Report) sub(rule string) *Report {
	return &Report{Prop: r.Prop, P: r.P, Analysed: r.Analysed, keys: r.keys, parent: r, subRule: rule}
}

// c02FuseCount: a FUSE read answers with exactly the bytes the Reader delivered: after io.ReadFull(handle.reader,
// resp.Data) every path to the return re-slices resp.Data to the count returned. The buffer is sized for the request;
// at the end of a file (or on an abandoned read) the rest of it is stale memory, which the kernel would hand to the
// application as file content.
func c02FuseCount(r *Report, rule string) {
	p := r.P
	rd := p.Func("fuse", "handle.Read")
	if rd == nil {
		return // package fuse is excluded by build tags on this variant
	}
	n := 0
	for _, f := range p.SrcFuncs() {
		if relPkg(f) != "fuse" || !(f == rd || p.inUnitOf(enclosingNamed(f), rd)) {
			continue
		}
		allInstrs(f, func(in ssa.Instruction) {
			c, ok := in.(*ssa.Call)
			if !ok {
				return
			}
			isFull := isStdCall(c, "io", "", "ReadFull") || isStdCall(c, "io", "", "ReadAtLeast")
			isRead := c.Call.IsInvoke() && c.Call.Method.Name() == "Read"
			if h := c.Call.StaticCallee(); h != nil && !c.Call.IsInvoke() && h.Name() == "Read" && relPkg(h) == "tor" && len(c.Call.Args) == 2 {
				isRead = true // handle.reader.Read(buf[n:]) in a loop that accumulates the counts
			}
			if !isFull && !isRead {
				return
			}
			// the destination: (a re-slice of) the response's Data field
			dst := c.Call.Args[len(c.Call.Args)-1]
			if isFull {
				dst = c.Call.Args[1]
			}
			var fv *types.Var
			for v, i := strip(dst), 0; v != nil && i < 4; i++ {
				if f2, _ := loadedFieldAny(v); f2 != nil {
					fv = f2
					break
				}
				sl, isSl := v.(*ssa.Slice)
				if !isSl {
					break
				}
				v = strip(sl.X)
			}
			if fv == nil || fv.Name() != "Data" {
				return
			}
			n++
			r.Fn(f)
			cnt := extractOf(c, 0)
			isCnt := func(v ssa.Value) bool {
				if cnt == nil {
					return false
				}
				if stripIntConv(v) == ssa.Value(cnt) {
					return true
				}
				if _, isK := stripIntConv(v).(*ssa.Const); isK {
					return false
				}
				return sumsOnlyOf(stripIntConv(v), func(x ssa.Value) bool {
					if k, isk := constInt(x); isk && k == 0 {
						return true
					}
					return x == ssa.Value(cnt)
				})
			}
			resliced := func(i ssa.Instruction) bool {
				st, ok := i.(*ssa.Store)
				if !ok {
					return false
				}
				fa, ok := st.Addr.(*ssa.FieldAddr)
				if !ok || fieldVar(fa) != fv {
					return false
				}
				sl, ok := st.Val.(*ssa.Slice)
				return ok && sl.High != nil && isCnt(sl.High)
			}
			exits := exitsAvoiding(c, resliced, false)
			msg := ""
			if len(exits) > 0 {
				msg = fmt.Sprintf("a path from the read to the return (%s) does not cut resp.Data down to the count the read returned: at the end of the file, or when the read is abandoned, the reply carries the stale rest of the buffer as file content", p.pos(exits[0].Pos()))
			}
			r.Check(len(exits) == 0, rule, fname(f)+"/reply-cut-to-count", c.Pos(), "resp.Data is re-sliced to the returned count on every path", msg)
		})
	}
	r.Sentinel(rule+".fuse-read", n, 1)
}
