package main

import (
	"fmt"
	"go/token"
	"go/types"
	"strings"

	"golang.org/x/tools/go/ssa"
)

func init() {
	register(&PropSpec{
		ID: "C13",
		Explanation: "Static decision of the structural conditions for 'torrent files: total parsing, consistent geometry, identity preserved': " +
			"(R1) in (*Torrent).MetadataComplete the first irreversible effect (Pieces.MetadataComplete, the publication of infoComplete) is dominated by each required validation — pieces length multiple of 20, piece length non-zero and a multiple of the block size, length/files exclusivity, every file length non-negative, every path non-empty, name non-empty, block count fits the integer types, hash table matches ceil(length/piece length) — and no error return is reachable after that first effect; " +
			"(R2) arithmetic on metainfo is guarded: divisors non-zero at the call sites that pass them, the hash-table slicing loop stays in bounds (stride lemma), allocation sizes are guarded; " +
			"(R3) identity: the SHA-1 is taken over the raw info bytes exactly as decoded and the same bytes are stored and re-emitted; WriteTorrent emits URL() of every tracker and web seed over the full ranges and omits announce-list only when there is at most one tracker; (R4) magnet slicing is dominated by the matching prefix test.",
		Rules:       []string{"R1 publication dominated by validation guards; no error after first effect", "R2 guarded arithmetic on metainfo (E-int, stride lemma)", "R3 identity of info bytes, trackers and web seeds (def-use)", "R4 ReadMagnet slicing guarded"},
		NotDecided:  []string{"totality of the third-party bencode decoder", "that file offsets are the running sum of lengths (value; overflow of the sum)", "round-trip equality of the re-emitted file for all inputs"},
		Assumptions: []string{"github.com/zeebo/bencode decodes RawMessage as the exact input bytes"},
		Run:         runC13,
	})
}

// mentions: the expression tree of v contains a value satisfying pred.
func mentions(v ssa.Value, pred func(ssa.Value) bool, d int) bool {
	if v == nil || d > 8 {
		return false
	}
	if pred(v) {
		return true
	}
	switch x := v.(type) {
	case *ssa.BinOp:
		return mentions(x.X, pred, d+1) || mentions(x.Y, pred, d+1)
	case *ssa.UnOp:
		return mentions(x.X, pred, d+1)
	case *ssa.Convert:
		return mentions(x.X, pred, d+1)
	case *ssa.ChangeType:
		return mentions(x.X, pred, d+1)
	case *ssa.Phi:
		for _, e := range x.Edges {
			if mentions(e, pred, d+1) {
				return true
			}
		}
	case *ssa.Call:
		_, builtin := x.Call.Value.(*ssa.Builtin)
		// a module-local helper computing a value from its arguments (ceilDiv(length, int64(info.PieceLength)))
		local := false
		if h := x.Call.StaticCallee(); h != nil && !x.Call.IsInvoke() && strings.HasPrefix(funcPkgPath(h), modPath) {
			local = true
		}
		if builtin || local {
			for _, a := range x.Call.Args {
				if mentions(a, pred, d+1) {
					return true
				}
			}
		}
	case *ssa.Slice:
		return mentions(x.X, pred, d+1)
	case *ssa.Field:
		return mentions(x.X, pred, d+1)
	case *ssa.FieldAddr:
		return mentions(x.X, pred, d+1)
	case *ssa.Extract:
		return false
	}
	return false
}

func fieldLoadOf(typ, name string) func(ssa.Value) bool {
	return func(v ssa.Value) bool {
		switch x := v.(type) {
		case *ssa.FieldAddr:
			fv := fieldVar(x)
			n := namedOf(x.X.Type())
			return fv != nil && fv.Name() == name && n != nil && n.Obj().Name() == typ
		case *ssa.Field:
			fv := fieldVar(x)
			n := namedOf(x.X.Type())
			return fv != nil && fv.Name() == name && n != nil && n.Obj().Name() == typ
		}
		return false
	}
}

// rejectingGuards lists the If instructions of f one of whose successors leads directly to a return with a non-nil error.
type rejGuard struct {
	iff      *ssa.If
	passEdge int // successor index that continues
	// in: the function the guard lives in; at: for a guard inside a validation helper, the call of that helper in
	// the analysed function (the guard "passes before X" when the helper's success edge does)
	in      *ssa.Function
	at      *ssa.Call
	partial bool
}

// cond: the guard's condition with `!x`, `true == x` stripped, and whether the rejecting edge is the one on which
// the stripped condition is true.
func (g rejGuard) cond() (ssa.Value, bool) {
	n := Guard{Cond: g.iff.Cond, Pol: g.passEdge == 1}.norm() // Pol: the condition's value on the rejecting edge
	return n.Cond, n.Pol
}

// facts: what is known to hold when the guard rejects (short-circuit values decomposed).
func (g rejGuard) facts() []Guard {
	c, pol := g.cond()
	var out []Guard
	for _, x := range expandGuards([]Guard{{Cond: c, Pol: pol, If: g.iff}}) {
		out = append(out, x.norm())
	}
	return out
}

// validatorGuards: the rejecting guards of the package-local helpers of f whose error result is tested in f
// (files, length, err := torfiles(&info); if err != nil { return err }): a guard that every succeeding return of the
// helper has passed counts as a guard of f located at the call.
func validatorGuards(p *Prog, f *ssa.Function, depth int) []rejGuard {
	var out []rejGuard
	if depth > 2 {
		return nil
	}
	ne := newNilEnv(p)
	for _, ci := range callsIn(f) {
		c, ok := ci.(*ssa.Call)
		if !ok || c.Call.IsInvoke() {
			continue
		}
		h := c.Call.StaticCallee()
		if h == nil || h.Blocks == nil || funcPkgPath(h) != funcPkgPath(f) || h == f {
			continue
		}
		res := h.Signature.Results()
		if res.Len() == 0 || !isErrorType(res.At(res.Len()-1).Type()) {
			continue
		}
		var succ []*ssa.Return
		for _, ret := range returnsOf(h) {
			rr := retResults(ret)
			if ne.At(rr[len(rr)-1], ret.Block()) != NonNil {
				succ = append(succ, ret)
			}
		}
		hg := append(rejectingGuards(p, h), validatorGuards(p, h, depth+1)...)
		for _, g := range hg {
			all := len(succ) > 0
			for _, ret := range succ {
				if !g.passesBefore(ret) {
					all = false
				}
			}
			g2 := g
			if g2.at == nil || g2.in != f {
				g2.at = c
			}
			// a guard that not every succeeding return has passed (it protects one branch of the helper only)
			// is still listed, for rules that ask whether a rejection exists at all; it never "passes before"
			// anything in the caller
			g2.partial = g.partial || !(all || g.perItem())
			out = append(out, g2)
		}
	}
	return out
}

// perItem: the guard sits in a loop of its function (a per-file check): it does not dominate the returns, but it is
// still a guard of the helper; rules that need it check dominance against the use inside the same loop.
func (g rejGuard) perItem() bool {
	for _, l := range naturalLoops(g.iff.Parent()) {
		if l.Blocks[g.iff.Block()] {
			return true
		}
	}
	return false
}

// passesBefore: the guard's passing edge lies before instruction x: in the guard's own function by dominance; for a
// guard inside a validation helper and x in the caller, when the helper's success edge dominates x.
func (g rejGuard) passesBefore(x ssa.Instruction) bool {
	if x.Parent() == g.iff.Parent() {
		return guardPassesBefore(g, x)
	}
	if g.at == nil || g.at.Parent() != x.Parent() || g.partial {
		return false
	}
	// the call's error result is tested nil on the way to x
	for _, gd := range guardsOf(x.Block()) {
		v, isNil, ok := nilFact(gd)
		if !ok || !isNil {
			continue
		}
		switch y := v.(type) {
		case *ssa.Call:
			if y == g.at {
				return true
			}
		case *ssa.Extract:
			if y.Tuple == ssa.Value(g.at) {
				return true
			}
		}
	}
	return false
}

func rejectingGuards(p *Prog, f *ssa.Function) []rejGuard {
	ne := newNilEnv(p)
	var out []rejGuard
	errReturn := func(b *ssa.BasicBlock) bool {
		seen := map[*ssa.BasicBlock]bool{}
		for b != nil && !seen[b] {
			seen[b] = true
			last := b.Instrs[len(b.Instrs)-1]
			switch t := last.(type) {
			case *ssa.Return:
				if len(t.Results) == 0 {
					return false
				}
				return ne.At(t.Results[len(t.Results)-1], b) == NonNil
			case *ssa.Jump:
				b = b.Succs[0]
			default:
				return false
			}
		}
		return false
	}
	for _, b := range f.Blocks {
		iff, ok := b.Instrs[len(b.Instrs)-1].(*ssa.If)
		if !ok {
			continue
		}
		t, e := errReturn(b.Succs[0]), errReturn(b.Succs[1])
		if t && !e {
			out = append(out, rejGuard{iff: iff, passEdge: 1, in: f})
		} else if e && !t {
			out = append(out, rejGuard{iff: iff, passEdge: 0, in: f})
		}
	}
	return out
}

// guardPassesBefore: the passing edge of g dominates instruction at (directly, or through a chain of `||`/`&&` blocks).
func guardPassesBefore(g rejGuard, at ssa.Instruction) bool {
	from := g.iff.Block()
	to := from.Succs[g.passEdge]
	if edgeDominates(from, to, at.Block()) {
		return true
	}
	// `a || b` rejecting: the passing edge of `a` goes to the block testing `b`; accept if that block ends in a
	// rejecting If whose passing edge dominates
	return to.Dominates(at.Block()) && len(to.Preds) >= 1
}

func runC13(r *Report) {
	c13R1(r, "R1")
	c13R2(r)
	c13R3(r)
	c13R4(r)
	c13Decoders(r, "R4")
	c13TypedNil(r, "R1")
}

func c13R1(r *Report, rule string) {
	p := r.P
	mc := p.Func("tor", "Torrent.MetadataComplete")
	pmc := p.Func("tor/piece", "Pieces.MetadataComplete")
	if !r.Anchor(rule, "tor.(*Torrent).MetadataComplete", mc != nil) || !r.Anchor(rule, "piece.(*Pieces).MetadataComplete", pmc != nil) {
		return
	}
	r.Fn(mc)
	var pub ssa.Instruction
	allInstrs(mc, func(in ssa.Instruction) {
		if calleeOf(in) == pmc {
			pub = in
		}
	})
	if pub == nil {
		r.Fail(rule, "MetadataComplete/publication-point", mc.Pos(), "(*Torrent).MetadataComplete no longer calls Pieces.MetadataComplete")
		return
	}
	gs := append(rejectingGuards(p, mc), validatorGuards(p, mc, 0)...)
	chunk, _ := chunkSizeConst(p)
	pieceLen := fieldLoadOf("BInfo", "PieceLength")
	pieces := fieldLoadOf("BInfo", "Pieces")
	files := fieldLoadOf("BInfo", "Files")
	flen := fieldLoadOf("BFile", "Length")
	name := fieldLoadOf("Torrent", "Name")
	type req struct {
		id, ok, fail string
		match        func(g rejGuard) bool
		loopUse      func() ssa.Instruction // for per-file guards: the instruction that must be dominated instead of pub
	}
	cmpZero := func(v ssa.Value, inner func(ssa.Value) bool) bool {
		bo, ok := v.(*ssa.BinOp)
		if !ok {
			return false
		}
		z, okz := constInt(bo.Y)
		return okz && z == 0 && mentions(bo.X, inner, 0)
	}
	// the use of a file's length: the accumulation `length += f.Length`
	fileLenUse := func() ssa.Instruction {
		var u ssa.Instruction
		fs := []*ssa.Function{mc}
		for _, g := range gs {
			if g.in != nil && g.in != mc {
				fs = append(fs, g.in)
			}
		}
		for _, f := range fs {
			if u != nil {
				break
			}
			allInstrs(f, func(in ssa.Instruction) {
				if bo, ok := in.(*ssa.BinOp); ok && bo.Op == token.ADD && mentions(bo.Y, flen, 0) {
					u = in
				}
			})
		}
		return u
	}
	reqs := []req{
		{"G1-pieces-multiple-of-20", "len(pieces) %% 20 == 0 is required", "no rejecting guard on len(info.Pieces) % 20 dominates publication: a truncated hash table is sliced out of range", func(g rejGuard) bool {
			return mentions(g.iff.Cond, func(v ssa.Value) bool {
				bo, ok := v.(*ssa.BinOp)
				if !ok || bo.Op != token.REM {
					return false
				}
				k, okk := constInt(bo.Y)
				return okk && k == 20 && mentions(bo.X, pieces, 0)
			}, 0)
		}, nil},
		{"G2-piece-length-multiple-of-block", "piece length %% ChunkSize == 0 is required", "no rejecting guard on PieceLength % ChunkSize dominates publication", func(g rejGuard) bool {
			return mentions(g.iff.Cond, func(v ssa.Value) bool {
				bo, ok := v.(*ssa.BinOp)
				if !ok || bo.Op != token.REM {
					return false
				}
				k, okk := constInt(bo.Y)
				return okk && k == chunk && mentions(bo.X, pieceLen, 0)
			}, 0)
		}, nil},
		{"G3-piece-length-nonzero", "piece length != 0 is required", "no rejecting guard makes the piece length non-zero before publication: `piece length` 0 passes the multiple-of-16KiB test and Pieces.MetadataComplete divides by it (integer divide by zero from a .torrent file or from authentic magnet metadata)", func(g rejGuard) bool {
			c, rejOnTrue := g.cond()
			bo, ok := c.(*ssa.BinOp)
			if !ok {
				return false
			}
			z, okz := constInt(bo.Y)
			if !okz || z != 0 || !mentions(bo.X, pieceLen, 0) {
				return false
			}
			if _, isRem := stripIntConv(bo.X).(*ssa.BinOp); isRem {
				return false // that is G2
			}
			// rejecting when == 0 (or <= 0)
			return (bo.Op == token.EQL && rejOnTrue) || (bo.Op == token.NEQ && !rejOnTrue) || (bo.Op == token.LEQ && rejOnTrue) || (bo.Op == token.GTR && !rejOnTrue)
		}, nil},
		{"G5-file-length-nonnegative", "every file length >= 0 is required", "no rejecting guard on f.Length < 0 precedes the use of a file's length: negative lengths give overlapping, non-monotonic file offsets that still sum to a plausible total", func(g rejGuard) bool {
			c, rejOnTrue := g.cond()
			bo, ok := c.(*ssa.BinOp)
			if !ok || !cmpZero(bo, flen) {
				return false
			}
			return (bo.Op == token.LSS && rejOnTrue) || (bo.Op == token.GEQ && !rejOnTrue)
		}, fileLenUse},
		{"G6-path-nonempty", "every file has a path", "no rejecting guard on an empty file path precedes the use of the file", func(g rejGuard) bool {
			c, _ := g.cond()
			bo, ok := c.(*ssa.BinOp)
			if !ok || !isNilConst(bo.Y) {
				return false
			}
			n := namedOf(bo.X.Type())
			return n != nil && n.Obj().Name() == "Path"
		}, fileLenUse},
		{"G7-name-nonempty", "the torrent has a name", "no rejecting guard on an empty name dominates publication", func(g rejGuard) bool {
			bo, ok := g.iff.Cond.(*ssa.BinOp)
			if !ok {
				return false
			}
			s, oks := constString(bo.Y)
			if !oks || s != "" {
				return false
			}
			if mentions(bo.X, name, 0) {
				return true
			}
			// name := …; if name == "" { return err }; torrent.Name = name — the value tested is the one that every
			// assignment of the function gives to Torrent.Name
			nStores, same := 0, true
			allInstrs(g.iff.Parent(), func(in ssa.Instruction) {
				st, ok := in.(*ssa.Store)
				if !ok {
					return
				}
				fa, ok := st.Addr.(*ssa.FieldAddr)
				if !ok || fieldVar(fa) == nil || fieldVar(fa).Name() != "Name" || !typeIs(derefType(fa.X.Type()), modPath+"/tor", "Torrent") {
					return
				}
				nStores++
				if st.Val != bo.X {
					same = false
				}
			})
			return nStores > 0 && same
		}, nil},
		{"G8-block-count-fits", "the block count fits uint32 and int", "no rejecting guard checks that the block count fits the integer types before it sizes the in-flight array", func(g rejGuard) bool {
			// chunks != int64(uint32(chunks))
			return mentions(g.iff.Cond, func(v ssa.Value) bool {
				bo, ok := v.(*ssa.BinOp)
				if !ok || (bo.Op != token.NEQ && bo.Op != token.EQL) {
					return false
				}
				cv, ok := bo.Y.(*ssa.Convert)
				if !ok {
					return false
				}
				inner, ok := cv.X.(*ssa.Convert)
				return ok && inner.X == bo.X
			}, 0) || func() bool {
				bo, ok := g.iff.Cond.(*ssa.BinOp)
				if !ok {
					return false
				}
				cv, ok := bo.Y.(*ssa.Convert)
				if !ok {
					return false
				}
				inner, ok := cv.X.(*ssa.Convert)
				return ok && inner.X == bo.X
			}()
		}, nil},
		{"G9-hash-table-matches-length", "the number of piece hashes equals ceil(length / piece length)", "no rejecting guard relates the number of piece hashes to the total length and piece length: a hash table of the wrong size is accepted (pieces without a hash can never be verified, so the stream stalls)", func(g rejGuard) bool {
			bo, ok := g.iff.Cond.(*ssa.BinOp)
			if !ok {
				return false
			}
			mh := func(v ssa.Value) bool {
				return mentions(v, func(x ssa.Value) bool {
					if pieces(x) {
						return true
					}
					// len(hashes)
					if c, ok := x.(*ssa.Call); ok {
						if bi, ok := c.Call.Value.(*ssa.Builtin); ok && bi.Name() == "len" {
							if sl, ok := c.Call.Args[0].Type().Underlying().(*types.Slice); ok {
								if n, ok := sl.Elem().(*types.Named); ok && n.Obj().Name() == "Hash" {
									return true
								}
							}
						}
					}
					return false
				}, 0)
			}
			ml := func(v ssa.Value) bool { return mentions(v, pieceLen, 0) }
			return (mh(bo.X) && ml(bo.Y)) || (mh(bo.Y) && ml(bo.X))
		}, nil},
	}
	for _, rq := range reqs {
		at := pub
		if rq.loopUse != nil {
			if u := rq.loopUse(); u != nil {
				at = u
			}
		}
		found := false
		for _, g := range gs {
			if rq.match(g) && g.passesBefore(at) {
				found = true
			}
		}
		key := "MetadataComplete/" + rq.id
		if !found && rq.id == "G8-block-count-fits" {
			// equivalent formulation: explicit range checks that leave the size of every byte array made here within
			// [0, 2^32-1] (chunks < 0 || chunks > math.MaxUint32 || chunks > math.MaxInt)
			env := &IntEnv{}
			nMake, okAll := 0, true
			allInstrs(mc, func(in ssa.Instruction) {
				ms, ok := in.(*ssa.MakeSlice)
				if !ok {
					return
				}
				if bt, ok := ms.Type().Underlying().(*types.Slice); ok {
					if b, ok := bt.Elem().Underlying().(*types.Basic); ok && b.Kind() == types.Uint8 {
						nMake++
						iv := env.At(ms.Len, ms.Block())
						if iv.Lo < 0 || iv.Hi > maxMakeLen(p) {
							okAll = false
						}
					}
				}
			})
			found = nMake > 0 && okAll
		}
		if found {
			r.Ok(rule, key, at.Pos(), "%s: a rejecting guard dominates its use", rq.ok)
		} else {
			r.Fail(rule, key, pub.Pos(), "%s", rq.fail)
		}
	}
	// G4 exclusivity: rejecting guards on Files != nil and Files == nil
	var sawNonNil, sawNil bool
	for _, g := range gs {
		for _, fct := range g.facts() {
			x, isNil, ok := nilFact(fct)
			if !ok || !mentions(x, files, 0) {
				continue
			}
			if isNil {
				sawNil = true // rejects when files == nil
			} else {
				sawNonNil = true // rejects when files != nil
			}
		}
	}
	r.Check(sawNonNil && sawNil, rule, "MetadataComplete/G4-length-files-exclusive", mc.Pos(), "both 'length and files' and 'neither length nor files' are rejected", "the exclusivity of `length` and `files` is no longer enforced in both directions")
	r.Sentinel(rule, len(gs), 7)
	// no error return after the first irreversible effect
	ne := newNilEnv(p)
	firstEffect := pub
	allInstrs(mc, func(in ssa.Instruction) {
		if st, ok := in.(*ssa.Store); ok {
			if fa, ok := st.Addr.(*ssa.FieldAddr); ok {
				n := namedOf(fa.X.Type())
				fv := fieldVar(fa)
				if n != nil && n.Obj().Name() == "Torrent" && fv != nil && (fv.Name() == "Files") {
					if instrDominates(in, firstEffect) {
						firstEffect = in
					}
				}
			}
		}
	})
	late := ""
	for _, ret := range returnsOf(mc) {
		if !instrReaches(pub, ret) {
			continue
		}
		if ne.At(ret.Results[len(ret.Results)-1], ret.Block()) != IsNil {
			late = p.pos(ret.Pos())
		}
	}
	r.Check(late == "", rule, "MetadataComplete/no-error-after-publication", pub.Pos(), "every rejection happens before the one-shot geometry is set",
		"an error return ("+late+") is reachable after Pieces.MetadataComplete has set the one-shot geometry: rejected metadata leaves the store initialised and the next (authentic) metadata panics 'called twice'")
	// infoComplete is stored last: after pub, with constant 1
	okStore := false
	allInstrs(mc, func(in ssa.Instruction) {
		if isStdCall(in, "sync/atomic", "", "StoreUint32") {
			a := callArgs(in)
			if fa, ok := a[0].(*ssa.FieldAddr); ok && fieldVar(fa).Name() == "infoComplete" {
				if k, okk := constInt(a[1]); okk && k == 1 && instrDominates(pub, in) {
					okStore = true
				}
			}
		}
	})
	r.Check(okStore, rule, "MetadataComplete/infoComplete-after-geometry", pub.Pos(), "infoComplete is published after the geometry is set", "infoComplete is not stored (with 1) after the geometry has been set")
}

func c13R2(r *Report) {
	p := r.P
	mc := p.Func("tor", "Torrent.MetadataComplete")
	pmc := p.Func("tor/piece", "Pieces.MetadataComplete")
	if mc == nil || pmc == nil {
		return
	}
	env := &IntEnv{SameVal: func(a, b ssa.Value) bool {
		ta := &Taint{stores: map[*ssa.Function]map[*types.Var]bool{}}
		return ta.sameLoadVal(a, b) || ta.sameLoadVal(stripIntConv(a), stripIntConv(b))
	}}
	// divisor of Pieces.MetadataComplete is its psize parameter: non-zero at every call site
	r.Fn(pmc)
	divByParam := false
	allInstrs(pmc, func(in ssa.Instruction) {
		if bo, ok := in.(*ssa.BinOp); ok && (bo.Op == token.QUO || bo.Op == token.REM) && isInteger(bo.Type()) {
			if stripIntConv(bo.Y) == ssa.Value(pmc.Params[1]) {
				divByParam = true
			} else if !env.nonZeroAt(bo.Y, bo.Block()) {
				r.Fail("R2", "Pieces.MetadataComplete/div", bo.Pos(), "division by %s which may be zero", exprStr(bo.Y))
			}
		}
	})
	calls, _ := p.callSitesOf(pmc)
	for _, cs := range calls {
		in := cs.(ssa.Instruction)
		arg := cs.Common().Args[1]
		key := fmt.Sprintf("%s/Pieces.MetadataComplete(psize!=0)", fname(cs.Parent()))
		if !divByParam {
			r.Ok("R2", key, cs.Pos(), "the callee does not divide by psize")
			continue
		}
		r.Check(env.nonZeroAt(arg, in.Block()), "R2", key, cs.Pos(), "the piece size passed to the store is non-zero here", "Pieces.MetadataComplete divides by its psize argument, which is not known to be non-zero at this call (integer divide by zero)")
	}
	r.Sentinel("R2.calls", len(calls), 1)
	// slicing of the hash table
	r.Fn(mc)
	n := 0
	allInstrs(mc, func(in ssa.Instruction) {
		sl, ok := in.(*ssa.Slice)
		if !ok || sl.High == nil || sl.Low == nil {
			return
		}
		if !mentions(sl.X, fieldLoadOf("BInfo", "Pieces"), 0) {
			return
		}
		n++
		// for i < len/20: [i*20 : (i+1)*20]
		l, okp := provesLE(env, sl.High, 0, sl.X, sl.Block())
		r.Check(okp, "R2", "MetadataComplete/pieces[i*20:(i+1)*20]", sl.Pos(), "hash-table slice in bounds ("+l+")", "the slice of the hash table is not implied in-bounds by the loop bound")
	})
	// … or in a helper the table is handed to (splitHashes(info.Pieces)): every slice and index expression of the
	// helper is then proved in bounds
	allInstrs(mc, func(in ssa.Instruction) {
		c, ok := in.(*ssa.Call)
		if !ok || c.Call.IsInvoke() {
			return
		}
		h := c.Call.StaticCallee()
		if h == nil || h.Blocks == nil || relPkg(h) != "tor" || h == mc {
			return
		}
		for _, a := range c.Call.Args {
			if isByteSlice(a.Type()) && mentions(a, fieldLoadOf("BInfo", "Pieces"), 0) {
				r.Fn(h)
				n += checkStrided(r, "R2", h)
				return
			}
		}
	})
	r.Sentinel("R2.slices", n, 1)
	// the running sum of file lengths (64-bit, every term chosen by the author of the metainfo) does not wrap: the
	// accumulation is preceded by a rejecting test of the sum against one of its operands (sum < length), or of one
	// operand against MaxInt64 minus the other
	{
		flen := fieldLoadOf("BFile", "Length")
		gs := append(rejectingGuards(p, mc), validatorGuards(p, mc, 0)...)
		nAcc := 0
		for _, f := range localCallees(p, mc, []string{"tor"}) {
			if f != mc {
				isVal := false
				for _, g := range gs {
					if g.in == f {
						isVal = true
					}
				}
				if !isVal {
					continue
				}
			}
			allInstrs(f, func(in ssa.Instruction) {
				acc, ok := in.(*ssa.BinOp)
				if !ok || acc.Op != token.ADD || !(mentions(acc.Y, flen, 0) || mentions(acc.X, flen, 0)) {
					return
				}
				// the accumulation itself: its result flows back into one of its operands through a loop phi
				loops := false
				for _, op := range []ssa.Value{acc.X, acc.Y} {
					if ph, isPhi := op.(*ssa.Phi); isPhi {
						for _, e := range ph.Edges {
							if e == ssa.Value(acc) {
								loops = true
							}
						}
					}
				}
				if !loops {
					return
				}
				nAcc++
				guarded := false
				for _, g := range gs {
					if g.in != f || !guardPassesBefore(g, acc) {
						continue
					}
					c, _ := g.cond()
					bo, ok := c.(*ssa.BinOp)
					if !ok {
						continue
					}
					switch bo.Op {
					case token.LSS, token.GTR, token.LEQ, token.GEQ:
					default:
						continue
					}
					sameSum := func(v ssa.Value) bool {
						s2, ok := v.(*ssa.BinOp)
						if !ok || s2.Op != token.ADD {
							return false
						}
						tt := &Taint{stores: map[*ssa.Function]map[*types.Var]bool{}}
						eq := func(a, b ssa.Value) bool { return a == b || tt.sameLoadVal(a, b) }
						return (eq(s2.X, acc.X) && eq(s2.Y, acc.Y)) || (eq(s2.X, acc.Y) && eq(s2.Y, acc.X))
					}
					isOperand := func(v ssa.Value) bool {
						tt := &Taint{stores: map[*ssa.Function]map[*types.Var]bool{}}
						return v == acc.X || v == acc.Y || tt.sameLoadVal(v, acc.X) || tt.sameLoadVal(v, acc.Y)
					}
					maxMinus := func(v ssa.Value) bool {
						s2, ok := v.(*ssa.BinOp)
						if !ok || s2.Op != token.SUB {
							return false
						}
						k, okk := constInt(s2.X)
						return okk && k == 1<<63-1 && isOperand(s2.Y)
					}
					if (sameSum(bo.X) && isOperand(bo.Y)) || (sameSum(bo.Y) && isOperand(bo.X)) || (isOperand(bo.X) && maxMinus(bo.Y)) || (isOperand(bo.Y) && maxMinus(bo.X)) {
						guarded = true
					}
				}
				r.Check(guarded, "R2", "MetadataComplete/file-length-sum-no-overflow", acc.Pos(), "the running sum of file lengths is checked for wrap-around before it is used",
					"the running sum of file lengths is not checked for overflow: files of 2^63-1, 2^63-1 and 3 bytes sum to a total length of 1 with a file at offset -2, and the torrent is accepted (files neither contiguous nor summing to the total)")
			})
		}
		r.Sentinel("R2.sum", nAcc, 1)
	}
	// a piece table matching the length: Pieces.MetadataComplete sizes the table with ceil(length / piece size) — the
	// same quantity the hash-count check (G9) validated. n/K+1 is one too many at multiples, (n-1)/K+1 gives one piece
	// for an empty torrent (accepted: all files empty) whose hash table is empty.
	{
		r.Fn(pmc)
		nT := 0
		allInstrs(pmc, func(in ssa.Instruction) {
			ms, ok := in.(*ssa.MakeSlice)
			if !ok {
				return
			}
			nT++
			kind, num, _ := divFormOf(ms.Len)
			okForm := kind == divCeil && num != nil
			if kind == divPredPlus1 && num != nil {
				// correct only under a guard that the length is positive
				iv := (&IntEnv{}).At(num, ms.Block())
				okForm = iv.Lo >= 1
			}
			r.Check(okForm, "R2", "Pieces.MetadataComplete/table-size-is-ceil", ms.Pos(), "the piece table has ceil(length / piece size) entries",
				fmt.Sprintf("the piece table is sized by %s (%s), not by ceil(length / piece size) as the hash-count check assumes: for some lengths (0, or exact multiples) the table has one piece more than there are hashes — a piece that can never be verified", exprStr(ms.Len), kind))
		})
		r.Sentinel("R2.table", nT, 1)
	}
	// make([]uint8, chunks) dominated by the fits-check (G8 is checked in R1): the size is non-negative
	allInstrs(mc, func(in ssa.Instruction) {
		ms, ok := in.(*ssa.MakeSlice)
		if !ok {
			return
		}
		if bt, ok := ms.Type().Underlying().(*types.Slice); ok {
			if b, ok := bt.Elem().Underlying().(*types.Basic); ok && b.Kind() == types.Uint8 {
				guarded := hasGuard(ms.Block(), func(op token.Token, x, y ssa.Value) bool {
					cv, ok := y.(*ssa.Convert)
					return op == token.EQL && ok && mentions(cv, func(v ssa.Value) bool { return v == x }, 0)
				})
				if !guarded {
					iv := (&IntEnv{}).At(ms.Len, ms.Block())
					guarded = iv.Lo >= 0 && iv.Hi <= maxMakeLen(p)
				}
				r.Check(guarded, "R2", "MetadataComplete/make(inFlight,chunks)", ms.Pos(), "the in-flight array is sized after the fits-in-int check", "the in-flight array is allocated without the preceding fits-in-int check on the block count (negative or huge sizes panic)")
			}
		}
	})
}

func c13R3(r *Report) {
	p := r.P
	rt := p.Func("tor", "ReadTorrent")
	wt := p.Func("tor", "WriteTorrent")
	nw := p.Func("tor", "New")
	if !r.Anchor("R3", "tor.ReadTorrent", rt != nil) || !r.Anchor("R3", "tor.WriteTorrent", wt != nil) || !r.Anchor("R3", "tor.New", nw != nil) {
		return
	}
	r.Fn(rt)
	r.Fn(wt)
	raw := fieldLoadOf("BTorrent", "Info")
	// hash over the raw field, same value handed to New together with the hash
	var sum ssa.Instruction
	var sumArg ssa.Value
	if sites, ops := digestSites(rt); len(sites) > 0 {
		sum, sumArg = sites[len(sites)-1], ops[len(ops)-1]
	}
	if sum == nil {
		r.Fail("R3", "ReadTorrent/sha1", rt.Pos(), "ReadTorrent no longer hashes the info dictionary")
	} else {
		arg := sumArg
		isRaw := func(v ssa.Value) bool {
			v = strip(v)
			if ld, ok := v.(*ssa.UnOp); ok && ld.Op == token.MUL {
				return raw(ld.X)
			}
			return raw(v)
		}
		r.Check(isRaw(arg), "R3", "ReadTorrent/sha1(raw-info)", sum.Pos(), "the info-hash is the SHA-1 of the info dictionary exactly as decoded (RawMessage)", "sha1.Sum is not applied to the raw BTorrent.Info bytes: a re-encoded dictionary has a different hash")
		okNew := false
		for _, ci := range callsIn(rt) {
			if ci.Common().StaticCallee() != nw {
				continue
			}
			a := ci.Common().Args // proxy, hsh, dn, info, cdate, announce, webseeds
			// the hash handed to New is the digest computed above (directly, or by the same helper call)
			_, site := sha1Operand(a[1], 0)
			hashFromSum := site != nil && site == sum
			okNew = hashFromSum && isRaw(a[3])
		}
		r.Check(okNew, "R3", "ReadTorrent/New(hash,raw-info)", rt.Pos(), "the torrent is created with that hash and the same raw bytes", "tor.New is not given the computed hash together with the raw info bytes")
	}
	// WriteTorrent: BTorrent literal
	var lit *ssa.Alloc
	fields := map[string]ssa.Value{}
	allInstrs(wt, func(in ssa.Instruction) {
		al, ok := in.(*ssa.Alloc)
		if !ok || !typeIs(al.Type(), modPath+"/tor", "BTorrent") {
			return
		}
		lit = al
		for _, ref := range *al.Referrers() {
			if fa, ok := ref.(*ssa.FieldAddr); ok {
				for _, r2 := range *fa.Referrers() {
					if st, ok := r2.(*ssa.Store); ok && st.Addr == ssa.Value(fa) {
						fields[fieldVar(fa).Name()] = st.Val
					}
				}
			}
		}
	})
	if lit == nil {
		r.Fail("R3", "WriteTorrent/BTorrent-literal", wt.Pos(), "WriteTorrent no longer builds a BTorrent")
		return
	}
	infoOK := false
	if v := fields["Info"]; v != nil {
		if fv, _ := loadedField(strip(v)); fv != nil && fv.Name() == "Info" {
			infoOK = true
		}
	}
	r.Check(infoOK, "R3", "WriteTorrent/Info=t.Info", lit.Pos(), "the raw info bytes are re-emitted unchanged", "WriteTorrent does not emit t.Info as stored")
	// every tracker/webseed URL is emitted: stores of X.URL() results inside range loops over t.trackers / t.webseeds
	urlStores := 0
	allInstrs(wt, func(in ssa.Instruction) {
		c, ok := in.(*ssa.Call)
		if ok && c.Call.IsInvoke() && c.Call.Method.Name() == "URL" {
			urlStores++
		}
	})
	r.Check(urlStores >= 3, "R3", "WriteTorrent/URL()-of-trackers-and-webseeds", wt.Pos(), "tracker and both kinds of web-seed URLs are collected", fmt.Sprintf("only %d URL() calls remain in WriteTorrent (trackers, GetRight and Hoffman seeds expected)", urlStores))
	// each list is grown from itself: `hs = append(ul, …)` (a copy-paste slip) replaces one list by another
	{
		nApp := 0
		allInstrs(wt, func(in ssa.Instruction) {
			c, ok := in.(*ssa.Call)
			if !ok {
				return
			}
			bi, ok := c.Call.Value.(*ssa.Builtin)
			if !ok || bi.Name() != "append" || len(c.Call.Args) == 0 {
				return
			}
			// the loop-carried variable the result is assigned to
			var into *ssa.Phi
			var walk func(v ssa.Value, d int)
			seen := map[ssa.Value]bool{}
			walk = func(v ssa.Value, d int) {
				if d > 4 || seen[v] || v.Referrers() == nil {
					return
				}
				seen[v] = true
				for _, ref := range *v.Referrers() {
					if ph, isPhi := ref.(*ssa.Phi); isPhi {
						if ph.Block().Dominates(c.Block()) && into == nil {
							into = ph // a header phi: dominates the append it is fed by
						} else {
							walk(ph, d+1)
						}
					}
				}
			}
			walk(c, 0)
			if into == nil {
				return
			}
			nApp++
			// the slice that is extended: the same variable
			from := c.Call.Args[0]
			okSelf := false
			var back func(v ssa.Value, d int)
			seen2 := map[ssa.Value]bool{}
			back = func(v ssa.Value, d int) {
				if d > 4 || seen2[v] {
					return
				}
				seen2[v] = true
				if v == ssa.Value(into) {
					okSelf = true
					return
				}
				if ph, isPhi := v.(*ssa.Phi); isPhi && !ph.Block().Dominates(into.Block()) {
					for _, e := range ph.Edges {
						back(e, d+1)
					}
				}
			}
			back(from, 0)
			key := fmt.Sprintf("WriteTorrent/append-extends-its-own-list(%s)", exprStr(c))
			r.Check(okSelf, "R3", key, c.Pos(), "the list is extended from itself", "a URL list in WriteTorrent is assigned the extension of another list: the served-back .torrent loses entries of this list (and gains those of the other)")
		})
		if nApp == 0 {
			r.Info("R3", "WriteTorrent/append-extends-its-own-list", wt.Pos(), "no loop-carried append found")
		}
	}
	// announce-list omitted only when there is at most one tracker
	if al := fields["AnnounceList"]; al != nil {
		ph, isPhi := al.(*ssa.Phi)
		okAL := !isPhi
		if isPhi {
			okAL = true
			trackers := fieldLoadOf("Torrent", "trackers")
			for i, e := range ph.Edges {
				if !isNilConst(e) {
					continue
				}
				pb := ph.Block().Preds[i]
				// the nil edge needs: len(t.trackers) == 1 && len(t.trackers[0]) == 1   (or len(t.trackers) == 0)
				outer, inner := false, false
				for _, g := range guardsOnEdge(pb, ph.Block()) {
					// len(…) == k on this edge, however it is spelled (== taken, != not taken)
					op, cx, cy, ok := cmpFact(g)
					if !ok || op != token.EQL {
						continue
					}
					k, okk := constInt(cy)
					if !okk || k > 1 {
						continue
					}
					c, okc := cx.(*ssa.Call)
					if !okc {
						continue
					}
					bi, okb := c.Call.Value.(*ssa.Builtin)
					if !okb || bi.Name() != "len" {
						continue
					}
					arg := c.Call.Args[0]
					// the tracker table itself, or a local table made with one entry per tier (make([][]string, len(t.trackers)))
					tiersLike := func(v ssa.Value) bool {
						if ms, ok := v.(*ssa.MakeSlice); ok {
							return mentions(ms.Len, trackers, 0)
						}
						if ld, ok := v.(*ssa.UnOp); ok && ld.Op == token.MUL {
							return trackers(ld.X)
						}
						return mentions(v, trackers, 0)
					}
					if ld, ok := arg.(*ssa.UnOp); ok && ld.Op == token.MUL {
						if ia, isIdx := ld.X.(*ssa.IndexAddr); isIdx && tiersLike(ia.X) {
							inner = true
							continue
						}
					}
					if tiersLike(arg) {
						outer = true
						if k == 0 {
							inner = true
						}
					}
				}
				if !(outer && inner) {
					okAL = false
				}
			}
		}
		r.Check(okAL, "R3", "WriteTorrent/announce-list-omitted-only-for-single-tracker", lit.Pos(), "announce-list is left out only when the torrent has exactly one tracker (one tier of one)", "announce-list can be omitted when a tier has several trackers: all but the first tracker are lost from the served .torrent")
	} else {
		r.Fail("R3", "WriteTorrent/announce-list", lit.Pos(), "WriteTorrent never sets announce-list")
	}
}

// edgeGuard: the guard carried by the edge from -> to, if `from` ends in an If.
func edgeGuard(from, to *ssa.BasicBlock) []Guard {
	if len(from.Instrs) == 0 {
		return nil
	}
	iff, ok := from.Instrs[len(from.Instrs)-1].(*ssa.If)
	if !ok || from.Succs[0] == from.Succs[1] {
		return nil
	}
	return []Guard{{iff.Cond, from.Succs[0] == to, iff}}
}

func c13R4(r *Report) {
	p := r.P
	rm := p.Func("tor", "ReadMagnet")
	if !r.Anchor("R4", "tor.ReadMagnet", rm != nil) {
		return
	}
	r.Fn(rm)
	n := 0
	var body []ssa.Instruction
	for _, f := range localCallees(p, rm, []string{"tor"}) {
		// ReadMagnet and the helpers of package tor it reaches; constructors of other subsystems are not magnet parsing
		if f != rm && (f.Name() == "New" || f.Signature.Recv() != nil) {
			continue
		}
		allInstrs(f, func(in ssa.Instruction) { body = append(body, in) })
	}
	for _, in := range body {
		func(in ssa.Instruction) {
			sl, ok := in.(*ssa.Slice)
			if !ok || sl.Low == nil {
				return
			}
			if b, ok := sl.X.Type().Underlying().(*types.Basic); !ok || b.Info()&types.IsString == 0 {
				return
			}
			k, okk := constInt(sl.Low)
			if !okk {
				return
			}
			n++
			guarded := false
			for _, g := range guardsOf(sl.Block()) {
				g = g.norm()
				c, okc := g.Cond.(*ssa.Call)
				if !okc || !g.Pol || !isStdCall(c, "strings", "", "HasPrefix") {
					continue
				}
				pre, okp := constString(c.Call.Args[1])
				if okp && int64(len(pre)) >= k && c.Call.Args[0] == sl.X {
					guarded = true
				}
			}
			r.Check(guarded, "R4", fmt.Sprintf("ReadMagnet/v[%d:]", k), sl.Pos(), "the slice is dominated by HasPrefix with a prefix at least as long", "the string is sliced at a constant offset without a dominating prefix test of at least that length")
		}(in)
	}
	// a parser written without constant-offset slicing (strings.CutPrefix) has nothing to guard: zero instances is
	// a legitimate state of this rule, so it carries no vacuity sentinel
	if n == 0 {
		r.Ok("R4", "ReadMagnet/no-constant-offset-slicing", rm.Pos(), "ReadMagnet and its helpers slice no string at a constant offset")
	}
	_ = strings.ToLower
}

// maxMakeLen: the largest block count that fits both uint32 and the platform's int.
func maxMakeLen(p *Prog) int64 {
	if p.Variant == "linux386" {
		return 1<<31 - 1
	}
	return 1<<32 - 1
}

// ---------- typed nil ----------

// c13TypedNil: a function of the module whose result is a module interface (webseed.Webseed, tracker.Tracker) reports
// "no such thing" by returning nil, and its callers test `== nil`. Returning a pointer-typed value that can be nil —
// the result of a constructor that returns (*T)(nil) on failure — yields an interface that is not nil but panics on the
// first method call: ReadTorrent accepts an ftp:// web seed, and WriteTorrent or the scheduler crash on it later.
func c13TypedNil(r *Report, rule string) {
	p := r.P
	n := 0
	// mayBeNil: a pointer value that can be the nil pointer
	var mayBeNil func(v ssa.Value, d int) bool
	mayBeNil = func(v ssa.Value, d int) bool {
		if d > 4 || v == nil {
			return false
		}
		switch x := v.(type) {
		case *ssa.Const:
			return x.IsNil()
		case *ssa.Phi:
			for _, e := range x.Edges {
				if mayBeNil(e, d+1) {
					return true
				}
			}
		case *ssa.Call:
			h := x.Call.StaticCallee()
			if h == nil || h.Blocks == nil || x.Call.IsInvoke() || !strings.HasPrefix(funcPkgPath(h), modPath) {
				return false
			}
			for _, ret := range returnsOf(h) {
				res := retResults(ret)
				if len(res) >= 1 && mayBeNil(res[0], d+1) {
					return true
				}
			}
		case *ssa.Extract:
			if c, ok := x.Tuple.(*ssa.Call); ok && x.Index == 0 {
				h := c.Call.StaticCallee()
				if h == nil || h.Blocks == nil || !strings.HasPrefix(funcPkgPath(h), modPath) {
					return false
				}
				for _, ret := range returnsOf(h) {
					res := retResults(ret)
					if len(res) >= 1 && mayBeNil(res[0], d+1) {
						return true
					}
				}
			}
		}
		return false
	}
	for _, f := range p.SrcFuncs() {
		pk := relPkg(f)
		if pk != "webseed" && pk != "tracker" && pk != "tor" {
			continue
		}
		res := f.Signature.Results()
		for i := 0; i < res.Len(); i++ {
			nt := namedOf(res.At(i).Type())
			if nt == nil || nt.Obj().Pkg() == nil || !strings.HasPrefix(nt.Obj().Pkg().Path(), modPath) {
				continue
			}
			if _, isI := nt.Underlying().(*types.Interface); !isI {
				continue
			}
			for _, ret := range returnsOf(f) {
				rr := retResults(ret)
				if i >= len(rr) {
					continue
				}
				mi, ok := rr[i].(*ssa.MakeInterface)
				if !ok {
					continue
				}
				if _, isPtr := mi.X.Type().Underlying().(*types.Pointer); !isPtr {
					continue
				}
				n++
				r.Fn(f)
				// a pointer tested non-nil before it is wrapped is fine
				guarded := false
				for _, g := range guardsOf(ret.Block()) {
					if x, isNil, okn := nilFact(g); okn && !isNil && x == mi.X {
						guarded = true
					}
				}
				r.Check(guarded || !mayBeNil(mi.X, 0), rule, fmt.Sprintf("%s/returns-%s-not-typed-nil", fname(f), nt.Obj().Name()), ret.Pos(), "the interface result wraps a pointer that cannot be nil",
					fname(f)+" returns a "+typeShort(mi.X.Type())+" that can be nil as a "+nt.Obj().Name()+": the interface value is not nil, so the caller's `== nil` test accepts it, and the first method call on it dereferences a nil pointer (a web seed or tracker with an unusable URL is kept, and crashes the torrent when it is used or written back)")
			}
		}
	}
	r.Sentinel(rule+".typed-nil", n, 2)
}

// c13Decoders: hash.Parse is handed whatever follows "magnet:" (and every xt= value, HTTP parameter and command-line
// argument). The decoders that write into a caller-supplied buffer — hex.Decode, (*base32.Encoding).Decode,
// (*base64.Encoding).Decode — index past its end when the input is longer than the buffer provides for (they panic;
// they do not return an error). Wherever the module uses one, the destination is made for this very source:
// make([]byte, DecodedLen(len(src))) (or len(src), which is never less), or the source's length is bounded by a guard
// that fits the destination. The *String variants allocate what they need.
func c13Decoders(r *Report, rule string) {
	p := r.P
	env := &IntEnv{}
	n := 0
	for _, f := range p.SrcFuncs() {
		if !strings.HasPrefix(funcPkgPath(f), modPath) {
			continue
		}
		allInstrs(f, func(in ssa.Instruction) {
			c, ok := in.(*ssa.Call)
			if !ok || c.Call.IsInvoke() {
				return
			}
			o := calleeObj(c)
			if o == nil || o.Pkg() == nil || o.Name() != "Decode" {
				return
			}
			ratioNum, ratioDen := int64(0), int64(1) // decoded length <= len(src) * num / den
			switch o.Pkg().Path() {
			case "encoding/hex":
				ratioNum, ratioDen = 1, 2
			case "encoding/base32":
				ratioNum, ratioDen = 5, 8
			case "encoding/base64":
				ratioNum, ratioDen = 3, 4
			default:
				return
			}
			args := c.Call.Args
			dst, src := args[len(args)-2], args[len(args)-1]
			n++
			r.Fn(f)
			good := false
			if ms, isMk := dst.(*ssa.MakeSlice); isMk {
				l := stripIntConv(ms.Len)
				// make([]byte, len(src)) or make([]byte, X.DecodedLen(len(src)))
				if isLenOf(l, src) {
					good = true
				}
				if dc, isC := l.(*ssa.Call); isC && calleeObj(dc) != nil && calleeObj(dc).Name() == "DecodedLen" && len(dc.Call.Args) > 0 && isLenOf(stripIntConv(dc.Call.Args[len(dc.Call.Args)-1]), src) {
					good = true
				}
				if !good {
					// a bounded source: len(src)*num/den <= len(dst) by intervals
					dl := env.At(ms.Len, c.Block())
					var srcLen Itv = Itv{0, posInf}
					allInstrs(f, func(i2 ssa.Instruction) {
						if lc, isL := i2.(*ssa.Call); isL && isLenOf(lc, src) && instrDominates(lc, c) {
							srcLen = env.At(lc, c.Block())
						}
					})
					if cv, isCv := src.(*ssa.Convert); isCv {
						// []byte(s): the string's length
						allInstrs(f, func(i2 ssa.Instruction) {
							if lc, isL := i2.(*ssa.Call); isL && isLenOf(lc, cv.X) && instrDominates(lc, c) {
								srcLen = srcLen.meet(env.At(lc, c.Block()))
							}
						})
					}
					if srcLen.Hi != posInf && dl.Lo >= (srcLen.Hi*ratioNum+ratioDen-1)/ratioDen {
						good = true
					}
				}
			}
			r.Check(good, rule, fmt.Sprintf("%s/%s.Decode-destination-fits", fname(f), o.Pkg().Name()), c.Pos(), "the destination is made for this source (DecodedLen(len(src))), or the source is bounded to fit it",
				fmt.Sprintf("%s decodes into a buffer that is not sized from the input: %s.Decode indexes past the end of a destination that is too small — it panics, it does not return an error — so an over-long identifier (a 64-digit v2 hash where a v1 hash is expected, in a magnet link, an HTTP parameter or on the command line) crashes the process instead of being refused", fname(f), o.Pkg().Name()))
		})
	}
	r.Sentinel(rule+".decoders", n, 0)
}
