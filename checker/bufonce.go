package main

import (
	"fmt"
	"go/token"
	"go/types"
	"strings"

	"golang.org/x/tools/go/ssa"
)

// A pooled buffer goes back to the pool once.  protocol.Write gives a Piece's payload back on every path, so whoever
// hands a Piece to it (directly, or through a helper that always does) has given the buffer away: a second PutBuffer
// of the same payload puts one backing array into the pool twice, two later GetBuffer calls share it, and one
// upload's payload (or one received block) is overwritten by another before it is sent (stored).
//
// bufRoot names the thing a buffer expression belongs to: the parameter, call result or received value from which
// it was obtained through .Data, type assertions, interface conversions, slicing and local Piece variables.
func bufRoot(v ssa.Value, d int) ssa.Value {
	if d > 10 || v == nil {
		return v
	}
	isData := func(fv *types.Var) bool { return fv != nil && fv.Name() == "Data" }
	cellRoot := func(cell *ssa.Alloc, field bool) ssa.Value {
		// the one non-nil value stored into the cell (or into its Data field)
		var val ssa.Value
		n := 0
		for _, ref := range *cell.Referrers() {
			switch x := ref.(type) {
			case *ssa.Store:
				if x.Addr == cell {
					n++
					val = x.Val
				}
			case *ssa.FieldAddr:
				if !isData(fieldVar(x)) {
					continue
				}
				for _, r2 := range *x.Referrers() {
					if st, ok := r2.(*ssa.Store); ok && st.Addr == x && !isNilConst(st.Val) {
						n++
						val = st.Val
					}
				}
			}
		}
		if n == 1 {
			return bufRoot(val, d+1)
		}
		return cell
	}
	switch x := v.(type) {
	case *ssa.Slice:
		return bufRoot(x.X, d+1)
	case *ssa.Field:
		if isData(fieldVar(x)) {
			return bufRoot(x.X, d+1)
		}
	case *ssa.TypeAssert:
		return bufRoot(x.X, d+1)
	case *ssa.Extract:
		if ta, ok := x.Tuple.(*ssa.TypeAssert); ok && x.Index == 0 {
			return bufRoot(ta.X, d+1)
		}
	case *ssa.MakeInterface:
		return bufRoot(x.X, d+1)
	case *ssa.ChangeInterface:
		return bufRoot(x.X, d+1)
	case *ssa.ChangeType:
		return bufRoot(x.X, d+1)
	case *ssa.UnOp:
		if x.Op.String() != "*" {
			return v
		}
		switch a := x.X.(type) {
		case *ssa.Alloc:
			return cellRoot(a, false)
		case *ssa.FieldAddr:
			if !isData(fieldVar(a)) {
				return v
			}
			if cell, ok := a.X.(*ssa.Alloc); ok {
				return cellRoot(cell, true)
			}
			return bufRoot(a.X, d+1)
		}
	}
	return v
}

type bufOnce struct {
	p    *Prog
	pb   *ssa.Function
	memo map[string]bool
	busy map[string]bool
}

// consumes: the call gives the buffer rooted at the returned value back to the pool on every path (nil: it does not).
func (bo *bufOnce) consumes(c ssa.CallInstruction) ssa.Value {
	cc := c.Common()
	if cc.IsInvoke() {
		return nil
	}
	h := cc.StaticCallee()
	if h == nil {
		return nil
	}
	if h == bo.pb {
		if len(cc.Args) == 1 {
			return bufRoot(cc.Args[0], 0)
		}
		return nil
	}
	// any sync.Pool: what is Put must not be used any more
	if ci, ok := c.(*ssa.Call); ok && isStdCall(ci, "sync", "Pool", "Put") && len(cc.Args) == 2 {
		return bufRoot(cc.Args[1], 0)
	}
	if h.Blocks == nil || !strings.HasPrefix(funcPkgPath(h), modPath) {
		return nil
	}
	off := len(cc.Args) - len(h.Params) // closures: bindings are not arguments
	if off != 0 {
		return nil
	}
	for j := range h.Params {
		if bo.mustConsume(h, j) {
			return bufRoot(cc.Args[j], 0)
		}
	}
	return nil
}

func carriesBuffer(t types.Type) bool {
	if it, ok := t.Underlying().(*types.Interface); ok && it.NumMethods() == 0 {
		return true // what a sync.Pool hands out
	}
	if typeIs(derefType(t), modPath+"/protocol", "Piece") || typeIs(t, modPath+"/protocol", "Message") {
		return true
	}
	if s, ok := t.Underlying().(*types.Slice); ok {
		b, okb := s.Elem().Underlying().(*types.Basic)
		return okb && b.Kind() == types.Byte
	}
	return false
}

// mustConsume: every path through h — from the point where parameter j is known to be a Piece, when it is an interface —
// gives the parameter's buffer back.
func (bo *bufOnce) mustConsume(h *ssa.Function, j int) bool {
	if j >= len(h.Params) || !carriesBuffer(h.Params[j].Type()) {
		return false
	}
	key := fmt.Sprintf("%p/%d", h, j)
	if v, ok := bo.memo[key]; ok {
		return v
	}
	if bo.busy[key] {
		return false
	}
	bo.busy[key] = true
	defer delete(bo.busy, key)
	pa := h.Params[j]
	isPut := func(in ssa.Instruction) bool {
		c, ok := in.(ssa.CallInstruction)
		if !ok {
			return false
		}
		if _, isGo := in.(*ssa.Go); isGo {
			return false
		}
		if _, isDefer := in.(*ssa.Defer); isDefer {
			return false
		}
		return bo.consumes(c) == ssa.Value(pa)
	}
	any := false
	for _, b := range h.Blocks {
		for _, in := range b.Instrs {
			if isPut(in) {
				any = true
			}
		}
	}
	res := false
	if any {
		isRet := func(in ssa.Instruction) bool { _, ok := in.(*ssa.Return); return ok }
		var starts []*ssa.BasicBlock
		if _, isI := pa.Type().Underlying().(*types.Interface); isI {
			for _, ref := range *pa.Referrers() {
				ta, ok := ref.(*ssa.TypeAssert)
				if !ok || !ta.CommaOk || !typeIs(derefType(ta.AssertedType), modPath+"/protocol", "Piece") {
					continue
				}
				for _, r2 := range *ta.Referrers() {
					ex, ok := r2.(*ssa.Extract)
					if !ok || ex.Index != 1 {
						continue
					}
					for _, r3 := range *ex.Referrers() {
						if iff, ok := r3.(*ssa.If); ok {
							starts = append(starts, iff.Block().Succs[0])
						}
					}
				}
			}
		} else {
			starts = []*ssa.BasicBlock{h.Blocks[0]}
		}
		res = len(starts) > 0
		for _, s := range starts {
			_, reached := pathsMissingAt(s, 0, -1, isRet, isPut, nil, nil)
			if reached > 0 {
				res = false
			}
		}
	}
	bo.memo[key] = res
	return res
}

// ---------- hand-over: a buffer sent away on a channel belongs to the receiver ----------

type progPoint struct {
	b   *ssa.BasicBlock
	idx int
}

func (pp progPoint) dominates(in ssa.Instruction) bool {
	if pp.b == in.Block() {
		return pp.idx <= instrIndex(in)
	}
	return pp.b.Dominates(in.Block())
}

// sendPoints: the points of f after which the buffer rooted at `root` has been sent on a channel (a plain send, or
// the case of a select that sends it).
func sendPoints(f *ssa.Function, root func(v ssa.Value) bool) []progPoint {
	var out []progPoint
	for _, b := range f.Blocks {
		for i, in := range b.Instrs {
			switch x := in.(type) {
			case *ssa.Send:
				if root(x.X) {
					out = append(out, progPoint{b, i + 1})
				}
			case *ssa.Select:
				for k, st := range x.States {
					if st.Dir == types.SendOnly && st.Send != nil && root(st.Send) {
						if cb := selectCaseBlock(x, k); cb != nil {
							out = append(out, progPoint{cb, 0})
						}
					}
				}
			}
		}
	}
	return out
}

// handsOverWhenNil: h returns one error, and it returns nil exactly on the paths on which it has sent parameter j on a
// channel (peer.write: nil = queued for the writer, ErrCongested/EOF = not queued).
func (bo *bufOnce) handsOverWhenNil(h *ssa.Function, j int) bool {
	if h.Blocks == nil || j >= len(h.Params) || !carriesBuffer(h.Params[j].Type()) || h.Signature.Results().Len() != 1 {
		return false
	}
	key := fmt.Sprintf("ho:%p/%d", h, j)
	if v, ok := bo.memo[key]; ok {
		return v
	}
	pa := h.Params[j]
	pts := sendPoints(h, func(v ssa.Value) bool { return bufRoot(v, 0) == ssa.Value(pa) })
	res := len(pts) > 0
	if res {
		after := map[*ssa.BasicBlock]bool{}
		for _, pt := range pts {
			for b := range reachableFrom(pt.b) {
				after[b] = true
			}
			after[pt.b] = true
		}
		someNil := false
		for _, ret := range returnsOf(h) {
			rv := retResults(ret)
			if len(rv) != 1 {
				res = false
				break
			}
			if isNilConst(rv[0]) {
				dom := false
				for _, pt := range pts {
					if pt.dominates(ret) {
						dom = true
					}
				}
				if !dom {
					res = false
				}
				someNil = true
			} else if after[ret.Block()] {
				res = false // a failure reported after the message was sent: the outcome does not tell
			}
		}
		res = res && someNil
	}
	bo.memo[key] = res
	return res
}

type handOver struct {
	at      progPoint
	pos     token.Pos
	root    ssa.Value
	condNil ssa.Value // when set, the hand-over happened only if this value (an error) is nil
}

func (bo *bufOnce) handOvers(f *ssa.Function) []handOver {
	var out []handOver
	for _, b := range f.Blocks {
		for i, in := range b.Instrs {
			switch x := in.(type) {
			case *ssa.Send:
				if carriesBuffer(x.X.Type()) {
					out = append(out, handOver{progPoint{b, i + 1}, x.Pos(), bufRoot(x.X, 0), nil})
				}
			case *ssa.Select:
				for k, st := range x.States {
					if st.Dir == types.SendOnly && st.Send != nil && carriesBuffer(st.Send.Type()) {
						if cb := selectCaseBlock(x, k); cb != nil {
							out = append(out, handOver{progPoint{cb, 0}, st.Pos, bufRoot(st.Send, 0), nil})
						}
					}
				}
			case *ssa.Call:
				h := x.Call.StaticCallee()
				if h == nil || x.Call.IsInvoke() || h.Blocks == nil || !strings.HasPrefix(funcPkgPath(h), modPath) || len(x.Call.Args) != len(h.Params) {
					continue
				}
				for j := range h.Params {
					if bo.handsOverWhenNil(h, j) {
						out = append(out, handOver{progPoint{b, i + 1}, x.Pos(), bufRoot(x.Call.Args[j], 0), x})
					}
				}
			}
		}
	}
	return out
}

// reachesAfterHandOver: some path leads from the hand-over to `to` that is consistent with the hand-over having
// happened (edges on which its error result is known non-nil are not taken) and does not re-execute root's definition.
func reachesAfterHandOver(ho handOver, to ssa.Instruction) bool {
	contradicts := func(iff *ssa.If, succ int) bool {
		if ho.condNil == nil {
			return false
		}
		g := Guard{Cond: iff.Cond, Pol: succ == 0}.norm()
		if x, isNil, ok := nilFact(g); ok && x == ho.condNil && !isNil {
			return true
		}
		if b, ok := g.Cond.(*ssa.BinOp); ok && b.Op == token.EQL && g.Pol {
			// err == ErrCongested: err is not nil
			if (b.X == ho.condNil && !isNilConst(b.Y)) || (b.Y == ho.condNil && !isNilConst(b.X)) {
				return true
			}
		}
		return false
	}
	return reachesFrom(ho.at, guardsOf(ho.at.b), to, ho.root, contradicts)
}

// bufferOnce: in no function of the module is a buffer given back (PutBuffer, or a call that always gives it back)
// at a point reachable from another place that gave the same buffer back.
func bufferOnce(r *Report, rule string) {
	p := r.P
	pb := p.Func("protocol", "PutBuffer")
	if !r.Anchor(rule, "protocol.PutBuffer", pb != nil) {
		return
	}
	bo := &bufOnce{p: p, pb: pb, memo: map[string]bool{}, busy: map[string]bool{}}
	type ev struct {
		in   ssa.Instruction
		root ssa.Value
	}
	n := 0
	for _, f := range p.SrcFuncs() {
		var evs []ev
		for _, b := range f.Blocks {
			for _, in := range b.Instrs {
				c, ok := in.(*ssa.Call)
				if !ok {
					continue
				}
				if root := bo.consumes(c); root != nil {
					evs = append(evs, ev{in, root})
				}
			}
		}
		if len(evs) == 0 {
			continue
		}
		r.Fn(f)
		hos := bo.handOvers(f)
		for _, e2 := range evs {
			n++
			var first ssa.Instruction
			var handed *handOver
			for i := range hos {
				if hos[i].root == e2.root && reachesAfterHandOver(hos[i], e2.in) {
					handed = &hos[i]
					break
				}
			}
			for _, e1 := range evs {
				if e1.in == e2.in || e1.root != e2.root {
					continue
				}
				if reachesAvoidingDef(e1.in, e2.in, e1.root) {
					first = e1.in
					break
				}
			}
			what := "PutBuffer"
			if h := e2.in.(*ssa.Call).Call.StaticCallee(); h != pb {
				what = fname(h)
			}
			msg := ""
			if first != nil {
				msg = fmt.Sprintf("the buffer was already given back at %s: the pool now holds one backing array twice, two later GetBuffer calls share it, and a queued upload's payload (or a block being received) is overwritten by another before it is sent (stored)", r.P.Fset.Position(first.Pos()))
			}
			if handed != nil {
				msg = fmt.Sprintf("the buffer is given back to the pool although the message that carries it was handed on at %s (a send on a channel, or a call that returns nil exactly when it has queued the message): the pool hands the buffer out again while the message is still waiting to be written, and the peer receives whatever the next user put there instead of the requested range", r.P.Fset.Position(handed.pos))
			}
			r.Check(first == nil && handed == nil, rule, fmt.Sprintf("%s/%s-gives-back-once", fname(f), what), e2.in.Pos(), "no other give-back of the same buffer, and no hand-over of it to another goroutine, reaches this one", msg)
		}
	}
	r.Sentinel(rule+".give-back", n, 4)
}

// bufferUseAfterGiveBack: what has been given back to the pool is no longer read, written, sent or returned: the next
// GetBuffer may already have handed it to somebody else.
func bufferUseAfterGiveBack(r *Report, rule string) {
	p := r.P
	pb := p.Func("protocol", "PutBuffer")
	if pb == nil {
		return
	}
	bo := &bufOnce{p: p, pb: pb, memo: map[string]bool{}, busy: map[string]bool{}}
	n := 0
	for _, f := range p.SrcFuncs() {
		type ev struct {
			in   ssa.Instruction
			root ssa.Value
		}
		var evs []ev
		isEv := map[ssa.Instruction]bool{}
		allInstrs(f, func(in ssa.Instruction) {
			if c, ok := in.(*ssa.Call); ok {
				if root := bo.consumes(c); root != nil {
					evs = append(evs, ev{in, root})
					isEv[in] = true
				}
			}
		})
		if len(evs) == 0 {
			continue
		}
		r.Fn(f)
		// uses of a buffer: calls, sends, stores, element accesses and returns whose operand belongs to root
		usesRoot := func(in ssa.Instruction, root ssa.Value) bool {
			if isEv[in] {
				return false
			}
			switch x := in.(type) {
			case *ssa.Call:
				if b, ok := x.Call.Value.(*ssa.Builtin); ok && (b.Name() == "len" || b.Name() == "cap") {
					return false
				}
			case *ssa.Go, *ssa.Defer, *ssa.Send, *ssa.IndexAddr, *ssa.Return, *ssa.Range:
			case *ssa.Store:
				return carriesBuffer(x.Val.Type()) && !isNilConst(x.Val) && bufRoot(x.Val, 0) == root
			default:
				return false
			}
			for _, op := range in.Operands(nil) {
				if *op == nil || !carriesBuffer((*op).Type()) || isNilConst(*op) {
					continue
				}
				if bufRoot(*op, 0) == root {
					return true
				}
			}
			return false
		}
		for _, e := range evs {
			n++
			var use ssa.Instruction
			allInstrs(f, func(in ssa.Instruction) {
				if use == nil && usesRoot(in, e.root) && reachesAvoidingDef(e.in, in, e.root) {
					use = in
				}
			})
			msg := ""
			if use != nil {
				msg = fmt.Sprintf("the buffer is used at %s after it was given back to the pool here: the pool may already have handed it to another reader or upload, so what is stored, sent or returned there is somebody else's data", p.Fset.Position(use.Pos()))
			}
			r.Check(use == nil, rule, fmt.Sprintf("%s/not-used-after-give-back", fname(f)), e.in.Pos(), "no use of the buffer is reachable from the point where it was given back", msg)
		}
	}
	r.Sentinel(rule+".use-after", n, 4)
}

// reachesAvoidingDef: some feasible-looking path leads from just after `from` to `to` without re-executing the
// instruction that defines root (a buffer obtained anew in each iteration of a loop is another buffer). Edges that
// contradict a branch fact under which `from` executes (if err != nil { put }; if err == nil { … }) are not taken,
// as long as the path has not gone back through the definition of the value tested.
func reachesAvoidingDef(from, to ssa.Instruction, root ssa.Value) bool {
	return reachesFrom(progPoint{from.Block(), instrIndex(from) + 1}, guardsOf(from.Block()), to, root, nil)
}

type subjFact struct {
	x     ssa.Value
	isNil bool
}

func reachesFrom(start progPoint, base []Guard, to ssa.Instruction, root ssa.Value, extra func(iff *ssa.If, succ int) bool) bool {
	def, _ := root.(ssa.Instruction)
	var nilFacts []subjFact
	conds := map[ssa.Value]bool{}
	defBlocks := map[*ssa.BasicBlock]bool{}
	note := func(v ssa.Value) {
		if in, ok := v.(ssa.Instruction); ok && in.Block() != nil {
			defBlocks[in.Block()] = true
		}
	}
	for _, g := range base {
		g = g.norm()
		if x, isNil, ok := nilFact(g); ok {
			nilFacts = append(nilFacts, subjFact{x, isNil})
			note(x)
		}
		conds[g.Cond] = g.Pol
		note(g.Cond)
	}
	contradicts := func(iff *ssa.If, succ int) bool {
		g := Guard{Cond: iff.Cond, Pol: succ == 0}.norm()
		if pol, ok := conds[g.Cond]; ok && pol != g.Pol {
			return true
		}
		if x, isNil, ok := nilFact(g); ok {
			for _, nf := range nilFacts {
				if nf.x == x && nf.isNil != isNil {
					return true
				}
			}
		}
		return false
	}
	type key struct {
		b     *ssa.BasicBlock
		stale bool
	}
	seen := map[key]bool{}
	var scan func(b *ssa.BasicBlock, idx int, stale bool) bool
	scan = func(b *ssa.BasicBlock, idx int, stale bool) bool {
		for _, in := range b.Instrs[idx:] {
			if in == to {
				return true
			}
			if def != nil && in == def {
				return false
			}
		}
		iff, _ := b.Instrs[len(b.Instrs)-1].(*ssa.If)
		for si, s2 := range b.Succs {
			if iff != nil {
				if extra != nil && extra(iff, si) {
					continue
				}
				if !stale && contradicts(iff, si) {
					continue
				}
			}
			st := stale || defBlocks[s2] && s2 != start.b
			if !seen[key{s2, st}] {
				seen[key{s2, st}] = true
				if scan(s2, 0, st) {
					return true
				}
			}
		}
		return false
	}
	return scan(start.b, start.idx, false)
}
