package main

import (
	"fmt"
	"go/types"
	"strings"

	"golang.org/x/tools/go/ssa"
)

// A pooled buffer goes back to the pool once.  protocol.Write gives a Piece's payload back on every path, so whoever
// hands a Piece to it (directly, or through a helper that always does) has given the buffer away: a second PutBuffer
// of the same payload puts one backing array into the pool twice, two later GetBuffer calls share it, and one
// upload's payload (or one received block) is overwritten by another before it is sent (stored).
//
// bufRoot names the thing a buffer expression belongs to: the parameter, call result or received value from which
// it was obtained through .Data, type assertions, interface conversions, slicing and local Piece variables.
func bufRoot(v ssa.Value, d int) ssa.Value {
	if d > 10 || v == nil {
		return v
	}
	isData := func(fv *types.Var) bool { return fv != nil && fv.Name() == "Data" }
	cellRoot := func(cell *ssa.Alloc, field bool) ssa.Value {
		// the one non-nil value stored into the cell (or into its Data field)
		var val ssa.Value
		n := 0
		for _, ref := range *cell.Referrers() {
			switch x := ref.(type) {
			case *ssa.Store:
				if x.Addr == cell {
					n++
					val = x.Val
				}
			case *ssa.FieldAddr:
				if !isData(fieldVar(x)) {
					continue
				}
				for _, r2 := range *x.Referrers() {
					if st, ok := r2.(*ssa.Store); ok && st.Addr == x && !isNilConst(st.Val) {
						n++
						val = st.Val
					}
				}
			}
		}
		if n == 1 {
			return bufRoot(val, d+1)
		}
		return cell
	}
	switch x := v.(type) {
	case *ssa.Slice:
		return bufRoot(x.X, d+1)
	case *ssa.Field:
		if isData(fieldVar(x)) {
			return bufRoot(x.X, d+1)
		}
	case *ssa.TypeAssert:
		return bufRoot(x.X, d+1)
	case *ssa.Extract:
		if ta, ok := x.Tuple.(*ssa.TypeAssert); ok && x.Index == 0 {
			return bufRoot(ta.X, d+1)
		}
	case *ssa.MakeInterface:
		return bufRoot(x.X, d+1)
	case *ssa.ChangeInterface:
		return bufRoot(x.X, d+1)
	case *ssa.ChangeType:
		return bufRoot(x.X, d+1)
	case *ssa.UnOp:
		if x.Op.String() != "*" {
			return v
		}
		switch a := x.X.(type) {
		case *ssa.Alloc:
			return cellRoot(a, false)
		case *ssa.FieldAddr:
			if !isData(fieldVar(a)) {
				return v
			}
			if cell, ok := a.X.(*ssa.Alloc); ok {
				return cellRoot(cell, true)
			}
			return bufRoot(a.X, d+1)
		}
	}
	return v
}

type bufOnce struct {
	p    *Prog
	pb   *ssa.Function
	memo map[string]bool
	busy map[string]bool
}

// consumes: the call gives the buffer rooted at the returned value back to the pool on every path (nil: it does not).
func (bo *bufOnce) consumes(c ssa.CallInstruction) ssa.Value {
	cc := c.Common()
	if cc.IsInvoke() {
		return nil
	}
	h := cc.StaticCallee()
	if h == nil {
		return nil
	}
	if h == bo.pb {
		if len(cc.Args) == 1 {
			return bufRoot(cc.Args[0], 0)
		}
		return nil
	}
	if h.Blocks == nil || !strings.HasPrefix(funcPkgPath(h), modPath) {
		return nil
	}
	off := len(cc.Args) - len(h.Params) // closures: bindings are not arguments
	if off != 0 {
		return nil
	}
	for j := range h.Params {
		if bo.mustConsume(h, j) {
			return bufRoot(cc.Args[j], 0)
		}
	}
	return nil
}

func carriesBuffer(t types.Type) bool {
	if typeIs(derefType(t), modPath+"/protocol", "Piece") || typeIs(t, modPath+"/protocol", "Message") {
		return true
	}
	if s, ok := t.Underlying().(*types.Slice); ok {
		b, okb := s.Elem().Underlying().(*types.Basic)
		return okb && b.Kind() == types.Byte
	}
	return false
}

// mustConsume: every path through h — from the point where parameter j is known to be a Piece, when it is an interface —
// gives the parameter's buffer back.
func (bo *bufOnce) mustConsume(h *ssa.Function, j int) bool {
	if j >= len(h.Params) || !carriesBuffer(h.Params[j].Type()) {
		return false
	}
	key := fmt.Sprintf("%p/%d", h, j)
	if v, ok := bo.memo[key]; ok {
		return v
	}
	if bo.busy[key] {
		return false
	}
	bo.busy[key] = true
	defer delete(bo.busy, key)
	pa := h.Params[j]
	isPut := func(in ssa.Instruction) bool {
		c, ok := in.(ssa.CallInstruction)
		if !ok {
			return false
		}
		if _, isGo := in.(*ssa.Go); isGo {
			return false
		}
		if _, isDefer := in.(*ssa.Defer); isDefer {
			return false
		}
		return bo.consumes(c) == ssa.Value(pa)
	}
	any := false
	for _, b := range h.Blocks {
		for _, in := range b.Instrs {
			if isPut(in) {
				any = true
			}
		}
	}
	res := false
	if any {
		isRet := func(in ssa.Instruction) bool { _, ok := in.(*ssa.Return); return ok }
		var starts []*ssa.BasicBlock
		if _, isI := pa.Type().Underlying().(*types.Interface); isI {
			for _, ref := range *pa.Referrers() {
				ta, ok := ref.(*ssa.TypeAssert)
				if !ok || !ta.CommaOk || !typeIs(derefType(ta.AssertedType), modPath+"/protocol", "Piece") {
					continue
				}
				for _, r2 := range *ta.Referrers() {
					ex, ok := r2.(*ssa.Extract)
					if !ok || ex.Index != 1 {
						continue
					}
					for _, r3 := range *ex.Referrers() {
						if iff, ok := r3.(*ssa.If); ok {
							starts = append(starts, iff.Block().Succs[0])
						}
					}
				}
			}
		} else {
			starts = []*ssa.BasicBlock{h.Blocks[0]}
		}
		res = len(starts) > 0
		for _, s := range starts {
			_, reached := pathsMissingAt(s, 0, -1, isRet, isPut, nil, nil)
			if reached > 0 {
				res = false
			}
		}
	}
	bo.memo[key] = res
	return res
}

// bufferOnce: in no function of the module is a buffer given back (PutBuffer, or a call that always gives it back)
// at a point reachable from another place that gave the same buffer back.
func bufferOnce(r *Report, rule string) {
	p := r.P
	pb := p.Func("protocol", "PutBuffer")
	if !r.Anchor(rule, "protocol.PutBuffer", pb != nil) {
		return
	}
	bo := &bufOnce{p: p, pb: pb, memo: map[string]bool{}, busy: map[string]bool{}}
	type ev struct {
		in   ssa.Instruction
		root ssa.Value
	}
	n := 0
	for _, f := range p.SrcFuncs() {
		var evs []ev
		for _, b := range f.Blocks {
			for _, in := range b.Instrs {
				c, ok := in.(*ssa.Call)
				if !ok {
					continue
				}
				if root := bo.consumes(c); root != nil {
					evs = append(evs, ev{in, root})
				}
			}
		}
		if len(evs) == 0 {
			continue
		}
		r.Fn(f)
		for _, e2 := range evs {
			n++
			var first ssa.Instruction
			for _, e1 := range evs {
				if e1.in == e2.in || e1.root != e2.root {
					continue
				}
				if reachesAvoidingDef(e1.in, e2.in, e1.root) {
					first = e1.in
					break
				}
			}
			what := "PutBuffer"
			if h := e2.in.(*ssa.Call).Call.StaticCallee(); h != pb {
				what = fname(h)
			}
			msg := ""
			if first != nil {
				msg = fmt.Sprintf("the buffer was already given back at %s: the pool now holds one backing array twice, two later GetBuffer calls share it, and a queued upload's payload (or a block being received) is overwritten by another before it is sent (stored)", r.P.Fset.Position(first.Pos()))
			}
			r.Check(first == nil, rule, fmt.Sprintf("%s/%s-gives-back-once", fname(f), what), e2.in.Pos(), "no other give-back of the same buffer reaches this one", msg)
		}
	}
	r.Sentinel(rule+".give-back", n, 4)
}

// reachesAvoidingDef: some path leads from just after `from` to `to` without re-executing the instruction that
// defines root (a buffer obtained anew in each iteration of a loop is another buffer).
func reachesAvoidingDef(from, to ssa.Instruction, root ssa.Value) bool {
	def, _ := root.(ssa.Instruction)
	seen := map[*ssa.BasicBlock]bool{}
	var scan func(b *ssa.BasicBlock, idx int) bool
	scan = func(b *ssa.BasicBlock, idx int) bool {
		for _, in := range b.Instrs[idx:] {
			if in == to {
				return true
			}
			if def != nil && in == def {
				return false
			}
		}
		for _, s := range b.Succs {
			if !seen[s] {
				seen[s] = true
				if scan(s, 0) {
					return true
				}
			}
		}
		return false
	}
	return scan(from.Block(), instrIndex(from)+1)
}
