package main

// E-int: a small interval analysis over SSA values, refined by dominating guards.
// Sound for the operations it models; everything else yields the type's range.

import (
	"fmt"
	"go/token"
	"go/types"
	"math"
	"strings"

	"golang.org/x/tools/go/ssa"
)

const (
	negInf = math.MinInt64
	posInf = math.MaxInt64
)

type Itv struct{ Lo, Hi int64 }

func (i Itv) String() string {
	f := func(x int64) string {
		switch x {
		case negInf:
			return "-inf"
		case posInf:
			return "+inf"
		}
		return itoa(x)
	}
	return "[" + f(i.Lo) + "," + f(i.Hi) + "]"
}

func itoa(x int64) string {
	if x == 0 {
		return "0"
	}
	neg := x < 0
	var b []byte
	u := uint64(x)
	if neg {
		u = uint64(-x)
	}
	for u > 0 {
		b = append([]byte{byte('0' + u%10)}, b...)
		u /= 10
	}
	if neg {
		b = append([]byte{'-'}, b...)
	}
	return string(b)
}

func (i Itv) meet(j Itv) Itv {
	if j.Lo > i.Lo {
		i.Lo = j.Lo
	}
	if j.Hi < i.Hi {
		i.Hi = j.Hi
	}
	return i
}

func (i Itv) join(j Itv) Itv {
	if j.Lo < i.Lo {
		i.Lo = j.Lo
	}
	if j.Hi > i.Hi {
		i.Hi = j.Hi
	}
	return i
}

func (i Itv) empty() bool { return i.Lo > i.Hi }

func satAdd(a, b int64) int64 {
	if a == posInf || b == posInf {
		if a == negInf || b == negInf {
			return posInf // undefined; callers treat conservatively
		}
		return posInf
	}
	if a == negInf || b == negInf {
		return negInf
	}
	s := a + b
	if (a > 0 && b > 0 && s < 0) || s == posInf {
		return posInf
	}
	if (a < 0 && b < 0 && s >= 0) || s == negInf {
		return negInf
	}
	return s
}

func satNeg(a int64) int64 {
	if a == posInf {
		return negInf
	}
	if a == negInf {
		return posInf
	}
	return -a
}

func satMul(a, b int64) int64 {
	if a == 0 || b == 0 {
		return 0
	}
	neg := (a < 0) != (b < 0)
	if a == posInf || a == negInf || b == posInf || b == negInf {
		if neg {
			return negInf
		}
		return posInf
	}
	p := a * b
	if p/b != a {
		if neg {
			return negInf
		}
		return posInf
	}
	return p
}

func typeRange(t types.Type) Itv {
	b, ok := t.Underlying().(*types.Basic)
	if !ok {
		return Itv{negInf, posInf}
	}
	switch b.Kind() {
	case types.Uint8:
		return Itv{0, 255}
	case types.Uint16:
		return Itv{0, 65535}
	case types.Uint32:
		return Itv{0, math.MaxUint32}
	case types.Uint, types.Uint64, types.Uintptr:
		return Itv{0, posInf}
	case types.Int8:
		return Itv{-128, 127}
	case types.Int16:
		return Itv{-32768, 32767}
	case types.Int32:
		return Itv{math.MinInt32, math.MaxInt32}
	case types.Int, types.Int64, types.UntypedInt:
		// int is 64-bit on the default build; on 386 it is 32-bit. We model int as the
		// 32-bit range for upper-bound purposes only where explicitly asked (see fits()).
		return Itv{negInf, posInf}
	}
	return Itv{negInf, posInf}
}

func isUnsigned(t types.Type) bool {
	b, ok := t.Underlying().(*types.Basic)
	return ok && b.Info()&types.IsUnsigned != 0
}

func isInteger(t types.Type) bool {
	b, ok := t.Underlying().(*types.Basic)
	return ok && b.Info()&types.IsInteger != 0
}

func within(i, r Itv) bool { return i.Lo >= r.Lo && i.Hi <= r.Hi }

// IntEnv evaluates intervals in one function.
type IntEnv struct {
	depth int
	// extra facts supplied by the rule: value -> interval (e.g. summaries)
	Facts map[ssa.Value]Itv
	// SameVal, if set, extends value identity (e.g. repeated loads of one field)
	SameVal func(a, b ssa.Value) bool
}

func (e *IntEnv) same(a, b ssa.Value) bool {
	if a == b {
		return true
	}
	if e != nil && e.SameVal != nil {
		return e.SameVal(a, b)
	}
	return false
}

// At returns an interval containing every value v can have when control is in block b
// (b must be dominated by v's definition).
func (e *IntEnv) At(v ssa.Value, b *ssa.BasicBlock) Itv {
	return e.at(v, b, 0)
}

func (e *IntEnv) at(v ssa.Value, b *ssa.BasicBlock, depth int) Itv {
	if depth > 12 {
		return typeRange(v.Type())
	}
	res := e.structural(v, b, depth)
	if f, ok := e.Facts[v]; ok {
		res = res.meet(f)
	}
	// refine by dominating guards that mention v
	if b != nil {
		for _, g := range guardsOf(b) {
			res = res.meet(e.fromGuard(g, v, depth))
		}
	}
	return res
}

func (e *IntEnv) structural(v ssa.Value, b *ssa.BasicBlock, depth int) Itv {
	tr := typeRange(v.Type())
	switch x := v.(type) {
	case *ssa.Const:
		if c, ok := constInt(x); ok {
			return Itv{c, c}
		}
		return tr
	case *ssa.Convert:
		if !isInteger(x.X.Type()) || !isInteger(x.Type()) {
			return tr
		}
		in := e.at(x.X, b, depth+1)
		if within(in, tr) {
			return in
		}
		return tr
	case *ssa.ChangeType:
		return e.at(x.X, b, depth+1).meet(tr)
	case *ssa.BinOp:
		if !isInteger(x.Type()) {
			return tr
		}
		l := e.at(x.X, b, depth+1)
		r := e.at(x.Y, b, depth+1)
		var out Itv
		switch x.Op {
		case token.ADD:
			out = Itv{satAdd(l.Lo, r.Lo), satAdd(l.Hi, r.Hi)}
		case token.SUB:
			out = Itv{satAdd(l.Lo, satNeg(r.Hi)), satAdd(l.Hi, satNeg(r.Lo))}
		case token.MUL:
			c := []int64{satMul(l.Lo, r.Lo), satMul(l.Lo, r.Hi), satMul(l.Hi, r.Lo), satMul(l.Hi, r.Hi)}
			out = Itv{c[0], c[0]}
			for _, y := range c[1:] {
				out = out.join(Itv{y, y})
			}
		case token.QUO:
			if r.Lo >= 1 && l.Lo >= 0 {
				hi := l.Hi
				if hi != posInf {
					hi = l.Hi / r.Lo
				}
				lo := int64(0)
				if r.Hi != posInf {
					lo = l.Lo / r.Hi
				}
				out = Itv{lo, hi}
			} else {
				return tr
			}
		case token.REM:
			if r.Lo >= 1 && l.Lo >= 0 {
				hi := satAdd(r.Hi, -1)
				if l.Hi < hi {
					hi = l.Hi
				}
				out = Itv{0, hi}
			} else {
				return tr
			}
		case token.AND:
			if r.Lo >= 0 && l.Lo >= 0 {
				hi := r.Hi
				if l.Hi < hi {
					hi = l.Hi
				}
				out = Itv{0, hi}
			} else if r.Lo >= 0 {
				out = Itv{0, r.Hi}
			} else if l.Lo >= 0 {
				out = Itv{0, l.Hi}
			} else {
				return tr
			}
		case token.SHR:
			if l.Lo >= 0 {
				out = Itv{0, l.Hi}
			} else {
				return tr
			}
		default:
			return tr
		}
		if within(out, tr) {
			return out
		}
		return tr // may wrap
	case *ssa.Call:
		if bi, ok := x.Call.Value.(*ssa.Builtin); ok {
			switch bi.Name() {
			case "len", "cap":
				r := Itv{0, posInf}
				// len of a fixed-size array or of make([]T, n)
				if arg := x.Call.Args[0]; arg != nil {
					if at, ok := derefType(arg.Type()).Underlying().(*types.Array); ok {
						return Itv{at.Len(), at.Len()}
					}
					if bi.Name() == "len" {
						if ms, ok := arg.(*ssa.MakeSlice); ok {
							return e.at(ms.Len, b, depth+1).meet(r)
						}
						if s, ok := constString(arg); ok {
							return Itv{int64(len(s)), int64(len(s))}
						}
					}
				}
				return r
			case "min":
				out := e.at(x.Call.Args[0], b, depth+1)
				for _, a := range x.Call.Args[1:] {
					o := e.at(a, b, depth+1)
					if o.Lo < out.Lo {
						out.Lo = o.Lo
					}
					if o.Hi < out.Hi {
						out.Hi = o.Hi
					}
				}
				return out
			case "max":
				out := e.at(x.Call.Args[0], b, depth+1)
				for _, a := range x.Call.Args[1:] {
					o := e.at(a, b, depth+1)
					if o.Lo > out.Lo {
						out.Lo = o.Lo
					}
					if o.Hi > out.Hi {
						out.Hi = o.Hi
					}
				}
				return out
			}
		}
		// the result of a module-local function: the hull of what it can return (context-insensitive)
		if iv, ok := resultInterval(x, 0, depth); ok {
			return iv.meet(tr)
		}
		return tr
	case *ssa.Extract:
		if c, ok := x.Tuple.(*ssa.Call); ok && isInteger(x.Type()) {
			if iv, ok := resultInterval(c, x.Index, depth); ok {
				return iv.meet(tr)
			}
		}
	case *ssa.Parameter:
		// a parameter of a private function: the hull of what its callers pass (readBytes(r, length-1))
		if pathsProg != nil && depth < 8 && isInteger(x.Type()) {
			f := x.Parent()
			if obj, isFn := f.Object().(*types.Func); isFn && !obj.Exported() && f.Parent() == nil {
				sites, esc := pathsProg.callSitesOf(f)
				if len(esc) == 0 && len(sites) > 0 && len(sites) <= 12 {
					idx := -1
					for i, q := range f.Params {
						if q == x {
							idx = i
						}
					}
					var hull Itv
					first := true
					for _, cs := range sites {
						ci, isI := cs.(ssa.Instruction)
						if !isI || idx < 0 || idx >= len(cs.Common().Args) || cs.Common().IsInvoke() {
							return tr
						}
						if _, isGo := cs.(*ssa.Go); isGo {
							return tr
						}
						iv := e.at(cs.Common().Args[idx], ci.Block(), depth+4)
						if first {
							hull, first = iv, false
						} else {
							hull = hull.join(iv)
						}
					}
					if !first {
						return hull.meet(tr)
					}
				}
			}
		}
	case *ssa.Phi:
		var out Itv
		first := true
		for i, ed := range x.Edges {
			if ed == ssa.Value(x) {
				continue
			}
			var pb *ssa.BasicBlock
			if i < len(x.Block().Preds) {
				pb = x.Block().Preds[i]
			}
			// an edge taken only when a parameter had the value that a branch dominating b excludes was not taken
			// (l := 4; if ipv6 { l = 16 } … if ipv6 { use of l }): parameters do not change
			if pb != nil && b != nil && phiEdgeContradicts(pb, x.Block(), b) {
				continue
			}
			var iv Itv
			if depth > 6 {
				iv = typeRange(ed.Type())
			} else {
				iv = e.at(ed, pb, depth+3)
				// the branch taken into the phi's block also constrains the value on this edge
				if pb != nil {
					for _, g := range expandGuards(edgeGuard(pb, x.Block())) {
						iv = iv.meet(e.fromGuard(g, ed, depth+3))
					}
				}
			}
			if first {
				out, first = iv, false
			} else {
				out = out.join(iv)
			}
		}
		if first {
			return tr
		}
		return out.meet(tr)
	}
	return tr
}

// fromGuard: what guard g (dominating) says about v.
func (e *IntEnv) fromGuard(g Guard, v ssa.Value, depth int) Itv {
	all := Itv{negInf, posInf}
	g = g.norm()
	if iv, ok := e.fromValidator(g, v, depth); ok {
		return iv
	}
	bo, ok := g.Cond.(*ssa.BinOp)
	if !ok {
		return all
	}
	op := bo.Op
	var other ssa.Value
	shift := int64(0) // the guard constrains v + shift
	// n := int(length) - 9; if n < 0 { … }: a guard on a widened copy of v plus a constant constrains v
	affineOf := func(x ssa.Value) (int64, bool) {
		base, c := splitAddConst(x)
		for i := 0; i < 3; i++ {
			cv, ok := base.(*ssa.Convert)
			if !ok || !isInteger(cv.Type()) || !isInteger(cv.X.Type()) || !within(typeRange(cv.X.Type()), typeRange(cv.Type())) {
				break
			}
			b2, c2 := splitAddConst(cv.X)
			base, c = b2, c+c2
		}
		if base != x && (e.same(base, v) || base == v) && isInteger(v.Type()) {
			// the sum must not wrap in the type it is computed in
			if tr := typeRange(x.Type()); tr.Lo <= negInf/2 || (typeRange(v.Type()).Lo+c >= tr.Lo && typeRange(v.Type()).Hi+c <= tr.Hi) {
				return c, true
			}
		}
		return 0, false
	}
	switch {
	case e.same(bo.X, v):
		other = bo.Y
	case e.same(bo.Y, v):
		other = bo.X
		// mirror: c OP v  ==  v OP' c
		switch op {
		case token.LSS:
			op = token.GTR
		case token.LEQ:
			op = token.GEQ
		case token.GTR:
			op = token.LSS
		case token.GEQ:
			op = token.LEQ
		}
	default:
		if c, ok := affineOf(bo.X); ok {
			if _, isK := bo.Y.(*ssa.Const); isK {
				other, shift = bo.Y, c
				break
			}
		}
		return all
	}
	if !isInteger(v.Type()) {
		return all
	}
	if !g.Pol {
		switch op {
		case token.LSS:
			op = token.GEQ
		case token.LEQ:
			op = token.GTR
		case token.GTR:
			op = token.LEQ
		case token.GEQ:
			op = token.LSS
		case token.EQL:
			op = token.NEQ
		case token.NEQ:
			op = token.EQL
		default:
			return all
		}
	}
	// interval of the other side, evaluated at the guard's block
	var gb *ssa.BasicBlock
	if g.If != nil {
		gb = g.If.Block()
	}
	o := e.at(other, gb, depth+4)
	if shift != 0 {
		o = Itv{satAdd(o.Lo, -shift), satAdd(o.Hi, -shift)}
	}
	switch op {
	case token.LSS:
		return Itv{negInf, satAdd(o.Hi, -1)}
	case token.LEQ:
		return Itv{negInf, o.Hi}
	case token.GTR:
		return Itv{satAdd(o.Lo, 1), posInf}
	case token.GEQ:
		return Itv{o.Lo, posInf}
	case token.EQL:
		return o
	case token.NEQ:
		// only useful at the boundary of the type range, handled by caller via exclusion
		if o.Lo == o.Hi {
			tr := typeRange(v.Type())
			if tr.Lo == o.Lo {
				return Itv{satAdd(o.Lo, 1), posInf}
			}
			if tr.Hi == o.Lo {
				return Itv{negInf, satAdd(o.Lo, -1)}
			}
		}
	}
	return all
}

// fromValidator: the guard tests the outcome of a module-local validation helper that was handed v:
//
//	if !validSize(v) { return err }            (boolean result)
//	if err := check(v); err != nil { return }   (error result, nil on this edge)
//
// What the helper knows about the corresponding parameter at every return that can produce this outcome holds
// for v here (the hull over those returns).
func (e *IntEnv) fromValidator(g Guard, v ssa.Value, depth int) (Itv, bool) {
	if depth > 8 || !isInteger(v.Type()) {
		return Itv{}, false
	}
	var call *ssa.Call
	outcome := 0 // 1 bool true, 2 bool false, 3 error nil
	resIdx := 0
	switch c := g.Cond.(type) {
	case *ssa.Call:
		call = c
		outcome = 2
		if g.Pol {
			outcome = 1
		}
	case *ssa.BinOp:
		x, isNil, ok := nilFact(g)
		if !ok || !isNil || !isErrorType(x.Type()) {
			return Itv{}, false
		}
		call, resIdx = callOfValue(x)
		outcome = 3
	}
	if call == nil || call.Call.IsInvoke() {
		return Itv{}, false
	}
	h := call.Call.StaticCallee()
	if h == nil || h.Blocks == nil || !strings.HasPrefix(funcPkgPath(h), modPath) {
		return Itv{}, false
	}
	k := -1
	sv := stripIntConv(v)
	for i, a := range call.Call.Args {
		if i < len(h.Params) && (e.same(a, v) || stripIntConv(a) == sv || e.same(stripIntConv(a), sv)) {
			k = i
		}
	}
	if k < 0 || !isInteger(h.Params[k].Type()) {
		return Itv{}, false
	}
	prm := h.Params[k]
	e2 := &IntEnv{}
	var hull Itv
	first := true
	for _, ret := range returnsOf(h) {
		res := retResults(ret)
		if resIdx >= len(res) {
			return Itv{}, false
		}
		rv := res[resIdx]
		iv := e2.at(prm, ret.Block(), depth+4)
		switch outcome {
		case 1, 2:
			want := outcome == 1
			if b, isb := constBool(rv); isb {
				if b != want {
					continue
				}
			} else {
				for _, gg := range expandGuards([]Guard{{Cond: rv, Pol: want}}) {
					iv = iv.meet(e2.fromGuard(gg, prm, depth+4))
				}
			}
		case 3:
			// a return whose error is provably non-nil cannot produce this outcome; one that may or may not be
			// nil contributes what is known at it
			if !isNilConst(rv) && pathsProg != nil && newNilEnv(pathsProg).At(rv, ret.Block()) == NonNil {
				continue
			}
		}
		if first {
			hull, first = iv, false
		} else {
			hull = hull.join(iv)
		}
	}
	if first {
		return Itv{}, false
	}
	// the parameter's type may be narrower/wider than v's: only bounds inside v's own range are meaningful
	return hull, true
}

// nonZeroAt: v provably != 0 in block b (interval excludes zero, or a dominating v != 0 / v == 0 guard).
func (e *IntEnv) nonZeroAt(v ssa.Value, b *ssa.BasicBlock) bool {
	iv := e.At(v, b)
	if iv.Lo > 0 || iv.Hi < 0 {
		return true
	}
	for _, g := range guardsOf(b) {
		g = g.norm()
		bo, ok := g.Cond.(*ssa.BinOp)
		if !ok {
			continue
		}
		var other ssa.Value
		if e.same(bo.X, v) {
			other = bo.Y
		} else if e.same(bo.Y, v) {
			other = bo.X
		} else {
			continue
		}
		c, ok := constInt(other)
		if !ok || c != 0 {
			continue
		}
		if (bo.Op == token.NEQ && g.Pol) || (bo.Op == token.EQL && !g.Pol) {
			return true
		}
	}
	// conversion of a non-zero value that cannot truncate to zero
	if cv, ok := v.(*ssa.Convert); ok && isInteger(cv.X.Type()) {
		in := e.At(cv.X, b)
		if within(in, typeRange(cv.Type())) && e.nonZeroAt(cv.X, b) {
			return true
		}
	}
	return false
}

// sameAllocLoad: a and b are loads of the same local variable (Alloc) with no store to it and no call
// (closures may write captured variables) on any path from a to b.
func sameAllocLoad(a, b ssa.Value) bool {
	la, ok1 := a.(*ssa.UnOp)
	lb, ok2 := b.(*ssa.UnOp)
	if !ok1 || !ok2 || la.Op != token.MUL || lb.Op != token.MUL || la.X != lb.X {
		return false
	}
	al, ok := la.X.(*ssa.Alloc)
	if !ok {
		return false
	}
	captured := false
	for _, ref := range *al.Referrers() {
		if _, ok := ref.(*ssa.MakeClosure); ok {
			captured = true
		}
	}
	mayWrite := func(in ssa.Instruction) bool {
		if st, ok := in.(*ssa.Store); ok && st.Addr == ssa.Value(al) {
			return true
		}
		if _, ok := in.(ssa.CallInstruction); ok && captured {
			if c, isCall := in.(*ssa.Call); isCall {
				if _, isBuiltin := c.Call.Value.(*ssa.Builtin); isBuiltin {
					return false
				}
			}
			return true
		}
		return false
	}
	// either order
	return !pathHas(la, lb, mayWrite) && instrDominates(la, lb) || !pathHas(lb, la, mayWrite) && instrDominates(lb, la)
}

var resultIntervalMemo = map[string]*Itv{}

// resultInterval: the hull of the idx-th result over all returns of a module-local callee with a body.
func resultInterval(c *ssa.Call, idx int, depth int) (Itv, bool) {
	if c.Call.IsInvoke() {
		return Itv{}, false
	}
	h := c.Call.StaticCallee()
	if h == nil || h.Blocks == nil || !strings.HasPrefix(funcPkgPath(h), modPath) {
		return Itv{}, false
	}
	key := fmt.Sprintf("%p/%d", h, idx)
	if m, ok := resultIntervalMemo[key]; ok {
		if m == nil {
			return Itv{}, false // in progress (recursion) or not computable
		}
		return *m, true
	}
	resultIntervalMemo[key] = nil
	e2 := &IntEnv{SameVal: sameQuietFieldLoad}
	var hull Itv
	first := true
	for _, ret := range returnsOf(h) {
		res := retResults(ret)
		if idx >= len(res) || !isInteger(res[idx].Type()) {
			return Itv{}, false
		}
		// the summary is memoised per function: it must not depend on how deep the first asker was
		iv := e2.at(res[idx], ret.Block(), 0)
		if first {
			hull, first = iv, false
		} else {
			hull = hull.join(iv)
		}
	}
	if first {
		return Itv{}, false
	}
	resultIntervalMemo[key] = &hull
	return hull, true
}

// sameQuietFieldLoad: a and b are loads of the same field of the same object in a function that neither stores to that
// field nor calls anything but builtins (a small accessor: `switch { case x.f <= 0: …; case x.f < min: …; default: return x.f }`).
func sameQuietFieldLoad(a, b ssa.Value) bool {
	la, ok1 := stripIntConv(a).(*ssa.UnOp)
	lb, ok2 := stripIntConv(b).(*ssa.UnOp)
	if !ok1 || !ok2 || la.Op != token.MUL || lb.Op != token.MUL {
		return false
	}
	fa, ok1 := la.X.(*ssa.FieldAddr)
	fb, ok2 := lb.X.(*ssa.FieldAddr)
	if !ok1 || !ok2 || fa.X != fb.X || fa.Field != fb.Field || la.Parent() == nil || la.Parent() != lb.Parent() {
		return false
	}
	quiet := true
	allInstrs(la.Parent(), func(in ssa.Instruction) {
		switch x := in.(type) {
		case *ssa.Store:
			if f2, ok := x.Addr.(*ssa.FieldAddr); ok && f2.Field == fa.Field && types.Identical(f2.X.Type(), fa.X.Type()) {
				quiet = false
			}
		case ssa.CallInstruction:
			if _, isB := x.Common().Value.(*ssa.Builtin); !isB {
				quiet = false
			}
		}
	})
	return quiet
}

// phiEdgeContradicts: the edge pred→phiBlock is taken only under a test of a parameter whose outcome contradicts a
// test of the same parameter that dominates block b.
func phiEdgeContradicts(pred, phiBlock, b *ssa.BasicBlock) bool {
	at := map[ssa.Value]bool{}
	for _, g := range guardsOf(b) {
		g = g.norm()
		if _, isP := g.Cond.(*ssa.Parameter); isP {
			at[g.Cond] = g.Pol
		}
	}
	if len(at) == 0 {
		return false
	}
	gs := append(append([]Guard{}, guardsOf(pred)...), expandGuards(edgeGuard(pred, phiBlock))...)
	for _, g := range gs {
		g = g.norm()
		if pol, has := at[g.Cond]; has && pol != g.Pol {
			return true
		}
	}
	return false
}
