package main

import (
	"fmt"
	"go/token"
	"go/types"
	"sort"
	"strings"

	"golang.org/x/tools/go/ssa"
)

const frameCap = 1 << 20

func init() {
	register(&PropSpec{
		ID: "C04",
		Explanation: "Static decision of four structural clauses of protocol.Read (and the module-local helpers it calls): " +
			"(R1) every return yields a non-nil message or a provably non-nil error; (R2) no unsigned subtraction on the frame length can wrap and no conversion of it can change sign; " +
			"(R3/R5) every allocation size is dominated by the 1 MiB frame cap or derived from the length of an already-decoded slice; " +
			"(R4) on every path to a successful return the bytes consumed from the reader sum to exactly 4+length (path-sensitive affine effect analysis). " +
			"(R6) strided compact-list loops stay in bounds. Decided for all inputs at once because the rules quantify over paths, not samples.",
		Rules: []string{
			"R1 result pair total (E-nil)", "R2 no wrap-around / sign change on frame arithmetic (E-int)",
			"R3 allocation sizes bounded by the frame (E-int)", "R4 exact consumption on success paths (E-aff, path-sensitive DP)",
			"R5 1 MiB cap dominates everything after the length read", "R6 strided-loop bounds lemma for compact lists"},
		NotDecided: []string{
			"third-party bencode decoder (github.com/zeebo/bencode): totality and its own allocation behaviour (decodeString preallocates the announced length)",
			"panics inside the standard library", "that binary.Read consumes exactly the size of its destination (trusted, stdlib)"},
		Assumptions: []string{
			"bufio.Reader.ReadByte/Discard, io.ReadFull, io.LimitReader, io.Copy, binary.Read consume what their documentation says",
			"github.com/zeebo/bencode is trusted not to panic and not to read beyond the io.LimitReader it is given; its allocation of announced string lengths (up to 2 GiB) is outside the analysed program — recorded as an open note in known_findings.json"},
		Run: runC04,
	})
}

func runC04(r *Report) {
	p := r.P
	read := p.Func("protocol", "Read")
	if !r.Anchor("R1", "protocol.Read", read != nil) {
		return
	}
	r.Fn(read)
	c04R1(r, read)
	scope := localCallees(p, read, []string{"protocol", "pex"})
	for _, f := range scope {
		r.Fn(f)
	}
	L := frameLength(read)
	if !r.Anchor("R2", "protocol.Read/frame-length (first readUint32 result)", L != nil) {
		return
	}
	c04R5(r, read, L)
	c04R2(r, scope)
	c04R3(r, read, scope, L)
	c04R4(r, read, L)
	c04R6(r, p)
	readFullChecked(r, "R6", map[string]bool{"protocol": true}, 3)
	// a decoded Piece owns its payload buffer: the buffer pool's discipline (C06.R6) — a foreign or wrongly sized slice in
	// the pool makes a later message share or overrun its payload
	c06R6(r.sub("R7"))
}

// localCallees: fn plus module-local functions (in the given packages) it reaches by static calls and closures.
func localCallees(p *Prog, fn *ssa.Function, pkgs []string) []*ssa.Function {
	ok := map[string]bool{}
	for _, k := range pkgs {
		ok[k] = true
	}
	seen := map[*ssa.Function]bool{fn: true}
	order := []*ssa.Function{fn}
	for i := 0; i < len(order); i++ {
		f := order[i]
		add := func(g *ssa.Function) {
			if g == nil || seen[g] || g.Blocks == nil || !ok[relPkg(g)] {
				return
			}
			seen[g] = true
			order = append(order, g)
		}
		for _, af := range f.AnonFuncs {
			add(af)
		}
		allInstrs(f, func(in ssa.Instruction) {
			add(calleeOf(in))
		})
	}
	return order
}

// frameLength: the uint32 extracted from the first call in Read (readUint32(r)).
func frameLength(read *ssa.Function) ssa.Value {
	if len(read.Blocks) == 0 {
		return nil
	}
	for _, in := range read.Blocks[0].Instrs {
		if ex, ok := in.(*ssa.Extract); ok && ex.Index == 0 {
			if c, ok := ex.Tuple.(*ssa.Call); ok && len(c.Call.Args) == 1 && c.Call.Args[0] == ssa.Value(read.Params[0]) {
				if b, ok := ex.Type().Underlying().(*types.Basic); ok && b.Kind() == types.Uint32 {
					return ex
				}
			}
		}
	}
	return nil
}

// ---------- R1 ----------

func c04R1(r *Report, read *ssa.Function) {
	ne := newNilEnv(r.P)
	n := 0
	nerr, nok := 0, 0
	for _, ret := range returnsOf(read) {
		n++
		m, e := ret.Results[0], ret.Results[1]
		mn := ne.At(m, ret.Block())
		en := ne.At(e, ret.Block())
		key := fmt.Sprintf("Read/return(%s,%s)", descVal(m), descVal(e))
		switch {
		case mn == NonNil && en == IsNil:
			nok++
			r.Ok("R1", key, ret.Pos(), "message %s non-nil, error nil", descVal(m))
		case mn == IsNil && en == NonNil:
			nerr++
			r.Ok("R1", key, ret.Pos(), "nil message with provably non-nil error %s", descVal(e))
		case mn == NonNil && en == NonNil:
			r.Ok("R1", key, ret.Pos(), "message and error both non-nil")
		case en == IsNil:
			r.Fail("R1", key, ret.Pos(), "returns message %s with an error value that is provably nil on this path: the caller receives (nil, nil) — 'no message and no error'", mn)
		default:
			r.Fail("R1", key, ret.Pos(), "returns message=%s error=%s: the error is not provably non-nil when the message may be nil", mn, en)
		}
	}
	r.Sentinel("R1", n, 50)
	r.Notes = append(r.Notes, fmt.Sprintf("R1: %d returns (%d success, %d error)", n, nok, nerr))

	// Reader forwards whatever Read returned; with R1 no nil message can reach the channel.
	if rd := r.P.Func("protocol", "Reader"); rd != nil {
		r.Fn(rd)
		// the only values sent on ch are the phi of Read's message and Error{err}
		sends := 0
		// Reader and the private helpers factored out of it (deliver(ch, done, m))
		for _, uf := range r.P.SrcFuncs() {
			if relPkg(uf) != "protocol" || !(uf == rd || enclosingNamed(uf) == rd || r.P.inUnitOf(enclosingNamed(uf), rd)) {
				continue
			}
			allInstrs(uf, func(in ssa.Instruction) {
				if sel, ok := in.(*ssa.Select); ok {
					for _, st := range sel.States {
						if st.Dir == types.SendOnly {
							sends++
						}
					}
				}
				if _, ok := in.(*ssa.Send); ok {
					sends++
				}
			})
		}
		r.Check(sends == 1, "R1", "Reader/single-send", rd.Pos(), "protocol.Reader has one send site for decoded messages", fmt.Sprintf("protocol.Reader has %d send sites; the rule knows one", sends))
	}
}

func descVal(v ssa.Value) string {
	switch x := v.(type) {
	case *ssa.Const:
		if x.Value == nil {
			return "nil"
		}
		return x.Value.String()
	case *ssa.MakeInterface:
		return typeShort(x.X.Type())
	case *ssa.UnOp:
		if g, ok := x.X.(*ssa.Global); ok {
			return g.Name()
		}
	case *ssa.Call:
		if f := x.Call.StaticCallee(); f != nil {
			return f.Name() + "()"
		}
	case *ssa.Extract:
		if c, ok := x.Tuple.(*ssa.Call); ok {
			if f := c.Call.StaticCallee(); f != nil {
				return fmt.Sprintf("%s()#%d", f.Name(), x.Index)
			}
			if c.Call.IsInvoke() {
				return fmt.Sprintf("%s()#%d", c.Call.Method.Name(), x.Index)
			}
		}
	case *ssa.Phi:
		return "phi"
	}
	return "value"
}

func typeShort(t types.Type) string {
	s := types.TypeString(t, func(p *types.Package) string { return p.Name() })
	return s
}

// ---------- R5 ----------

// c04R5: a guard `length > C` (C <= 1 MiB) whose false edge dominates every block of Read that
// follows the keep-alive return, i.e. every allocation and every payload read.
func c04R5(r *Report, read *ssa.Function, L ssa.Value) {
	env := &IntEnv{}
	// every MakeSlice / GetBuffer call / LimitReader / Discard in Read must see length <= cap
	n := 0
	allInstrs(read, func(in ssa.Instruction) {
		isSink := false
		what := ""
		switch x := in.(type) {
		case *ssa.MakeSlice:
			isSink, what = true, "make"
		case *ssa.Call:
			if f := x.Call.StaticCallee(); f != nil {
				switch {
				case f.Name() == "GetBuffer" && relPkg(f) == "protocol":
					isSink, what = true, "GetBuffer"
				case isStdCall(x, "io", "", "LimitReader"):
					isSink, what = true, "io.LimitReader"
				case isStdCall(x, "bufio", "Reader", "Discard"):
					isSink, what = true, "Discard"
				case isStdCall(x, "io", "", "ReadFull"):
					isSink, what = true, "io.ReadFull"
				}
			}
		}
		if !isSink {
			return
		}
		n++
		iv := env.At(L, in.Block())
		key := fmt.Sprintf("Read/%s#cap", what)
		if iv.Hi <= frameCap {
			r.Ok("R5", key, in.Pos(), "frame length in %s here: dominated by the rejection of frames above %d", iv, frameCap)
		} else {
			r.Fail("R5", key, in.Pos(), "frame length is only known to be in %s at this %s: no dominating guard refuses frames above 1 MiB", iv, what)
		}
	})
	r.Sentinel("R5", n, 10)
}

// ---------- R2 ----------

func c04R2(r *Report, scope []*ssa.Function) {
	env := &IntEnv{SameVal: sameLen}
	n := 0
	for _, f := range scope {
		allInstrs(f, func(in ssa.Instruction) {
			switch x := in.(type) {
			case *ssa.BinOp:
				if x.Op != token.SUB || !isUnsigned(x.Type()) {
					return
				}
				n++
				l := env.At(x.X, x.Block())
				rr := env.At(x.Y, x.Block())
				key := fmt.Sprintf("%s/%s-%s", fname(f), exprStr(x.X), exprStr(x.Y))
				if l.Lo >= rr.Hi {
					r.Ok("R2", key, x.Pos(), "unsigned subtraction cannot wrap: left in %s, right in %s", l, rr)
				} else {
					r.Fail("R2", key, x.Pos(), "unsigned subtraction can wrap around: left operand is only known to be in %s, right in %s (a short frame makes the result ~2^32)", l, rr)
				}
			case *ssa.Convert:
				// unsigned -> int: must fit in 31 bits so that it is non-negative on 32-bit builds too
				if !isInteger(x.Type()) || !isInteger(x.X.Type()) {
					return
				}
				if isUnsigned(x.X.Type()) && !isUnsigned(x.Type()) {
					bt := x.Type().Underlying().(*types.Basic)
					if bt.Kind() != types.Int && bt.Kind() != types.Int32 {
						return
					}
					src := x.X.Type().Underlying().(*types.Basic)
					if src.Kind() == types.Uint8 || src.Kind() == types.Uint16 {
						return
					}
					n++
					iv := env.At(x.X, x.Block())
					key := fmt.Sprintf("%s/int(%s)", fname(f), exprStr(x.X))
					if iv.Hi <= 1<<31-1 {
						r.Ok("R2", key, x.Pos(), "conversion to %s keeps the value: operand in %s", bt.Name(), iv)
					} else {
						r.Fail("R2", key, x.Pos(), "conversion of an unsigned value in %s to %s can become negative (32-bit int)", iv, bt.Name())
					}
				}
			}
		})
	}
	r.Sentinel("R2", n, 12)
}

// sameLen: two len() calls on the same SSA slice value are the same value (slices are immutable headers in SSA).
func sameLen(a, b ssa.Value) bool {
	ca, ok1 := a.(*ssa.Call)
	cb, ok2 := b.(*ssa.Call)
	if !ok1 || !ok2 {
		return false
	}
	ba, ok1 := ca.Call.Value.(*ssa.Builtin)
	bb, ok2 := cb.Call.Value.(*ssa.Builtin)
	if !ok1 || !ok2 || ba.Name() != "len" || bb.Name() != "len" {
		return false
	}
	return ca.Call.Args[0] == cb.Call.Args[0]
}

// exprStr renders an SSA value as a short, line-free expression for keys.
func exprStr(v ssa.Value) string { return exprStrD(v, 0) }

func exprStrD(v ssa.Value, d int) string {
	if d > 4 {
		return "…"
	}
	switch x := v.(type) {
	case *ssa.Const:
		if x.Value == nil {
			return "nil"
		}
		return x.Value.ExactString()
	case *ssa.Parameter:
		return x.Name()
	case *ssa.FreeVar:
		return x.Name()
	case *ssa.Global:
		return x.Name()
	case *ssa.Convert:
		return exprStrD(x.X, d)
	case *ssa.ChangeType:
		return exprStrD(x.X, d)
	case *ssa.MakeInterface:
		return exprStrD(x.X, d)
	case *ssa.BinOp:
		return "(" + exprStrD(x.X, d+1) + x.Op.String() + exprStrD(x.Y, d+1) + ")"
	case *ssa.UnOp:
		if x.Op == token.MUL {
			return exprStrD(x.X, d)
		}
		return x.Op.String() + exprStrD(x.X, d+1)
	case *ssa.FieldAddr:
		if fv := fieldVar(x); fv != nil {
			return exprStrD(x.X, d+1) + "." + fv.Name()
		}
	case *ssa.Field:
		if fv := fieldVar(x); fv != nil {
			return exprStrD(x.X, d+1) + "." + fv.Name()
		}
	case *ssa.IndexAddr:
		return exprStrD(x.X, d+1) + "[" + exprStrD(x.Index, d+1) + "]"
	case *ssa.Index:
		return exprStrD(x.X, d+1) + "[" + exprStrD(x.Index, d+1) + "]"
	case *ssa.Lookup:
		return exprStrD(x.X, d+1) + "[" + exprStrD(x.Index, d+1) + "]"
	case *ssa.Extract:
		if c, ok := x.Tuple.(*ssa.Call); ok {
			return fmt.Sprintf("%s#%d", exprStrD(c, d+1), x.Index)
		}
		return fmt.Sprintf("tuple#%d", x.Index)
	case *ssa.Call:
		name := "call"
		if bi, ok := x.Call.Value.(*ssa.Builtin); ok {
			name = bi.Name()
		} else if f := x.Call.StaticCallee(); f != nil {
			name = f.Name()
		} else if x.Call.IsInvoke() {
			name = x.Call.Method.Name()
		}
		var as []string
		for _, a := range x.Call.Args {
			as = append(as, exprStrD(a, d+2))
		}
		return name + "(" + strings.Join(as, ",") + ")"
	case *ssa.Phi:
		if x.Comment != "" {
			return x.Comment
		}
		return "phi"
	case *ssa.Alloc:
		if x.Comment != "" {
			return x.Comment
		}
		return "alloc"
	case *ssa.Slice:
		return exprStrD(x.X, d+1) + "[:]"
	case *ssa.MakeSlice:
		return "make(" + exprStrD(x.Len, d+1) + ")"
	case *ssa.TypeAssert:
		return exprStrD(x.X, d+1) + ".(" + typeShort(x.AssertedType) + ")"
	case *ssa.Function:
		return x.Name()
	}
	return v.Name()
}

// ---------- R3 ----------

// lenDerived: v is len(x), possibly divided by / reduced by non-negative quantities (monotone non-increasing in len).
func lenDerived(v ssa.Value, env *IntEnv, b *ssa.BasicBlock, depth int) bool {
	if depth > 6 {
		return false
	}
	switch x := v.(type) {
	case *ssa.Call:
		if bi, ok := x.Call.Value.(*ssa.Builtin); ok && (bi.Name() == "len") {
			return true
		}
	case *ssa.Convert:
		return lenDerived(x.X, env, b, depth+1)
	case *ssa.BinOp:
		switch x.Op {
		case token.QUO:
			return lenDerived(x.X, env, b, depth+1) && env.At(x.Y, b).Lo >= 1
		case token.SUB:
			return lenDerived(x.X, env, b, depth+1) && env.At(x.Y, b).Lo >= 0
		}
	case *ssa.Phi:
		for _, e := range x.Edges {
			if !lenDerived(e, env, b, depth+1) {
				if iv := env.At(e, b); iv.Hi > frameCap {
					return false
				}
			}
		}
		return true
	}
	return false
}

func c04R3(r *Report, read *ssa.Function, scope []*ssa.Function, L ssa.Value) {
	env := &IntEnv{SameVal: sameLen, Facts: map[ssa.Value]Itv{}}
	// trusted summary: (*bencode.Decoder).BytesParsed() >= 0
	for _, f := range scope {
		allInstrs(f, func(in ssa.Instruction) {
			if c, ok := in.(*ssa.Call); ok && isStdCall(c, "github.com/zeebo/bencode", "Decoder", "BytesParsed") {
				env.Facts[c] = Itv{0, posInf}
			}
		})
	}
	n := 0
	check := func(f *ssa.Function, in ssa.Instruction, what string, size ssa.Value) {
		n++
		iv := env.At(size, in.Block())
		key := fmt.Sprintf("%s/%s(%s)", fname(f), what, exprStr(size))
		lo := iv.Lo >= 0 || diffNonNeg(size, in.Block())
		switch {
		case iv.Hi <= frameCap && lo:
			r.Ok("R3", key, in.Pos(), "allocation size in %s: bounded by the frame cap", iv)
		case lenDerived(size, env, in.Block(), 0) && lo:
			r.Ok("R3", key, in.Pos(), "allocation size derives from the length of an already-decoded slice (non-increasing in it) and is non-negative")
		case !lo:
			r.Fail("R3", key, in.Pos(), "allocation size may be negative (interval %s): make panics", iv)
		default:
			r.Fail("R3", key, in.Pos(), "allocation size is only known to be in %s: not bounded by the 1 MiB frame", iv)
		}
	}
	for _, f := range scope {
		if f.Name() == "GetBuffer" {
			continue // its make(length) is checked at each call site's argument
		}
		if f.Parent() != nil && f.Name() != "" && f.Pkg == nil {
			// closures (debugf, pool.New) are included through scope already
		}
		allInstrs(f, func(in ssa.Instruction) {
			switch x := in.(type) {
			case *ssa.MakeSlice:
				check(f, in, "make", x.Len)
				if x.Cap != x.Len {
					check(f, in, "make.cap", x.Cap)
				}
			case *ssa.Call:
				if g := x.Call.StaticCallee(); g != nil && g.Name() == "GetBuffer" && relPkg(g) == "protocol" {
					check(f, in, "GetBuffer", x.Call.Args[0])
				}
			}
		})
	}
	r.Sentinel("R3", n, 5)
}

// diffNonNeg: v = a - b with a dominating guard b < a or b <= a (two-variable difference fact).
func diffNonNeg(v ssa.Value, b *ssa.BasicBlock) bool {
	bo, ok := strip(v).(*ssa.BinOp)
	if !ok || bo.Op != token.SUB {
		return false
	}
	for _, g := range guardsOf(b) {
		g = g.norm()
		c, ok := g.Cond.(*ssa.BinOp)
		if !ok {
			continue
		}
		eq := func(p, q ssa.Value) bool { return p == q || sameLen(p, q) }
		op := c.Op
		if !g.Pol {
			switch op {
			case token.LSS:
				op = token.GEQ
			case token.LEQ:
				op = token.GTR
			case token.GTR:
				op = token.LEQ
			case token.GEQ:
				op = token.LSS
			default:
				continue
			}
		}
		// Y < X, Y <= X  or  X > Y, X >= Y
		if (op == token.LSS || op == token.LEQ) && eq(c.X, bo.Y) && eq(c.Y, bo.X) {
			return true
		}
		if (op == token.GTR || op == token.GEQ) && eq(c.X, bo.X) && eq(c.Y, bo.Y) {
			return true
		}
	}
	return false
}

// ---------- R4: exact consumption ----------

type aff struct {
	A, B int64
	OK   bool
}

func (a aff) String() string {
	if !a.OK {
		return "?"
	}
	return fmt.Sprintf("%d*length%+d", a.A, a.B)
}

func affAdd(a, b aff) aff { return aff{a.A + b.A, a.B + b.B, a.OK && b.OK} }

// affineOf expresses v as A*L+B.
func affineOf(v, L ssa.Value, depth int) aff {
	if depth > 10 {
		return aff{}
	}
	if v == L {
		return aff{1, 0, true}
	}
	switch x := v.(type) {
	case *ssa.Const:
		if c, ok := constInt(x); ok {
			return aff{0, c, true}
		}
	case *ssa.Convert:
		return affineOf(x.X, L, depth+1)
	case *ssa.ChangeType:
		return affineOf(x.X, L, depth+1)
	case *ssa.BinOp:
		l, r := affineOf(x.X, L, depth+1), affineOf(x.Y, L, depth+1)
		if !l.OK || !r.OK {
			return aff{}
		}
		switch x.Op {
		case token.ADD:
			return aff{l.A + r.A, l.B + r.B, true}
		case token.SUB:
			return aff{l.A - r.A, l.B - r.B, true}
		case token.MUL:
			if l.A == 0 {
				return aff{r.A * l.B, r.B * l.B, true}
			}
			if r.A == 0 {
				return aff{l.A * r.B, l.B * r.B, true}
			}
		}
	case *ssa.Call:
		if bi, ok := x.Call.Value.(*ssa.Builtin); ok && bi.Name() == "len" {
			return sliceLenAff(x.Call.Args[0], L, depth+1)
		}
	}
	return aff{}
}

// lenSym stands for "the length of this slice parameter" as the symbol of a helper summary
// (readFixed(r, buf) consumes len(buf) bytes).
type lenSym struct{ ssa.Value }

// sliceLenAff: length of a freshly made buffer.
func sliceLenAff(s, L ssa.Value, depth int) aff {
	if ls, ok := L.(*lenSym); ok && s == ls.Value {
		return aff{1, 0, true}
	}
	switch x := s.(type) {
	case *ssa.MakeSlice:
		return affineOf(x.Len, L, depth+1)
	case *ssa.UnOp:
		// a buffer kept in a cell (captured by a deferred closure): the one value stored into it
		if al, ok := x.X.(*ssa.Alloc); ok && x.Op == token.MUL && depth < 8 {
			var val ssa.Value
			n := 0
			for _, ref := range *al.Referrers() {
				if st, isSt := ref.(*ssa.Store); isSt && st.Addr == ssa.Value(al) {
					n++
					val = st.Val
				}
			}
			if n == 1 {
				return sliceLenAff(val, L, depth+1)
			}
		}
	case *ssa.Slice:
		// buf[lo:hi] of a local array (var buf [4]byte) or of a constant-size make
		if al, ok := x.X.(*ssa.Alloc); ok {
			if at, ok := derefType(al.Type()).Underlying().(*types.Array); ok {
				lo, hi := aff{0, 0, true}, aff{0, at.Len(), true}
				if x.Low != nil {
					lo = affineOf(x.Low, L, depth+1)
				}
				if x.High != nil {
					hi = affineOf(x.High, L, depth+1)
				}
				if lo.OK && hi.OK {
					return aff{hi.A - lo.A, hi.B - lo.B, true}
				}
			}
			return aff{}
		}
		// s[lo:hi] of a slice of known length
		base := sliceLenAff(x.X, L, depth+1)
		if !base.OK || depth > 6 {
			return aff{}
		}
		lo, hi := aff{0, 0, true}, base
		if x.Low != nil {
			lo = affineOf(x.Low, L, depth+1)
		}
		if x.High != nil {
			hi = affineOf(x.High, L, depth+1)
		}
		if lo.OK && hi.OK {
			return aff{hi.A - lo.A, hi.B - lo.B, true}
		}
	case *ssa.Call:
		if f := x.Call.StaticCallee(); f != nil && f.Name() == "GetBuffer" && relPkg(f) == "protocol" {
			if getBufferReturnsLen(f) {
				return affineOf(x.Call.Args[0], L, depth+1)
			}
		}
	}
	return aff{}
}

// getBufferReturnsLen verifies the summary "GetBuffer(n) returns a slice of length n":
// every return is make([]byte, n) or a pooled buffer under the guard n == C where the pool's New makes C bytes.
func getBufferReturnsLen(f *ssa.Function) bool {
	if len(f.Params) != 1 {
		return false
	}
	n := f.Params[0]
	for _, ret := range returnsOf(f) {
		rv := ret.Results[0]
		if x, isMk := rv.(*ssa.MakeSlice); isMk {
			if x.Len != ssa.Value(n) {
				return false
			}
			continue
		}
		// a pooled buffer: dominated by n == const (the pool holds slices of that size only: C06.R6), directly or
		// through a boolean helper (pooled(n)), or by len(buf) == n tested on the buffer itself
		ok := false
		for _, e := range eqFacts(ret.Block()) {
			for i := 0; i < 2; i++ {
				a, b := stripIntConv(e[i]), stripIntConv(e[1-i])
				if a != ssa.Value(n) {
					continue
				}
				if _, isC := b.(*ssa.Const); isC {
					ok = true
				}
				if isLenOf(b, rv) {
					ok = true
				}
			}
		}
		if !ok {
			return false
		}
	}
	return true
}

type r4state struct {
	cons  aff
	unver map[ssa.Value]bool // limit readers drained with io.Copy whose exhaustion has not been tested yet
	lims  map[ssa.Value]aff  // undrained LimitReaders -> limit
	dirty string             // non-empty: why consumption is unknown
	eq    map[ssa.Value]int64
	neq   map[ssa.Value]map[int64]bool
}

func (s *r4state) clone() *r4state {
	n := &r4state{cons: s.cons, dirty: s.dirty, lims: map[ssa.Value]aff{}, eq: map[ssa.Value]int64{}, neq: map[ssa.Value]map[int64]bool{}}
	for k, v := range s.lims {
		n.lims[k] = v
	}
	if len(s.unver) > 0 {
		n.unver = map[ssa.Value]bool{}
		for k := range s.unver {
			n.unver[k] = true
		}
	}
	for k, v := range s.eq {
		n.eq[k] = v
	}
	for k, v := range s.neq {
		m := map[int64]bool{}
		for a := range v {
			m[a] = true
		}
		n.neq[k] = m
	}
	return n
}

func (s *r4state) key() string {
	var parts []string
	parts = append(parts, s.cons.String(), s.dirty)
	var ls []string
	for k, v := range s.lims {
		ls = append(ls, k.Name()+"="+v.String())
	}
	sort.Strings(ls)
	parts = append(parts, ls...)
	var us []string
	for k := range s.unver {
		us = append(us, "unver:"+k.Name())
	}
	sort.Strings(us)
	parts = append(parts, us...)
	var es []string
	for k, v := range s.eq {
		es = append(es, fmt.Sprintf("%s==%d", k.Name(), v))
	}
	for k, v := range s.neq {
		var xs []string
		for a := range v {
			xs = append(xs, fmt.Sprint(a))
		}
		sort.Strings(xs)
		es = append(es, k.Name()+"!="+strings.Join(xs, ","))
	}
	sort.Strings(es)
	parts = append(parts, es...)
	return strings.Join(parts, ";")
}

// r4summary is the effect of a module-local helper on the reader it is handed: on every path that may
// succeed it consumes A*param[Sym]+B bytes (Sym < 0: a constant). Computed by the same path-sensitive
// flow analysis as for protocol.Read itself, so helpers extracted from Read (or wrapping the primitive
// reads differently) are analysed, not recognised.
type r4summary struct {
	OK     bool
	Sym    int
	SymLen bool // the symbol is the length of the slice parameter Sym
	A, B   int64
	Why    string
}

var r4sumCache = map[string]r4summary{}

func r4Summarise(p *Prog, f *ssa.Function, rpIdx int, depth int) r4summary {
	key := fmt.Sprintf("%p/%d", f, rpIdx)
	if sm, ok := r4sumCache[key]; ok {
		return sm
	}
	r4sumCache[key] = r4summary{Why: "recursive helper"}
	sm := r4summarise(p, f, rpIdx, depth)
	r4sumCache[key] = sm
	return sm
}

func r4summarise(p *Prog, f *ssa.Function, rpIdx int, depth int) r4summary {
	if depth > 4 || f.Blocks == nil || rpIdx >= len(f.Params) {
		return r4summary{Why: "helper too deep or without a body"}
	}
	rp := f.Params[rpIdx]
	if why := readerEscapes(rp); why != "" {
		return r4summary{Why: why}
	}
	cands := []int{-1}
	for i, prm := range f.Params {
		if i != rpIdx && (isInteger(prm.Type()) || isByteSlice(prm.Type())) {
			cands = append(cands, i)
		}
	}
	why := ""
	for _, ci := range cands {
		var L ssa.Value
		symLen := false
		if ci >= 0 {
			L = f.Params[ci]
			if isByteSlice(f.Params[ci].Type()) {
				L, symLen = &lenSym{f.Params[ci]}, true
			}
		}
		rets, err := r4flow(p, f, rp, L, depth)
		if err != "" {
			return r4summary{Why: err}
		}
		ne := newNilEnv(p)
		var first *aff
		ok := true
		nSucc := 0
		for _, rr := range rets {
			if !r4maySucceed(ne, rr.ret) {
				continue
			}
			for _, st := range rr.states {
				nSucc++
				if st.dirty != "" {
					ok, why = false, st.dirty
					break
				}
				if len(st.lims) > 0 {
					ok, why = false, "the helper leaves an io.LimitReader undrained on a path that may succeed"
					break
				}
				if len(st.unver) > 0 {
					ok, why = false, "the helper drains the rest of the frame with io.Copy, which stops silently when the stream ends, and can succeed without having tested the limit reader's N: a truncated frame yields a message instead of an error"
					break
				}
				c := st.cons
				if k, has := st.eq[L]; has && L != nil {
					c = aff{0, c.A*k + c.B, true}
				}
				if first == nil {
					cc := c
					first = &cc
					continue
				}
				// equal, possibly under the path's fact on the symbol
				if c == *first {
					continue
				}
				if k, has := st.eq[L]; has && L != nil && first.A*k+first.B == c.B && c.A == 0 {
					continue
				}
				ok, why = false, fmt.Sprintf("paths of %s consume different amounts (%s vs %s)", fname(f), *first, c)
			}
			if !ok {
				break
			}
		}
		if ok && first != nil && first.OK {
			if ci < 0 && first.A != 0 {
				continue
			}
			return r4summary{OK: true, Sym: ci, SymLen: symLen, A: first.A, B: first.B}
		}
		if ok && nSucc == 0 {
			return r4summary{OK: true, Sym: -1} // never succeeds: no constraint
		}
	}
	if why == "" {
		why = "consumption is not affine in one integer parameter"
	}
	return r4summary{Why: why}
}

// r4maySucceed: the return's error result (last result of type error, if any) is not provably non-nil.
func r4maySucceed(ne *NilEnv, ret *ssa.Return) bool {
	res := retResults(ret)
	for i := len(res) - 1; i >= 0; i-- {
		if isErrorType(res[i].Type()) {
			if isNilConst(res[i]) {
				return true
			}
			return ne.At(res[i], ret.Block()) != NonNil
		}
	}
	return true
}

// readerEscapes: the reader parameter is only ever passed to calls (possibly boxed in an interface).
func readerEscapes(rp *ssa.Parameter) string {
	for _, ref := range *rp.Referrers() {
		switch x := ref.(type) {
		case ssa.CallInstruction:
		case *ssa.MakeInterface:
			for _, rr := range *x.Referrers() {
				if _, ok := rr.(ssa.CallInstruction); !ok {
					if _, isdbg := rr.(*ssa.DebugRef); !isdbg {
						// &io.LimitedReader{R: r, N: n}: tracked as a limit reader
						if st, isSt := rr.(*ssa.Store); isSt && limitedReaderField(st.Addr) == "R" {
							continue
						}
						return "the reader is used by something other than a call: consumption cannot be tracked"
					}
				}
			}
		case *ssa.DebugRef:
		default:
			return fmt.Sprintf("the reader is used by %T, not a call: consumption cannot be tracked", ref)
		}
	}
	return ""
}

type r4ret struct {
	ret    *ssa.Return
	states []*r4state
}

// r4flow propagates abstract states (bytes consumed as an affine form in L, undrained limit readers,
// equality facts on compared integers) over the loop-free CFG of f.
func r4flow(p *Prog, f *ssa.Function, rp ssa.Value, L ssa.Value, depth int) (rets []r4ret, err string) {
	order, acyclic := topo(f)
	if !acyclic {
		return nil, fname(f) + " contains a loop: the affine consumption analysis only handles loop-free code"
	}
	in := map[*ssa.BasicBlock]map[string]*r4state{}
	start := &r4state{cons: aff{0, 0, true}, lims: map[ssa.Value]aff{}, eq: map[ssa.Value]int64{}, neq: map[ssa.Value]map[int64]bool{}}
	in[f.Blocks[0]] = map[string]*r4state{start.key(): start}
	for _, b := range order {
		if b == f.Recover {
			continue
		}
		states := in[b]
		var outs []*r4state
		for _, s0 := range states {
			s := s0.clone()
			for _, instr := range b.Instrs {
				before := s.cons
				r4apply(p, s, instr, rp, L, depth)
				if r4StepHook != nil && depth == 0 && s.cons != before {
					r4StepHook(s, instr)
				}
			}
			outs = append(outs, s)
			r4nStates++
		}
		last := b.Instrs[len(b.Instrs)-1]
		switch t := last.(type) {
		case *ssa.Return:
			rets = append(rets, r4ret{t, outs})
		case *ssa.If:
			for _, s := range outs {
				for i, succ := range b.Succs {
					ns := s.clone()
					if !r4edge(ns, t.Cond, i == 0, L) {
						continue // infeasible
					}
					addState(in, succ, ns)
				}
			}
		default:
			for _, s := range outs {
				for _, succ := range b.Succs {
					addState(in, succ, s.clone())
				}
			}
		}
	}
	return rets, ""
}

var r4nStates int

func fixedSize(t types.Type) int64 {
	b, ok := t.Underlying().(*types.Basic)
	if !ok {
		return -1
	}
	switch b.Kind() {
	case types.Uint8, types.Int8, types.Bool:
		return 1
	case types.Uint16, types.Int16:
		return 2
	case types.Uint32, types.Int32:
		return 4
	case types.Uint64, types.Int64:
		return 8
	}
	return -1
}

// r4StepHook, when set, is called after every instruction of the analysed function (not of its helpers) that consumed
// bytes, with the state reached.
var r4StepHook func(s *r4state, instr ssa.Instruction)

// r4Hook, when set, is called for every successful return of Read with the abstract states reaching it (used by C06).
var r4Hook func(ret *ssa.Return, states []*r4state)

func c04R4(r *Report, read *ssa.Function, L ssa.Value) {
	p := r.P
	rp := read.Params[0]
	r4sumCache = map[string]r4summary{}
	r4nStates = 0
	if why := readerEscapes(rp); why != "" {
		r.Undecided("R4", "Read/reader-escapes", read.Pos(), "%s", why)
	}
	// never beyond the frame, on error paths as well: after every consuming step the bytes taken so far fit in
	// 4+length for every length the path admits (a field read before the test that the frame is long enough to have it
	// takes bytes of the next frame, or waits for bytes the peer never sends)
	type overrun struct {
		instr ssa.Instruction
		why   string
	}
	var overruns []overrun
	steps := map[ssa.Instruction]bool{}
	envL := &IntEnv{}
	r4StepHook = func(s *r4state, instr ssa.Instruction) {
		steps[instr] = true
		if s.dirty != "" || !s.cons.OK {
			return
		}
		c := s.cons
		if k, has := s.eq[L]; has {
			if c.A*k+c.B > 4+k {
				overruns = append(overruns, overrun{instr, fmt.Sprintf("with length == %d it has taken %d bytes of a %d-byte frame", k, c.A*k+c.B, 4+k)})
			}
			return
		}
		lo := envL.At(L, instr.Block()).Lo
		if lo < 0 {
			lo = 0
		}
		switch {
		case c.A == 1 && c.B <= 4, c.A == 0 && c.B <= 4+lo:
		default:
			overruns = append(overruns, overrun{instr, fmt.Sprintf("%s bytes have been taken while the frame is only known to have length >= %d", c, lo)})
		}
	}
	rets, ferr := r4flow(p, read, rp, L, 0)
	r4StepHook = nil
	if ferr != "" {
		r.Undecided("R4", "Read/loop-free", read.Pos(), "%s", ferr)
		return
	}
	{
		seen := map[ssa.Instruction]bool{}
		for _, o := range overruns {
			if seen[o.instr] {
				continue
			}
			seen[o.instr] = true
			r.Fail("R4", fmt.Sprintf("Read/within-frame/%s", exprStr(o.instr.(ssa.Value))), o.instr.Pos(), "this read can go beyond the frame: %s — on a frame that is too short for its type the decoder takes bytes of the next frame (or blocks waiting for them) before it reports the error", o.why)
		}
		nOK := 0
		for in := range steps {
			if !seen[in] {
				nOK++
			}
		}
		if len(overruns) == 0 {
			r.Ok("R4", "Read/within-frame", read.Pos(), "%d consuming steps, none of which can take more than 4+length bytes on any path", nOK)
		}
		r.Sentinel("R4.steps", len(steps), 10)
	}
	ne := newNilEnv(p)
	nSuccess := 0
	for _, rr := range rets {
		t, outs := rr.ret, rr.states
		res := retResults(t)
		if len(res) < 2 || !r4maySucceed(ne, t) {
			continue
		}
		nSuccess++
		if r4Hook != nil {
			r4Hook(t, outs)
		}
		key := fmt.Sprintf("Read/return(%s)", descVal(res[0]))
		if len(outs) == 0 {
			r.Info("R4", key, t.Pos(), "unreachable under the tracked path facts")
			continue
		}
		okAll := true
		var why []string
		var shown []string
		for _, s := range outs {
			if s.dirty != "" {
				okAll = false
				why = append(why, s.dirty)
				continue
			}
			if len(s.lims) > 0 {
				okAll = false
				why = append(why, "an io.LimitReader over the frame is not drained (io.Copy(io.Discard, lr)) before the successful return: the rest of the frame stays in the stream")
				continue
			}
			if len(s.unver) > 0 {
				okAll = false
				why = append(why, "the rest of the frame is drained with io.Copy, which stops silently when the stream ends, and the limit reader's N is not tested afterwards: a truncated frame yields a message instead of an error")
				continue
			}
			// want: cons == 4 + L under s.eq[L]
			if k, has := s.eq[L]; has {
				got := s.cons.A*k + s.cons.B
				if !s.cons.OK || got != 4+k {
					okAll = false
					why = append(why, fmt.Sprintf("with length==%d the path consumes %s = %d bytes, frame is %d", k, s.cons, got, 4+k))
				} else {
					shown = append(shown, fmt.Sprintf("length==%d: consumes %d", k, got))
				}
			} else if !s.cons.OK || s.cons.A != 1 || s.cons.B != 4 {
				okAll = false
				why = append(why, fmt.Sprintf("the path consumes %s bytes, the frame is 1*length+4", s.cons))
			} else {
				shown = append(shown, "consumes "+s.cons.String())
			}
		}
		if okAll {
			r.Ok("R4", key, t.Pos(), "every path to this successful return consumes exactly the frame (%s)", strings.Join(dedupe(shown), "; "))
		} else {
			r.Fail("R4", key, t.Pos(), "successful return does not consume exactly 4+length bytes: %s", strings.Join(dedupe(why), "; "))
		}
	}
	r.Sentinel("R4", nSuccess, 20)
	r.Notes = append(r.Notes, fmt.Sprintf("R4: %d abstract states propagated (Read and %d summarised helpers)", r4nStates, len(r4sumCache)))
}

func dedupe(xs []string) []string {
	seen := map[string]bool{}
	var out []string
	for _, x := range xs {
		if !seen[x] {
			seen[x] = true
			out = append(out, x)
		}
	}
	sort.Strings(out)
	return out
}

func addState(in map[*ssa.BasicBlock]map[string]*r4state, b *ssa.BasicBlock, s *r4state) {
	if in[b] == nil {
		in[b] = map[string]*r4state{}
	}
	in[b][s.key()] = s
}

// r4edge records the fact carried by taking the edge (cond == pol); false if contradictory.
func r4edge(s *r4state, cond ssa.Value, pol bool, L ssa.Value) bool {
	g := Guard{Cond: cond, Pol: pol}.norm()
	// if !exactly(length, 5) { return ErrParse }: the outcome of a boolean helper that compares the length
	if hc, isCall := g.Cond.(*ssa.Call); isCall {
		for _, e := range helperOutcomeEqs(hc, g.Pol) {
			for i := 0; i < 2; i++ {
				k, isK := constInt(e[1-i])
				if !isK {
					continue
				}
				if a := affineOf(e[i], L, 0); a.OK && a.A == 1 {
					val := k - a.B
					if old, has := s.eq[L]; has && old != val {
						return false
					}
					if s.neq[L][val] {
						return false
					}
					s.eq[L] = val
				}
			}
		}
		return true
	}
	bo, ok := g.Cond.(*ssa.BinOp)
	if !ok {
		return true
	}
	// lr.N == 0 (in any of its spellings) on this edge: the drained limit reader was exhausted
	if len(s.unver) > 0 {
		if op, x, y, okc := cmpFact(g); okc {
			if z, okz := constInt(y); okz && z == 0 && (op == token.EQL || op == token.LEQ) {
				if ld, okl := stripIntConv(x).(*ssa.UnOp); okl && ld.Op == token.MUL && limitedReaderField(ld.X) == "N" {
					base := ld.X.(*ssa.FieldAddr).X
					if ta, isTA := base.(*ssa.TypeAssert); isTA {
						base = ta.X
					}
					for k := range s.unver {
						if k == base || strip(k) == strip(base) {
							delete(s.unver, k)
						}
					}
				}
			}
		}
	}
	if bo.Op != token.EQL && bo.Op != token.NEQ {
		// ordering on the frame length against a constant: use to refute eq facts
		if c, okc := constInt(bo.Y); okc {
			a := affineOf(bo.X, L, 0)
			if a.OK && a.A == 1 {
				if k, has := s.eq[L]; has {
					v := k + a.B
					holds := false
					switch bo.Op {
					case token.LSS:
						holds = v < c
					case token.LEQ:
						holds = v <= c
					case token.GTR:
						holds = v > c
					case token.GEQ:
						holds = v >= c
					default:
						return true
					}
					return holds == g.Pol
				}
			}
		}
		return true
	}
	var v ssa.Value
	var c int64
	if k, okc := constInt(bo.Y); okc {
		v, c = bo.X, k
	} else if k, okc := constInt(bo.X); okc {
		v, c = bo.Y, k
	} else {
		return true
	}
	// reduce affine-in-length comparisons to facts on L
	if a := affineOf(v, L, 0); a.OK && a.A == 1 {
		v, c = L, c-a.B
	} else if !isInteger(v.Type()) {
		return true
	}
	isEq := (bo.Op == token.EQL) == g.Pol
	if isEq {
		if k, has := s.eq[v]; has && k != c {
			return false
		}
		if s.neq[v][c] {
			return false
		}
		s.eq[v] = c
	} else {
		if k, has := s.eq[v]; has && k == c {
			return false
		}
		if s.neq[v] == nil {
			s.neq[v] = map[int64]bool{}
		}
		s.neq[v][c] = true
	}
	return true
}

func r4apply(p *Prog, s *r4state, instr ssa.Instruction, rp ssa.Value, L ssa.Value, depth int) {
	if st, isSt := instr.(*ssa.Store); isSt && limitedReaderField(st.Addr) == "N" {
		fa := st.Addr.(*ssa.FieldAddr)
		a := affineOf(st.Val, L, 0)
		if !a.OK {
			s.dirty = "io.LimitedReader with a limit that is not affine in the frame length"
			return
		}
		// only when its R is the tracked reader
		isOurs := false
		for _, ref := range *fa.X.Referrers() {
			if f2, ok := ref.(*ssa.FieldAddr); ok && limitedReaderField(f2) == "R" {
				for _, r2 := range *f2.Referrers() {
					if st2, ok := r2.(*ssa.Store); ok && strip(st2.Val) == rp {
						isOurs = true
					}
				}
			}
		}
		if isOurs {
			s.lims[fa.X] = a
		}
		return
	}
	c, ok := instr.(*ssa.Call)
	if !ok {
		if ci, isci := instr.(ssa.CallInstruction); isci {
			for _, a := range ci.Common().Args {
				if strip(a) == rp {
					s.dirty = "the reader is handed to a go/defer statement"
				}
			}
		}
		return
	}
	usesR := false
	var usesLim ssa.Value
	rIdx := -1
	for i, a := range c.Call.Args {
		if strip(a) == rp {
			usesR = true
			rIdx = i
		}
		if _, has := s.lims[strip(a)]; has {
			usesLim = strip(a)
		} else if _, has := s.lims[a]; has {
			usesLim = a
		}
	}
	if usesLim != nil && isStdCall(c, "io", "", "Copy") && len(c.Call.Args) == 2 && (c.Call.Args[1] == usesLim || strip(c.Call.Args[1]) == usesLim) {
		s.cons = affAdd(s.cons, s.lims[usesLim])
		delete(s.lims, usesLim)
		// io.Copy stops silently at the end of the stream: the frame was consumed entirely only if the limit is
		// then found exhausted
		if s.unver == nil {
			s.unver = map[ssa.Value]bool{}
		}
		s.unver[usesLim] = true
		return
	}
	// skipRest(r, lr): a helper of the module that is handed the reader and its limited view and discards exactly what
	// the view has left (r.Discard(int(lr.N)), an error when the stream ends first)
	if usesLim != nil && usesR && !c.Call.IsInvoke() {
		if h := c.Call.StaticCallee(); h != nil && h.Blocks != nil && strings.HasPrefix(funcPkgPath(h), modPath) {
			li := -1
			for i, a := range c.Call.Args {
				if a == usesLim || strip(a) == usesLim {
					li = i
				}
			}
			if li >= 0 && drainsLimited(h, rIdx, li) {
				s.cons = affAdd(s.cons, s.lims[usesLim])
				delete(s.lims, usesLim)
				return
			}
		}
	}
	if !usesR {
		return
	}
	add := func(a aff, why string) {
		if !a.OK {
			if s.dirty == "" {
				s.dirty = why
			}
			return
		}
		s.cons = affAdd(s.cons, a)
	}
	switch {
	case isStdCall(c, "bufio", "Reader", "ReadByte"):
		add(aff{0, 1, true}, "")
	case isStdCall(c, "bufio", "Reader", "Buffered"), isStdCall(c, "bufio", "Reader", "Peek"), isStdCall(c, "bufio", "Reader", "Size"):
		// looks at the buffer without consuming
	case isStdCall(c, "bufio", "Reader", "Discard"):
		add(affineOf(c.Call.Args[1], L, 0), "Discard of a count that is not affine in the frame length")
	case isStdCall(c, "io", "", "ReadFull"):
		add(sliceLenAff(c.Call.Args[1], L, 0), "io.ReadFull into a buffer whose length is not affine in the frame length")
	case isStdCall(c, "io", "", "ReadAtLeast") && len(c.Call.Args) == 3 && func() bool {
		// io.ReadAtLeast(r, buf, len(buf)) is io.ReadFull
		buf, min := c.Call.Args[1], stripIntConv(c.Call.Args[2])
		if isLenOf(min, buf) {
			return true
		}
		ms, ok := buf.(*ssa.MakeSlice)
		return ok && symEq(ms.Len, min, 0)
	}():
		add(sliceLenAff(c.Call.Args[1], L, 0), "io.ReadAtLeast into a buffer whose length is not affine in the frame length")
	case isStdCall(c, "io", "", "LimitReader"):
		a := affineOf(c.Call.Args[1], L, 0)
		if !a.OK {
			s.dirty = "io.LimitReader with a limit that is not affine in the frame length"
			return
		}
		s.lims[c] = a
	default:
		if isStdCall(c, "encoding/binary", "", "Read") && len(c.Call.Args) == 3 {
			if sz := fixedSize(derefType(strip(c.Call.Args[2]).Type())); sz > 0 {
				add(aff{0, sz, true}, "")
				return
			}
		}
		if f := c.Call.StaticCallee(); f != nil && strings.HasPrefix(funcPkgPath(f), modPath) && !c.Call.IsInvoke() {
			sm := r4Summarise(p, f, rIdx, depth+1)
			if sm.OK {
				a := aff{0, sm.B, true}
				if sm.Sym >= 0 && sm.A != 0 {
					x := affineOf(c.Call.Args[sm.Sym], L, 0)
					if sm.SymLen {
						x = sliceLenAff(c.Call.Args[sm.Sym], L, 0)
					}
					if !x.OK {
						add(aff{}, fmt.Sprintf("call %s consumes a multiple of an argument that is not affine in the frame length", exprStr(c)))
						return
					}
					a = aff{sm.A * x.A, sm.A*x.B + sm.B, true}
				}
				add(a, "")
				return
			}
			if s.dirty == "" {
				s.dirty = fmt.Sprintf("call %s: %s", exprStr(c), sm.Why)
			}
			return
		}
		if s.dirty == "" {
			s.dirty = fmt.Sprintf("call %s reads from the stream by an amount the analysis cannot summarise", exprStr(c))
		}
	}
}

// topo returns the blocks in a topological order; false if the CFG has a cycle.
func topo(f *ssa.Function) ([]*ssa.BasicBlock, bool) {
	state := map[*ssa.BasicBlock]int{}
	var order []*ssa.BasicBlock
	acyclic := true
	var dfs func(b *ssa.BasicBlock)
	dfs = func(b *ssa.BasicBlock) {
		state[b] = 1
		for _, s := range b.Succs {
			switch state[s] {
			case 0:
				dfs(s)
			case 1:
				acyclic = false
			}
		}
		state[b] = 2
		order = append(order, b)
	}
	dfs(f.Blocks[0])
	for i, j := 0, len(order)-1; i < j; i, j = i+1, j-1 {
		order[i], order[j] = order[j], order[i]
	}
	return order, acyclic
}

// ---------- R6: strided loops over compact lists ----------

// For `for i := 0; i < n; i++ { j := i*k; … data[j : j+a] … data[j+b:] … }` with n == len(data)/k
// (or `for i := 0; i < len(data); i += k` under len(data)%k == 0), the lemma
//
//	i < len/k  =>  i*k + c <= len   for every 0 <= c <= k
//
// discharges the slice bounds. Implemented in stride.go (shared with C15).
func c04R6(r *Report, p *Prog) {
	f := p.Func("pex", "ParseCompact")
	if !r.Anchor("R6", "pex.ParseCompact", f != nil) {
		return
	}
	r.Fn(f)
	n := checkStrided(r, "R6", f)
	r.Sentinel("R6", n, 2)
}

// limitedReaderField: addr is &x.F for x of type io.LimitedReader; returns F's name.
func limitedReaderField(addr ssa.Value) string {
	fa, ok := addr.(*ssa.FieldAddr)
	if !ok {
		return ""
	}
	n := namedOf(derefType(fa.X.Type()))
	if n == nil || n.Obj().Pkg() == nil || n.Obj().Pkg().Path() != "io" || n.Obj().Name() != "LimitedReader" {
		return ""
	}
	if fv := fieldVar(fa); fv != nil {
		return fv.Name()
	}
	return ""
}

// drainsLimited: h(…, r, …, lr, …) consumes from r exactly what the limited reader lr has left, or fails: its only
// use of r is one Discard of int(lr.N); a return that can carry a nil error is reached either under lr.N <= 0 (nothing
// left) or with the Discard's own error (bufio.Reader.Discard reports an error when it skips fewer bytes than asked).
func drainsLimited(h *ssa.Function, ri, li int) bool {
	if ri >= len(h.Params) || li >= len(h.Params) || h.Signature.Results().Len() != 1 || !isErrorType(h.Signature.Results().At(0).Type()) {
		return false
	}
	rp, lp := h.Params[ri], h.Params[li]
	isLeft := func(v ssa.Value) bool {
		// lr.N
		ld, ok := stripIntConv(v).(*ssa.UnOp)
		if cv, isCv := v.(*ssa.Convert); isCv && !ok {
			ld, ok = cv.X.(*ssa.UnOp)
		}
		if !ok || ld.Op != token.MUL {
			return false
		}
		fa, ok := ld.X.(*ssa.FieldAddr)
		return ok && limitedReaderField(fa) == "N" && fa.X == ssa.Value(lp)
	}
	var discard *ssa.Call
	okUses := true
	for _, ref := range *rp.Referrers() {
		c, ok := ref.(*ssa.Call)
		if !ok {
			if _, isDbg := ref.(*ssa.DebugRef); !isDbg {
				okUses = false
			}
			continue
		}
		if isStdCall(c, "bufio", "Reader", "Discard") && discard == nil && isLeft(c.Call.Args[1]) {
			discard = c
			continue
		}
		okUses = false
	}
	if !okUses || discard == nil {
		return false
	}
	derr := extractOf(discard, 1)
	for _, ret := range returnsOf(h) {
		ev := retResults(ret)[0]
		if isNilConst(ev) {
			// nothing left: dominated by lr.N <= 0
			okG := false
			for _, g := range guardsOf(ret.Block()) {
				if op, x, y, okc := cmpFact(g); okc && isLeft(x) {
					if k, isk := constInt(y); isk && k == 0 && (op == token.LEQ || op == token.EQL) {
						okG = true
					}
				}
			}
			if !okG {
				return false
			}
			continue
		}
		// the Discard's error, possibly with io.EOF replaced by io.ErrUnexpectedEOF
		okE := derr != nil && derivesOnlyFrom(ev, func(v ssa.Value) bool {
			if v == ssa.Value(derr) {
				return true
			}
			if ld, ok := v.(*ssa.UnOp); ok && ld.Op == token.MUL {
				if g, isG := ld.X.(*ssa.Global); isG && (g.Name() == "ErrUnexpectedEOF" || g.Name() == "EOF") {
					return true
				}
			}
			return false
		})
		if !okE || !instrDominates(discard, ret) {
			return false
		}
	}
	return true
}
