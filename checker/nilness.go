package main

// E-nil: nilness of interface/pointer-typed SSA values at a program point.

import (
	"go/token"
	"go/types"
	"strings"

	"golang.org/x/tools/go/ssa"
)

type Nilness int

const (
	NilUnknown Nilness = iota
	IsNil
	NonNil
)

func (n Nilness) String() string { return [...]string{"unknown", "nil", "non-nil"}[n] }

type NilEnv struct {
	P *Prog
	// globals known to be non-nil: package-level vars initialised once with errors.New/fmt.Errorf
	nonNilGlobals map[*ssa.Global]bool
}

func newNilEnv(p *Prog) *NilEnv {
	return &NilEnv{P: p, nonNilGlobals: map[*ssa.Global]bool{}}
}

// isErrCtor: calls that always return a non-nil error.
func isErrCtor(c *ssa.Call) bool {
	return isStdCall(c, "errors", "", "New") || isStdCall(c, "fmt", "", "Errorf")
}

// globalNonNil: g is stored exactly once in the whole program, in its package's init,
// with the result of errors.New/fmt.Errorf, and its address is never taken otherwise.
func (e *NilEnv) globalNonNil(g *ssa.Global) bool {
	if v, ok := e.nonNilGlobals[g]; ok {
		return v
	}
	ok := false
	stores := 0
	bad := false
	for f := range e.P.AllFuncs() {
		if f.Pkg != g.Pkg && (g.Object() == nil || !g.Object().Exported()) {
			continue
		}
		for _, b := range f.Blocks {
			for _, in := range b.Instrs {
				for _, op := range in.Operands(nil) {
					if op == nil || *op != ssa.Value(g) {
						continue
					}
					switch x := in.(type) {
					case *ssa.Store:
						if x.Addr == ssa.Value(g) {
							stores++
							if f.Name() == "init" && f.Pkg == g.Pkg {
								if c, isc := x.Val.(*ssa.Call); isc && isErrCtor(c) {
									ok = true
								} else if _, ismi := x.Val.(*ssa.MakeInterface); ismi {
									ok = true
								} else {
									bad = true
								}
							} else {
								bad = true
							}
						} else {
							bad = true
						}
					case *ssa.UnOp:
						if x.Op != token.MUL {
							bad = true
						}
					case *ssa.DebugRef:
					default:
						bad = true
					}
				}
			}
		}
	}
	res := ok && stores == 1 && !bad
	e.nonNilGlobals[g] = res
	return res
}

// At returns the nilness of v when control is in block b.
func (e *NilEnv) At(v ssa.Value, b *ssa.BasicBlock) Nilness {
	return e.at(v, b, 0)
}

func (e *NilEnv) at(v ssa.Value, b *ssa.BasicBlock, depth int) Nilness {
	if depth > 8 {
		return NilUnknown
	}
	switch x := v.(type) {
	case *ssa.Const:
		if x.Value == nil {
			return IsNil
		}
		return NonNil
	case *ssa.MakeInterface, *ssa.Alloc, *ssa.MakeClosure, *ssa.MakeMap, *ssa.MakeChan, *ssa.MakeSlice, *ssa.Function, *ssa.FieldAddr, *ssa.IndexAddr:
		return NonNil
	case *ssa.Call:
		if isErrCtor(x) {
			return NonNil
		}
		// ctx.Err() re-evaluated under a dominating `ctx.Err() != nil` on the same context: context errors are sticky
		if x.Call.IsInvoke() && x.Call.Method.Name() == "Err" && typeIs(x.Call.Value.Type(), "context", "Context") && b != nil {
			for _, g := range guardsOf(b) {
				g = g.norm()
				bo, ok := g.Cond.(*ssa.BinOp)
				if !ok || !isNilConst(bo.Y) {
					continue
				}
				c2, ok := bo.X.(*ssa.Call)
				if !ok || !c2.Call.IsInvoke() || c2.Call.Method.Name() != "Err" || c2.Call.Value != x.Call.Value {
					continue
				}
				if (bo.Op == token.NEQ && g.Pol) || (bo.Op == token.EQL && !g.Pol) {
					return NonNil
				}
			}
		}
	case *ssa.Extract:
		// n, err := io.ReadFull(r, buf) under a dominating `n < len(buf)` (or n != len(buf)): by ReadFull's contract
		// the error is nil exactly when the count is the buffer's length
		if c, ok := x.Tuple.(*ssa.Call); ok && x.Index == 1 && b != nil && isStdCall(c, "io", "", "ReadFull") {
			for _, g := range guardsOf(b) {
				op, l, rgt, okc := cmpFact(g)
				if !okc {
					continue
				}
				if ex, isEx := stripIntConv(l).(*ssa.Extract); isEx && ex.Tuple == x.Tuple && ex.Index == 0 && isLenOf(rgt, c.Call.Args[1]) && (op == token.LSS || op == token.NEQ) {
					return NonNil
				}
				if ex, isEx := stripIntConv(rgt).(*ssa.Extract); isEx && ex.Tuple == x.Tuple && ex.Index == 0 && isLenOf(l, c.Call.Args[1]) && (op == token.GTR || op == token.NEQ) {
					return NonNil
				}
			}
		}
	case *ssa.ChangeInterface:
		return e.at(x.X, b, depth+1)
	case *ssa.ChangeType:
		return e.at(x.X, b, depth+1)
	case *ssa.UnOp:
		if x.Op == token.MUL {
			if g, ok := x.X.(*ssa.Global); ok && e.globalNonNil(g) {
				return NonNil
			}
			// exported error sentinels of the standard library (os.ErrNotExist, io.EOF, …) are never nil
			if g, ok := x.X.(*ssa.Global); ok && g.Pkg != nil && !strings.HasPrefix(g.Pkg.Pkg.Path(), modPath) && !strings.Contains(g.Pkg.Pkg.Path(), ".") &&
				strings.HasPrefix(g.Name(), "Err") || ok && g.Pkg != nil && g.Pkg.Pkg.Path() == "io" && g.Name() == "EOF" {
				if isErrorType(derefType(g.Type())) {
					return NonNil
				}
			}
		}
	case *ssa.Phi:
		res := NilUnknown
		first := true
		for i, ed := range x.Edges {
			if ed == ssa.Value(x) {
				continue
			}
			var pb *ssa.BasicBlock
			if i < len(x.Block().Preds) {
				pb = x.Block().Preds[i]
			}
			// loop-header phi observed after the loop: the value that flows in from before the loop is
			// irrelevant when the loop condition is constant-true on entry (the body runs at least once)
			if pb != nil && b != nil && b != x.Block() && !x.Block().Dominates(pb) && firstIterationCertain(x.Block()) && exitsLoopOnly(x.Block(), b) {
				continue
			}
			n := e.at(ed, pb, depth+2)
			// the edge pb -> phi block may itself carry a fact (pb ends in If on ed)
			if n == NilUnknown && pb != nil {
				n = edgeFact(pb, x.Block(), ed)
			}
			if first {
				res, first = n, false
			} else if res != n {
				res = NilUnknown
			}
		}
		if res != NilUnknown {
			return res
		}
	}
	// refine by dominating guards
	if b != nil {
		for _, g := range guardsOf(b) {
			if n := nilFactFromGuard(g, v); n != NilUnknown {
				return n
			}
		}
	}
	return NilUnknown
}

// edgeFact: fact about v carried by the edge from->to when `from` ends in an If on v.
func edgeFact(from, to *ssa.BasicBlock, v ssa.Value) Nilness {
	if len(from.Instrs) == 0 {
		return NilUnknown
	}
	iff, ok := from.Instrs[len(from.Instrs)-1].(*ssa.If)
	if !ok || from.Succs[0] == from.Succs[1] {
		return NilUnknown
	}
	pol := from.Succs[0] == to
	return nilFactFromGuard(Guard{iff.Cond, pol, iff}, v)
}

func nilFactFromGuard(g Guard, v ssa.Value) Nilness {
	g = g.norm()
	bo, ok := g.Cond.(*ssa.BinOp)
	if !ok || (bo.Op != token.EQL && bo.Op != token.NEQ) {
		return NilUnknown
	}
	var other ssa.Value
	if bo.X == v {
		other = bo.Y
	} else if bo.Y == v {
		other = bo.X
	} else {
		return NilUnknown
	}
	if !isNilConst(other) {
		return NilUnknown
	}
	eq := bo.Op == token.EQL
	if eq == g.Pol {
		return IsNil
	}
	return NonNil
}

func isErrorType(t types.Type) bool {
	n, ok := t.(*types.Named)
	return ok && n.Obj().Pkg() == nil && n.Obj().Name() == "error"
}

// firstIterationCertain: block h ends in `if i < N` where i is a loop counter with constant init c0, N constant, c0 < N.
func firstIterationCertain(h *ssa.BasicBlock) bool {
	if len(h.Instrs) == 0 {
		return false
	}
	iff, ok := h.Instrs[len(h.Instrs)-1].(*ssa.If)
	if !ok {
		return false
	}
	bo, ok := iff.Cond.(*ssa.BinOp)
	if !ok || bo.Op != token.LSS {
		return false
	}
	init, _, okc := loopCounter(bo.X)
	n, okn := constInt(bo.Y)
	return okc && okn && init < n
}

// exitsLoopOnly: block b is reached from header h only through h's false (exit) edge.
func exitsLoopOnly(h, b *ssa.BasicBlock) bool {
	if len(h.Succs) != 2 {
		return false
	}
	exit := h.Succs[1]
	return exit == b || exit.Dominates(b)
}
