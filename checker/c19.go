package main

import (
	"fmt"
	"go/token"
	"go/types"
	"sort"
	"strings"

	"golang.org/x/tools/go/ssa"
)

func init() {
	register(&PropSpec{
		ID: "C19",
		Explanation: "Static decision of the structural conditions for 'the web UI is local-only and injection-free': " +
			"(R1) every function registered as an HTTP route calls checkLocal before any other call and proceeds only on its true result; checkLocal returns true only on paths that took `host == \"localhost\"` or `net.ParseIP(host) != nil` for the very host string net.SplitHostPort extracted from the request (not a transformed copy); " +
			"(R2) escape at sink, type-driven and fail-closed: every argument of every fmt.Fprintf/Fprint/Fprintln/io.WriteString in package http must be provably safe for the page it is written to — numeric/bool, a constant, the result of a sanitiser (html.EscapeString, url.PathEscape, url.QueryEscape, hex, strconv), a value of a module type whose String method is itself safe by this definition, the result of a package function all of whose returns are safe, or a concatenation/phi/Sprintf of safe values; anything else of kind string, error or Stringer (including netip.Addr/AddrPort, whose String prints an unvalidated zone) is a violation whatever its origin. For playlists the sanitiser must remove CR/LF. One named exception: (*http.Request).Host, constrained by checkLocal and chosen by the local client.",
		Rules:       []string{"R1 every route checks the host first; checkLocal's acceptance condition (E-must + required-edge paths)", "R2 escape at sink (E-taint, fail-closed, type-driven)"},
		NotDecided:  []string{"semantics of net.ParseIP / html.EscapeString / url.PathEscape (trusted standard library)", "HTTP header injection (headers are set only from constants, hashes and formatted times)"},
		Assumptions: []string{"http.Error responses are text/plain with nosniff and are not HTML sinks", "format strings are constants (checked)"},
		Run:         runC19,
	})
}

func runC19(r *Report) {
	c19R1(r)
	c19R2(r)
}

func c19R1(r *Report) {
	p := r.P
	cl := p.Func("http", "checkLocal")
	if !r.Anchor("R1", "http.checkLocal", cl != nil) {
		return
	}
	// handlers: function values passed to net/http.HandleFunc / Handle in package http
	var handlers []*ssa.Function
	for _, f := range p.SrcFuncs() {
		if relPkg(f) != "http" {
			continue
		}
		allInstrs(f, func(in ssa.Instruction) {
			c, ok := in.(*ssa.Call)
			if !ok {
				return
			}
			if isStdCall(c, "net/http", "", "HandleFunc") || isStdCall(c, "net/http", "ServeMux", "HandleFunc") {
				for _, a := range c.Call.Args {
					if fn, ok := a.(*ssa.Function); ok {
						handlers = append(handlers, fn)
					} else if mc, ok := a.(*ssa.MakeClosure); ok {
						if fn, ok := mc.Fn.(*ssa.Function); ok {
							handlers = append(handlers, fn)
						}
					}
				}
			}
			if isStdCall(c, "net/http", "", "Handle") || isStdCall(c, "net/http", "ServeMux", "Handle") {
				r.Undecided("R1", "http.Handle/"+fname(f), c.Pos(), "a route is registered with http.Handle: its handler type is not enumerated by the rule")
			}
		})
	}
	// storrent serves the process-wide default mux (its routes are registered with the package-level http.HandleFunc):
	// then every registration on that mux anywhere in the linked program is a route of storrent's server — a package
	// imported for its side effects (net/http/pprof, expvar, x/net/trace) adds routes that never pass checkLocal
	usesDefault := false
	for _, f := range p.SrcFuncs() {
		allInstrs(f, func(in ssa.Instruction) {
			if c, ok := in.(*ssa.Call); ok && (isStdCall(c, "net/http", "", "HandleFunc") || isStdCall(c, "net/http", "", "Handle")) {
				usesDefault = true
			}
		})
	}
	if usesDefault {
		nForeign := 0
		var fns []*ssa.Function
		for f := range p.AllFuncs() {
			if f.Blocks == nil {
				continue
			}
			pp := funcPkgPath(f)
			if pp == "net/http" || pp == modPath || strings.HasPrefix(pp, modPath+"/") {
				continue
			}
			fns = append(fns, f)
		}
		sort.Slice(fns, func(i, j int) bool { return fns[i].String() < fns[j].String() })
		for _, f := range fns {
			allInstrs(f, func(in ssa.Instruction) {
				c, ok := in.(*ssa.Call)
				if !ok {
					return
				}
				reg := isStdCall(c, "net/http", "", "HandleFunc") || isStdCall(c, "net/http", "", "Handle")
				if !reg && (isStdCall(c, "net/http", "ServeMux", "HandleFunc") || isStdCall(c, "net/http", "ServeMux", "Handle")) && len(c.Call.Args) > 0 {
					if ld, okl := c.Call.Args[0].(*ssa.UnOp); okl && ld.Op == token.MUL {
						if g, okg := ld.X.(*ssa.Global); okg && g.Name() == "DefaultServeMux" && g.Pkg != nil && g.Pkg.Pkg.Path() == "net/http" {
							reg = true
						}
					}
				}
				if !reg {
					return
				}
				nForeign++
				pat := "?"
				for _, a := range c.Call.Args {
					if sv, oks := constString(a); oks {
						pat = sv
					}
				}
				r.Fail("R1", fmt.Sprintf("foreign-route/%s/%s", funcPkgPath(f), pat), c.Pos(), "package %s, linked into the program, registers the route %q on the default mux that storrent's web server serves: its handler never calls checkLocal, so a request with a foreign Host header (DNS rebinding) reaches it", funcPkgPath(f), pat)
			})
		}
		r.Notes = append(r.Notes, fmt.Sprintf("R1: %d functions of %d linked non-module packages scanned for registrations on http.DefaultServeMux: %d found", len(fns), len(p.SSA.AllPackages()), nForeign))
	}
	for _, h := range handlers {
		r.Fn(h)
		key := fmt.Sprintf("%s/checkLocal-first", fname(h))
		// first call instruction of the handler must be checkLocal(w, r), and its true edge must be the only way on
		var first *ssa.Call
		for _, in := range h.Blocks[0].Instrs {
			if c, ok := in.(*ssa.Call); ok {
				first = c
				break
			}
		}
		if first == nil || first.Call.StaticCallee() != cl || first.Call.Args[0] != ssa.Value(h.Params[0]) || first.Call.Args[1] != ssa.Value(h.Params[1]) {
			r.Fail("R1", key, h.Pos(), "the route handler does not call checkLocal(w, r) before everything else: a request with a foreign Host header can read or change state")
			continue
		}
		// every other call is dominated by checkLocal() == true
		bad := token.NoPos
		allInstrs(h, func(in ssa.Instruction) {
			ci, ok := in.(ssa.CallInstruction)
			if !ok || in == ssa.Instruction(first) {
				return
			}
			okG := false
			for _, g := range guardsOf(in.Block()) {
				g = g.norm()
				if g.Cond == ssa.Value(first) && g.Pol {
					okG = true
				}
			}
			if !okG && bad == token.NoPos {
				bad = ci.Pos()
			}
		})
		if bad != token.NoPos {
			r.Fail("R1", key, bad, "a call in the handler is not dominated by checkLocal(w, r) == true")
		} else {
			r.Ok("R1", key, first.Pos(), "checkLocal(w, r) is the first call and everything else is dominated by its true result")
		}
	}
	r.Sentinel("R1.handlers", len(handlers), 3)
	// checkLocal's acceptance condition
	r.Fn(cl)
	var host ssa.Value
	allInstrs(cl, func(in ssa.Instruction) {
		c, ok := in.(*ssa.Call)
		if !ok || !isStdCall(c, "net", "", "SplitHostPort") {
			return
		}
		if fv, base := loadedField(c.Call.Args[0]); fv != nil && fv.Name() == "Host" && base == ssa.Value(cl.Params[1]) {
			host = extractOf(c, 0)
		}
	})
	// the whole validation may live in a helper that is handed r.Host and answers with an error (checkHost(r.Host)
	// (int, error)): the helper is then judged as checkLocal would be (its nil-error returns are the acceptances), and
	// checkLocal must return true only behind that error tested nil
	judged := cl
	accepts := func(ret *ssa.Return) bool {
		b, isb := constBool(ret.Results[0])
		return !(isb && !b)
	}
	if host == nil {
		for _, ci := range callsIn(cl) {
			c, ok := ci.(*ssa.Call)
			if !ok || c.Call.IsInvoke() {
				continue
			}
			h := c.Call.StaticCallee()
			if h == nil || h.Blocks == nil || relPkg(h) != "http" || h.Signature.Results().Len() == 0 {
				continue
			}
			nres := h.Signature.Results().Len()
			if !isErrorType(h.Signature.Results().At(nres - 1).Type()) {
				continue
			}
			argIdx := -1
			for i, a := range c.Call.Args {
				if fv, base := loadedField(a); fv != nil && fv.Name() == "Host" && base == ssa.Value(cl.Params[1]) {
					argIdx = i
				}
			}
			if argIdx < 0 || argIdx >= len(h.Params) {
				continue
			}
			var hh ssa.Value
			allInstrs(h, func(in ssa.Instruction) {
				if sc, isC := in.(*ssa.Call); isC && isStdCall(sc, "net", "", "SplitHostPort") && sc.Call.Args[0] == ssa.Value(h.Params[argIdx]) {
					hh = extractOf(sc, 0)
				}
			})
			if hh == nil {
				continue
			}
			// checkLocal's side: true only behind the helper's error tested nil
			var errv ssa.Value = c
			if nres > 1 {
				errv = extractOf(c, nres-1)
			}
			okCl := errv != nil
			for _, ret := range returnsOf(cl) {
				if !accepts(ret) || !okCl {
					continue
				}
				missing, reached := pathsMissing(cl.Blocks[0].Instrs[0], -1, func(in ssa.Instruction) bool { return in == ssa.Instruction(ret) }, nil, []edgeReq{{Name: "helper's error is nil", Match: func(cond ssa.Value, pol bool) bool {
					x, isNil, okn := nilFact(Guard{Cond: cond, Pol: pol})
					return okn && isNil && x == errv
				}}})
				if reached == 0 || len(missing) > 0 {
					okCl = false
				}
			}
			if !okCl {
				continue
			}
			r.Fn(h)
			host, judged = hh, h
			ne := newNilEnv(p)
			accepts = func(ret *ssa.Return) bool {
				res := retResults(ret)
				return len(res) > 0 && ne.At(res[len(res)-1], ret.Block()) != NonNil
			}
		}
	}
	if host == nil {
		r.Fail("R1", "checkLocal/host", cl.Pos(), "checkLocal no longer derives the host with net.SplitHostPort(r.Host)")
		return
	}
	// the acceptance test may sit in checkLocal or in a boolean helper it hands the host to (localHostname(host))
	accept := edgeReq{Name: "host == \"localhost\" or net.ParseIP(host) != nil", ViaHelper: true, Subj: []ssa.Value{host}, MatchS: func(sj []ssa.Value, cond ssa.Value, pol bool) bool {
		bo, ok := cond.(*ssa.BinOp)
		if !ok || sj[0] == nil {
			return false
		}
		h := sj[0]
		if s, oks := constString(bo.Y); oks && s == "localhost" && bo.X == h {
			return (bo.Op == token.EQL) == pol
		}
		if s, oks := constString(bo.X); oks && s == "localhost" && bo.Y == h {
			return (bo.Op == token.EQL) == pol
		}
		if isNilConst(bo.Y) {
			if c, okc := bo.X.(*ssa.Call); okc && isStdCall(c, "net", "", "ParseIP") && c.Call.Args[0] == h {
				return (bo.Op == token.NEQ) == pol
			}
			// _, err := netip.ParseAddr(host); err == nil — the same test in the newer API
			if ex, okx := bo.X.(*ssa.Extract); okx && ex.Index == 1 {
				if c, okc := ex.Tuple.(*ssa.Call); okc && isStdCall(c, "net/netip", "", "ParseAddr") && c.Call.Args[0] == h {
					return (bo.Op == token.EQL) == pol
				}
			}
		}
		return false
	}}
	nTrue := 0
	okAll := true
	for _, ret := range returnsOf(judged) {
		if !accepts(ret) {
			continue
		}
		nTrue++
		missing, reached := pathsMissing(judged.Blocks[0].Instrs[0], -1, func(in ssa.Instruction) bool { return in == ssa.Instruction(ret) }, nil, []edgeReq{accept})
		if reached == 0 || len(missing) > 0 {
			okAll = false
		}
	}
	r.Check(okAll && nTrue > 0, "R1", "checkLocal/accepts-only-localhost-or-ip", cl.Pos(), "checkLocal returns true only after `host == \"localhost\"` or `net.ParseIP(host) != nil` on the host extracted from the request",
		"checkLocal can return true on a path that took neither `host == \"localhost\"` nor `net.ParseIP(host) != nil` for the host string extracted by net.SplitHostPort (e.g. it compares a transformed copy): a DNS name other than localhost is accepted")
}

// ---------- R2 ----------

type escMode int

const (
	modeHTML escMode = iota
	modeM3U
)

type escCtx struct {
	p       *Prog
	mode    escMode
	memo    map[ssa.Value]int // 0 unknown, 1 safe, 2 unsafe, 3 visiting
	fnMemo  map[*ssa.Function]int
	why     map[ssa.Value]string
	nExcept int
}

func newEscCtx(p *Prog, mode escMode) *escCtx {
	return &escCtx{p: p, mode: mode, memo: map[ssa.Value]int{}, fnMemo: map[*ssa.Function]int{}, why: map[ssa.Value]string{}}
}

func (e *escCtx) typeSafe(t types.Type) bool {
	switch u := t.Underlying().(type) {
	case *types.Basic:
		if u.Info()&(types.IsNumeric|types.IsBoolean) != 0 {
			// named numeric types with a String method are handled below
			if n, ok := t.(*types.Named); ok {
				return e.namedStringSafe(n)
			}
			return true
		}
		return false
	}
	if n, ok := t.(*types.Named); ok {
		return e.namedStringSafe(n)
	}
	return false
}

// namedStringSafe: a named type is safe to print when it has no String/Error method and is numeric, or its String
// method is defined in the module and all its returns are safe; time.Duration/time.Time are whitelisted.
func (e *escCtx) namedStringSafe(n *types.Named) bool {
	if n.Obj().Pkg() != nil && n.Obj().Pkg().Path() == "time" && (n.Obj().Name() == "Duration" || n.Obj().Name() == "Time") {
		return true
	}
	var strM *types.Func
	for _, T := range []types.Type{n, types.NewPointer(n)} {
		ms := types.NewMethodSet(T)
		for i := 0; i < ms.Len(); i++ {
			m := ms.At(i).Obj()
			if m.Name() == "String" || m.Name() == "Error" {
				if f, ok := m.(*types.Func); ok {
					strM = f
				}
			}
		}
	}
	if strM == nil {
		b, ok := n.Underlying().(*types.Basic)
		return ok && b.Info()&(types.IsNumeric|types.IsBoolean) != 0
	}
	if strM.Pkg() == nil || !strings.HasPrefix(strM.Pkg().Path(), modPath) {
		return false
	}
	fn := e.p.SSA.FuncValue(strM)
	if fn == nil {
		return false
	}
	return e.returnsSafe(fn)
}

// elemsSafe: every element ever put into the locally built list v is safe: a make([]string, n) filled by indexed
// stores, an append chain of safe values, a slice literal.
func (e *escCtx) elemsSafe(v ssa.Value, d int) bool {
	if d > 4 {
		return false
	}
	switch x := v.(type) {
	case *ssa.MakeSlice:
		for _, ref := range *x.Referrers() {
			switch y := ref.(type) {
			case *ssa.DebugRef:
			case *ssa.IndexAddr:
				for _, r2 := range *y.Referrers() {
					switch z := r2.(type) {
					case *ssa.Store:
						if z.Addr == ssa.Value(y) && !e.safe(z.Val) {
							return false
						}
					case *ssa.UnOp, *ssa.DebugRef:
					default:
						return false
					}
				}
			case *ssa.Call:
				// len(x), the Join itself, range
				if bi, ok := y.Call.Value.(*ssa.Builtin); ok && (bi.Name() == "len" || bi.Name() == "cap") {
					continue
				}
				if calleeObj(y) != nil && calleeObj(y).Pkg() != nil && calleeObj(y).Pkg().Path() == "strings" && calleeObj(y).Name() == "Join" {
					continue
				}
				return false
			case *ssa.Slice, *ssa.Phi:
				// re-sliced or merged: give up
				return false
			default:
				return false
			}
		}
		return true
	case *ssa.Slice:
		if els, ok := sliceLitElems(x); ok {
			for _, el := range els {
				if !e.safe(el) {
					return false
				}
			}
			return true
		}
	case *ssa.Call:
		if bi, ok := x.Call.Value.(*ssa.Builtin); ok && bi.Name() == "append" && len(x.Call.Args) == 2 {
			if !isNilConst(x.Call.Args[0]) && !e.elemsSafe(x.Call.Args[0], d+1) {
				return false
			}
			for _, el := range variadicElems(x.Call.Args[1]) {
				if el != nil && !e.safe(el) {
					return false
				}
			}
			return len(variadicElems(x.Call.Args[1])) > 0
		}
	case *ssa.Phi:
		for _, ed := range x.Edges {
			if isNilConst(ed) || ed == ssa.Value(x) {
				continue
			}
			if !e.elemsSafe(ed, d+1) {
				return false
			}
		}
		return true
	case *ssa.Const:
		return isNilConst(x)
	}
	return false
}

func (e *escCtx) returnsSafe(fn *ssa.Function) bool {
	switch e.fnMemo[fn] {
	case 1, 3:
		return true
	case 2:
		return false
	}
	e.fnMemo[fn] = 3
	ok := fn.Blocks != nil
	for _, ret := range returnsOf(fn) {
		for _, v := range retResults(ret) {
			if b, isB := v.Type().Underlying().(*types.Basic); isB && b.Info()&types.IsString != 0 {
				if !e.safe(v) {
					ok = false
				}
			}
		}
	}
	if ok {
		e.fnMemo[fn] = 1
	} else {
		e.fnMemo[fn] = 2
	}
	return ok
}

var sanitisersHTML = map[string]bool{
	"html.EscapeString": true, "net/url.PathEscape": true, "net/url.QueryEscape": true, "encoding/hex.EncodeToString": true,
	"strconv.Itoa": true, "strconv.FormatInt": true, "strconv.FormatUint": true, "strconv.FormatFloat": true, "strconv.Quote": true,
}
var sanitisersM3U = map[string]bool{
	"net/url.PathEscape": true, "net/url.QueryEscape": true, "encoding/hex.EncodeToString": true,
	"strconv.Itoa": true, "strconv.FormatInt": true, "strconv.FormatUint": true, "strconv.FormatFloat": true, "strconv.Quote": true,
}

// stringTransformers keep safety of their (first) string argument.
var stringTransformers = map[string]bool{
	"strings.Replace": true, "strings.ReplaceAll": true, "strings.TrimSpace": true, "strings.ToLower": true, "strings.ToUpper": true,
	"strings.TrimPrefix": true, "strings.TrimSuffix": true, "strings.Trim": true, "strings.TrimRight": true, "strings.TrimLeft": true,
}

func qualName(c *ssa.Call) string {
	o := calleeObj(c)
	if o == nil || o.Pkg() == nil {
		return ""
	}
	sig := o.Type().(*types.Signature)
	if sig.Recv() != nil {
		if n := namedOf(sig.Recv().Type()); n != nil {
			return o.Pkg().Path() + "." + n.Obj().Name() + "." + o.Name()
		}
	}
	return o.Pkg().Path() + "." + o.Name()
}

func (e *escCtx) safe(v ssa.Value) bool {
	switch e.memo[v] {
	case 1, 3:
		return true
	case 2:
		return false
	}
	e.memo[v] = 3
	ok := e.compute(v)
	if ok {
		e.memo[v] = 1
	} else {
		e.memo[v] = 2
	}
	return ok
}

func (e *escCtx) unsafeWhy(v ssa.Value, why string) bool {
	if _, has := e.why[v]; !has {
		e.why[v] = why
	}
	return false
}

func isStringKind(t types.Type) bool {
	b, ok := t.Underlying().(*types.Basic)
	return ok && b.Info()&types.IsString != 0
}

func (e *escCtx) compute(v ssa.Value) bool {
	t := v.Type()
	switch x := v.(type) {
	case *ssa.Const:
		return true
	case *ssa.MakeInterface:
		// a value boxed for a fmt verb is printed through its String/Error method if it has one
		if e.typeSafe(x.X.Type()) {
			return true
		}
		if n, ok := x.X.Type().(*types.Named); ok && hasStringer(n) {
			return e.unsafeWhy(v, "value of type "+typeShort(x.X.Type())+" is printed through its String/Error method, which is not escaped")
		}
		return e.safe(x.X)
	case *ssa.ChangeType:
		if isStringKind(t) || isByteSlice(t) {
			return e.safe(x.X)
		}
	case *ssa.Convert:
		// string(bytes), []byte(string), string(rune/int)
		if isStringKind(t) || isByteSlice(t) {
			if isInteger(x.X.Type()) {
				return true
			}
			return e.safe(x.X)
		}
	case *ssa.BinOp:
		if x.Op == token.ADD && isStringKind(t) {
			return e.safe(x.X) && e.safe(x.Y)
		}
	case *ssa.Phi:
		for _, ed := range x.Edges {
			if !e.safe(ed) {
				return e.unsafeWhy(v, "one incoming value is unsafe: "+e.why[ed])
			}
		}
		return true
	case *ssa.Slice:
		if _, isAl := x.X.(*ssa.Alloc); isAl {
			// a variadic/literal array: every stored element must be safe
			for _, el := range variadicElems(x) {
				if el != nil && !e.safe(el) {
					return e.unsafeWhy(v, "element is unsafe: "+e.why[el])
				}
			}
			return true
		}
		return e.safe(x.X)
	case *ssa.UnOp:
		if x.Op == token.MUL {
			// the one named exception: r.Host
			if fv, base := loadedField(x); fv != nil && fv.Name() == "Host" && typeIs(base.Type(), "net/http", "Request") {
				e.nExcept++
				return true
			}
			if al, ok := x.X.(*ssa.Alloc); ok {
				for _, ref := range *al.Referrers() {
					if st, ok := ref.(*ssa.Store); ok && st.Addr == ssa.Value(al) {
						if !e.safe(st.Val) {
							return e.unsafeWhy(v, "a value stored in the local is unsafe: "+e.why[st.Val])
						}
					}
				}
				return e.numericSafe(t) || isStringKind(t) || isByteSlice(t)
			}
		}
	case *ssa.Call:
		if bi, ok := x.Call.Value.(*ssa.Builtin); ok {
			switch bi.Name() {
			case "append":
				// append(b, s...) / append(b, elem)
				for _, a := range x.Call.Args {
					if !e.safe(a) {
						return e.unsafeWhy(v, "appended value is unsafe: "+e.why[a])
					}
				}
				return true
			case "len", "cap", "min", "max":
				return true
			}
			return false
		}
		q := qualName(x)
		san := sanitisersHTML
		if e.mode == modeM3U {
			san = sanitisersM3U
		}
		if san[q] {
			return true
		}
		if stringTransformers[q] {
			return e.safe(x.Call.Args[0])
		}
		switch q {
		case "fmt.Sprintf", "fmt.Sprint", "fmt.Sprintln":
			args := x.Call.Args
			if q == "fmt.Sprintf" {
				if _, isC := args[0].(*ssa.Const); !isC {
					return e.unsafeWhy(v, "non-constant format string")
				}
				args = args[1:]
			}
			for _, a := range args {
				for _, el := range variadicElems(a) {
					if el != nil && !e.safe(el) {
						return e.unsafeWhy(v, "Sprintf argument is unsafe: "+e.why[el])
					}
				}
			}
			return true
		case "strings.Join":
			// a separator-joined list: safe when the separator and every element put into the list are
			if len(x.Call.Args) == 2 && e.safe(x.Call.Args[1]) && e.elemsSafe(x.Call.Args[0], 0) {
				return true
			}
			return e.unsafeWhy(v, "strings.Join of a list whose elements are not all escaped")
		case "bytes.Buffer.String", "bytes.Buffer.Bytes", "strings.Builder.String":
			// contents of a local buffer: every write into it is itself a checked sink
			return true
		case "strings.Replacer.Replace":
			if e.mode == modeM3U {
				return replacerStripsNewlines(e.p, x)
			}
			return e.safe(x.Call.Args[1])
		}
		if cal := x.Call.StaticCallee(); cal != nil && strings.HasPrefix(funcPkgPath(cal), modPath) && cal.Blocks != nil {
			if isStringKind(t) || isByteSlice(t) {
				if e.returnsSafe(cal) {
					return true
				}
				return e.unsafeWhy(v, "result of "+fname(cal)+", not all of whose returns are escaped")
			}
		}
		if e.numericSafe(t) {
			return true
		}
		if x.Call.IsInvoke() {
			return e.unsafeWhy(v, "result of interface method "+x.Call.Method.Name()+"() (unescaped "+describeSource(x)+")")
		}
		return e.unsafeWhy(v, "result of "+q+" is not escaped")
	case *ssa.Parameter:
		if e.numericSafe(t) {
			return true
		}
		// a parameter of a package-local function is safe when every call site passes a safe argument
		if f := x.Parent(); f != nil && (isStringKind(t) || isByteSlice(t)) {
			calls, esc := e.p.callSitesOf(f)
			idx := -1
			for i, pa := range f.Params {
				if pa == x {
					idx = i
				}
			}
			if len(esc) == 0 && len(calls) > 0 && idx >= 0 {
				all := true
				for _, cs := range calls {
					if !e.safe(cs.Common().Args[idx]) {
						all = false
						e.unsafeWhy(v, "argument passed for "+x.Name()+" at "+e.p.pos(cs.Pos())+" is unsafe: "+e.why[cs.Common().Args[idx]])
					}
				}
				if all {
					return true
				}
				return false
			}
		}
		return e.unsafeWhy(v, "parameter "+v.Name()+" of type "+typeShort(t)+" is not escaped here")
	case *ssa.FreeVar:
		if e.numericSafe(t) {
			return true
		}
		return e.unsafeWhy(v, "parameter "+v.Name()+" of type "+typeShort(t)+" is not escaped here")
	}
	if e.numericSafe(t) {
		return true
	}
	return e.unsafeWhy(v, "value of type "+typeShort(t)+" ("+exprStr(v)+") is not escaped")
}

func describeSource(c *ssa.Call) string {
	if c.Call.IsInvoke() {
		return typeShort(c.Call.Value.Type()) + "." + c.Call.Method.Name()
	}
	return exprStr(c)
}

// replacerStripsNewlines: the receiver is a package-level *strings.Replacer built by strings.NewReplacer with constant
// pairs that map both "\n" and "\r" to strings containing neither.
func replacerStripsNewlines(p *Prog, c *ssa.Call) bool {
	ld, ok := c.Call.Args[0].(*ssa.UnOp)
	if !ok {
		return false
	}
	g, ok := ld.X.(*ssa.Global)
	if !ok {
		return false
	}
	var nr *ssa.Call
	for f := range p.AllFuncs() {
		if f.Pkg != g.Pkg || f.Name() != "init" {
			continue
		}
		allInstrs(f, func(in ssa.Instruction) {
			if st, ok := in.(*ssa.Store); ok && st.Addr == ssa.Value(g) {
				if cc, ok := st.Val.(*ssa.Call); ok && isStdCall(cc, "strings", "", "NewReplacer") {
					nr = cc
				}
			}
		})
	}
	if nr == nil {
		return false
	}
	el := variadicElems(nr.Call.Args[0])
	hasN, hasR := false, false
	for i := 0; i+1 < len(el); i += 2 {
		k, ok1 := constString(el[i])
		val, ok2 := constString(el[i+1])
		if !ok1 || !ok2 || strings.ContainsAny(val, "\r\n") {
			return false
		}
		if k == "\n" {
			hasN = true
		}
		if k == "\r" {
			hasR = true
		}
	}
	return hasN && hasR
}

func c19R2(r *Report) {
	p := r.P
	// playlist functions: those that set the mpegurl content type, and package functions they call
	m3u := map[*ssa.Function]bool{}
	for _, f := range p.SrcFuncs() {
		if relPkg(f) != "http" {
			continue
		}
		allInstrs(f, func(in ssa.Instruction) {
			c, ok := in.(*ssa.Call)
			if !ok {
				return
			}
			for _, a := range c.Call.Args {
				if s, oks := constString(a); oks && strings.Contains(s, "mpegurl") {
					m3u[f] = true
				}
			}
		})
	}
	for f := range m3u {
		allInstrs(f, func(in ssa.Instruction) {
			if cal := calleeOf(in); cal != nil && relPkg(cal) == "http" && len(cal.Params) > 0 && typeIs(cal.Params[0].Type(), "net/http", "ResponseWriter") {
				m3u[cal] = true
			}
		})
	}
	html := newEscCtx(p, modeHTML)
	pl := newEscCtx(p, modeM3U)
	nSinks, nArgs := 0, 0
	for _, f := range p.SrcFuncs() {
		if relPkg(f) != "http" {
			continue
		}
		ctx := html
		page := "HTML page"
		if m3u[f] {
			ctx = pl
			page = "playlist"
		}
		allInstrs(f, func(in ssa.Instruction) {
			c, ok := in.(*ssa.Call)
			if !ok {
				return
			}
			q := qualName(c)
			var args []ssa.Value
			switch q {
			case "fmt.Fprintf":
				if _, isC := c.Call.Args[1].(*ssa.Const); !isC {
					nSinks++
					r.Fn(f)
					r.Fail("R2", fname(f)+"/Fprintf-format", c.Pos(), "non-constant format string written to the response")
					return
				}
				args = variadicElems(c.Call.Args[2])
			case "fmt.Fprint", "fmt.Fprintln":
				args = variadicElems(c.Call.Args[1])
			case "io.WriteString":
				args = []ssa.Value{c.Call.Args[1]}
			default:
				return
			}
			nSinks++
			r.Fn(f)
			for i, a := range args {
				if a == nil {
					continue
				}
				nArgs++
				key := fmt.Sprintf("%s/%s(arg %s)", fname(f), q[strings.Index(q, ".")+1:], exprStr(strip(a)))
				if ctx.safe(a) {
					r.Ok("R2", key, c.Pos(), "argument #%d is safe for the %s", i+1, page)
				} else {
					why := ctx.why[a]
					if why == "" {
						why = ctx.why[strip(a)]
					}
					if mi, ok := a.(*ssa.MakeInterface); ok && why == "" {
						why = ctx.why[mi.X]
					}
					extra := "appears unescaped in the generated HTML"
					if ctx.mode == modeM3U {
						extra = "can add lines to the generated playlist (CR/LF are not removed)"
					}
					r.Fail("R2", key, c.Pos(), "argument #%d (%s) %s: %s", i+1, exprStr(strip(a)), extra, why)
				}
			}
		})
	}
	r.Sentinel("R2.sinks", nSinks, 60)
	r.Sentinel("R2.args", nArgs, 80)
	r.Notes = append(r.Notes, fmt.Sprintf("R2: %d sink calls, %d arguments; named exception (*http.Request).Host used %d times; playlist functions: %d", nSinks, nArgs, html.nExcept+pl.nExcept, len(m3u)))
}

// numericSafe: the raw value (not its String method) is harmless: numbers and booleans.
func (e *escCtx) numericSafe(t types.Type) bool {
	b, ok := t.Underlying().(*types.Basic)
	return ok && b.Info()&(types.IsNumeric|types.IsBoolean) != 0
}

func hasStringer(n *types.Named) bool {
	for _, T := range []types.Type{n, types.NewPointer(n)} {
		ms := types.NewMethodSet(T)
		for i := 0; i < ms.Len(); i++ {
			if m := ms.At(i).Obj().Name(); m == "String" || m == "Error" {
				return true
			}
		}
	}
	return false
}
