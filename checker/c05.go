package main

import (
	"fmt"
	"go/token"
	"go/types"
	"sort"
	"strings"

	"golang.org/x/tools/go/ssa"
)

func init() {
	register(&PropSpec{
		ID: "C05",
		Explanation: "Static decision of structural conditions for 'no message sequence can crash or bloat the client': " +
			"(R1) exhaustiveness — every concrete type that flows into the protocol.Message / peer.TorEvent / peer.PeerEvent interfaces (MakeInterface sites in the whole program) has a case in the type switch that dispatches it (peer.handleMessage, tor.handleEvent, peer.handleEvent, protocol.Write), so the `default: panic` branches are unreachable, and protocol.Read never yields a nil message (C04.R1 re-evaluated); " +
			"(R2) taint — integers read from wire-message fields outside package protocol, followed through struct fields, call arguments, closures and results across packages peer, tor, tor/piece, bitmap, peer/requests, protocol, alloc (global fixpoint, field-sensitive, context-insensitive), never reach an allocation size, and never reach a slice index/bound, unless a dominating guard bounds them by a value the peer does not choose (or by a constant up to 128 MiB); " +
			"(R3) rejection guards on indexes are not off by one (`index > count` contradictions); (R4) handler errors leave the loop instead of panicking. For all message sequences at once, because taint and guards are computed over all paths.",
		Rules: []string{"R1 dispatch exhaustiveness (E-exh)", "R2 wire integers never size memory or index unchecked (E-taint + E-int)", "R3 index guards not off by one", "R4 handler errors disconnect", "R5 metadata buffer and its bookkeeping arrays are reassigned together (co-assignment)"},
		NotDecided: []string{"termination of handlers (loops proportional to message length are not analysed)",
			"internal-assertion panics whose unreachability is a history invariant (requests package, noteInFlight index from a request we made) — listed as informational",
			"allocation proportional to message count (append of one element per message)"},
		Assumptions: []string{"only package peer reads decoded wire fields (checked: the source table is every integer field of a protocol.* struct loaded outside package protocol)",
			"len() of a slice decoded from a frame is bounded by the 1 MiB frame cap (C04)"},
		Run: runC05,
	})
}

// ---------- R1: exhaustiveness ----------

// typeSwitchCases returns the asserted types of the comma-ok type assertions on param.
func typeSwitchCases(fn *ssa.Function, operand ssa.Value) map[string]bool {
	out := map[string]bool{}
	allInstrs(fn, func(in ssa.Instruction) {
		if ta, ok := in.(*ssa.TypeAssert); ok && ta.X == operand && ta.CommaOk {
			out[typeShort(ta.AssertedType)] = true
		}
	})
	return out
}

type flowSite struct {
	Type string
	Pos  token.Pos
	Fn   *ssa.Function
}

// makeInterfaceSites lists the MakeInterface instructions whose result type is the named interface.
func makeInterfaceSites(p *Prog, iface *types.Named, filter func(f *ssa.Function) bool) []flowSite {
	var out []flowSite
	for _, f := range p.SrcFuncs() {
		if filter != nil && !filter(f) {
			continue
		}
		allInstrs(f, func(in ssa.Instruction) {
			mi, ok := in.(*ssa.MakeInterface)
			if !ok || !types.Identical(mi.Type(), iface) {
				return
			}
			out = append(out, flowSite{typeShort(mi.X.Type()), mi.Pos(), f})
		})
	}
	return out
}

func exhaustive(r *Report, rule, name string, disp *ssa.Function, operand ssa.Value, sites []flowSite, minFlow int) {
	r.Fn(disp)
	cases := typeSwitchCases(disp, operand)
	flowing := map[string]flowSite{}
	for _, s := range sites {
		if _, ok := flowing[s.Type]; !ok {
			flowing[s.Type] = s
		}
	}
	var names []string
	for n := range flowing {
		names = append(names, n)
	}
	sort.Strings(names)
	for _, n := range names {
		s := flowing[n]
		key := fmt.Sprintf("%s/%s", name, n)
		if cases[n] {
			r.Ok(rule, key, s.Pos, "%s (made in %s) has a case in %s", n, fname(s.Fn), fname(disp))
		} else {
			r.Fail(rule, key, s.Pos, "%s is converted to the dispatched interface in %s but %s has no case for it: it reaches `default: panic`", n, fname(s.Fn), fname(disp))
		}
	}
	r.Sentinel(rule+"."+name, len(names), minFlow)
	r.Notes = append(r.Notes, fmt.Sprintf("%s: %d flowing types, %d cases in %s", name, len(names), len(cases), fname(disp)))
}

func c05R1(r *Report) {
	p := r.P
	msgT := p.Named("protocol", "Message")
	torEvT := p.Named("peer", "TorEvent")
	peerEvT := p.Named("peer", "PeerEvent")
	hm := p.Func("peer", "handleMessage")
	the := p.Func("tor", "handleEvent")
	phe := p.Func("peer", "handleEvent")
	pw := p.Func("protocol", "Write")
	if !r.Anchor("R1", "protocol.Message", msgT != nil) || !r.Anchor("R1", "peer.TorEvent", torEvT != nil) || !r.Anchor("R1", "peer.PeerEvent", peerEvT != nil) ||
		!r.Anchor("R1", "peer.handleMessage", hm != nil) || !r.Anchor("R1", "tor.handleEvent", the != nil) || !r.Anchor("R1", "peer.handleEvent", phe != nil) || !r.Anchor("R1", "protocol.Write", pw != nil) {
		return
	}
	var readerRoots []*ssa.Function
	for _, nm := range []string{"Read", "Reader"} {
		if f := p.Func("protocol", nm); f != nil {
			readerRoots = append(readerRoots, f)
		}
	}
	inProtocolReader := func(f *ssa.Function) bool {
		if relPkg(f) != "protocol" {
			return false
		}
		if enclosingNamed(f).Name() == "Read" || enclosingNamed(f).Name() == "Reader" {
			return true
		}
		// a private helper factored out of the reading side (readWithDeadline)
		return p.inUnitOf(enclosingNamed(f), readerRoots...)
	}
	// (a) inbound messages
	exhaustive(r, "R1", "inbound", hm, hm.Params[1], makeInterfaceSites(p, msgT, inProtocolReader), 24)
	// (d) outbound messages: every Message made outside protocol.Read/Reader
	exhaustive(r, "R1", "outbound", pw, pw.Params[1], makeInterfaceSites(p, msgT, func(f *ssa.Function) bool { return !inProtocolReader(f) }), 18)
	// (b) torrent events
	exhaustive(r, "R1", "tor-events", the, the.Params[2], makeInterfaceSites(p, torEvT, nil), 24)
	// (c) peer events
	exhaustive(r, "R1", "peer-events", phe, phe.Params[1], makeInterfaceSites(p, peerEvT, nil), 15)
	// interface-to-interface conversions into the dispatched types would hide concrete types
	for _, f := range p.SrcFuncs() {
		allInstrs(f, func(in ssa.Instruction) {
			if ci, ok := in.(*ssa.ChangeInterface); ok {
				for _, it := range []*types.Named{msgT, torEvT, peerEvT} {
					if types.Identical(ci.Type(), it) && !types.Identical(ci.X.Type(), it) {
						r.Undecided("R1", "iface-conversion/"+fname(f), ci.Pos(), "a value of interface type %s is converted to %s: its concrete types are not enumerated", typeShort(ci.X.Type()), typeShort(it))
					}
				}
			}
		})
	}
	// no nil message: C04.R1 premise re-evaluated here
	if read := p.Func("protocol", "Read"); read != nil {
		ne := newNilEnv(p)
		bad := 0
		for _, ret := range returnsOf(read) {
			mn := ne.At(ret.Results[0], ret.Block())
			en := ne.At(ret.Results[1], ret.Block())
			if !(mn == NonNil || en == NonNil) {
				bad++
				r.Fail("R1", "no-nil-message/Read", ret.Pos(), "protocol.Read can return (nil, nil): handleMessage(nil) reaches `default: panic`")
			}
		}
		if bad == 0 {
			r.Ok("R1", "no-nil-message/Read", read.Pos(), "every return of protocol.Read carries a message or a non-nil error")
		}
	}
}

// ---------- R2: taint ----------

func c05Scope() map[string]bool {
	return map[string]bool{"peer": true, "tor": true, "tor/piece": true, "bitmap": true, "peer/requests": true, "protocol": true, "alloc": true, "known": true, "pex": true}
}

func wireSource(p *Prog) func(fv *types.Var, f *ssa.Function) bool {
	protoPath := modPath + "/protocol"
	return func(fv *types.Var, f *ssa.Function) bool {
		if fv.Pkg() == nil || fv.Pkg().Path() != protoPath {
			return false
		}
		return relPkg(f) != "protocol"
	}
}

func c05R2(r *Report) {
	p := r.P
	t := newTaint(TaintCfg{P: p, Scope: c05Scope(), IsSource: wireSource(p), Limit: 1 << 27})
	rounds := t.propagate()
	r.Notes = append(r.Notes, fmt.Sprintf("R2: taint fixpoint in %d rounds over %d functions; unbounded-tainted fields: %v", rounds, len(t.funcs), t.taintedFieldNames()))
	nSrc := 0
	nAlloc, nIndex := 0, 0
	for _, f := range t.funcs {
		touched := false
		allInstrs(f, func(in ssa.Instruction) {
			// count sources
			switch x := in.(type) {
			case *ssa.Field:
				if fv := fieldVar(x); fv != nil && isInteger(fv.Type()) && t.cfg.IsSource(fv, f) {
					nSrc++
				}
			case *ssa.FieldAddr:
				if fv := fieldVar(x); fv != nil && isInteger(fv.Type()) && t.cfg.IsSource(fv, f) {
					nSrc++
				}
			}
			check := func(kind, what string, v ssa.Value, isAlloc bool) {
				o := t.of(v)
				if o == nil {
					return // not attacker-chosen: no obligation
				}
				touched = true
				if isAlloc {
					nAlloc++
				} else {
					nIndex++
				}
				key := fmt.Sprintf("%s/%s(%s)", fname(f), kind, exprStr(v))
				if ok, why := t.boundedAt(v, in.Block(), 0); ok {
					r.Ok("R2", key, in.Pos(), "%s %s depends on %s but is bounded: %s", kind, what, o.chain(p), why)
				} else if isAlloc {
					r.Fail("R2", key, in.Pos(), "allocation size %s is chosen by the remote peer without a dominating bound: %s", exprStr(v), o.chain(p))
				} else {
					r.Fail("R2", key, in.Pos(), "%s %s is chosen by the remote peer without a dominating bound (out-of-range panic): %s", kind, exprStr(v), o.chain(p))
				}
			}
			switch x := in.(type) {
			case *ssa.MakeSlice:
				check("make", "size", x.Len, true)
				if x.Cap != x.Len {
					check("make.cap", "capacity", x.Cap, true)
				}
			case *ssa.Call:
				if isStdCall(x, "golang.org/x/sys/unix", "", "Mmap") || isStdCall(x, "syscall", "", "Mmap") {
					if len(x.Call.Args) >= 3 {
						check("mmap", "length", x.Call.Args[2], true)
					}
				}
			case *ssa.IndexAddr:
				if _, isArr := derefType(x.X.Type()).Underlying().(*types.Array); isArr {
					if _, isc := x.Index.(*ssa.Const); isc {
						return
					}
				}
				check("index", "expression", x.Index, false)
			case *ssa.Index:
				check("index", "expression", x.Index, false)
			case *ssa.Slice:
				if x.Low != nil {
					check("slice.low", "bound", x.Low, false)
				}
				if x.High != nil {
					check("slice.high", "bound", x.High, false)
				}
			}
		})
		if touched {
			r.Fn(f)
		}
	}
	r.Sentinel("R2.sources", nSrc, 30)
	r.Sentinel("R2.sinks", nAlloc+nIndex, 3)
	r.Notes = append(r.Notes, fmt.Sprintf("R2: %d wire-field loads (sources), %d allocation sinks and %d index sinks reached by taint", nSrc, nAlloc, nIndex))
}

// ---------- R3: off-by-one rejection guards ----------

// A rejecting guard `X > N` (true edge leaves by return) where N is a count — len(s), or a value defined as
// len(s), or a call named like a count (numPieces, Num) — and X is later used as an index into the same
// kind of collection, contradicts the `>=` every sibling uses: index == count is never valid.
func c05R3(r *Report) {
	p := r.P
	scope := map[string]bool{"peer": true, "tor": true}
	n := 0
	for _, f := range p.SrcFuncs() {
		if !scope[relPkg(f)] {
			continue
		}
		for _, b := range f.Blocks {
			if len(b.Instrs) == 0 {
				continue
			}
			iff, ok := b.Instrs[len(b.Instrs)-1].(*ssa.If)
			if !ok {
				continue
			}
			bo, ok := iff.Cond.(*ssa.BinOp)
			if !ok {
				continue
			}
			var idx, cnt ssa.Value
			strict := false
			switch bo.Op {
			case token.GTR: // idx > cnt
				idx, cnt, strict = bo.X, bo.Y, true
			case token.GEQ:
				idx, cnt = bo.X, bo.Y
			case token.LSS: // cnt < idx
				idx, cnt, strict = bo.Y, bo.X, true
			case token.LEQ:
				idx, cnt = bo.Y, bo.X
			default:
				continue
			}
			if !isCountExpr(cnt) || !isBareIndex(idx) {
				continue
			}
			// rejecting: the true successor returns without falling through
			if !blockReturnsDirectly(b.Succs[0]) {
				continue
			}
			n++
			r.Fn(f)
			key := fmt.Sprintf("%s/%s-vs-%s", fname(f), exprStr(idx), exprStr(cnt))
			if strict {
				r.Fail("R3", key, iff.Cond.Pos(), "rejection guard `%s > %s` lets index == count through: an index equal to the number of elements is never valid (sibling guards use >=)", exprStr(idx), exprStr(cnt))
			} else {
				r.Ok("R3", key, iff.Cond.Pos(), "index rejected when >= count")
			}
		}
	}
	r.Sentinel("R3", n, 5)
}

func isCountExpr(v ssa.Value) bool {
	v = strip(v)
	switch x := v.(type) {
	case *ssa.Call:
		if bi, ok := x.Call.Value.(*ssa.Builtin); ok && bi.Name() == "len" {
			return true
		}
		if f := x.Call.StaticCallee(); f != nil {
			switch f.Name() {
			case "numPieces", "Num":
				return true
			}
		}
	}
	return false
}

// isBareIndex: a (possibly converted) field, parameter or local — not a sum (end offsets like begin+length are not indexes).
func isBareIndex(v ssa.Value) bool {
	v = strip(v)
	switch x := v.(type) {
	case *ssa.Parameter, *ssa.Field:
		return isInteger(v.Type())
	case *ssa.UnOp:
		if x.Op == token.MUL {
			_, ok := x.X.(*ssa.FieldAddr)
			return ok && isInteger(v.Type())
		}
	}
	return false
}

func blockReturnsDirectly(b *ssa.BasicBlock) bool {
	seen := map[*ssa.BasicBlock]bool{}
	for b != nil && !seen[b] {
		seen[b] = true
		last := b.Instrs[len(b.Instrs)-1]
		switch last.(type) {
		case *ssa.Return:
			return true
		case *ssa.Jump:
			b = b.Succs[0]
		default:
			return false
		}
	}
	return false
}

// ---------- R4 ----------

func c05R4(r *Report) {
	p := r.P
	for _, sp := range [][2]string{{"peer", "Run"}, {"tor", "Torrent.run"}} {
		f := p.Func(sp[0], sp[1])
		if !r.Anchor("R4", sp[0]+"."+sp[1], f != nil) {
			continue
		}
		r.Fn(f)
		var main *ssa.Select
		allInstrs(f, func(in ssa.Instruction) {
			if s, ok := in.(*ssa.Select); ok && s.Blocking && (main == nil || len(s.States) > len(main.States)) {
				main = s
			}
		})
		if main == nil {
			r.Undecided("R4", fname(f)+"/main-select", f.Pos(), "no event loop select found")
			continue
		}
		allInstrs(f, func(in ssa.Instruction) {
			c, ok := in.(*ssa.Call)
			if !ok {
				return
			}
			cal := c.Call.StaticCallee()
			if cal == nil || (cal.Name() != "handleEvent" && cal.Name() != "handleMessage") {
				return
			}
			key := fmt.Sprintf("%s/%s-error-disconnects", fname(f), cal.Name())
			okk := false
			for _, ref := range *c.Referrers() {
				bo, isb := ref.(*ssa.BinOp)
				if !isb || bo.Op != token.NEQ || !isNilConst(bo.Y) {
					continue
				}
				for _, r2 := range *bo.Referrers() {
					if iff, isif := r2.(*ssa.If); isif && leavesLoop(iff.Block().Succs[0], main.Block()) {
						// and no panic on that path
						pan := false
						for bb := range reachableFrom(iff.Block().Succs[0]) {
							if _, isp := bb.Instrs[len(bb.Instrs)-1].(*ssa.Panic); isp {
								pan = true
							}
						}
						okk = !pan
					}
				}
			}
			r.Check(okk, "R4", key, c.Pos(), "an error from "+cal.Name()+" ends the loop cleanly", "an error from "+cal.Name()+" does not end the loop cleanly")
		})
	}
	// informational: explicit panics reachable from the handlers, with their functions
	var pans []string
	for _, f := range p.SrcFuncs() {
		pk := relPkg(f)
		if pk != "peer" && pk != "tor" && pk != "peer/requests" && pk != "bitmap" && pk != "tor/piece" {
			continue
		}
		allInstrs(f, func(in ssa.Instruction) {
			if pi, ok := in.(*ssa.Panic); ok && pi.Pos().IsValid() {
				pans = append(pans, fmt.Sprintf("%s (%s)", fname(f), p.pos(pi.Pos())))
			}
		})
	}
	sort.Strings(pans)
	r.Notes = append(r.Notes, "explicit panics in handler packages (internal assertions, not discharged except the dispatch defaults by R1): "+strings.Join(pans, "; "))
}

// R5: the metadata buffer and the arrays that describe it move together. gotMetadata bounds the block
// index by len(infoRequested) and then slices Info: that is only safe while the two are reassigned together.
func metadataCoAssign(r *Report, rule string) {
	p := r.P
	info := p.Field("tor", "Torrent", "Info")
	ib := p.Field("tor", "Torrent", "infoBitmap")
	ir := p.Field("tor", "Torrent", "infoRequested")
	if !r.Anchor(rule, "tor.Torrent.Info", info != nil) || !r.Anchor(rule, "tor.Torrent.infoBitmap", ib != nil) || !r.Anchor(rule, "tor.Torrent.infoRequested", ir != nil) {
		return
	}
	n := coAssigned(r, rule, info, []*types.Var{ib, ir}, "tor")
	r.Sentinel(rule, n, 2)
}

func runC05(r *Report) {
	c05R1(r)
	c05R2(r)
	c05R3(r)
	c05R4(r)
	metadataCoAssign(r, "R5")
	c05R6(r)
	c05R7(r)
	c05R8(r)
	c05R10(r)
	// what the peer reports to the torrent is what the store took (C09.R2 shared): the torrent indexes its tables by it
	c09DataReleases(r, "R2")
	// the one-shot geometry is set only after the last check that can fail (C13.R1 shared): a second attempt after a
	// rejected dictionary would otherwise panic in Pieces.MetadataComplete
	c13R1(r, "R4")
	// "allocates in proportion to the message": the decoder's frame arithmetic and allocation bounds (C04.R2/R3/R5)
	// are the first line of that clause, before any handler runs
	if read := r.P.Func("protocol", "Read"); read != nil {
		if L := frameLength(read); L != nil {
			sub := r.sub("R9")
			scope := localCallees(r.P, read, []string{"protocol", "pex"})
			c04R5(sub, read, L)
			c04R2(sub, scope)
			c04R3(sub, read, scope, L)
		}
	}
}

// R8 (from a round-2 seeded change): "at worst disconnects that one peer". Torrent.run ends as soon as
// tor.handleEvent returns a non-nil error, so handleEvent may return only nil or a package-level sentinel (io.EOF for
// the deliberate TorDone): a return that carries the result of a call (writePeer reporting that one peer has hung
// up) turns one peer's failure into the death of the whole torrent.
func c05R8(r *Report) {
	p := r.P
	he := p.Func("tor", "handleEvent")
	if !r.Anchor("R8", "tor.handleEvent", he != nil) {
		return
	}
	r.Fn(he)
	n := 0
	for _, ret := range returnsOf(he) {
		res := retResults(ret)
		if len(res) == 0 {
			continue
		}
		n++
		ev := res[len(res)-1]
		okv := derivesOnlyFrom(ev, func(v ssa.Value) bool {
			if isNilConst(v) {
				return true
			}
			if ld, ok := v.(*ssa.UnOp); ok && ld.Op == token.MUL {
				if _, isG := ld.X.(*ssa.Global); isG {
					return true
				}
			}
			return false
		})
		if !okv {
			r.Fail("R8", fmt.Sprintf("handleEvent/return(%s)", exprStr(ev)), ret.Pos(), "tor.handleEvent returns %s: any non-nil error ends Torrent.run, so the failure of one call (a peer that has hung up) kills the whole torrent instead of at most that peer", exprStr(ev))
		}
	}
	if n > 0 {
		r.Ok("R8", "handleEvent/returns-nil-or-sentinel", he.Pos(), "%d returns checked: only nil or a package-level sentinel is returned", n)
	}
	r.Sentinel("R8", n, 10)
}

// R7 (from a round-2 seeded change): handling a message terminates. A necessary structural condition for the loops
// that walk a peer-supplied buffer: a loop whose exit test reads a variable that the body advances by a computed,
// non-constant step (`count += l`) makes progress only if that step is positive where it is added — established by
// a guard in the body (`if l <= 0 { break }`, `if l == 0 …`) or by the step's own range. With a step that can be
// zero the goroutine spins forever (here: holding the store's write lock) for a block that overruns its piece.
func c05R7(r *Report) {
	p := r.P
	scope := c05Scope()
	n := 0
	for _, f := range p.SrcFuncs() {
		if !scope[relPkg(f)] {
			continue
		}
		for _, l := range naturalLoops(f) {
			// exit tests of the loop: Ifs inside it with a successor outside
			type exitT struct {
				iff *ssa.If
				bo  *ssa.BinOp
			}
			var exits []exitT
			bounded := false
			for b := range l.Blocks {
				iff, ok := b.Instrs[len(b.Instrs)-1].(*ssa.If)
				if !ok || (l.Blocks[b.Succs[0]] && l.Blocks[b.Succs[1]]) {
					continue
				}
				bo, ok := iff.Cond.(*ssa.BinOp)
				if !ok {
					continue
				}
				exits = append(exits, exitT{iff, bo})
				// a counter advanced by a positive constant and compared with a bound: the loop ends by itself
				// (for i := 0; i < n; i++, range loops)
				for _, side := range []ssa.Value{stripIntConv(bo.X), stripIntConv(bo.Y)} {
					if _, step, isCtr := loopCounter(side); isCtr && step > 0 {
						bounded = true
					}
					if add, ok := side.(*ssa.BinOp); ok && add.Op == token.ADD {
						if _, step, isCtr := loopCounter(add.X); isCtr && step > 0 {
							bounded = true
						}
					}
				}
			}
			if bounded {
				continue
			}
			// the variables the exit tests read, and how the body advances them: SSA phis, or cells of named results /
			// captured variables (loads and stores of one local)
			type adv struct {
				name string
				add  *ssa.BinOp
				step ssa.Value
			}
			var advs []adv
			seenAdd := map[*ssa.BinOp]bool{}
			for _, ex := range exits {
				for _, side := range []ssa.Value{stripIntConv(ex.bo.X), stripIntConv(ex.bo.Y)} {
					if !isInteger(side.Type()) {
						continue
					}
					switch x := side.(type) {
					case *ssa.Phi:
						if x.Block() != l.Head {
							continue
						}
						for i, e := range x.Edges {
							if !l.Blocks[x.Block().Preds[i]] {
								continue
							}
							add, ok := e.(*ssa.BinOp)
							if !ok || add.Op != token.ADD || seenAdd[add] {
								continue
							}
							if add.X == ssa.Value(x) {
								seenAdd[add] = true
								advs = append(advs, adv{x.Comment, add, add.Y})
							} else if add.Y == ssa.Value(x) {
								seenAdd[add] = true
								advs = append(advs, adv{x.Comment, add, add.X})
							}
						}
					case *ssa.UnOp:
						al, ok := x.X.(*ssa.Alloc)
						if !ok || x.Op != token.MUL {
							continue
						}
						for _, ref := range *al.Referrers() {
							st, ok := ref.(*ssa.Store)
							if !ok || st.Addr != ssa.Value(al) || !l.Blocks[st.Block()] {
								continue
							}
							add, ok := st.Val.(*ssa.BinOp)
							if !ok || add.Op != token.ADD || seenAdd[add] {
								continue
							}
							isLoad := func(v ssa.Value) bool {
								ld, ok := v.(*ssa.UnOp)
								return ok && ld.Op == token.MUL && ld.X == ssa.Value(al)
							}
							if isLoad(add.X) {
								seenAdd[add] = true
								advs = append(advs, adv{al.Comment, add, add.Y})
							} else if isLoad(add.Y) {
								seenAdd[add] = true
								advs = append(advs, adv{al.Comment, add, add.X})
							}
						}
					}
				}
			}
			for _, a := range advs {
				if _, isC := a.step.(*ssa.Const); isC {
					continue
				}
				n++
				r.Fn(f)
				key := fmt.Sprintf("%s/loop-progress(%s+=%s)", fname(f), a.name, exprStr(a.step))
				env := &IntEnv{}
				iv := env.At(a.step, a.add.Block())
				pos := iv.Lo >= 1 || (isUnsigned(a.step.Type()) && env.nonZeroAt(a.step, a.add.Block()))
				r.Check(pos, "R7", key, a.add.Pos(), fmt.Sprintf("the step is positive where it is added (%s)", iv),
					fmt.Sprintf("the loop in %s exits on %s, which the body advances by %s — a step only known to be in %s where it is added: when it is zero the loop never ends (a peer's block that overruns its piece makes the goroutine spin with the store locked)", fname(f), a.name, exprStr(a.step), iv))
			}
		}
	}
	r.Sentinel("R7", n, 1)
}

// R6 (from a round-2 seeded change): the per-peer request set keeps a membership bitmap next to its two lists, and its
// assertions (panic("Requests is broken!")) fire when they disagree — reachable from a Piece message or a cancel.
// Every method of package peer/requests that stores to `queue` or `requested` also writes the bitmap on the same
// path: before the store (Dequeue resets the bit, then shrinks the queue) or after it (Clear drops the lists, then
// rebuilds the bitmap). A path that changes a list and leaves the bitmap alone breaks the invariant for whatever
// sequence of messages later touches the stale bit.
func c05R6(r *Report) {
	p := r.P
	bm := p.Field("peer/requests", "Requests", "bitmap")
	q := p.Field("peer/requests", "Requests", "queue")
	rq := p.Field("peer/requests", "Requests", "requested")
	if !r.Anchor("R6", "requests.Requests.bitmap", bm != nil) || !r.Anchor("R6", "requests.Requests.queue", q != nil) || !r.Anchor("R6", "requests.Requests.requested", rq != nil) {
		return
	}
	isBitmapWrite := func(in ssa.Instruction) bool {
		if st, ok := in.(*ssa.Store); ok {
			if fa, ok := st.Addr.(*ssa.FieldAddr); ok && fieldVar(fa) == bm {
				return true
			}
		}
		if c, ok := in.(*ssa.Call); ok && len(c.Call.Args) > 0 {
			if cal := c.Call.StaticCallee(); cal != nil && relPkg(cal) == "bitmap" {
				switch cal.Name() {
				case "Set", "Reset", "SetMultiple", "Extend":
					if fa, ok := c.Call.Args[0].(*ssa.FieldAddr); ok && fieldVar(fa) == bm {
						return true
					}
				}
			}
		}
		return false
	}
	n := 0
	for _, f := range p.SrcFuncs() {
		if relPkg(f) != "peer/requests" {
			continue
		}
		allInstrs(f, func(in ssa.Instruction) {
			st, ok := in.(*ssa.Store)
			if !ok {
				return
			}
			fa, ok := st.Addr.(*ssa.FieldAddr)
			if !ok || (fieldVar(fa) != q && fieldVar(fa) != rq) {
				return
			}
			n++
			r.Fn(f)
			key := fmt.Sprintf("%s/store(%s)#%d", fname(f), fieldVar(fa).Name(), n)
			after := len(exitsAvoiding(st, isBitmapWrite, false)) == 0
			before := false
			if !after {
				miss, reached := pathsMissingEntry(f, func(i ssa.Instruction) bool { return i == ssa.Instruction(st) }, nil, []edgeReq{{Name: "bitmap write", Instr: isBitmapWrite}})
				before = reached > 0 && len(miss) == 0
			}
			if !after && !before {
				// the list is changed in a private helper that tells its caller whether it did (found := rs.removeRequested(i)):
				// then every caller writes the bitmap on the paths on which the helper reports the change
				after = c05LiftedPairing(p, st, isBitmapWrite)
			}
			r.Check(after || before, "R6", key, st.Pos(), "the membership bitmap is written on every path that changes this list",
				fmt.Sprintf("%s changes the %s list on a path that never writes the membership bitmap: bits of entries that are gone stay set (or new entries have no bit), and the next Del/Cancel/Enqueue of such a block hits the package's own assertion panic — reachable from a Piece or Cancel message", fname(f), fieldVar(fa).Name()))
		})
	}
	r.Sentinel("R6", n, 6)
}

// ---------- R10: memoised bounds are invalidated ----------

// c05R10: a field of Peer that caches a value computed from other fields of the peer (written only by one function,
// under `field == 0`) must be reset wherever one of those other fields is assigned after construction: the range checks
// on wire indices use such bounds (pieceLimit), and the metadata a bound depends on arrives while the peer is running —
// a bound memoised before the metadata was known (maxPieces) would stay in force for the rest of the peer's life.
func c05R10(r *Report) {
	p := r.P
	pn := p.Named("peer", "Peer")
	if !r.Anchor("R10", "peer.Peer", pn != nil) {
		return
	}
	st, ok := pn.Underlying().(*types.Struct)
	if !ok {
		return
	}
	type storeSite struct {
		st *ssa.Store
		fn *ssa.Function
	}
	storesOf := func(fv *types.Var) []storeSite {
		var out []storeSite
		for _, acc := range p.fieldAccesses(fv) {
			fa, ok := acc.Instr.(*ssa.FieldAddr)
			if !ok {
				continue
			}
			if al, isAl := fa.X.(*ssa.Alloc); isAl && al.Comment == "complit" {
				continue
			}
			for _, ref := range *fa.Referrers() {
				if s, isSt := ref.(*ssa.Store); isSt && s.Addr == ssa.Value(fa) {
					out = append(out, storeSite{s, acc.Fn})
				}
			}
		}
		return out
	}
	nMemo := 0
	for i := 0; i < st.NumFields(); i++ {
		F := st.Field(i)
		if !isInteger(F.Type()) {
			continue
		}
		stores := storesOf(F)
		if len(stores) == 0 {
			continue
		}
		// one writer, at least one store under F == 0
		writer := enclosingNamed(stores[0].fn)
		single, memo := true, false
		for _, s := range stores {
			if enclosingNamed(s.fn) != writer {
				single = false
			}
			for _, g := range guardsOf(s.st.Block()) {
				op, x, y, okc := cmpFact(g)
				if !okc || op != token.EQL {
					continue
				}
				if z, okz := constInt(y); okz && z == 0 {
					if fv, _ := loadedField(stripIntConv(x)); fv == F {
						memo = true
					}
				}
			}
		}
		if !single || !memo {
			continue
		}
		nMemo++
		r.Fn(writer)
		// what the memoised value depends on: fields of Peer read by the writer and its callees in the package
		deps := map[*types.Var]bool{}
		seen := map[*ssa.Function]bool{}
		var collect func(f *ssa.Function, d int)
		collect = func(f *ssa.Function, d int) {
			if f == nil || f.Blocks == nil || seen[f] || d > 2 {
				return
			}
			seen[f] = true
			allInstrs(f, func(in ssa.Instruction) {
				if fa, ok := in.(*ssa.FieldAddr); ok {
					if fv := fieldVar(fa); fv != nil && fv != F {
						for k := 0; k < st.NumFields(); k++ {
							if st.Field(k) == fv {
								deps[fv] = true
							}
						}
					}
				}
				if cal := calleeOf(in); cal != nil && relPkg(cal) == "peer" {
					collect(cal, d+1)
				}
			})
		}
		collect(writer, 0)
		isReset := func(in ssa.Instruction) bool {
			s, ok := isStoreToField(in, F)
			if !ok {
				return false
			}
			z, okz := constInt(s.Val)
			return okz && z == 0
		}
		isRet := func(in ssa.Instruction) bool { _, ok := in.(*ssa.Return); return ok }
		for D := range deps {
			for _, s := range storesOf(D) {
				g := enclosingNamed(s.fn)
				if g.Name() == "New" {
					continue
				}
				miss, reached := pathsMissing(s.st, -1, isRet, nil, []edgeReq{{Name: "reset", Instr: isReset}})
				key := fmt.Sprintf("%s/store(%s)-resets-memo(%s)", fname(s.fn), D.Name(), F.Name())
				r.Check(reached == 0 || len(miss) == 0, "R10", key, s.st.Pos(), "the memoised field is reset where the field it depends on is assigned",
					fmt.Sprintf("Peer.%s caches a value that %s computes from Peer.%s, but %s assigns Peer.%s without resetting the cache: a bound memoised before the metadata was known stays in force afterwards, so range checks on wire indices keep using the pre-metadata limit and a Have far beyond the last piece is accepted (bitmap and availability arrays grow to the limit)", F.Name(), fname(writer), D.Name(), fname(s.fn), D.Name()))
			}
		}
	}
	r.Notes = append(r.Notes, fmt.Sprintf("R10: %d memoised integer fields of peer.Peer found", nMemo))
}

// c05LiftedPairing: store st sits in a private helper whose boolean result says whether the store happened (true on
// every return reached after the store, false on every other return); at every call site of the helper, every path
// on which that result is true reaches a partner write before the caller returns.
func c05LiftedPairing(p *Prog, st *ssa.Store, partner func(ssa.Instruction) bool) bool {
	f := st.Parent()
	obj, isFn := f.Object().(*types.Func)
	if !isFn || obj.Exported() || f.Parent() != nil {
		return false
	}
	calls, esc := p.callSitesOf(f)
	if len(esc) > 0 || len(calls) == 0 {
		return false
	}
	afterStore := reachableFrom(st.Block())
	afterStore[st.Block()] = true
	flag := -1
	nres := f.Signature.Results().Len()
	for j := 0; j < nres; j++ {
		if !isBoolType(f.Signature.Results().At(j).Type()) {
			continue
		}
		good := true
		for _, ret := range returnsOf(f) {
			res := retResults(ret)
			b, isb := constBool(res[j])
			after := afterStore[ret.Block()] && (ret.Block() != st.Block() || instrIndex(st) < instrIndex(ret))
			if !isb || b != after {
				good = false
			}
		}
		if good {
			flag = j
		}
	}
	if flag < 0 {
		return false
	}
	for _, cs := range calls {
		c, ok := cs.(*ssa.Call)
		if !ok || funcPkgPath(c.Parent()) != funcPkgPath(f) {
			return false
		}
		var fv ssa.Value = c
		if nres > 1 {
			ex := extractOf(c, flag)
			if ex == nil {
				return false // the caller does not look at the flag
			}
			fv = ex
		}
		seen := map[*ssa.BasicBlock]bool{}
		bad := false
		var scan func(b *ssa.BasicBlock, idx int)
		scan = func(b *ssa.BasicBlock, idx int) {
			if bad {
				return
			}
			for _, in := range b.Instrs[idx:] {
				if partner(in) {
					return
				}
				if _, isRet := in.(*ssa.Return); isRet {
					bad = true
					return
				}
			}
			iff, _ := b.Instrs[len(b.Instrs)-1].(*ssa.If)
			for si, s2 := range b.Succs {
				if iff != nil {
					g := Guard{Cond: iff.Cond, Pol: si == 0}.norm()
					if g.Cond == fv && !g.Pol {
						continue // the helper reported "nothing changed"
					}
				}
				if !seen[s2] {
					seen[s2] = true
					scan(s2, 0)
				}
			}
		}
		scan(c.Block(), instrIndex(c)+1)
		if bad {
			return false
		}
	}
	return true
}
