package main

import (
	"fmt"
	"go/token"
	"go/types"
	"sort"
	"strings"

	"golang.org/x/tools/go/ssa"
)

func init() {
	register(&PropSpec{
		ID: "C01",
		Explanation: "Static decision of the structural conditions for 'only hash-verified data is ever readable' in tor/piece (and its consumers): " +
			"(R1) ownership — every use of the bytes of Piece.data is one of the enumerated ones (len/nil test, source of the guarded copy in ReadAt, destination of the guarded copy in AddData, argument of sha1.Sum in Finalise, argument of alloc.Free in del); any other use (returned, stored, passed on, captured) is a second way to read piece bytes; " +
			"(R2) the one outgoing copy executes with the read lock held, dominated by the complete() test, with no unlock between test and copy; " +
			"(R3) Piece.state changes only through setState's CAS; the only transition to complete is dominated by the equality of the SHA-1 of the piece's own buffer with the caller's hash, after the busy transition made under the write lock; " +
			"(R4) writes to data/bitmap and the busy transition are dominated by a busyOrComplete() re-check made under the write lock with no unlock in between; " +
			"(R5) the buffer is freed only write-locked, after the busy() loop's exit test with no unlock in between, and the field is cleared before the lock is released; " +
			"(R6) lock discipline: every access to data/bitmap/peers/deleted/count and every non-atomic state read happens with the lock held (writes: write lock); helpers that unlock temporarily return in the state they were entered in; " +
			"(R7) consumers: uploads send the buffer only when ReadAt filled it completely; Reader.Read reports exactly ReadAt's count; (R8) AddData's copy is dominated by the alignment/bounds/not-already-present guards; (R9) the expected hash is looked up with the same index that is finalised. " +
			"Lockset dataflow + guard dominance hold for every interleaving the lock protocol permits.",
		Rules: []string{"R1 ownership of Piece.data", "R2 guarded read", "R3 hash-guarded completion", "R4 no write after busy/complete", "R5 never freed under hasher/reader",
			"R6 lock discipline (E-lock)", "R7 consumers", "R8 AddData guards", "R9 hash belongs to the piece"},
		NotDecided:  []string{"offset arithmetic (off/pieceSize, off%pieceSize, AddData block arithmetic) puts bytes at the right offset", "sha1.Sum is SHA-1; mmap semantics", "MetadataComplete's unlocked initialisation (documented set-once)"},
		Assumptions: []string{"sync.RWMutex semantics", "atomic accessors of Piece.state/time are linearizable"},
		Run:         runC01,
	})
}

type pieceCtx struct {
	r                         *Report
	p                         *Prog
	la                        *LockAn
	data, bitmapF, state      *types.Var
	peers, deleted, count, mu *types.Var
	ok                        bool
	rv                        *revalidator
}

// factCall: the fact "Piece method `name` returned `want`" (plain or atomic accessor), tested under the lock.
func (c *pieceCtx) factCall(name string, want bool, need LockSet) lockedFact {
	return lockedFact{
		name: fmt.Sprintf("%s() == %v under the lock", name, want),
		need: need,
		edge: func(cond ssa.Value, pol bool) bool {
			return pieceMethodCall2(cond, name) != nil && pol == want
		},
	}
}

// samePiecePtr: two pointers to a Piece denote the same element: the same value, or &s[i] of the same slice value
// (or of two loads of the same field) with the same index value.
func samePiecePtr(a, b ssa.Value) bool {
	if a == b {
		return true
	}
	ia, ok1 := a.(*ssa.IndexAddr)
	ib, ok2 := b.(*ssa.IndexAddr)
	if !ok1 || !ok2 {
		return false
	}
	if stripIntConv(ia.Index) != stripIntConv(ib.Index) {
		return false
	}
	if ia.X == ib.X {
		return true
	}
	fa, ba := loadedField(ia.X)
	fb, bb := loadedField(ib.X)
	return fa != nil && fa == fb && ba == bb
}

// factCallFor: as factCall, for the piece that `piece` points to: a test made on another element of the table (the
// first piece of a read that goes on into the following ones) says nothing about this one.
func (c *pieceCtx) factCallFor(name string, want bool, need LockSet, piece ssa.Value) lockedFact {
	return lockedFact{
		name: fmt.Sprintf("%s() == %v under the lock for %p", name, want, piece),
		need: need,
		edge: func(cond ssa.Value, pol bool) bool {
			call := pieceMethodCall2(cond, name)
			if call == nil || pol != want || len(call.Call.Args) == 0 {
				return false
			}
			return samePiecePtr(call.Call.Args[0], piece)
		},
		retarget: func(call *ssa.Call, h *ssa.Function) (lockedFact, bool) {
			for i, a := range call.Call.Args {
				if i < len(h.Params) && samePiecePtr(a, piece) {
					return c.factCallFor(name, want, need, h.Params[i]), true
				}
			}
			return lockedFact{}, false
		},
	}
}

// factNotDeleted: the fact "the store is not deleted" (!ps.deleted).
func (c *pieceCtx) factNotDeleted() lockedFact {
	return lockedFact{
		name: "!deleted under the lock",
		need: LW,
		edge: func(cond ssa.Value, pol bool) bool {
			fv, _ := loadedField(cond)
			return fv == c.deleted && !pol
		},
	}
}

// factDataNil: the fact "the piece has no buffer" (Piece.data == nil).
func (c *pieceCtx) factDataNil() lockedFact {
	f := c.factDataNonNil()
	inner := f.edge
	return lockedFact{name: "data == nil under the lock", need: LW, edge: func(cond ssa.Value, pol bool) bool { return inner(cond, !pol) }}
}

// factDataNonNil: the fact "the piece has a buffer" (Piece.data != nil).
func (c *pieceCtx) factDataNonNil() lockedFact {
	return lockedFact{
		name: "data != nil under the lock",
		need: LW | LR,
		edge: func(cond ssa.Value, pol bool) bool {
			bo, ok := cond.(*ssa.BinOp)
			if !ok || !(isNilConst(bo.Y) || isNilConst(bo.X)) {
				return false
			}
			x := bo.X
			if isNilConst(x) {
				x = bo.Y
			}
			fv, _ := loadedField(x)
			return fv == c.data && ((bo.Op == token.NEQ && pol) || (bo.Op == token.EQL && !pol))
		},
	}
}

func newPieceCtx(r *Report, rule string) *pieceCtx {
	p := r.P
	c := &pieceCtx{r: r, p: p}
	get := func(typ, f string) *types.Var {
		v := p.Field("tor/piece", typ, f)
		r.Anchor(rule, "piece."+typ+"."+f, v != nil)
		return v
	}
	c.data, c.bitmapF, c.state, c.peers = get("Piece", "data"), get("Piece", "bitmap"), get("Piece", "state"), get("Piece", "peers")
	c.deleted, c.count, c.mu = get("Pieces", "deleted"), get("Pieces", "count"), get("Pieces", "mu")
	c.ok = c.data != nil && c.bitmapF != nil && c.state != nil && c.peers != nil && c.deleted != nil && c.count != nil && c.mu != nil
	if c.ok {
		c.la = newLockAn(p, c.mu, "tor/piece")
	}
	return c
}

// isUnlock: in releases the mutex, itself or through a package-local callee.
func (c *pieceCtx) isUnlock(in ssa.Instruction) bool {
	return c.la.mayUnlock(in)
}

// pieceMethodCall: in is a call of unexported Piece method `name` (complete, busy, busyOrComplete, setState…).
func pieceMethodCall(in ssa.Instruction, name string) *ssa.Call {
	c, ok := in.(*ssa.Call)
	if !ok {
		return nil
	}
	f := c.Call.StaticCallee()
	if f == nil || relPkg(f) != "tor/piece" {
		return nil
	}
	// the atomic accessor (Complete/Busy/BusyOrComplete) reads the same state as the plain one
	if f.Name() != name && f.Name() != strings.ToUpper(name[:1])+name[1:] {
		return nil
	}
	return c
}

// guardCall: block b is dominated by the edge on which a call to Piece method `name` returned `want`.
func guardCall(b *ssa.BasicBlock, name string, want bool) *ssa.Call {
	for _, g := range guardsOf(b) {
		g = g.norm()
		if c := pieceMethodCall2(g.Cond, name); c != nil && g.Pol == want {
			return c
		}
	}
	return nil
}

func pieceMethodCall2(v ssa.Value, name string) *ssa.Call {
	c, ok := v.(*ssa.Call)
	if !ok {
		return nil
	}
	return pieceMethodCall(c, name)
}

// ---------- R1 ----------

type dataUse struct {
	Kind string
	In   ssa.Instruction
}

// usesOfBuffer classifies every use of a value that denotes the piece buffer (or a slice of it).
func usesOfBuffer(v ssa.Value, out *[]dataUse, seen map[ssa.Value]bool) {
	if seen[v] {
		return
	}
	seen[v] = true
	for _, ref := range *v.Referrers() {
		switch x := ref.(type) {
		case *ssa.DebugRef:
		case *ssa.Slice:
			if x.X == v {
				usesOfBuffer(x, out, seen)
			} else {
				*out = append(*out, dataUse{"other", x})
			}
		case *ssa.ChangeType:
			usesOfBuffer(x, out, seen)
		case *ssa.Phi:
			usesOfBuffer(x, out, seen)
		case *ssa.BinOp:
			if (x.Op == token.EQL || x.Op == token.NEQ) && (isNilConst(x.X) || isNilConst(x.Y)) {
				*out = append(*out, dataUse{"niltest", x})
			} else {
				*out = append(*out, dataUse{"other", x})
			}
		case *ssa.Call:
			if bi, ok := x.Call.Value.(*ssa.Builtin); ok {
				switch bi.Name() {
				case "len", "cap":
					*out = append(*out, dataUse{"len", x})
				case "copy":
					if x.Call.Args[0] == v {
						*out = append(*out, dataUse{"copy-dst", x})
					} else {
						*out = append(*out, dataUse{"copy-src", x})
					}
				default:
					*out = append(*out, dataUse{"other", x})
				}
				continue
			}
			switch {
			case isStdCall(x, "crypto/sha1", "", "Sum"):
				*out = append(*out, dataUse{"sha1", x})
			case isCallNamed(x, "alloc", "Free"):
				*out = append(*out, dataUse{"free", x})
			default:
				// a package-local helper: what it does with the corresponding parameter is what is done with the
				// buffer (digest(data) hashing it, say); the uses are attributed to the helper and, through the
				// unit relation, to the store function it serves
				if h := x.Call.StaticCallee(); h != nil && h.Blocks != nil && relPkg(h) == "tor/piece" && !x.Call.IsInvoke() && len(seen) < 200 {
					followed := false
					for i, a := range x.Call.Args {
						if a == v && i < len(h.Params) {
							usesOfBuffer(h.Params[i], out, seen)
							followed = true
						}
					}
					if followed {
						continue
					}
				}
				*out = append(*out, dataUse{"call", x})
			}
		case *ssa.Store:
			if x.Val == v {
				// kept in a local or in a named result: what is done with the loads of that cell
				if al, isAl := x.Addr.(*ssa.Alloc); isAl && !seen[al] && len(seen) < 200 {
					seen[al] = true
					followed := true
					for _, r2 := range *al.Referrers() {
						switch y := r2.(type) {
						case *ssa.Store, *ssa.DebugRef:
						case *ssa.UnOp:
							if y.Op == token.MUL {
								usesOfBuffer(y, out, seen)
							} else {
								followed = false
							}
						default:
							followed = false
						}
					}
					if followed {
						continue
					}
				}
				*out = append(*out, dataUse{"stored", x})
			}
		case *ssa.Return:
			// handed back by a private function of the package (beginFinalise → data, ok, err): what its callers do
			// with that result
			f := x.Parent()
			if obj, isFn := f.Object().(*types.Func); isFn && !obj.Exported() && f.Parent() == nil && relPkg(f) == "tor/piece" && exitProg != nil && len(seen) < 200 {
				calls, esc := exitProg.callSitesOf(f)
				idx := -1
				for i, rv := range x.Results {
					if rv == v {
						idx = i
					}
				}
				if len(esc) == 0 && len(calls) > 0 && idx >= 0 {
					followed := true
					for _, cs := range calls {
						cv, isCall := cs.(*ssa.Call)
						if !isCall {
							followed = false
							break
						}
						if len(x.Results) == 1 {
							usesOfBuffer(cv, out, seen)
						} else if ex := extractOf(cv, idx); ex != nil {
							usesOfBuffer(ex, out, seen)
						}
					}
					if followed {
						continue
					}
				}
			}
			*out = append(*out, dataUse{"returned", x})
		case *ssa.MakeClosure:
			*out = append(*out, dataUse{"captured", x})
		case *ssa.MakeInterface:
			*out = append(*out, dataUse{"boxed", x})
		case *ssa.IndexAddr:
			*out = append(*out, dataUse{"indexed", x})
		default:
			*out = append(*out, dataUse{"other", ref})
		}
	}
}

func (c *pieceCtx) dataLoads() []ssa.Value {
	var out []ssa.Value
	for _, acc := range c.p.fieldAccesses(c.data) {
		switch x := acc.Instr.(type) {
		case *ssa.FieldAddr:
			for _, ref := range *x.Referrers() {
				if ld, ok := ref.(*ssa.UnOp); ok && ld.Op == token.MUL {
					out = append(out, ld)
				}
			}
		case *ssa.Field:
			out = append(out, x)
		}
	}
	return out
}

func (c *pieceCtx) r1(rule string) {
	r := c.r
	allowed := map[string]map[string]bool{
		"ReadAt":   {"len": true, "copy-src": true},
		"AddData":  {"niltest": true, "copy-dst": true},
		"Finalise": {"sha1": true},
		"del":      {"niltest": true, "free": true},
	}
	nAcc := 0
	funcs := map[string]bool{}
	for _, acc := range c.p.fieldAccesses(c.data) {
		nAcc++
		fn := enclosingNamed(acc.Fn)
		funcs[fn.Name()] = true
		r.Fn(acc.Fn)
		if relPkg(acc.Fn) != "tor/piece" {
			r.Fail(rule, "access-outside-package/"+fname(acc.Fn), acc.Instr.Pos(), "Piece.data is accessed outside package piece")
			continue
		}
		if acc.Addr {
			r.Fail(rule, "address-escapes/"+fname(acc.Fn), acc.Instr.Pos(), "the address of Piece.data is taken: writes and reads through it cannot be enumerated")
		}
	}
	for _, ld := range c.dataLoads() {
		in := ld.(ssa.Instruction)
		fn := enclosingNamed(in.Parent())
		var uses []dataUse
		usesOfBuffer(ld, &uses, map[ssa.Value]bool{})
		for _, u := range uses {
			key := fmt.Sprintf("%s/%s", fname(u.In.Parent()), u.Kind)
			if (u.Kind == "len" || u.Kind == "niltest") && relPkg(u.In.Parent()) == "tor/piece" {
				// the length and the nil-ness of the buffer expose no bytes (whether the value is current is R6's business)
				r.Ok(rule, key, u.In.Pos(), "use of the piece buffer (%s) that neither reads nor writes its bytes", u.Kind)
			} else if allowed[fn.Name()][u.Kind] && in.Parent() == fn && u.In.Parent() == fn {
				r.Ok(rule, key, u.In.Pos(), "use of the piece buffer (%s) is one of the enumerated ones for %s", u.Kind, fn.Name())
			} else if roots, stray := c.p.unitRoots(u.In.Parent(), func(g *ssa.Function) bool {
				return relPkg(g) == "tor/piece" && g.Parent() == nil && allowed[g.Name()] != nil && g.Signature.Recv() != nil
			}); stray == nil && len(roots) > 0 && func() bool {
				for _, rt := range roots {
					if !allowed[rt.Name()][u.Kind] {
						return false
					}
				}
				return true
			}() {
				r.Ok(rule, key, u.In.Pos(), "use of the piece buffer (%s) in a private helper of %s, for which it is one of the enumerated uses", u.Kind, roots[0].Name())
			} else {
				r.Fail(rule, key, u.In.Pos(), "the piece buffer is used as '%s' in %s: piece bytes can leave the store (or be modified) without the state/lock checks of ReadAt/AddData/Finalise/del", u.Kind, fname(u.In.Parent()))
			}
		}
	}
	// whole-struct copies of Piece give access to data too: only Field/FieldAddr selections are followed
	r.Sentinel(rule, nAcc, 8)
	var fs []string
	for f := range funcs {
		fs = append(fs, f)
	}
	sort.Strings(fs)
	r.Notes = append(r.Notes, fmt.Sprintf("%s: Piece.data accessed %d times in %s", rule, nAcc, strings.Join(fs, ", ")))
}

// ---------- R2 ----------

func (c *pieceCtx) r2(rule string) {
	r := c.r
	n := 0
	for _, ld := range c.dataLoads() {
		var uses []dataUse
		usesOfBuffer(ld, &uses, map[ssa.Value]bool{})
		for _, u := range uses {
			if u.Kind != "copy-src" {
				continue
			}
			n++
			f := u.In.Parent()
			key := fmt.Sprintf("%s/copy-out", fname(f))
			st := c.la.At(u.In)
			if st&LU != 0 || st == 0 {
				r.Fail(rule, key, u.In.Pos(), "piece bytes are copied out in lock state {%s}: the copy must run with the lock held, or eviction/deletion can free (munmap) the buffer under the reader", st)
				continue
			}
			// … tested on the very piece whose buffer is copied (when that piece is identified by &ps.pieces[i]; inside a
			// helper that is handed the piece the test is looked for as before)
			fact := c.factCall("complete", true, LR|LW)
			if ldu, isLd := ld.(*ssa.UnOp); isLd {
				if fa, isFA := ldu.X.(*ssa.FieldAddr); isFA {
					if _, isIA := fa.X.(*ssa.IndexAddr); isIA {
						fact = c.factCallFor("complete", true, LR|LW, fa.X)
					}
				}
			}
			if ok, where := c.reval().establishedAt(u.In, fact, 0); !ok {
				r.Fail(rule, key, u.In.Pos(), "the copy out of the piece buffer is not preceded, on every path %s, by complete() == true tested under the lock on the piece that is copied: data of an incomplete, busy, failed or evicted piece could be returned", where)
				continue
			}
			// the data loaded must be loaded under the same lock hold
			if ldi, ok := ld.(ssa.Instruction); ok && pathHas(ldi, u.In, c.isUnlock) {
				r.Fail(rule, key, u.In.Pos(), "the buffer is read from the piece, the lock released, and the copy made afterwards")
				continue
			}
			r.Ok(rule, key, u.In.Pos(), "copy out runs in lock state {%s}, dominated by complete() tested in the same lock hold", st)
		}
	}
	r.Sentinel(rule, n, 1)
}

// ---------- R3 ----------

func (c *pieceCtx) r3(rule string) {
	r, p := c.r, c.p
	setState := p.Func("tor/piece", "Piece.setState")
	if !r.Anchor(rule, "piece.(*Piece).setState", setState != nil) {
		return
	}
	// all accesses to Piece.state
	okAcc := map[string]bool{"complete": true, "busy": true, "busyOrComplete": true, "Complete": true, "Busy": true, "BusyOrComplete": true, "setState": true}
	for _, acc := range p.fieldAccesses(c.state) {
		key := "state-access/" + fname(acc.Fn)
		if !okAcc[acc.Fn.Name()] || relPkg(acc.Fn) != "tor/piece" {
			r.Fail(rule, key, acc.Instr.Pos(), "Piece.state is accessed in %s, outside the accessor functions", fname(acc.Fn))
		} else if acc.Write {
			r.Fail(rule, key, acc.Instr.Pos(), "Piece.state is stored directly in %s (only setState's compare-and-swap may change it)", fname(acc.Fn))
		} else {
			r.Ok(rule, key, acc.Instr.Pos(), "state accessed through its accessor")
		}
	}
	// setState body: a CAS whose failure panics
	r.Fn(setState)
	cas := anyInstr(setState, func(in ssa.Instruction) bool { return isStdCall(in, "sync/atomic", "", "CompareAndSwapUint32") })
	r.Check(cas != nil, rule, "setState/cas", setState.Pos(), "setState changes the state with a compare-and-swap", "setState no longer uses a compare-and-swap on the state")
	stComplete, ok1 := pieceConst(p, "stateComplete")
	stBusy, ok2 := pieceConst(p, "stateBusy")
	if !r.Anchor(rule, "piece.stateComplete/stateBusy", ok1 && ok2) {
		return
	}
	calls, esc := p.callSitesOf(setState)
	for _, e := range esc {
		r.Fail(rule, "setState-escapes", e.Pos(), "setState is used as a function value")
	}
	n := 0
	for _, cs := range calls {
		n++
		f := cs.Parent()
		r.Fn(f)
		args := cs.Common().Args
		from, okf := constInt(args[1])
		to, okt := constInt(args[2])
		if !okf || !okt {
			r.Fail(rule, "setState-nonconst/"+fname(f), cs.Pos(), "setState called with non-constant states")
			continue
		}
		key := fmt.Sprintf("%s/setState(%d->%d)", fname(f), from, to)
		switch {
		case to == stComplete:
			c.checkCompleteTransition(rule, key, cs, from, stBusy)
		case to == stBusy:
			// made under W, after the busyOrComplete re-check in the same lock hold (R4)
			st := c.la.At(cs)
			if st != LW {
				r.Fail(rule, key, cs.Pos(), "the busy transition is made in lock state {%s}, not write-locked", st)
			} else if ok, where := c.reval().establishedAt(cs.(ssa.Instruction), c.factCall("busyOrComplete", false, LW), 0); !ok {
				r.Fail(rule, key, cs.Pos(), "the busy transition is not preceded, on every path %s, by !busyOrComplete() tested in the same write-lock hold", where)
			} else {
				r.Ok(rule, key, cs.Pos(), "incomplete→busy under the write lock, after the re-check")
			}
		default:
			if st := c.la.At(cs); st != LW {
				r.Fail(rule, key, cs.Pos(), "state transition made in lock state {%s}, not write-locked", st)
			} else {
				r.Ok(rule, key, cs.Pos(), "transition away from busy/complete under the write lock")
			}
		}
	}
	r.Sentinel(rule, n, 4)
}

func pieceConst(p *Prog, name string) (int64, bool) {
	pk := p.Pkg("tor/piece")
	if pk == nil {
		return 0, false
	}
	c, ok := pk.Types.Scope().Lookup(name).(*types.Const)
	if !ok {
		return 0, false
	}
	return constantInt64(c)
}

func (c *pieceCtx) checkCompleteTransition(rule, key string, cs ssa.CallInstruction, from, stBusy int64) {
	r := c.r
	f := cs.Parent()
	in := cs.(ssa.Instruction)
	if from != stBusy {
		r.Fail(rule, key, cs.Pos(), "a piece becomes complete from state %d, not from busy", from)
		return
	}
	if st := c.la.At(in); st != LW {
		r.Fail(rule, key, cs.Pos(), "the complete transition is made in lock state {%s}", st)
		return
	}
	// dominated by hh.Equal(h) == true where hh derives from sha1.Sum(piece buffer) and h is a parameter
	var eq *ssa.Call
	for _, g := range guardsOf(in.Block()) {
		g = g.norm()
		cc, ok := g.Cond.(*ssa.Call)
		if !ok || !g.Pol {
			continue
		}
		if cal := cc.Call.StaticCallee(); cal != nil && cal.Name() == "Equal" && relPkg(cal) == "hash" {
			eq = cc
		}
	}
	if eq == nil {
		// settle(index, hh.Equal(h)): the transition sits in a private helper, under a boolean parameter that is the
		// outcome of the comparison at the helper's only call site
		if obj, isFn := f.Object().(*types.Func); isFn && !obj.Exported() && f.Parent() == nil {
			calls, esc := c.p.callSitesOf(f)
			if len(esc) == 0 && len(calls) == 1 {
				if call, okc := calls[0].(*ssa.Call); okc && len(call.Call.Args) == len(f.Params) && relPkg(call.Parent()) == "tor/piece" {
					for _, g := range guardsOf(in.Block()) {
						g = g.norm()
						prm, okp := g.Cond.(*ssa.Parameter)
						if !okp || !g.Pol {
							continue
						}
						for i, pp := range f.Params {
							if pp != prm {
								continue
							}
							if cc, okcc := call.Call.Args[i].(*ssa.Call); okcc {
								if cal := cc.Call.StaticCallee(); cal != nil && cal.Name() == "Equal" && relPkg(cal) == "hash" {
									eq = cc
									f = call.Parent()
									r.Fn(f)
								}
							}
						}
					}
				}
			}
		}
	}
	if eq == nil {
		r.Fail(rule, key, cs.Pos(), "the transition to complete is not dominated by a successful hash comparison: unverified data becomes readable")
		return
	}
	a0, a1 := eq.Call.Args[0], eq.Call.Args[1]
	// endFinalise(index, hh, h): the comparison sits in a private helper that is handed the digest and the expected
	// hash by its only caller: judged with the caller's values
	if obj, isFn := f.Object().(*types.Func); isFn && !obj.Exported() && f.Parent() == nil {
		if calls, esc := c.p.callSitesOf(f); len(esc) == 0 && len(calls) == 1 {
			if call, okc := calls[0].(*ssa.Call); okc && len(call.Call.Args) == len(f.Params) && relPkg(call.Parent()) == "tor/piece" {
				subst := func(v ssa.Value) (ssa.Value, bool) {
					for i, pp := range f.Params {
						if ssa.Value(pp) == strip(v) {
							return call.Call.Args[i], true
						}
					}
					return v, false
				}
				n0, s0 := subst(a0)
				n1, s1 := subst(a1)
				if s0 && s1 {
					a0, a1 = n0, n1
					f = call.Parent()
					r.Fn(f)
				}
			}
		}
	}
	// hashedBy: v is (a slice of) the SHA-1 of some value x, computed at instruction `site` of this function:
	// sha1.Sum(x) stored in a local array and sliced, or the result of a package-local helper that returns such a
	// digest of one of its parameters (digest(data)).
	var hashedBy func(v ssa.Value, d int) (x ssa.Value, site ssa.Instruction)
	hashedBy = func(v ssa.Value, d int) (ssa.Value, ssa.Instruction) {
		v = strip(v)
		if d > 3 {
			return nil, nil
		}
		switch y := v.(type) {
		case *ssa.Slice:
			al, ok := y.X.(*ssa.Alloc)
			if !ok {
				return nil, nil
			}
			for _, ref := range *al.Referrers() {
				if st, ok := ref.(*ssa.Store); ok && st.Addr == ssa.Value(al) {
					if sc, ok := st.Val.(*ssa.Call); ok && isStdCall(sc, "crypto/sha1", "", "Sum") {
						return sc.Call.Args[0], sc
					}
				}
			}
		case *ssa.Call:
			h := y.Call.StaticCallee()
			if h == nil || h.Blocks == nil || relPkg(h) != "tor/piece" || y.Call.IsInvoke() {
				return nil, nil
			}
			idx := -1
			for _, ret := range returnsOf(h) {
				res := retResults(ret)
				if len(res) != 1 {
					return nil, nil
				}
				x, _ := hashedBy(res[0], d+1)
				prm, ok := x.(*ssa.Parameter)
				if !ok {
					return nil, nil
				}
				k := -1
				for i, pp := range h.Params {
					if pp == prm {
						k = i
					}
				}
				if k < 0 || (idx >= 0 && idx != k) {
					return nil, nil
				}
				idx = k
			}
			if idx >= 0 && idx < len(y.Call.Args) {
				return y.Call.Args[idx], y
			}
		}
		return nil, nil
	}
	isParam := func(v ssa.Value) bool {
		_, ok := strip(v).(*ssa.Parameter)
		return ok
	}
	var hashed ssa.Value
	var sum ssa.Instruction
	if x, site := hashedBy(a0, 0); x != nil && isParam(a1) {
		hashed, sum = x, site
	} else if x, site := hashedBy(a1, 0); x != nil && isParam(a0) {
		hashed, sum = x, site
	}
	if sum == nil {
		r.Fail(rule, key, eq.Pos(), "the hash comparison that guards completion does not compare sha1.Sum(…) with the caller-supplied hash")
		return
	}
	// sum's argument is the piece's own buffer
	fv, _ := loadedField(hashed)
	if fv != c.data {
		// data, ok, err := ps.beginFinalise(index): the buffer as handed back by a private helper of the package
		fv = helperResultField(hashed)
	}
	if fv != c.data {
		r.Fail(rule, key, sum.Pos(), "the digest that guards completion is not computed over the piece's buffer (Piece.data)")
		return
	}
	// busy transition precedes the hashing on every path: some setState(0,busy) dominates the Sum call
	domBusy := false
	toBusy := func(i2 ssa.Instruction) bool {
		if cc := pieceMethodCall(i2, "setState"); cc != nil {
			if to, ok := constInt(cc.Call.Args[2]); ok && to == stBusy {
				return true
			}
		}
		return false
	}
	allInstrs(f, func(i2 ssa.Instruction) {
		if toBusy(i2) && instrDominates(i2, sum) {
			domBusy = true
			return
		}
		// markBusy(index): a function of the package that makes the transition on every path — or, when it hands the
		// buffer back (beginFinalise → data, ok), on every path on which it hands back a buffer
		if cc, ok := i2.(*ssa.Call); ok && !cc.Call.IsInvoke() && instrDominates(i2, sum) {
			if h := cc.Call.StaticCallee(); h != nil && h.Blocks != nil && relPkg(h) == "tor/piece" && h != f {
				isRet := func(in ssa.Instruction) bool { _, ok := in.(*ssa.Return); return ok }
				if anyInstr(h, toBusy) != nil {
					if _, reached := pathsMissingAt(h.Blocks[0], 0, -1, isRet, toBusy, nil, nil); reached == 0 {
						domBusy = true
					}
					// the hashed buffer is this call's result: returns that yield a buffer come after the transition
					if ex, isEx := strip(hashed).(*ssa.Extract); isEx && ex.Tuple == ssa.Value(cc) {
						all := true
						for _, ret := range returnsOf(h) {
							res := retResults(ret)
							if ex.Index >= len(res) {
								all = false
								break
							}
							if isNilConst(res[ex.Index]) || isZeroCell(res[ex.Index], ret) {
								continue
							}
							if _, reached := pathsMissingAt(h.Blocks[0], 0, -1, func(in ssa.Instruction) bool { return in == ssa.Instruction(ret) }, toBusy, nil, nil); reached > 0 {
								all = false
							}
						}
						if all {
							domBusy = true
						}
					}
				}
			}
		}
	})
	if !domBusy {
		r.Fail(rule, key, sum.Pos(), "the piece is hashed without first being marked busy: data can be added or freed while it is hashed")
		return
	}
	// the buffer that is hashed is loaded in the same lock hold as the busy transition
	r.Ok(rule, key, cs.Pos(), "busy→complete only when sha1.Sum(Piece.data) equals the caller's hash, after the busy transition, write-locked")
}

// ---------- R4 ----------

func (c *pieceCtx) r4(rule string) {
	r := c.r
	n := 0
	check := func(in ssa.Instruction, what string) {
		n++
		f := in.Parent()
		r.Fn(f)
		key := fmt.Sprintf("%s/%s", fname(f), what)
		st := c.la.At(in)
		if st != LW {
			r.Fail(rule, key, in.Pos(), "%s in lock state {%s}, not write-locked", what, st)
			return
		}
		if ok, where := c.reval().establishedAt(in, c.factCall("busyOrComplete", false, LW), 0); !ok {
			r.Fail(rule, key, in.Pos(), "%s is not preceded, on every path %s, by the !busyOrComplete() re-check made under the write lock: data of a piece that is being hashed or is already verified can be modified (the unlocked pre-check alone does not exclude a concurrent Finalise)", what, where)
			return
		}
		r.Ok(rule, key, in.Pos(), "%s happens write-locked after the re-check, with no unlock in between", what)
	}
	for _, ld := range c.dataLoads() {
		var uses []dataUse
		usesOfBuffer(ld, &uses, map[ssa.Value]bool{})
		for _, u := range uses {
			if u.Kind == "copy-dst" {
				check(u.In, "copy into the piece buffer")
			}
		}
	}
	// bitmap.Set on Piece.bitmap
	for _, acc := range c.p.fieldAccesses(c.bitmapF) {
		fa, ok := acc.Instr.(*ssa.FieldAddr)
		if !ok {
			continue
		}
		for _, ref := range *fa.Referrers() {
			if cc, ok := ref.(*ssa.Call); ok {
				if cal := cc.Call.StaticCallee(); cal != nil && relPkg(cal) == "bitmap" && (cal.Name() == "Set" || cal.Name() == "SetMultiple") {
					check(cc, "marking a block present (bitmap.Set)")
				}
			}
		}
	}
	r.Sentinel(rule, n, 2)
}

// ---------- R5 ----------

func (c *pieceCtx) r5(rule string) {
	r := c.r
	n := 0
	for _, ld := range c.dataLoads() {
		var uses []dataUse
		usesOfBuffer(ld, &uses, map[ssa.Value]bool{})
		for _, u := range uses {
			if u.Kind != "free" {
				continue
			}
			n++
			f := u.In.Parent()
			r.Fn(f)
			key := fmt.Sprintf("%s/alloc.Free", fname(f))
			if st := c.la.At(u.In); st != LW {
				r.Fail(rule, key, u.In.Pos(), "the buffer is freed in lock state {%s}, not write-locked: a reader holding the read lock can be copying from it", st)
				continue
			}
			if ok, where := c.reval().establishedAt(u.In, c.factCall("busy", false, LW), 0); !ok {
				r.Fail(rule, key, u.In.Pos(), "alloc.Free is not preceded, on every path %s, by busy() == false tested in the same write-lock hold: the buffer can be freed (munmap) while the hasher reads it", where)
				continue
			}
			// data != nil, tested in the same lock hold: a test made before the lock was dropped says nothing
			// (Finalise may have freed the piece meanwhile)
			if ok, where := c.reval().establishedAt(u.In, c.factDataNonNil(), 0); !ok {
				r.Fail(rule, key+"/nil-test-same-hold", u.In.Pos(), "alloc.Free is not preceded, on every path %s, by a data != nil test made in the same lock hold: if the piece was freed meanwhile (Finalise on a hash mismatch) it is freed and un-counted a second time", where)
				continue
			}
			r.Ok(rule, key+"/nil-test-same-hold", u.In.Pos(), "every path from the entry or from a lock release to alloc.Free re-tests data != nil")
			// cleared before unlock/return
			exits := exitsAvoiding(u.In, func(i ssa.Instruction) bool {
				if st, ok := i.(*ssa.Store); ok {
					if fa, ok := st.Addr.(*ssa.FieldAddr); ok && fieldVar(fa) == c.data && isNilConst(st.Val) {
						return true
					}
				}
				return false
			}, false)
			unlockedFirst := false
			{
				// an unlock reachable before the nil store
				seen := map[*ssa.BasicBlock]bool{}
				var walk func(b *ssa.BasicBlock, from int)
				walk = func(b *ssa.BasicBlock, from int) {
					for i := from; i < len(b.Instrs); i++ {
						in := b.Instrs[i]
						if st, ok := in.(*ssa.Store); ok {
							if fa, ok := st.Addr.(*ssa.FieldAddr); ok && fieldVar(fa) == c.data && isNilConst(st.Val) {
								return
							}
						}
						if c.isUnlock(in) {
							unlockedFirst = true
							return
						}
						if _, isp := in.(*ssa.Panic); isp {
							return
						}
					}
					for _, s := range b.Succs {
						if !seen[s] {
							seen[s] = true
							walk(s, 0)
						}
					}
				}
				walk(u.In.Block(), instrIndex(u.In)+1)
			}
			if len(exits) > 0 || unlockedFirst {
				r.Fail(rule, key, u.In.Pos(), "after alloc.Free the data field is not set to nil before the function returns or unlocks: a dangling buffer stays reachable")
				continue
			}
			r.Ok(rule, key, u.In.Pos(), "freed write-locked, after busy()==false and data!=nil in the same lock hold, field cleared before unlock")
		}
	}
	r.Sentinel(rule, n, 1)
}

// ---------- R6 ----------

func (c *pieceCtx) r6(rule string) {
	r, p := c.r, c.p
	type gf struct {
		v    *types.Var
		name string
	}
	guarded := []gf{{c.data, "Piece.data"}, {c.bitmapF, "Piece.bitmap"}, {c.peers, "Piece.peers"}, {c.deleted, "Pieces.deleted"}, {c.count, "Pieces.count"}}
	n := 0
	for _, g := range guarded {
		for _, acc := range p.fieldAccesses(g.v) {
			if relPkg(acc.Fn) != "tor/piece" {
				continue
			}
			if fa, ok := acc.Instr.(*ssa.FieldAddr); ok {
				if al, isAl := fa.X.(*ssa.Alloc); isAl && !al.Heap {
					// a field of a local copy of the struct (Hole's p := ps.pieces[index]): the copy itself is checked below
					continue
				}
			}
			if fx, ok := acc.Instr.(*ssa.Field); ok {
				_ = fx
			}
			n++
			r.Fn(acc.Fn)
			st := c.la.At(acc.Instr)
			write := acc.Write || c.mutatingUse(acc.Instr)
			key := fmt.Sprintf("%s/%s/%s", fname(acc.Fn), g.name, map[bool]string{true: "write", false: "read"}[write])
			switch {
			case st == 0:
				r.Info(rule, key, acc.Instr.Pos(), "unreachable code")
			case write && st != LW:
				r.Fail(rule, key, acc.Instr.Pos(), "%s is written in lock state {%s}: writes need the write lock", g.name, st)
			case !write && st&LU != 0:
				r.Fail(rule, key, acc.Instr.Pos(), "%s is read in lock state {%s}: the lock is not held", g.name, st)
			default:
				r.Ok(rule, key, acc.Instr.Pos(), "lock state {%s}", st)
			}
		}
	}
	// non-atomic state readers are called locked
	for _, name := range []string{"complete", "busy", "busyOrComplete"} {
		f := p.Func("tor/piece", "Piece."+name)
		if !r.Anchor(rule, "piece.(*Piece)."+name, f != nil) {
			continue
		}
		calls, _ := p.callSitesOf(f)
		for _, cs := range calls {
			n++
			in := cs.(ssa.Instruction)
			st := c.la.At(in)
			key := fmt.Sprintf("%s/%s()", fname(cs.Parent()), name)
			if st&LU != 0 || st == 0 {
				r.Fail(rule, key, cs.Pos(), "non-atomic %s() is called in lock state {%s}: use the atomic accessor or hold the lock", name, st)
			} else {
				r.Ok(rule, key, cs.Pos(), "called in lock state {%s}", st)
			}
		}
	}
	// whole-struct loads of a Piece (copies that include data/bitmap) must be made under the lock
	for _, f := range c.la.funcs {
		allInstrs(f, func(in ssa.Instruction) {
			ld, ok := in.(*ssa.UnOp)
			if !ok || ld.Op != token.MUL {
				return
			}
			if !typeIs(ld.Type(), modPath+"/tor/piece", "Piece") {
				return
			}
			if _, isIdx := ld.X.(*ssa.IndexAddr); !isIdx {
				return
			}
			n++
			st := c.la.At(in)
			key := fmt.Sprintf("%s/copy-of-Piece", fname(f))
			if st&LU != 0 || st == 0 {
				r.Fail(rule, key, in.Pos(), "a Piece struct (with its data and bitmap) is copied in lock state {%s}", st)
			} else {
				r.Ok(rule, key, in.Pos(), "Piece copied under the lock {%s}", st)
			}
		})
	}
	// helpers that unlock temporarily return in their entry state
	if del := p.Func("tor/piece", "Pieces.del"); r.Anchor(rule, "piece.(*Pieces).del", del != nil) {
		en, ex := c.la.entry[del], c.la.exitStates(del)
		r.Check(en == LW && ex == LW, rule, "del/enter-W-return-W", del.Pos(), "del is entered write-locked at every call site and returns write-locked on every path",
			fmt.Sprintf("del is entered in {%s} and returns in {%s}: callers assume it is called and returns write-locked", en, ex))
	}
	// every exported method that locks releases on every return (defer or explicit)
	for _, f := range c.la.funcs {
		if f.Parent() != nil {
			continue
		}
		locks := false
		allInstrs(f, func(in ssa.Instruction) {
			if op, ok := c.la.lockOp(in); ok && op != LU {
				locks = true
			}
		})
		if !locks {
			continue
		}
		if en := c.la.entry[f]; en != LU {
			// a helper that is entered with the lock held (del, or a waiting loop extracted from it) and drops it
			// temporarily: it must hand the lock back in the state it was entered in, on every return
			n++
			key := fmt.Sprintf("%s/returns-in-entry-state", fname(f))
			ex := c.la.exitAfterDefers(f)
			if en == LW && ex == LW || en == LR && ex == LR {
				r.Ok(rule, key, f.Pos(), "entered in {%s} at every call site, returns in {%s} on every path", en, ex)
			} else {
				r.Fail(rule, key, f.Pos(), "%s is entered in lock state {%s} and returns in {%s}: callers continue as if the lock were held as before the call", fname(f), en, ex)
			}
			continue
		}
		n++
		var defers []*ssa.Defer
		allInstrs(f, func(in ssa.Instruction) {
			if d, ok := in.(*ssa.Defer); ok {
				if sc := d.Call.StaticCallee(); sc != nil && sc.Pkg != nil && sc.Pkg.Pkg.Path() == "sync" && (sc.Name() == "Unlock" || sc.Name() == "RUnlock") {
					defers = append(defers, d)
				}
			}
		})
		key := fmt.Sprintf("%s/unlock-on-exit", fname(f))
		bad := ""
		for _, ret := range returnsOf(f) {
			covered := false
			for _, d := range defers {
				if instrDominates(d, ret) {
					covered = true
				}
			}
			st := c.la.At(ret)
			if covered && st&LU != 0 {
				bad = fmt.Sprintf("return at %s is reached in state {%s} with a deferred unlock pending (double unlock)", p.pos(ret.Pos()), st)
			}
			if !covered && st != LU {
				bad = fmt.Sprintf("return at %s is reached in state {%s} without a deferred unlock (lock leaked)", p.pos(ret.Pos()), st)
			}
		}
		if bad == "" {
			r.Ok(rule, key, f.Pos(), "every return leaves the mutex unlocked (deferred or explicit)")
		} else {
			r.Fail(rule, key, f.Pos(), "%s", bad)
		}
	}
	r.Sentinel(rule, n, 40)
}

// mutatingUse: the field address is passed as the receiver of a pointer method that mutates (bitmap Set/Reset/…), or to append-store.
func (c *pieceCtx) mutatingUse(in ssa.Instruction) bool {
	fa, ok := in.(*ssa.FieldAddr)
	if !ok {
		return false
	}
	for _, ref := range *fa.Referrers() {
		if cc, ok := ref.(*ssa.Call); ok {
			if cal := cc.Call.StaticCallee(); cal != nil && len(cc.Call.Args) > 0 && cc.Call.Args[0] == ssa.Value(fa) {
				switch cal.Name() {
				case "Set", "Reset", "SetMultiple", "Extend":
					return true
				}
			}
		}
	}
	return false
}

// ---------- R7 ----------

func (c *pieceCtx) r7(rule string) {
	r, p := c.r, c.p
	readAt := p.Func("tor/piece", "Pieces.ReadAt")
	if !r.Anchor(rule, "piece.(*Pieces).ReadAt", readAt != nil) {
		return
	}
	calls, esc := p.callSitesOf(readAt)
	for _, e := range esc {
		r.Fail(rule, "ReadAt-escapes", e.Pos(), "ReadAt is used as a function value: its consumers cannot be enumerated")
	}
	n := 0
	for _, cs := range calls {
		f := cs.Parent()
		call, ok := cs.(*ssa.Call)
		if !ok {
			continue
		}
		n++
		r.Fn(f)
		buf := call.Call.Args[1]
		cnt := extractOf(call, 0)
		switch relPkg(f) {
		case "peer":
			// judged at the sinks below (every protocol.Piece built in package peer)
			_, _ = buf, cnt
		case "tor":
			// Reader.Read: the returned count and the position increment are ReadAt's count
			key := fmt.Sprintf("%s/returns-ReadAt-count", fname(f))
			okRet := true
			for _, ret := range returnsOf(f) {
				if !instrReaches(call, ret) {
					continue
				}
				if !sumsOnlyOf(ret.Results[0], func(v ssa.Value) bool {
					ex, ok := v.(*ssa.Extract)
					if ok && ex.Index == 0 {
						if cc, ok := ex.Tuple.(*ssa.Call); ok && cc.Call.StaticCallee() == readAt {
							return true
						}
					}
					c0, isc := constInt(v)
					return isc && c0 == 0
				}) {
					okRet = false
				}
			}
			r.Check(okRet, rule, key, cs.Pos(), "the reader reports exactly the count ReadAt produced", "the reader can report a byte count that ReadAt did not produce")
		default:
			r.Fail(rule, "unexpected-consumer/"+fname(f), cs.Pos(), "ReadAt is called from %s: a new consumer of piece bytes the rule table does not know", fname(f))
		}
	}
	// sinks: every protocol.Piece message built in package peer carries a buffer that ReadAt filled completely.
	// The buffer may be read in the same function (guarded by count == requested length) or come back from a
	// package-local helper every non-nil return of which satisfies the same condition (readBlock).
	nSink := 0
	for _, f := range p.SrcFuncs() {
		if relPkg(f) != "peer" {
			continue
		}
		allInstrs(f, func(in ssa.Instruction) {
			mi, ok := in.(*ssa.MakeInterface)
			if !ok {
				return
			}
			sl := litOf(mi)
			if sl == nil || sl.Type != "protocol.Piece" {
				return
			}
			nSink++
			r.Fn(f)
			key := fmt.Sprintf("%s/Piece{Data}-after-full-read", fname(f))
			data := sl.Fields["Data"]
			if data == nil {
				r.Ok(rule, key, in.Pos(), "a Piece without data")
				return
			}
			ok2, why := c.fullyReadAt(data, in, readAt, 0)
			if ok2 {
				r.Ok(rule, key, in.Pos(), "data is sent only when ReadAt filled the whole requested length (verified bytes only)")
			} else {
				r.Fail(rule, key, in.Pos(), "%s", why)
			}
		})
	}
	r.Sentinel(rule+".sinks", nSink, 1)
	// ... at the offset it occupies: the upload path computes the byte offset in 64-bit arithmetic
	uploadOffset64(r, rule)
	pieceSizeProducts64(r, rule)
	offsetsNotNarrowed(r, rule)
	r.Sentinel(rule, n, 3)
}

// fullyReadAt: at instruction `at`, v is nil or a buffer that Pieces.ReadAt filled completely.
func (c *pieceCtx) fullyReadAt(v ssa.Value, at ssa.Instruction, readAt *ssa.Function, depth int) (bool, string) {
	if depth > 4 {
		return false, "the origin of the uploaded buffer is too indirect to analyse"
	}
	if isNilConst(v) {
		return true, ""
	}
	f := at.Parent()
	short := "the Piece message is not dominated by `count returned by ReadAt == requested length`: a short read (incomplete/evicted piece, range past the piece) would be answered with stale or zero bytes"
	switch x := v.(type) {
	case *ssa.Phi:
		for _, e := range x.Edges {
			if ok, why := c.fullyReadAt(e, at, readAt, depth+1); !ok {
				return false, why
			}
		}
		return true, ""
	case *ssa.Extract:
		if call, ok := x.Tuple.(*ssa.Call); ok {
			if h := call.Call.StaticCallee(); h != nil && h.Blocks != nil && relPkg(h) == relPkg(f) && !call.Call.IsInvoke() {
				for _, ret := range returnsOf(h) {
					res := retResults(ret)
					if x.Index >= len(res) {
						return false, short
					}
					if ok, why := c.fullyReadAt(res[x.Index], ret, readAt, depth+1); !ok {
						return false, why
					}
				}
				return true, ""
			}
		}
	}
	// a buffer handed to ReadAt in this function
	var call *ssa.Call
	allInstrs(f, func(in ssa.Instruction) {
		if cc, ok := in.(*ssa.Call); ok && cc.Call.StaticCallee() == readAt && len(cc.Call.Args) > 1 && cc.Call.Args[1] == v {
			call = cc
		}
	})
	if call == nil {
		return false, "the uploaded Piece carries a buffer other than one filled by Pieces.ReadAt"
	}
	if !instrDominates(call, at) {
		return false, "the uploaded buffer is not filled by ReadAt on every path"
	}
	cnt := extractOf(call, 0)
	var want ssa.Value
	if gb, ok := v.(*ssa.Call); ok && len(gb.Call.Args) == 1 {
		want = gb.Call.Args[0]
	}
	tt := &Taint{stores: map[*ssa.Function]map[*types.Var]bool{}}
	for _, g := range guardsOf(at.Block()) {
		g = g.norm()
		bo, ok := g.Cond.(*ssa.BinOp)
		if !ok || cnt == nil {
			continue
		}
		eq := (bo.Op == token.EQL && g.Pol) || (bo.Op == token.NEQ && !g.Pol)
		if !eq {
			continue
		}
		var other ssa.Value
		if bo.X == cnt {
			other = bo.Y
		} else if bo.Y == cnt {
			other = bo.X
		} else {
			continue
		}
		if want != nil && (other == want || tt.sameLoadVal(other, want)) {
			return true, ""
		}
		if isLenOf(other, v) {
			return true, ""
		}
	}
	return false, short
}

func instrReaches(a, b ssa.Instruction) bool {
	if a.Block() == b.Block() {
		return instrIndex(a) < instrIndex(b)
	}
	return reachableFromSuccs(a.Block())[b.Block()]
}

// derivesOnlyFrom: v is (a phi of) values all satisfying leaf.
func derivesOnlyFrom(v ssa.Value, leaf func(ssa.Value) bool) bool {
	seen := map[ssa.Value]bool{}
	var rec func(v ssa.Value) bool
	rec = func(v ssa.Value) bool {
		if seen[v] {
			return true
		}
		seen[v] = true
		if leaf(v) {
			return true
		}
		if ph, ok := v.(*ssa.Phi); ok {
			for _, e := range ph.Edges {
				if !rec(e) {
					return false
				}
			}
			return true
		}
		return false
	}
	return rec(v)
}

// sumsOnlyOf: v is built only from values satisfying leaf by phis, integer conversions, additions, cells of named
// results, and results of functions of the module that are themselves so built (a count accumulated over several
// reads: n += r.readMore(a[n:], …)).
func sumsOnlyOf(v ssa.Value, leaf func(ssa.Value) bool) bool {
	seen := map[ssa.Value]bool{}
	var rec func(v ssa.Value, d int) bool
	rec = func(v ssa.Value, d int) bool {
		if v == nil || d > 12 {
			return false
		}
		if seen[v] {
			return true
		}
		seen[v] = true
		if leaf(v) {
			return true
		}
		switch x := v.(type) {
		case *ssa.Phi:
			for _, e := range x.Edges {
				if !rec(e, d+1) {
					return false
				}
			}
			return true
		case *ssa.Convert:
			return isInteger(x.Type()) && rec(x.X, d+1)
		case *ssa.ChangeType:
			return rec(x.X, d+1)
		case *ssa.BinOp:
			return x.Op == token.ADD && rec(x.X, d+1) && rec(x.Y, d+1)
		case *ssa.UnOp:
			if al, ok := x.X.(*ssa.Alloc); ok && x.Op == token.MUL {
				n := 0
				for _, ref := range *al.Referrers() {
					if st, ok := ref.(*ssa.Store); ok && st.Addr == ssa.Value(al) {
						n++
						if !rec(st.Val, d+1) {
							return false
						}
					}
				}
				return n > 0
			}
		case *ssa.Call, *ssa.Extract:
			var call *ssa.Call
			idx := 0
			if c, ok := x.(*ssa.Call); ok {
				call = c
			} else if ex := x.(*ssa.Extract); true {
				call, _ = ex.Tuple.(*ssa.Call)
				idx = ex.Index
			}
			if call == nil || call.Call.IsInvoke() {
				return false
			}
			h := call.Call.StaticCallee()
			if h == nil || h.Blocks == nil || !strings.HasPrefix(funcPkgPath(h), modPath) {
				return false
			}
			for _, ret := range returnsOf(h) {
				res := retResults(ret)
				if idx >= len(res) || !rec(res[idx], d+1) {
					return false
				}
			}
			return true
		}
		return false
	}
	return rec(v, 0)
}

// ---------- R8 ----------

func (c *pieceCtx) r8(rule string) {
	r, p := c.r, c.p
	add := p.Func("tor/piece", "Pieces.AddData")
	if !r.Anchor(rule, "piece.(*Pieces).AddData", add != nil) {
		return
	}
	r.Fn(add)
	// the copy into the piece buffer: in AddData or in a private helper of it (storeChunk)
	var cp *ssa.Call
	for _, ld := range c.dataLoads() {
		var uses []dataUse
		usesOfBuffer(ld, &uses, map[ssa.Value]bool{})
		for _, u := range uses {
			if u.Kind == "copy-dst" && (u.In.Parent() == add || p.inUnitOf(u.In.Parent(), add)) {
				cp = u.In.(*ssa.Call)
			}
		}
	}
	if cp == nil {
		r.Undecided(rule, "AddData/copy", add.Pos(), "no copy into the piece buffer found in AddData")
		return
	}
	cf := cp.Parent()
	r.Fn(cf)
	// site: the instruction of AddData that performs the copy (the copy itself, or the call of the helper that does)
	var site ssa.Instruction = cp
	if cf != add {
		site = nil
		allInstrs(add, func(in ssa.Instruction) {
			if calleeOf(in) == cf {
				site = in
			}
		})
		if site == nil {
			r.Undecided(rule, "AddData/copy", add.Pos(), "the copy sits in %s, which AddData does not call directly", fname(cf))
			return
		}
	}
	begin := add.Params[2]
	chunk, _ := chunkSizeConst(p)
	// the piece length the offset is compared with: PieceLength(index), possibly held in a local
	var plVal ssa.Value
	allInstrs(add, func(in ssa.Instruction) {
		if cc, ok := in.(*ssa.Call); ok && isCallNamed(cc, "tor/piece", "PieceLength") {
			plVal = cc
		}
	})
	isPL := func(sj []ssa.Value, v ssa.Value) bool {
		v = strip(v)
		if cc, ok := v.(*ssa.Call); ok && isCallNamed(cc, "tor/piece", "PieceLength") {
			return true
		}
		return sj[1] != nil && v == sj[1]
	}
	reqs := []edgeReq{
		{Name: "begin % ChunkSize == 0", ViaHelper: true, Subj: []ssa.Value{begin, plVal}, MatchS: func(sj []ssa.Value, cond ssa.Value, pol bool) bool {
			op, x, y, ok := cmpFact(Guard{Cond: cond, Pol: pol})
			if !ok || op != token.EQL || sj[0] == nil {
				return false
			}
			rem, okr := x.(*ssa.BinOp)
			z, okz := constInt(y)
			if !(okz && z == 0 && okr && rem.Op == token.REM && stripIntConv(rem.X) == sj[0]) {
				return false
			}
			k, okk := constInt(rem.Y)
			return okk && k == chunk
		}},
		{Name: "begin < PieceLength(index)", ViaHelper: true, Subj: []ssa.Value{begin, plVal}, MatchS: func(sj []ssa.Value, cond ssa.Value, pol bool) bool {
			op, x, y, ok := cmpFact(Guard{Cond: cond, Pol: pol})
			if !ok || sj[0] == nil {
				return false
			}
			return (op == token.LSS && stripIntConv(x) == sj[0] && isPL(sj, y)) || (op == token.GTR && stripIntConv(y) == sj[0] && isPL(sj, x))
		}},
	}
	miss, reached := pathsMissingEntry(add, func(in ssa.Instruction) bool { return in == site }, nil, reqs)
	missing := map[string]bool{}
	for _, m := range miss {
		missing[m] = true
	}
	if reached == 0 {
		r.Undecided(rule, "AddData/copy-reachable", cp.Pos(), "the copy is not reachable from the entry of AddData")
	}
	r.Check(!missing[reqs[0].Name], rule, "AddData/begin-aligned", cp.Pos(), "every path to the copy tests begin %% ChunkSize == 0", "the copy into the piece buffer is not preceded on every path by the block-alignment check on begin")
	r.Check(!missing[reqs[1].Name], rule, "AddData/begin<PieceLength", cp.Pos(), "every path to the copy tests begin < PieceLength(index)", "the copy into the piece buffer is not preceded on every path by begin < PieceLength(index)")
	// not already present: !bitmap.Get(c) on the same c that is Set afterwards (in the function that copies)
	var getCall *ssa.Call
	for _, g := range guardsOf(cp.Block()) {
		g = g.norm()
		if cc, ok := g.Cond.(*ssa.Call); ok && !g.Pol {
			if cal := cc.Call.StaticCallee(); cal != nil && cal.Name() == "Get" && relPkg(cal) == "bitmap" {
				if fv, _ := loadedField(cc.Call.Args[0]); fv == c.bitmapF {
					getCall = cc
				}
			}
		}
	}
	if getCall == nil {
		r.Fail(rule, "AddData/no-overwrite", cp.Pos(), "the copy is not dominated by !bitmap.Get(block): a block already present could be overwritten")
	} else {
		same := false
		allInstrs(cf, func(in ssa.Instruction) {
			if cc, ok := in.(*ssa.Call); ok {
				if cal := cc.Call.StaticCallee(); cal != nil && cal.Name() == "Set" && relPkg(cal) == "bitmap" && cc.Block() == cp.Block() {
					if cc.Call.Args[1] == getCall.Call.Args[1] {
						same = true
					}
				}
			}
		})
		r.Check(same, rule, "AddData/no-overwrite", cp.Pos(), "a block is copied only when absent and the same block number is marked present", "the block number tested with Get is not the one marked with Set after the copy")
		// … and the bytes land in that block: the destination starts at the very offset whose block number is marked
		// (several blocks per call — a web-seed body read — advance a running offset; the call's own begin is only
		// the first of them)
		stripAll := func(v ssa.Value) ssa.Value {
			for {
				cv, ok := v.(*ssa.Convert)
				if !ok || !isInteger(cv.Type()) || !isInteger(cv.X.Type()) {
					return v
				}
				v = cv.X
			}
		}
		if dst, okd := cp.Call.Args[0].(*ssa.Slice); okd && dst.Low != nil {
			if kq, okq := stripAll(getCall.Call.Args[1]).(*ssa.BinOp); okq && kq.Op == token.QUO {
				if kc, okc := constInt(kq.Y); okc && kc == chunk {
					r.Check(stripAll(kq.X) == stripAll(dst.Low), rule, "AddData/copy-lands-in-marked-block", cp.Pos(), "the destination offset is the one whose block number is marked present",
						"the copy's destination offset ("+exprStr(dst.Low)+") is not the offset whose block ("+exprStr(kq)+") is tested and marked present: when a call carries several blocks every block after the first is written over the first one's place while the right bits are set — the piece then fails its hash, or worse, wrong bytes sit under bits that say they are present")
				}
			}
		}
	}
	// the source of each copy is a slice data[count : count+l] of the incoming data (its bounds are C05.R2's sinks)
	// with l clamped to the block size: l = min(PieceLength-offset, ChunkSize) in one of its spellings
	var src ssa.Value = cp.Call.Args[1]
	if cf != add {
		// the helper's parameter: what AddData passes for it
		for k, prm := range cf.Params {
			if ssa.Value(prm) == src {
				if ci, ok := site.(ssa.CallInstruction); ok && k < len(ci.Common().Args) {
					src = ci.Common().Args[k]
				}
			}
		}
	}
	if sl, ok := src.(*ssa.Slice); ok && sl.High != nil {
		hb, isAdd := sl.High.(*ssa.BinOp)
		okClamp := false
		if isAdd && hb.Op == token.ADD {
			for _, cand := range []ssa.Value{hb.X, hb.Y} {
				if iv := (&IntEnv{}).At(cand, sl.Block()); iv.Hi <= chunk {
					okClamp = true
				}
				if ph, ok := cand.(*ssa.Phi); ok {
					hasCS := false
					for _, e := range ph.Edges {
						if k, okk := constInt(e); okk && k == chunk {
							hasCS = true
						}
					}
					okClamp = okClamp || hasCS
				}
				if cc, ok := cand.(*ssa.Call); ok {
					if bi, ok := cc.Call.Value.(*ssa.Builtin); ok && bi.Name() == "min" {
						okClamp = true
					}
				}
			}
		}
		r.Check(okClamp, rule, "AddData/block-clamp", cp.Pos(), "each copy is clamped to at most one block", "the per-block length is no longer clamped to min(PieceLength-offset, ChunkSize)")
	} else {
		r.Info(rule, "AddData/block-clamp", cp.Pos(), "the source of the copy is not a slice expression the clamp rule recognises; its bounds are judged by C05.R2")
	}
}

// ---------- R9 ----------

func (c *pieceCtx) r9(rule string) {
	r, p := c.r, c.p
	fp := p.Func("tor", "finalisePiece")
	fin := p.Func("tor/piece", "Pieces.Finalise")
	hashes := p.Field("tor", "Torrent", "PieceHashes")
	if !r.Anchor(rule, "tor.finalisePiece", fp != nil) || !r.Anchor(rule, "piece.(*Pieces).Finalise", fin != nil) || !r.Anchor(rule, "tor.Torrent.PieceHashes", hashes != nil) {
		return
	}
	r.Fn(fp)
	calls, _ := p.callSitesOf(fin)
	n := 0
	for _, cs := range calls {
		n++
		f := cs.Parent()
		r.Fn(f)
		key := fmt.Sprintf("%s/Finalise(index,hash[index])", fname(f))
		args := cs.Common().Args // ps, index, h
		idx, h := args[1], args[2]
		// resolve through a go-closure's parameters to the actual arguments
		resolve := func(v ssa.Value) ssa.Value {
			if pa, ok := v.(*ssa.Parameter); ok && f.Parent() != nil {
				// find the go/call instruction in the parent that invokes f
				var out ssa.Value
				allInstrs(f.Parent(), func(in ssa.Instruction) {
					ci, ok := in.(ssa.CallInstruction)
					if !ok {
						return
					}
					var fn *ssa.Function
					switch x := ci.Common().Value.(type) {
					case *ssa.MakeClosure:
						fn, _ = x.Fn.(*ssa.Function)
					case *ssa.Function:
						fn = x
					}
					if fn != f {
						return
					}
					for i, q := range f.Params {
						if q == pa && i < len(ci.Common().Args) {
							out = ci.Common().Args[i]
						}
					}
				})
				if out != nil {
					return out
				}
			}
			// go verifyPiece(t, index, t.PieceHashes[index]): a named function with one call site
			if pa, ok := v.(*ssa.Parameter); ok && f.Parent() == nil {
				if sites, esc := p.callSitesOf(f); len(esc) == 0 && len(sites) == 1 {
					for i, q := range f.Params {
						if q == pa && i < len(sites[0].Common().Args) {
							return sites[0].Common().Args[i]
						}
					}
				}
			}
			return v
		}
		idxA, hA := resolve(idx), resolve(h)
		// hA = load of &t.PieceHashes[idxA]
		okk := false
		var ia *ssa.IndexAddr
		if ld, ok := hA.(*ssa.UnOp); ok && ld.Op == token.MUL {
			ia, _ = ld.X.(*ssa.IndexAddr)
		}
		if ia != nil {
			if fv, _ := loadedField(ia.X); fv == hashes && ia.Index == idxA {
				okk = true
			}
		}
		if !okk {
			r.Fail(rule, key, cs.Pos(), "the hash passed to Finalise is not PieceHashes[index] for the same index that is finalised: a piece would be verified against another piece's hash")
			continue
		}
		// guarded by index < len(PieceHashes)
		guarded := hasGuard(ia.Block(), func(op token.Token, x, y ssa.Value) bool {
			if op != token.LSS || x != idxA {
				return false
			}
			cv, ok := strip(y).(*ssa.Call)
			if !ok {
				return false
			}
			bi, ok := cv.Call.Value.(*ssa.Builtin)
			if !ok || bi.Name() != "len" {
				return false
			}
			fv, _ := loadedField(cv.Call.Args[0])
			return fv == hashes
		})
		r.Check(guarded, rule, key, cs.Pos(), "Finalise(index, PieceHashes[index]) with index < len(PieceHashes)", "PieceHashes[index] is not guarded by index < len(PieceHashes)")
	}
	r.Sentinel(rule, n, 1)
}

func runC01(r *Report) {
	c := newPieceCtx(r, "R1")
	if !c.ok {
		return
	}
	c.r1("R1")
	c.r2("R2")
	c.r3("R3")
	atomicWrites(r, "R3", objNamed("tor/piece", "state"), 1)
	c.r4("R4")
	c.r5("R5")
	c.r6("R6")
	c.r7("R7")
	c.r8("R8")
	// the block handed to AddData is not recycled before it has been copied (shared with C16.R6)
	bufferUseAfterGiveBack(r, "R8")
	c.r9("R9")
	// the FUSE consumer: a Reader is stateful (Seek then Read), the kernel sends reads for one handle in parallel, and
	// the handle's semaphore is the only thing that keeps the reply for offset X carrying the bytes of offset X
	c02R5(r.sub("R7"))
	r.Notes = append(r.Notes, fmt.Sprintf("lockset: %d lock operations on Pieces.mu seen over %d functions", c.la.nLockOps, len(c.la.funcs)))
}

// helperResultField: v is a result of a private function of package tor/piece; every return yields, at that index,
// nil or a load of one and the same struct field: that field.
func helperResultField(v ssa.Value) *types.Var {
	var call *ssa.Call
	idx := 0
	switch x := strip(v).(type) {
	case *ssa.Extract:
		call, _ = x.Tuple.(*ssa.Call)
		idx = x.Index
	case *ssa.Call:
		call = x
	}
	if call == nil || call.Call.IsInvoke() {
		return nil
	}
	h := call.Call.StaticCallee()
	if h == nil || h.Blocks == nil || relPkg(h) != "tor/piece" {
		return nil
	}
	var out *types.Var
	for _, ret := range returnsOf(h) {
		res := retResults(ret)
		if idx >= len(res) {
			return nil
		}
		vals := []ssa.Value{res[idx]}
		// a named result kept in a cell: the values stored into it
		if ld, ok := res[idx].(*ssa.UnOp); ok && ld.Op == token.MUL {
			if al, isAl := ld.X.(*ssa.Alloc); isAl {
				vals = nil
				for _, ref := range *al.Referrers() {
					if st, isSt := ref.(*ssa.Store); isSt && st.Addr == ssa.Value(al) {
						vals = append(vals, st.Val)
					}
				}
			}
		}
		for _, rv := range vals {
			if isNilConst(rv) {
				continue
			}
			fv, _ := loadedField(rv)
			if fv == nil || (out != nil && fv != out) {
				return nil
			}
			out = fv
		}
	}
	return out
}

// isZeroCell: v is a load, at ret, of a named result cell into which nothing was stored on the way.
func isZeroCell(v ssa.Value, ret *ssa.Return) bool {
	ld, ok := v.(*ssa.UnOp)
	if !ok || ld.Op != token.MUL {
		return false
	}
	al, ok := ld.X.(*ssa.Alloc)
	if !ok {
		return false
	}
	for _, ref := range *al.Referrers() {
		if st, isSt := ref.(*ssa.Store); isSt && st.Addr == ssa.Value(al) && (instrDominates(st, ret) || instrReaches(st, ret)) {
			return false
		}
	}
	return true
}
