package main

import (
	"encoding/json"
	"fmt"
	"os"
	"os/exec"
	"path/filepath"
	"sort"
	"strings"
	"sync"
)

// Self-test of the checker (thorough tier): every recorded breaking edit for the property
// (own single-edit variants under variants/, independently seeded changes under seeded/) is applied
// to a scratch copy of /repo's CURRENT working tree, outside /repo and /verif, and the property's
// rules are re-run on the copy in a child process: they must fire. Behaviour-preserving edits
// (variants-benign/, benign/) must stay silent. The copy is removed straight afterwards.
//
// The self-test validates the checker, not the repository: a patch that no longer applies is
// "stale", a miss is printed as SELFTEST-MISS and recorded in the evidence, and neither changes
// the exit status. Nothing is executed from the copy; it is only loaded and type-checked.

type selfCase struct {
	Name   string `json:"name"`
	Kind   string `json:"kind"` // breaking | benign
	Result string `json:"result"`
	First  string `json:"first_report,omitempty"`
}

type selfOut struct {
	Bad   []Obl
	Err   string
	Total int
}

func selfTestCases(verif, prop string) (breaking, benign []string) {
	glob := func(pat string) []string {
		m, _ := filepath.Glob(filepath.Join(verif, pat))
		sort.Strings(m)
		return m
	}
	breaking = append(breaking, glob("variants/"+prop+"-*.diff")...)
	breaking = append(breaking, glob("seeded/"+prop+"-*/patch.diff")...)
	benign = append(benign, glob("variants-benign/"+prop+"-*.diff")...)
	benign = append(benign, glob("benign/"+prop+"-*/patch.diff")...)
	return
}

func caseName(verif, p string) string {
	rel, err := filepath.Rel(verif, p)
	if err != nil {
		rel = p
	}
	return strings.TrimSuffix(strings.TrimSuffix(rel, "/patch.diff"), ".diff")
}

func runSelfTest(verif, prop string) (cases []selfCase, notes []string) {
	breaking, benign := selfTestCases(verif, prop)
	exe, _ := os.Executable()
	type job struct {
		path string
		kind string
	}
	var jobs []job
	for _, p := range breaking {
		jobs = append(jobs, job{p, "breaking"})
	}
	for _, p := range benign {
		jobs = append(jobs, job{p, "benign"})
	}
	out := make([]selfCase, len(jobs))
	sem := make(chan struct{}, 6)
	var wg sync.WaitGroup
	for i, j := range jobs {
		wg.Add(1)
		go func(i int, j job) {
			defer wg.Done()
			sem <- struct{}{}
			defer func() { <-sem }()
			c := selfCase{Name: caseName(verif, j.path), Kind: j.kind}
			defer func() { out[i] = c }()
			tmp, err := os.MkdirTemp("", "storself.")
			if err != nil {
				c.Result = "error: " + err.Error()
				return
			}
			defer os.RemoveAll(tmp)
			if b, err := exec.Command("rsync", "-a", "--exclude", ".git", repoDir+"/", tmp+"/repo/").CombinedOutput(); err != nil {
				c.Result = "error: copy: " + strings.TrimSpace(string(b))
				return
			}
			pc := exec.Command("patch", "-p1", "-s", "--no-backup-if-mismatch", "-i", j.path)
			pc.Dir = tmp + "/repo"
			if err := pc.Run(); err != nil {
				c.Result = "stale (patch does not apply to the current tree)"
				return
			}
			cmd := exec.Command(exe, "-prop", prop, "-repo", tmp+"/repo", "-verif", verif, "-child-selftest")
			b, _ := cmd.Output()
			var so selfOut
			if err := json.Unmarshal(b, &so); err != nil {
				c.Result = "error: child: " + err.Error()
				return
			}
			if so.Err != "" {
				if strings.Contains(so.Err, "package errors") {
					c.Result = "stale (does not type-check on the current tree)"
				} else {
					c.Result = "error: " + so.Err
				}
				return
			}
			if len(so.Bad) > 0 {
				c.First = so.Bad[0].Key
				if j.kind == "breaking" {
					c.Result = "detected"
				} else {
					c.Result = "FALSE-ALARM"
				}
			} else {
				if j.kind == "breaking" {
					c.Result = "MISSED"
				} else {
					c.Result = "silent"
				}
			}
		}(i, j)
	}
	wg.Wait()
	for _, c := range out {
		switch c.Result {
		case "MISSED":
			fmt.Printf("SELFTEST-MISS: property=%s %s: the recorded breaking edit is not reported (see DESIGN.md: not decided)\n", prop, c.Name)
		case "FALSE-ALARM":
			fmt.Printf("SELFTEST-FALSE-ALARM: property=%s %s: a behaviour-preserving edit is reported (%s)\n", prop, c.Name, c.First)
		}
		if strings.HasPrefix(c.Result, "error") {
			notes = append(notes, "self-test "+c.Name+": "+c.Result)
		}
	}
	return out, notes
}

// childSelfTest runs one property on the given tree and prints the failing obligations as JSON.
func childSelfTest(spec *PropSpec) {
	var so selfOut
	rep, err := runVariant(spec, variants[0])
	if err != nil {
		so.Err = err.Error()
	} else {
		so.Total = len(rep.Obls)
		for _, o := range rep.Obls {
			if o.Status == "violated" || o.Status == "undecided" {
				so.Bad = append(so.Bad, o)
			}
		}
	}
	json.NewEncoder(os.Stdout).Encode(so)
}
