package main

// Channel-operation inventory and classification (used by C17, C02, C10).

import (
	"go/token"
	"go/types"

	"golang.org/x/tools/go/ssa"
)

type chanOpKind int

const (
	opSend chanOpKind = iota
	opRecv
	opSelect
	opRange // `for range ch` lowers to a receive via ssa.Next? (channels: UnOp ARROW with CommaOk)
)

type chanOp struct {
	Fn       *ssa.Function
	Instr    ssa.Instruction
	Kind     chanOpKind
	Blocking bool
	// for select: the states; for send/recv: one pseudo-state
	States []*ssa.SelectState
}

// chanOpsIn lists every channel send/receive/select instruction of fn.
func chanOpsIn(fn *ssa.Function) []chanOp {
	var out []chanOp
	allInstrs(fn, func(in ssa.Instruction) {
		switch x := in.(type) {
		case *ssa.Send:
			out = append(out, chanOp{Fn: fn, Instr: in, Kind: opSend, Blocking: true,
				States: []*ssa.SelectState{{Dir: types.SendOnly, Chan: x.Chan, Send: x.X, Pos: x.Pos()}}})
		case *ssa.UnOp:
			if x.Op == token.ARROW {
				out = append(out, chanOp{Fn: fn, Instr: in, Kind: opRecv, Blocking: true,
					States: []*ssa.SelectState{{Dir: types.RecvOnly, Chan: x.X, Pos: x.Pos()}}})
			}
		case *ssa.Select:
			out = append(out, chanOp{Fn: fn, Instr: in, Kind: opSelect, Blocking: x.Blocking, States: x.States})
		}
	})
	return out
}

// chanSource describes where a channel value comes from.
type chanSource struct {
	Field   *types.Var // loaded from this struct field
	Base    ssa.Value  // the struct pointer it was loaded from
	CtxDone bool       // result of (context.Context).Done()
	Timer   bool       // time.Timer.C / time.Ticker.C / time.After
	Param   *ssa.Parameter
	Free    *ssa.FreeVar
	Make    *ssa.MakeChan
	Nilable bool // phi with nil: select case that may be disabled
	Other   ssa.Value
}

func chanSourceOf(v ssa.Value) chanSource {
	return chanSourceD(v, 0)
}

func chanSourceD(v ssa.Value, d int) chanSource {
	if d > 6 {
		return chanSource{Other: v}
	}
	switch x := v.(type) {
	case *ssa.ChangeType:
		return chanSourceD(x.X, d+1)
	case *ssa.Convert:
		return chanSourceD(x.X, d+1)
	case *ssa.UnOp:
		if x.Op == token.MUL {
			if fa, ok := x.X.(*ssa.FieldAddr); ok {
				fv := fieldVar(fa)
				cs := chanSource{Field: fv, Base: fa.X}
				if fv != nil && fv.Pkg() != nil && fv.Pkg().Path() == "time" && fv.Name() == "C" {
					cs.Timer = true
				}
				return cs
			}
			// load of a local (captured / address-taken variable): look for its single store
			if al, ok := x.X.(*ssa.Alloc); ok {
				var stored ssa.Value
				n := 0
				for _, r := range *al.Referrers() {
					if st, ok := r.(*ssa.Store); ok && st.Addr == ssa.Value(al) {
						stored = st.Val
						n++
					}
				}
				if n == 1 {
					return chanSourceD(stored, d+1)
				}
			}
			if fv, ok := x.X.(*ssa.FreeVar); ok {
				return chanSource{Free: fv}
			}
		}
	case *ssa.Field:
		return chanSource{Field: fieldVar(x), Base: x.X}
	case *ssa.Call:
		if x.Call.IsInvoke() && x.Call.Method.Name() == "Done" && typeIs(x.Call.Value.Type(), "context", "Context") {
			return chanSource{CtxDone: true}
		}
		if isStdCall(x, "time", "", "After") {
			return chanSource{Timer: true}
		}
	case *ssa.Parameter:
		return chanSource{Param: x}
	case *ssa.FreeVar:
		return chanSource{Free: x}
	case *ssa.MakeChan:
		return chanSource{Make: x}
	case *ssa.Phi:
		// `var ch chan T; if cond { ch = x.f }` — nil disables the case
		var non []ssa.Value
		hasNil := false
		for _, e := range x.Edges {
			if isNilConst(e) {
				hasNil = true
			} else {
				non = append(non, e)
			}
		}
		if len(non) == 1 {
			cs := chanSourceD(non[0], d+1)
			cs.Nilable = hasNil
			return cs
		}
	}
	return chanSource{Other: v}
}

func isDoneLikeType(t types.Type) bool {
	ch, ok := t.Underlying().(*types.Chan)
	if !ok {
		return false
	}
	st, ok := ch.Elem().Underlying().(*types.Struct)
	return ok && st.NumFields() == 0
}

func chanCap(mc *ssa.MakeChan) int64 {
	if c, ok := constInt(mc.Size); ok {
		return c
	}
	return -1
}
