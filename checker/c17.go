package main

import (
	"fmt"
	"go/token"
	"go/types"
	"sort"
	"strings"

	"golang.org/x/tools/go/ssa"
)

func init() {
	register(&PropSpec{
		ID: "C17",
		Explanation: "Static decision of the structural conditions for 'no call hangs, deletion is complete' in packages tor, peer and protocol: " +
			"(R1) every blocking channel operation is a select that also waits on the owner's lifetime channel (Torrent.Done / Peer.Done / Deleted / context / the peer's torDone, writerDone), matched to the same receiver object, or is a loop-side reply on an event's Ch that an R1-conformant client is still waiting for; bare sends/receives are violations; reply waits may only be abandoned through the owner's lifetime channel (otherwise the loop would block on its reply); " +
			"(R2) every goroutine body that closes a lifetime channel does so in a defer registered before its first return; peer.Run's exit defer also clears requests, retracts the bitmap and sends TorPeerGoaway, and the connection-closing defer dominates every return; " +
			"(R3) the event loops return on their lifetime case (peer follows torrent, torrent follows context) and on handler errors; " +
			"(R4) the AddTorrent wrapper unlists then closes Deleted, registered before run; run frees the piece store in its exit defer. " +
			"Holds for every interleaving because the rules quantify over CFG paths and call sites, not over schedules sampled.",
		Rules: []string{"R1 blocking channel ops are abandonable / paired", "R2 owners close their lifetime channel on every exit (defer dominates all returns)",
			"R3 loops return on lifetime/handler-error cases", "R4 deletion unlists, closes Deleted, frees the store"},
		NotDecided:  []string{"goroutine count after deletion", "timing (how long a call takes to return)", "blocking inside the standard library (net.Conn reads/writes have deadlines; not analysed)"},
		Assumptions: []string{"a closed lifetime channel makes every select on it ready (Go semantics)", "cgo/DHT callbacks are outside the analysed call graph"},
		Run:         runC17,
	})
}

// lifetimeFields: the channels clients select on to learn that an owner is gone.
type lifetimeTable struct {
	fields map[*types.Var]string
	// owner pairing: Event field -> Done field of the same struct
	eventDone map[*types.Var]*types.Var
	// sendPair: further channels a blocking send on which must be paired with one particular lifetime channel of the
	// same object — the peer's view of its torrent (torEvent/torDone) and of its writer goroutine (writer/writerDone)
	sendPair map[*types.Var]*types.Var
}

func lifetimeOf(r *Report, rule string) *lifetimeTable {
	p := r.P
	lt := &lifetimeTable{fields: map[*types.Var]string{}, eventDone: map[*types.Var]*types.Var{}, sendPair: map[*types.Var]*types.Var{}}
	add := func(pkg, typ, f string) *types.Var {
		v := p.Field(pkg, typ, f)
		if r.Anchor(rule, pkg+"."+typ+"."+f, v != nil) {
			lt.fields[v] = typ + "." + f
		}
		return v
	}
	td := add("tor", "Torrent", "Done")
	add("tor", "Torrent", "Deleted")
	pd := add("peer", "Peer", "Done")
	add("peer", "Peer", "torDone")
	add("peer", "Peer", "writerDone")
	if te := p.Field("tor", "Torrent", "Event"); r.Anchor(rule, "tor.Torrent.Event", te != nil) && td != nil {
		lt.eventDone[te] = td
	}
	if pe := p.Field("peer", "Peer", "Event"); r.Anchor(rule, "peer.Peer.Event", pe != nil) && pd != nil {
		lt.eventDone[pe] = pd
	}
	for _, pr := range [][2]string{{"torEvent", "torDone"}, {"writer", "writerDone"}} {
		a, b := p.Field("peer", "Peer", pr[0]), p.Field("peer", "Peer", pr[1])
		if r.Anchor(rule, "peer.Peer."+pr[0]+"/"+pr[1], a != nil && b != nil) {
			lt.sendPair[a] = b
		}
	}
	return lt
}

func (lt *lifetimeTable) isLifetime(cs chanSource) bool {
	if cs.CtxDone {
		return true
	}
	if cs.Field != nil {
		_, ok := lt.fields[cs.Field]
		return ok
	}
	if cs.Param != nil && isDoneLikeType(cs.Param.Type()) {
		if ch, ok := cs.Param.Type().Underlying().(*types.Chan); ok && ch.Dir() == types.RecvOnly {
			return true
		}
	}
	return false
}

// sameBase: two struct-pointer values denote the same object (same SSA value, or loads of the same field of the same base).
func sameBase(a, b ssa.Value) bool {
	if a == b {
		return true
	}
	fa, ba := loadedField(a)
	fb, bb := loadedField(b)
	if fa != nil && fa == fb && ba != nil && bb != nil {
		return sameBase(ba, bb)
	}
	// free variables / params captured identically
	ua, ok1 := a.(*ssa.UnOp)
	ub, ok2 := b.(*ssa.UnOp)
	if ok1 && ok2 && ua.Op == token.MUL && ub.Op == token.MUL && ua.X == ub.X {
		return true
	}
	return false
}

func describeState(st *ssa.SelectState) string {
	cs := chanSourceOf(st.Chan)
	dir := "recv"
	if st.Dir == types.SendOnly {
		dir = "send"
	}
	d := "chan"
	switch {
	case cs.Field != nil:
		d = cs.Field.Name()
	case cs.CtxDone:
		d = "ctx.Done()"
	case cs.Timer:
		d = "timer"
	case cs.Param != nil:
		d = cs.Param.Name()
	case cs.Free != nil:
		d = cs.Free.Name()
	case cs.Make != nil:
		d = "reply"
	}
	return dir + " " + d
}

func opKey(op chanOp) string {
	var parts []string
	for _, st := range op.States {
		parts = append(parts, describeState(st))
	}
	k := "select"
	switch op.Kind {
	case opSend:
		k = "send"
	case opRecv:
		k = "recv"
	}
	return fmt.Sprintf("%s/%s[%s]", fname(op.Fn), k, strings.Join(parts, "|"))
}

// c17Inventory: rule R1 over every channel operation of packages tor, peer and protocol.
func c17Inventory(r *Report) *lifetimeTable {
	p := r.P
	lt := lifetimeOf(r, "R1")
	nOps := 0
	nReplySends := 0
	for _, f := range p.SrcFuncs() {
		pk := relPkg(f)
		if pk != "tor" && pk != "peer" && pk != "protocol" {
			continue
		}
		ops := chanOpsIn(f)
		if len(ops) > 0 {
			r.Fn(f)
		}
		for _, op := range ops {
			nOps++
			checkChanOp(r, "R1", lt, op, &nReplySends)
		}
	}
	r.Sentinel("R1", nOps, 70)
	r.Sentinel("R1.reply-sends", nReplySends, 15)
	return lt
}

func runC17(r *Report) {
	lt := c17Inventory(r)
	c17Owners(r, lt)
	c17Loops(r, lt)
	c17Deletion(r)
	c17QueuedPeers(r)
	c17Replies(r)
	c17Table(r, "R4")
	c17BusyTransient(r, "R6")
	c17ConnOwned(r, "R2")
}

// checkChanOp classifies one channel operation under rule R1.
func checkChanOp(r *Report, rule string, lt *lifetimeTable, op chanOp, nReplySends *int) {
	key := opKey(op)
	pos := op.Instr.Pos()
	if pos == token.NoPos && len(op.States) > 0 {
		pos = op.States[0].Pos
	}
	switch op.Kind {
	case opSelect:
		if !op.Blocking {
			r.Ok(rule, key, pos, "non-blocking select (default case)")
			return
		}
		var lifetimes []chanSource
		hasTimer := false
		var replyRecv *chanSource
		var sends []chanSource
		for _, st := range op.States {
			cs := chanSourceOf(st.Chan)
			if st.Dir == types.RecvOnly {
				if lt.isLifetime(cs) && !cs.Nilable {
					lifetimes = append(lifetimes, cs)
				} else if cs.Timer && !cs.Nilable {
					hasTimer = true
				} else if cs.Make != nil {
					c := cs
					replyRecv = &c
				}
			} else {
				sends = append(sends, cs)
			}
		}
		if len(lifetimes) == 0 && !hasTimer {
			r.Fail(rule, key, pos, "blocking select has no case on the owner's lifetime channel (Done/Deleted/context/torDone/writerDone): if the owner's loop has stopped this blocks forever")
			return
		}
		// owner pairing for sends on X.Event
		for _, s := range sends {
			if s.Field == nil {
				continue
			}
			done, ok := lt.eventDone[s.Field]
			if !ok {
				done, ok = lt.sendPair[s.Field]
			}
			if !ok {
				continue
			}
			matched := false
			for _, l := range lifetimes {
				if l.Field == done && sameBase(l.Base, s.Base) {
					matched = true
				}
			}
			if !matched {
				r.Fail(rule, key, pos, "send on %s.%s is not paired with a receive from the same object's %s channel: it can block forever once that owner has exited (another lifetime channel in the select does not help — it is closed by somebody else, possibly later)", exprStr(s.Base), s.Field.Name(), done.Name())
				return
			}
		}
		// reply waits may only be abandoned through the owner's lifetime channel
		if replyRecv != nil && chanCap(replyRecv.Make) == 0 {
			for _, l := range lifetimes {
				isOwner := false
				for _, done := range lt.eventDone {
					if l.Field == done {
						isOwner = true
					}
				}
				if !isOwner {
					r.Fail(rule, key, pos, "the wait for an unbuffered reply channel can be abandoned through a channel that is not the owner's Done: the event loop would then block forever sending its reply")
					return
				}
			}
			if hasTimer {
				r.Fail(rule, key, pos, "the wait for an unbuffered reply channel can time out: the event loop would then block forever sending its reply")
				return
			}
		}
		// a select that sits in a loop must leave the loop on its lifetime case: `break` inside a
		// select only leaves the select, and a closed channel is always ready, so the loop would spin
		if sel, ok := op.Instr.(*ssa.Select); ok && reachableFromSuccs(sel.Block())[sel.Block()] {
			for k, st := range op.States {
				cs := chanSourceOf(st.Chan)
				if st.Dir != types.RecvOnly || !lt.isLifetime(cs) || cs.Nilable {
					continue
				}
				cb := selectCaseBlock(sel, k)
				if cb == nil {
					r.Undecided(rule, key+"/leaves-loop", st.Pos, "cannot locate the body of the %s case", describeState(st))
					return
				}
				if reachableFrom(cb)[sel.Block()] {
					r.Fail(rule, key+"/"+describeState(st)+"-leaves-loop", st.Pos, "the %s case of a select inside a loop can reach the select again: once that channel is closed the case is always ready and the loop never ends (the goroutine neither exits nor runs its remaining cleanup)", describeState(st))
					return
				}
			}
		}
		r.Ok(rule, key, pos, "blocking select includes the lifetime channel of the object it waits on")
	case opSend:
		cs := chanSourceOf(op.States[0].Chan)
		// loop-side reply on an event's Ch field
		if cs.Field != nil && cs.Field.Name() == "Ch" && isEventStruct(cs.Field) && strings.HasSuffix(enclosingNamed(op.Fn).Name(), "handleEvent") {
			*nReplySends++
			r.Ok(rule, key, pos, "loop-side reply on the event's Ch: the requesting client waits for it until the owner's Done (checked at the client's select)")
			return
		}
		r.Fail(rule, key, pos, "bare channel send outside a select: cannot be abandoned if the receiver has gone away")
	case opRecv:
		cs := chanSourceOf(op.States[0].Chan)
		if cs.Timer || cs.CtxDone {
			r.Ok(rule, key, pos, "receive from a timer/context channel")
			return
		}
		// protocol.Writer's input channel: closed by its owner's exit defer (checked by R2)
		if cs.Param != nil && relPkg(op.Fn) == "protocol" && enclosingNamed(op.Fn).Name() == "Writer" {
			r.Ok(rule, key, pos, "Writer's input channel is closed by peer.Run's exit defer (R2 obligation close(peer.writer))")
			return
		}
		r.Fail(rule, key, pos, "bare channel receive outside a select: if the sender's loop stops while the request is queued, this blocks forever whatever the caller's context")
	}
}

// isEventStruct: the field belongs to a struct type declared in package peer whose name starts with Tor or Peer.
func isEventStruct(fv *types.Var) bool {
	return fv.Pkg() != nil && fv.Pkg().Path() == modPath+"/peer"
}

// ---------- R2: owners ----------

// closesIn: the channel values closed (builtin close) in fn.
func closesIn(fn *ssa.Function) []*ssa.Call {
	var out []*ssa.Call
	allInstrs(fn, func(in ssa.Instruction) {
		if c, ok := in.(*ssa.Call); ok {
			if b, ok := c.Call.Value.(*ssa.Builtin); ok && b.Name() == "close" {
				out = append(out, c)
			}
		}
	})
	return out
}

func deferDominatesReturns(d *ssa.Defer) (bool, []*ssa.Return) {
	var bad []*ssa.Return
	for _, ret := range returnsOf(d.Parent()) {
		if !instrDominates(d, ret) {
			bad = append(bad, ret)
		}
	}
	return len(bad) == 0, bad
}

func c17Owners(r *Report, lt *lifetimeTable) {
	p := r.P
	n := 0
	closedLifetime := map[*types.Var]bool{}
	for _, f := range p.SrcFuncs() {
		pk := relPkg(f)
		if pk != "tor" && pk != "peer" && pk != "protocol" {
			continue
		}
		allInstrs(f, func(in ssa.Instruction) {
			d, ok := in.(*ssa.Defer)
			if !ok {
				return
			}
			var closes []*ssa.Call
			what := ""
			if b, isb := d.Call.Value.(*ssa.Builtin); isb && b.Name() == "close" {
				what = exprStr(d.Call.Args[0])
				cs := chanSourceOf(d.Call.Args[0])
				if cs.Field != nil {
					closedLifetime[cs.Field] = true
				}
				closes = append(closes, nil)
			} else if df := deferredFunc(d); df != nil {
				for _, c := range closesIn(df) {
					closes = append(closes, c)
					cs := chanSourceOf(c.Call.Args[0])
					nm := exprStr(c.Call.Args[0])
					if cs.Field != nil {
						closedLifetime[cs.Field] = true
						nm = cs.Field.Name()
					}
					if what != "" {
						what += ","
					}
					what += nm
				}
			}
			if len(closes) == 0 {
				return
			}
			n++
			r.Fn(f)
			key := fmt.Sprintf("%s/defer-close(%s)", fname(f), what)
			ok2, bad := deferDominatesReturns(d)
			if ok2 {
				r.Ok("R2", key, d.Pos(), "the defer that closes %s is registered before every return of %s", what, fname(f))
			} else {
				var ls []string
				for _, b := range bad {
					ls = append(ls, p.pos(b.Pos()))
				}
				r.Fail("R2", key, d.Pos(), "%d return(s) of %s are not dominated by the defer that closes %s (%s): on those exits the channel is never closed and everyone selecting on it hangs", len(bad), fname(f), what, strings.Join(ls, ", "))
			}
		})
	}
	r.Sentinel("R2", n, 5)
	// each owner-pairing Done channel must be closed by some dominating defer
	for _, done := range lt.eventDone {
		r.Check(closedLifetime[done], "R2", "closed-by-defer/"+lt.fields[done], token.NoPos,
			lt.fields[done]+" is closed in a deferred function of its owner", lt.fields[done]+" is not closed by any deferred function: its clients would wait forever")
	}
	if del := p.Field("tor", "Torrent", "Deleted"); del != nil {
		r.Check(closedLifetime[del], "R2", "closed-by-defer/Torrent.Deleted", token.NoPos, "Torrent.Deleted is closed in a deferred function", "Torrent.Deleted is not closed by any deferred function: Kill would wait forever")
	}

	// the channels clients wait on exist before the object can be seen by anyone: the store of the made channel
	// dominates every return of the function that makes it and every call or go statement that hands the object on.
	// (A rejected duplicate torrent is returned "dead" — Done and Deleted closed; with a nil Deleted, Kill on it would
	// wait on a nil channel for ever.)
	{
		watched := map[*types.Var]string{}
		for fv, nm := range lt.fields {
			watched[fv] = nm
		}
		for ev := range lt.eventDone {
			watched[ev] = "Event"
		}
		nInit := 0
		for _, f := range p.SrcFuncs() {
			pk := relPkg(f)
			if pk != "tor" && pk != "peer" {
				continue
			}
			allInstrs(f, func(in ssa.Instruction) {
				st, ok := in.(*ssa.Store)
				if !ok {
					return
				}
				fa, ok := st.Addr.(*ssa.FieldAddr)
				if !ok {
					return
				}
				fv := fieldVar(fa)
				if _, w := watched[fv]; !w {
					return
				}
				if _, isMake := st.Val.(*ssa.MakeChan); !isMake {
					return
				}
				nInit++
				r.Fn(f)
				key := fmt.Sprintf("%s/%s.%s-made-before-use", fname(f), typeShort(derefType(fa.X.Type())), fv.Name())
				bad := ""
				allInstrs(f, func(i2 ssa.Instruction) {
					if bad != "" || i2 == in {
						return
					}
					switch x := i2.(type) {
					case *ssa.Return:
						if !instrDominates(st, x) {
							bad = "the return at " + p.pos(x.Pos())
						}
					case ssa.CallInstruction:
						uses := false
						for _, a := range x.Common().Args {
							if a == fa.X {
								uses = true
							}
						}
						if mc, isMC := x.Common().Value.(*ssa.MakeClosure); isMC {
							for _, b := range mc.Bindings {
								if b == fa.X {
									uses = true
								}
							}
						}
						if uses && !instrDominates(st, x.(ssa.Instruction)) {
							bad = "the call at " + p.pos(x.Pos()) + " that hands the object on"
						}
					}
				})
				r.Check(bad == "", "R2", key, st.Pos(), "the channel is made before the object is returned or handed on", "the channel "+fv.Name()+" is made in "+fname(f)+" only after "+bad+": on that path the object is visible with a nil channel, and whoever selects on it (Kill waiting for Deleted, a client waiting for Done) waits for ever")
			})
		}
		r.Sentinel("R2.made", nInit, 5)
	}

	// an owner announces its death before its exit sequence can block: in the exit timeline of the function whose
	// defers close the owner's Done (defers in reverse registration order, each deferred closure's statements in order,
	// its own nested defers last), no blocking channel operation comes before close(Done). Otherwise the owner can wait
	// (flushing events to a full queue) for a party that is itself waiting for the owner and can only be released by
	// Done.
	for _, done := range lt.eventDone {
		for _, f := range p.SrcFuncs() {
			pk := relPkg(f)
			if (pk != "tor" && pk != "peer") || f.Parent() != nil {
				continue
			}
			tl := exitTimeline(f)
			at := -1
			for i, it := range tl {
				if it.close != nil {
					if cs := chanSourceOf(it.close); cs.Field == done {
						at = i
						break
					}
				}
			}
			if at < 0 {
				continue
			}
			r.Fn(f)
			var first *exitItem
			for i := 0; i < at; i++ {
				if tl[i].blocking != nil {
					first = &tl[i]
					break
				}
			}
			key := fmt.Sprintf("%s/close(%s)-before-blocking-exit-work", fname(f), lt.fields[done])
			if first == nil {
				r.Ok("R2", key, tl[at].in.Pos(), "%s is closed before the exit sequence of %s performs any blocking channel operation", lt.fields[done], fname(f))
			} else {
				r.Fail("R2", key, tl[at].in.Pos(), "the exit sequence of %s performs a blocking channel operation (%s) before it closes %s: the owner waits for room in its counterpart's queue while the counterpart waits for the owner, and only the closed %s could release it", fname(f), p.pos(first.in.Pos()), lt.fields[done], lt.fields[done])
			}
		}
	}

	// peer.Run specifics
	run := p.Func("peer", "Run")
	if !r.Anchor("R2", "peer.Run", run != nil) {
		return
	}
	r.Fn(run)
	peerDone := p.Field("peer", "Peer", "Done")
	connF := p.Field("peer", "Peer", "conn")
	var exitDefer, connDefer *ssa.Defer
	allInstrs(run, func(in ssa.Instruction) {
		d, ok := in.(*ssa.Defer)
		if !ok {
			return
		}
		df := deferredFunc(d)
		if df == nil {
			return
		}
		for _, c := range closesIn(df) {
			if cs := chanSourceOf(c.Call.Args[0]); cs.Field == peerDone && peerDone != nil {
				exitDefer = d
			}
		}
		allInstrs(df, func(in2 ssa.Instruction) {
			if c, ok := in2.(*ssa.Call); ok && c.Call.IsInvoke() && c.Call.Method.Name() == "Close" {
				if fv, _ := loadedField(c.Call.Value); fv == connF && connF != nil {
					connDefer = d
				}
			}
		})
	})
	if connDefer != nil {
		ok, bad := deferDominatesReturns(connDefer)
		r.Check(ok, "R2", "peer.Run/defer-conn.Close", connDefer.Pos(), "the defer closing the peer's connection dominates every return of peer.Run",
			fmt.Sprintf("%d returns of peer.Run are not covered by the defer that closes the connection", len(bad)))
	} else {
		r.Fail("R2", "peer.Run/defer-conn.Close", run.Pos(), "no deferred function of peer.Run closes peer.conn")
	}
	if exitDefer != nil {
		df := deferredFunc(exitDefer)
		r.Fn(df)
		// contents of the exit defer: Clear(true, drop-closure), TorPeerBitmap{..,false}, TorPeerGoaway
		hasClear, hasBitmap, hasGoaway := false, false, false
		allInstrs(df, func(in ssa.Instruction) {
			c, ok := in.(*ssa.Call)
			if !ok {
				return
			}
			if cal := c.Call.StaticCallee(); cal != nil {
				if cal.Name() == "Clear" && relPkg(cal) == "peer/requests" {
					if b, ok := constBool(c.Call.Args[1]); ok && b {
						hasClear = true
					}
				}
				if cal.Name() == "writeEvent" && relPkg(cal) == "peer" && len(c.Call.Args) == 2 {
					if mi, ok := c.Call.Args[1].(*ssa.MakeInterface); ok {
						switch typeShort(mi.X.Type()) {
						case "peer.TorPeerBitmap":
							hasBitmap = true
						case "peer.TorPeerGoaway":
							hasGoaway = true
						}
					}
				}
			}
		})
		// … on every path through the exit function, not merely somewhere in it
		{
			isRet := func(i ssa.Instruction) bool { _, ok := i.(*ssa.Return); return ok }
			callIs := func(pred func(c *ssa.Call) bool) func(ssa.Instruction) bool {
				return func(i ssa.Instruction) bool {
					c, ok := i.(*ssa.Call)
					return ok && pred(c)
				}
			}
			evOf := func(want string) func(c *ssa.Call) bool {
				return func(c *ssa.Call) bool {
					cal := c.Call.StaticCallee()
					if cal == nil || cal.Name() != "writeEvent" || relPkg(cal) != "peer" || len(c.Call.Args) != 2 {
						return false
					}
					mi, ok := c.Call.Args[1].(*ssa.MakeInterface)
					return ok && typeShort(mi.X.Type()) == want
				}
			}
			reqs := []edgeReq{
				{Name: "requests.Clear(true)", Instr: callIs(func(c *ssa.Call) bool {
					cal := c.Call.StaticCallee()
					if cal == nil || cal.Name() != "Clear" || relPkg(cal) != "peer/requests" {
						return false
					}
					b, ok := constBool(c.Call.Args[1])
					return ok && b
				})},
				{Name: "TorPeerBitmap", Instr: callIs(evOf("peer.TorPeerBitmap"))},
				{Name: "TorPeerGoaway", Instr: callIs(evOf("peer.TorPeerGoaway"))},
			}
			miss, reached := pathsMissingEntry(df, isRet, nil, reqs)
			if reached > 0 {
				for _, m := range miss {
					switch m {
					case "requests.Clear(true)":
						hasClear = false
					case "TorPeerBitmap":
						hasBitmap = false
					case "TorPeerGoaway":
						hasGoaway = false
					}
				}
			}
		}
		r.Check(hasClear, "R2", "peer.Run/exit-defer/requests.Clear(true)", exitDefer.Pos(), "exit defer clears all outstanding requests", "exit defer of peer.Run no longer clears outstanding requests (Clear(true, …))")
		r.Check(hasBitmap, "R2", "peer.Run/exit-defer/TorPeerBitmap", exitDefer.Pos(), "exit defer retracts the peer's bitmap", "exit defer of peer.Run no longer retracts the peer's bitmap")
		r.Check(hasGoaway, "R2", "peer.Run/exit-defer/TorPeerGoaway", exitDefer.Pos(), "exit defer announces TorPeerGoaway", "exit defer of peer.Run no longer sends TorPeerGoaway: the torrent keeps the dead peer listed")
	}
}

// ---------- R3: loops ----------

// selectCaseBlock returns the block executed when select state #k is chosen.
func selectCaseBlock(sel *ssa.Select, k int) *ssa.BasicBlock {
	var idx ssa.Value
	for _, ref := range *sel.Referrers() {
		if ex, ok := ref.(*ssa.Extract); ok && ex.Index == 0 {
			idx = ex
		}
	}
	if idx == nil {
		return nil
	}
	for _, ref := range *idx.Referrers() {
		bo, ok := ref.(*ssa.BinOp)
		if !ok || bo.Op != token.EQL {
			continue
		}
		c, okc := constInt(bo.Y)
		if !okc || int(c) != k {
			continue
		}
		for _, r2 := range *bo.Referrers() {
			if iff, ok := r2.(*ssa.If); ok {
				return iff.Block().Succs[0]
			}
		}
	}
	return nil
}

// leavesLoop: from block b every path reaches a Return without re-entering block `loop`.
func leavesLoop(b, loop *ssa.BasicBlock) bool {
	reach := reachableFrom(b)
	return !reach[loop]
}

func c17Loops(r *Report, lt *lifetimeTable) {
	p := r.P
	type loopSpec struct {
		pkg, fn string
		life    func(cs chanSource) bool
		lifeNm  string
	}
	torDone := p.Field("peer", "Peer", "torDone")
	specs := []loopSpec{
		{"peer", "Run", func(cs chanSource) bool { return cs.Field != nil && cs.Field == torDone }, "peer.torDone"},
		{"tor", "Torrent.run", func(cs chanSource) bool { return cs.CtxDone }, "ctx.Done()"},
	}
	for _, sp := range specs {
		f := p.Func(sp.pkg, sp.fn)
		if !r.Anchor("R3", sp.pkg+"."+sp.fn, f != nil) {
			continue
		}
		r.Fn(f)
		// main select: the blocking select with the most states
		var main *ssa.Select
		allInstrs(f, func(in ssa.Instruction) {
			if s, ok := in.(*ssa.Select); ok && s.Blocking && (main == nil || len(s.States) > len(main.States)) {
				main = s
			}
		})
		if main == nil {
			r.Undecided("R3", fname(f)+"/main-select", f.Pos(), "no blocking select found in the event loop")
			continue
		}
		found := false
		for k, st := range main.States {
			cs := chanSourceOf(st.Chan)
			if st.Dir == types.RecvOnly && sp.life(cs) && !cs.Nilable {
				found = true
				cb := selectCaseBlock(main, k)
				key := fmt.Sprintf("%s/case<-%s/returns", fname(f), sp.lifeNm)
				if cb == nil {
					r.Undecided("R3", key, st.Pos, "cannot locate the case body")
				} else if leavesLoop(cb, main.Block()) {
					r.Ok("R3", key, st.Pos, "the %s case leaves the loop (every path from it reaches a return)", sp.lifeNm)
				} else {
					r.Fail("R3", key, st.Pos, "the %s case can continue the loop: the goroutine outlives its owner", sp.lifeNm)
				}
			}
		}
		if !found {
			r.Fail("R3", fmt.Sprintf("%s/case<-%s", fname(f), sp.lifeNm), main.Pos(), "the event loop's select has no case on %s", sp.lifeNm)
		}
		// handler errors leave the loop: each call to handleEvent/handleMessage has its error tested, and the non-nil edge leaves the loop
		allInstrs(f, func(in ssa.Instruction) {
			c, ok := in.(*ssa.Call)
			if !ok {
				return
			}
			cal := c.Call.StaticCallee()
			if cal == nil || (cal.Name() != "handleEvent" && cal.Name() != "handleMessage") {
				return
			}
			key := fmt.Sprintf("%s/%s-error-leaves-loop", fname(f), cal.Name())
			okk := false
			for _, ref := range *c.Referrers() {
				bo, isb := ref.(*ssa.BinOp)
				if !isb || bo.Op != token.NEQ || !isNilConst(bo.Y) {
					continue
				}
				for _, r2 := range *bo.Referrers() {
					if iff, isif := r2.(*ssa.If); isif {
						if leavesLoop(iff.Block().Succs[0], main.Block()) {
							okk = true
						}
					}
				}
			}
			r.Check(okk, "R3", key, c.Pos(), "a handler error leaves the loop (clean disconnect / stop)", "the error returned by "+cal.Name()+" does not lead out of the loop")
		})
	}
}

// ---------- R4: deletion ----------

func c17Deletion(r *Report) {
	p := r.P
	add := p.Func("tor", "AddTorrent")
	run := p.Func("tor", "Torrent.run")
	delF := p.Func("tor", "del")
	if !r.Anchor("R4", "tor.AddTorrent", add != nil) || !r.Anchor("R4", "tor.(*Torrent).run", run != nil) || !r.Anchor("R4", "tor.del", delF != nil) {
		return
	}
	r.Fn(add)
	deleted := p.Field("tor", "Torrent", "Deleted")
	// find the go statement whose closure calls t.run
	var wrapper *ssa.Function
	allInstrs(add, func(in ssa.Instruction) {
		g, ok := in.(*ssa.Go)
		if !ok {
			return
		}
		// a func literal or a named function/method started as a goroutine
		fn := g.Call.StaticCallee()
		if fn == nil {
			return
		}
		if anyInstr(fn, func(i ssa.Instruction) bool { return calleeOf(i) == run }) != nil {
			wrapper = fn
		}
	})
	if wrapper == nil {
		r.Fail("R4", "AddTorrent/go-wrapper", add.Pos(), "AddTorrent no longer starts the event loop in a wrapper goroutine the rule can identify")
		return
	}
	r.Fn(wrapper)
	var runCall ssa.Instruction
	allInstrs(wrapper, func(in ssa.Instruction) {
		if calleeOf(in) == run {
			if _, isDefer := in.(*ssa.Defer); !isDefer {
				runCall = in
			}
		}
	})
	acts := exitActions(wrapper)
	if len(acts) == 0 || runCall == nil {
		r.Fail("R4", "AddTorrent/wrapper-defer", wrapper.Pos(), "the wrapper goroutine has no deferred cleanup")
		return
	}
	// the wrapper's exit actions, in execution order: del(hash) … close(Deleted)
	delAt, closeAt := -1, -1
	var delAct, closeAct exitAct
	for i, a := range acts {
		if a.Callee == delF && delAt < 0 {
			delAt, delAct = i, a
		}
		if a.Close != nil && closeAt < 0 {
			if cs := chanSourceOf(a.Close); cs.Field == deleted {
				closeAt, closeAct = i, a
			}
		}
		if a.Callee != nil && a.Callee.Parent() != nil {
			r.Fn(a.Callee)
		}
	}
	early := true
	for _, a := range []exitAct{delAct, closeAct} {
		if a.Defer != nil && !instrDominates(a.Defer, runCall) {
			early = false
		}
	}
	r.Check(early, "R4", "AddTorrent/wrapper/defer-before-run", wrapper.Pos(), "cleanup is registered before the loop starts", "the cleanup defer is registered after t.run: a panic or exit of run skips it")
	r.Check(delAt >= 0, "R4", "AddTorrent/wrapper/unlist", wrapper.Pos(), "the wrapper's exit removes the torrent from the table", "the wrapper's exit no longer calls del(): a deleted torrent stays listed")
	r.Check(closeAt >= 0, "R4", "AddTorrent/wrapper/close-Deleted", wrapper.Pos(), "the wrapper's exit closes Deleted", "the wrapper's exit no longer closes Deleted: Kill waits forever")
	if delAt >= 0 && closeAt >= 0 {
		r.Check(delAt < closeAt, "R4", "AddTorrent/wrapper/unlist-before-Deleted", closeAct.Instr.Pos(), "the torrent is unlisted before Deleted is closed", "Deleted is closed before the torrent is unlisted: Kill can return while the torrent is still listed")
	}
	// run's exit defer frees the store
	r.Fn(run)
	piecesDel := p.Func("tor/piece", "Pieces.Del")
	if r.Anchor("R4", "piece.(*Pieces).Del", piecesDel != nil) {
		ok := false
		for _, a := range exitActions(run) {
			if a.Callee == piecesDel {
				if dom, _ := deferDominatesReturns(a.Defer); dom {
					ok = true
				}
			}
		}
		r.Check(ok, "R4", "Torrent.run/defer-Pieces.Del", run.Pos(), "run's exit defer frees the piece store on every exit", "no deferred function of run that dominates every return calls Pieces.Del: a deleted torrent keeps its memory")
	}
	// … and the store stays empty afterwards: a peer that is still delivering a chunk while the torrent is deleted must
	// find the deleted flag set in the same lock hold in which it would allocate (C03.R2 re-evaluated)
	if c := newPieceCtx(r, "R4"); c.ok {
		if allocF := p.Func("alloc", "Alloc"); r.Anchor("R4", "alloc.Alloc", allocF != nil) {
			calls, _ := p.callSitesOf(allocF)
			n := 0
			for _, cs := range calls {
				cc, ok := cs.(*ssa.Call)
				if !ok || relPkg(cs.Parent()) != "tor/piece" {
					continue
				}
				n++
				r.Fn(cs.Parent())
				delG, where := c.reval().establishedAt(cc, c.factNotDeleted(), 0)
				r.Check(delG, "R4", "piece/Alloc/not-after-Del", cc.Pos(), "nothing is allocated once the store is deleted", "alloc.Alloc is not preceded on every path "+where+" by !ps.deleted tested in the same lock hold: a chunk that arrives while the torrent is being deleted allocates memory that nothing releases — deletion is not complete")
			}
			r.Sentinel("R4.alloc", n, 1)
		}
	}
}

func reachableFromSuccs(b *ssa.BasicBlock) map[*ssa.BasicBlock]bool {
	out := map[*ssa.BasicBlock]bool{}
	for _, s := range b.Succs {
		for k := range reachableFrom(s) {
			out[k] = true
		}
	}
	return out
}

// exitItem: one step of a function's exit timeline.
type exitItem struct {
	in       ssa.Instruction
	close    ssa.Value // close(ch)
	blocking *chanOp   // a blocking channel operation
}

// exitTimeline: what f does on its way out, in execution order: its defers last-registered first; a deferred closure
// contributes its closes and blocking channel operations in source order followed by its own deferred work.
func exitTimeline(f *ssa.Function) []exitItem {
	return exitTimelineD(f, 0)
}

func exitTimelineD(f *ssa.Function, depth int) []exitItem {
	var defers []*ssa.Defer
	allInstrs(f, func(in ssa.Instruction) {
		if d, ok := in.(*ssa.Defer); ok {
			defers = append(defers, d)
		}
	})
	sort.SliceStable(defers, func(i, j int) bool {
		if instrDominates(defers[i], defers[j]) {
			return true
		}
		if instrDominates(defers[j], defers[i]) {
			return false
		}
		return defers[i].Pos() < defers[j].Pos()
	})
	var out []exitItem
	for k := len(defers) - 1; k >= 0; k-- {
		d := defers[k]
		if bi, ok := d.Call.Value.(*ssa.Builtin); ok {
			if bi.Name() == "close" && len(d.Call.Args) == 1 {
				out = append(out, exitItem{in: d, close: d.Call.Args[0]})
			}
			continue
		}
		df := deferredFunc(d)
		if df == nil || df.Blocks == nil || df.Parent() == nil || depth > 2 {
			continue
		}
		var items []exitItem
		allInstrs(df, func(in ssa.Instruction) {
			if c, ok := in.(*ssa.Call); ok {
				if bi, ok := c.Call.Value.(*ssa.Builtin); ok && bi.Name() == "close" && len(c.Call.Args) == 1 {
					items = append(items, exitItem{in: in, close: c.Call.Args[0]})
				}
			}
		})
		for _, op := range chanOpsIn(df) {
			if op.Kind == opSelect && !op.Blocking {
				continue
			}
			o := op
			items = append(items, exitItem{in: op.Instr, blocking: &o})
		}
		sort.SliceStable(items, func(i, j int) bool { return items[i].in.Pos() < items[j].in.Pos() })
		out = append(out, items...)
		out = append(out, exitTimelineD(df, depth+1)...)
	}
	return out
}

// ---------- R4 (continued): a peer that was queued but never started ----------

// c17QueuedPeers: a TorAddPeer event owns a connection. (a) when the loop exits, the events still in the queue are
// drained after Done is closed and the peer of every TorAddPeer among them is closed; (b) NewPeer, having queued the
// event, tests Done again before it reports success — the loop may have exited (and drained) in between.
func c17QueuedPeers(r *Report) {
	p := r.P
	run := p.Func("tor", "Torrent.run")
	np := p.Func("tor", "Torrent.NewPeer")
	evF := p.Field("tor", "Torrent", "Event")
	doneF := p.Field("tor", "Torrent", "Done")
	connF := p.Field("peer", "Peer", "conn")
	if !r.Anchor("R4", "tor.(*Torrent).run", run != nil) || !r.Anchor("R4", "tor.(*Torrent).NewPeer", np != nil) ||
		!r.Anchor("R4", "tor.Torrent.Event/Done", evF != nil && doneF != nil) || !r.Anchor("R4", "peer.Peer.conn", connF != nil) {
		return
	}
	// closesConn: a function of package peer that closes the peer's connection
	closesConn := func(f *ssa.Function) bool {
		if f == nil || f.Blocks == nil || relPkg(f) != "peer" {
			return false
		}
		return anyInstr(f, func(i ssa.Instruction) bool {
			c, ok := i.(*ssa.Call)
			if !ok || !c.Call.IsInvoke() || c.Call.Method.Name() != "Close" {
				return false
			}
			fv, _ := loadedField(c.Call.Value)
			return fv == connF
		}) != nil
	}
	// drains: the function receives from Torrent.Event without blocking, recognises TorAddPeer and closes its peer
	var drains func(f *ssa.Function, d int) ssa.Instruction
	drains = func(f *ssa.Function, d int) ssa.Instruction {
		if f == nil || f.Blocks == nil || d > 2 {
			return nil
		}
		var recv ssa.Instruction
		hasAssert, hasClose := false, false
		allInstrs(f, func(i ssa.Instruction) {
			switch x := i.(type) {
			case *ssa.Select:
				for _, st := range x.States {
					if st.Dir == types.RecvOnly && chanSourceOf(st.Chan).Field == evF && !x.Blocking {
						recv = i
					}
				}
			case *ssa.TypeAssert:
				if typeShort(x.AssertedType) == "peer.TorAddPeer" {
					hasAssert = true
				}
			case *ssa.Call:
				if closesConn(x.Call.StaticCallee()) {
					hasClose = true
				}
			}
		})
		if recv != nil && hasAssert && hasClose {
			return recv
		}
		var via ssa.Instruction
		allInstrs(f, func(i ssa.Instruction) {
			if c, ok := i.(*ssa.Call); ok && via == nil {
				if h := c.Call.StaticCallee(); h != nil && relPkg(h) == "tor" && h != f && drains(h, d+1) != nil {
					via = i
				}
			}
		})
		return via
	}
	r.Fn(run)
	var site ssa.Instruction
	var siteDefer, closeDefer *ssa.Defer
	var closeInstr ssa.Instruction
	var defers []*ssa.Defer
	allInstrs(run, func(i ssa.Instruction) {
		if d, ok := i.(*ssa.Defer); ok {
			defers = append(defers, d)
		}
	})
	for _, d := range defers {
		df := deferredFunc(d)
		if df == nil || df.Blocks == nil {
			if bi, ok := d.Call.Value.(*ssa.Builtin); ok && bi.Name() == "close" && chanSourceOf(d.Call.Args[0]).Field == doneF {
				closeDefer, closeInstr = d, d
			}
			continue
		}
		if s := drains(df, 0); s != nil {
			site, siteDefer = s, d
		}
		for _, c := range closesIn(df) {
			if chanSourceOf(c.Call.Args[0]).Field == doneF {
				closeDefer, closeInstr = d, c
			}
		}
	}
	if site == nil {
		r.Fail("R4", "Torrent.run/exit-drains-queued-peers", run.Pos(), "no deferred function of the torrent loop empties the event queue and closes the peers of the TorAddPeer events left in it: a connection handed to the torrent while its deletion was already queued stays open after the deletion completes")
	} else {
		after := false
		switch {
		case closeDefer == nil:
		case closeDefer == siteDefer:
			if _, isDefer := closeInstr.(*ssa.Defer); !isDefer && closeInstr.Parent() == site.Parent() {
				after = instrDominates(closeInstr, site)
			}
		default:
			// defers run in reverse registration order: the drain must be registered before the close
			after = instrDominates(siteDefer, closeDefer)
		}
		r.Check(after, "R4", "Torrent.run/exit-drains-queued-peers", site.Pos(), "after Done is closed the loop's exit empties the queue and closes the peers that were never started",
			"the event queue is drained before Done is closed (or the order cannot be established): a NewPeer that queues its event between the drain and the close is told nothing and its connection stays open")
	}
	// (b) NewPeer
	r.Fn(np)
	n := 0
	allInstrs(np, func(i ssa.Instruction) {
		sel, ok := i.(*ssa.Select)
		if !ok {
			return
		}
		for k, st := range sel.States {
			if st.Dir != types.SendOnly || chanSourceOf(st.Chan).Field != evF {
				continue
			}
			mi, isMI := st.Send.(*ssa.MakeInterface)
			if !isMI || typeShort(mi.X.Type()) != "peer.TorAddPeer" {
				continue
			}
			n++
			blk := selectCaseBlock(sel, k)
			if blk == nil {
				r.Undecided("R4", "NewPeer/recheck-Done-after-queueing", sel.Pos(), "the block of the send case cannot be identified")
				continue
			}
			isNilRet := func(in ssa.Instruction) bool {
				ret, ok := in.(*ssa.Return)
				return ok && len(ret.Results) > 0 && isNilConst(ret.Results[len(ret.Results)-1])
			}
			var testsDoneD func(in ssa.Instruction, d int) bool
			testsDoneD = func(in ssa.Instruction, d int) bool {
				switch x := in.(type) {
				case *ssa.Select:
					for _, s2 := range x.States {
						if s2.Dir == types.RecvOnly && chanSourceOf(s2.Chan).Field == doneF {
							return true
						}
					}
				case *ssa.UnOp:
					return x.Op == token.ARROW && chanSourceOf(x.X).Field == doneF
				case *ssa.Call:
					// t.dead(): a function of the package that tests Done on every path
					h := x.Call.StaticCallee()
					if h == nil || x.Call.IsInvoke() || h.Blocks == nil || relPkg(h) != "tor" || d > 2 {
						return false
					}
					tst := anyInstr(h, func(i2 ssa.Instruction) bool {
						if !testsDoneD(i2, d+1) {
							return false
						}
						for _, ret := range returnsOf(h) {
							if !instrDominates(i2, ret) {
								return false
							}
						}
						return true
					})
					return tst != nil
				}
				return false
			}
			testsDone := func(in ssa.Instruction) bool { return testsDoneD(in, 0) }
			miss, reached := pathsMissingAt(blk, 0, -1, isNilRet, nil, []edgeReq{{Name: "Done re-tested", Instr: testsDone}}, nil)
			r.Check(reached > 0 && len(miss) == 0, "R4", "NewPeer/recheck-Done-after-queueing", sel.Pos(), "success is reported only after Done was tested again once the event is queued",
				"NewPeer reports success as soon as its event is queued: if the loop has exited meanwhile (Done closed and the queue drained, or the send and Done both ready) nobody will ever start or close the peer and its connection stays open")
		}
	})
	r.Sentinel("R4.NewPeer", n, 1)
}

// ---------- R5: every request event is answered ----------

// c17Replies: an event that carries a reply channel Ch is a request somebody is waiting on. In the two handleEvent
// functions, every path from the entry of such an event's case to a return that lets the loop go on (a nil error)
// answers it: a send on Ch, close(Ch), Ch (or the event) handed to a function that takes over, or the knowledge that Ch
// is nil. A path that returns without answering leaves the caller blocked until the torrent (or peer) dies.
func c17Replies(r *Report) {
	p := r.P
	ne := newNilEnv(p)
	n := 0
	for _, hn := range [][2]string{{"tor", "handleEvent"}, {"peer", "handleEvent"}} {
		he := p.Func(hn[0], hn[1])
		if !r.Anchor("R5", hn[0]+"."+hn[1], he != nil) {
			continue
		}
		r.Fn(he)
		allInstrs(he, func(in ssa.Instruction) {
			ta, ok := in.(*ssa.TypeAssert)
			if !ok || !ta.CommaOk {
				return
			}
			st, ok := ta.AssertedType.Underlying().(*types.Struct)
			if !ok {
				return
			}
			chIdx := -1
			for i := 0; i < st.NumFields(); i++ {
				if st.Field(i).Name() == "Ch" {
					if _, isCh := st.Field(i).Type().Underlying().(*types.Chan); isCh {
						chIdx = i
					}
				}
			}
			if chIdx < 0 {
				return
			}
			// the value and the case block
			var val, okv ssa.Value
			for _, ref := range *ta.Referrers() {
				if ex, isx := ref.(*ssa.Extract); isx {
					if ex.Index == 0 {
						val = ex
					} else {
						okv = ex
					}
				}
			}
			if val == nil || okv == nil {
				return
			}
			var caseB *ssa.BasicBlock
			for _, ref := range *okv.Referrers() {
				if iff, isIf := ref.(*ssa.If); isIf {
					caseB = iff.Block().Succs[0]
				}
			}
			if caseB == nil {
				return
			}
			n++
			// the event value may live in a local cell (the switch's bound variable)
			cells := map[ssa.Value]bool{}
			for _, ref := range *val.Referrers() {
				if st, isSt := ref.(*ssa.Store); isSt && st.Val == val {
					if al, isAl := st.Addr.(*ssa.Alloc); isAl {
						cells[al] = true
					}
				}
			}
			isVal := func(v ssa.Value) bool {
				if v == val {
					return true
				}
				if ld, isLd := v.(*ssa.UnOp); isLd && ld.Op == token.MUL && cells[ld.X] {
					return true
				}
				return cells[v]
			}
			isCh := func(v ssa.Value) bool {
				if f, ok := v.(*ssa.Field); ok && isVal(f.X) && f.Field == chIdx {
					return true
				}
				if ld, isLd := v.(*ssa.UnOp); isLd && ld.Op == token.MUL {
					if fa, isFA := ld.X.(*ssa.FieldAddr); isFA && cells[fa.X] && fa.Field == chIdx {
						return true
					}
				}
				return false
			}
			answered := func(i ssa.Instruction) bool {
				switch x := i.(type) {
				case *ssa.Send:
					return isCh(x.Chan)
				case *ssa.Select:
					for _, s2 := range x.States {
						if s2.Dir == types.SendOnly && isCh(s2.Chan) {
							return true
						}
					}
				case ssa.CallInstruction:
					for _, a := range x.Common().Args {
						if isCh(a) || isVal(a) {
							return true
						}
						if mi, isMI := a.(*ssa.MakeInterface); isMI && isVal(mi.X) {
							return true
						}
					}
				case *ssa.MakeClosure:
					for _, b := range x.Bindings {
						if isCh(b) || isVal(b) {
							return true
						}
					}
				}
				return false
			}
			chNil := func(cond ssa.Value, pol bool) bool {
				x, isNil, okn := nilFact(Guard{Cond: cond, Pol: pol})
				return okn && isNil && isCh(x)
			}
			isGoOn := func(i ssa.Instruction) bool {
				ret, ok := i.(*ssa.Return)
				if !ok {
					return false
				}
				res := retResults(ret)
				if len(res) == 0 {
					return true
				}
				e := res[len(res)-1]
				if isNilConst(e) {
					return true
				}
				return ne.At(e, ret.Block()) != NonNil
			}
			miss, reached := pathsMissingAt(caseB, 0, -1, isGoOn, nil, []edgeReq{{Name: "answered", Instr: answered, Match: chNil}}, nil)
			key := fmt.Sprintf("%s.%s/%s-answered-on-every-path", hn[0], hn[1], typeShort(ta.AssertedType))
			r.Check(reached == 0 || len(miss) == 0, "R5", key, ta.Pos(), "every path through the case answers on Ch (or hands it on, or knows it is nil) before the loop goes on",
				"a path through the "+typeShort(ta.AssertedType)+" case returns with a nil error without sending on or closing the event's Ch: the caller of the corresponding API function stays blocked until the owner dies")
		})
	}
	r.Sentinel("R5", n, 10)
}

// ---------- the torrent table ----------

// c17Table: the table of live torrents is a sync.Map shared by every goroutine that adds, looks up, walks or deletes
// torrents. An entry is inserted only by an atomic insert-if-absent (LoadOrStore, or CompareAndSwap from nil): a
// look-up followed by Store lets two concurrent AddTorrent calls for one info-hash both succeed — one running torrent
// is then not in the table (tor.Expire never evicts it; Kill of the other unlists the survivor).
func c17Table(r *Report, rule string) {
	p := r.P
	pkg := p.SSAPkg("tor")
	if !r.Anchor(rule, "package tor", pkg != nil) {
		return
	}
	g, _ := pkg.Members["torrents"].(*ssa.Global)
	if !r.Anchor(rule, "tor.torrents", g != nil) {
		return
	}
	if !typeIs(g.Type(), "sync", "Map") {
		r.Info(rule, "tor.torrents/not-a-sync.Map", g.Pos(), "the table is not a sync.Map any more: its insertion discipline is not judged by this rule")
		return
	}
	nIns := 0
	for _, f := range p.SrcFuncs() {
		if relPkg(f) != "tor" {
			continue
		}
		allInstrs(f, func(in ssa.Instruction) {
			c, ok := in.(*ssa.Call)
			if !ok || len(c.Call.Args) == 0 || c.Call.Args[0] != ssa.Value(g) {
				return
			}
			o := calleeObj(c)
			if o == nil || o.Pkg() == nil || o.Pkg().Path() != "sync" {
				return
			}
			switch o.Name() {
			case "LoadOrStore", "CompareAndSwap":
				nIns++
				r.Fn(f)
				r.Ok(rule, fname(f)+"/torrents."+o.Name(), c.Pos(), "the table is extended by an atomic insert-if-absent")
			case "Store", "Swap":
				nIns++
				r.Fn(f)
				r.Fail(rule, fname(f)+"/torrents."+o.Name(), c.Pos(), "the table of torrents is written with %s, which overwrites: with a look-up before it two concurrent additions of one info-hash both succeed, the second replaces the first in the table, and a running torrent is left that nobody can find, evict or delete by hash", o.Name())
			}
		})
	}
	r.Sentinel(rule+".table-insert", nIns, 1)
}

// c17BusyTransient: the busy state is a promise that the function which set it will take it away again: Del (and
// with it Torrent.Kill and eviction) waits, polling, until the piece is no longer busy. Every path from a transition
// into stateBusy to a return of the same function passes a transition out of it (a path that panics needs none).
func c17BusyTransient(r *Report, rule string) {
	p := r.P
	setState := p.Func("tor/piece", "Piece.setState")
	stBusy, ok := pieceConst(p, "stateBusy")
	if !r.Anchor(rule, "piece.Piece.setState", setState != nil) || !r.Anchor(rule, "piece.stateBusy", ok) {
		return
	}
	isRet := func(in ssa.Instruction) bool { _, ok := in.(*ssa.Return); return ok }
	// leaves: the instruction takes the busy mark away — setState(stateBusy, …), or a call of a function of the package
	// that does so on every path
	memo := map[*ssa.Function]bool{}
	var leaves func(in ssa.Instruction) bool
	var mustLeave func(h *ssa.Function, d int) bool
	mustLeave = func(h *ssa.Function, d int) bool {
		if v, ok := memo[h]; ok {
			return v
		}
		if d > 3 || h.Blocks == nil || relPkg(h) != "tor/piece" {
			return false
		}
		memo[h] = false
		_, reached := pathsMissingAt(h.Blocks[0], 0, -1, isRet, leaves, nil, nil)
		memo[h] = reached == 0
		return memo[h]
	}
	leaves = func(in ssa.Instruction) bool {
		c2, ok := in.(*ssa.Call)
		if !ok {
			return false
		}
		h := c2.Call.StaticCallee()
		if h == nil || c2.Call.IsInvoke() {
			return false
		}
		if h == setState {
			if len(c2.Call.Args) != 3 {
				return false
			}
			from, okf := constInt(c2.Call.Args[1])
			return okf && from == stBusy
		}
		return h != c2.Parent() && mustLeave(h, 0)
	}
	// returnsBusy: some path from just after `in` reaches a return without the mark being taken away
	var flagVal ssa.Value // when set: the helper's boolean result that says "the piece was marked busy"
	returnsBusy := func(in ssa.Instruction) (bool, token.Pos) {
		var at token.Pos
		saved := pathTargetHook
		pathTargetHook = func(t ssa.Instruction, _ func(*ssa.Phi) (int64, bool)) bool {
			if at == token.NoPos {
				at = t.Pos()
				if at == token.NoPos {
					at = lastPosIn(t.Block())
				}
			}
			return true
		}
		fv := flagVal
		_, reached := pathsMissingX(in, -1, isRet, leaves, nil, func(cond ssa.Value, pol bool) bool {
			// data, ok := ps.beginFinalise(index); if !ok { return }: on this edge nothing was marked
			return fv != nil && cond == fv && !pol
		})
		pathTargetHook = saved
		return reached > 0, at
	}
	// check: the transition at `in` is undone before its function returns, or — when that function is a private helper
	// (markBusy) — before each of the helper's callers returns
	var check func(in ssa.Instruction, d int) (bool, token.Pos)
	check = func(in ssa.Instruction, d int) (bool, token.Pos) {
		bad, at := returnsBusy(in)
		if !bad {
			return true, token.NoPos
		}
		f := in.Parent()
		obj, isFn := f.Object().(*types.Func)
		if d > 2 || f.Parent() != nil || !isFn || obj.Exported() {
			return false, at
		}
		calls, esc := p.callSitesOf(f)
		if len(esc) > 0 || len(calls) == 0 {
			return false, at
		}
		// a boolean result of the helper that is true exactly on the returns reached after the transition
		flagIdx := -1
		after := reachableFrom(in.Block())
		after[in.Block()] = true
		for j := 0; j < f.Signature.Results().Len(); j++ {
			if !isBoolType(f.Signature.Results().At(j).Type()) {
				continue
			}
			good := true
			for _, ret := range returnsOf(f) {
				res := retResults(ret)
				if j >= len(res) {
					good = false
					break
				}
				b, isb := constBool(res[j])
				isAfter := after[ret.Block()] && (ret.Block() != in.Block() || instrIndex(in) < instrIndex(ret))
				if !isb {
					// a named result kept in a cell: the constants stored into it
					b, isb = cellBoolAt(res[j], ret)
				}
				if !isb || b != isAfter {
					good = false
				}
			}
			if good {
				flagIdx = j
			}
		}
		for _, cs := range calls {
			ci, okc := cs.(*ssa.Call)
			if !okc {
				return false, at
			}
			saved := flagVal
			flagVal = nil
			if flagIdx >= 0 {
				if f.Signature.Results().Len() == 1 {
					flagVal = ci
				} else if ex := extractOf(ci, flagIdx); ex != nil {
					flagVal = ex
				}
			}
			ok2, at2 := check(ci, d+1)
			flagVal = saved
			if !ok2 {
				return false, at2
			}
		}
		return true, token.NoPos
	}
	calls, _ := p.callSitesOf(setState)
	n := 0
	for _, cs := range calls {
		c, isCall := cs.(*ssa.Call)
		if !isCall || len(c.Call.Args) != 3 {
			continue
		}
		to, okt := constInt(c.Call.Args[2])
		if !okt || to != stBusy {
			continue
		}
		n++
		f := c.Parent()
		r.Fn(f)
		good, at := check(c, 0)
		msg := ""
		if !good {
			msg = fmt.Sprintf("a function returns (near %s) with the piece still marked busy: nothing ever takes the mark away, so Del — called by Torrent.Kill and by eviction — polls the piece for ever, the torrent's goroutine never finishes and its memory is never released", p.Fset.Position(at))
		}
		r.Check(good, rule, fname(f)+"/busy-is-taken-away-on-every-path", c.Pos(), "every return after the busy transition passes a transition out of busy", msg)
	}
	r.Sentinel(rule+".busy", n, 1)
}

func lastPosIn(b *ssa.BasicBlock) token.Pos {
	for i := len(b.Instrs) - 1; i >= 0; i-- {
		if b.Instrs[i].Pos() != token.NoPos {
			return b.Instrs[i].Pos()
		}
	}
	return token.NoPos
}

// cellBoolAt: v is a load (at return ret) of a named boolean result kept in a cell; the value is the constant of the
// last store that dominates the return, when every path to the return passes that store after any other.
func cellBoolAt(v ssa.Value, ret *ssa.Return) (bool, bool) {
	ld, ok := v.(*ssa.UnOp)
	if !ok || ld.Op != token.MUL {
		return false, false
	}
	al, ok := ld.X.(*ssa.Alloc)
	if !ok {
		return false, false
	}
	var stores []*ssa.Store
	for _, ref := range *al.Referrers() {
		if st, isSt := ref.(*ssa.Store); isSt && st.Addr == ssa.Value(al) {
			stores = append(stores, st)
		}
	}
	// the zero value unless a store reaches the return
	var last *ssa.Store
	for _, st := range stores {
		if instrDominates(st, ret) {
			if last == nil || instrDominates(last, st) {
				last = st
			}
		} else if instrReaches(st, ret) {
			return false, false // a store on some paths only
		}
	}
	if last == nil {
		return false, true
	}
	return constBool(last.Val)
}

// ---------- a connection that was accepted or dialled is closed or handed to a peer on every way out ----------

// c17ConnOwned: tor.Server, tor.Client and Torrent.NewPeer take over the connection they are given: every way from
// their entry to a return closes it, passes it to another of them (Client → NewPeer), or hands the peer built on it to
// the torrent's event loop (NewPeer's send of TorAddPeer; the queue is drained at exit — R5). A return that does neither
// leaves the socket open with nobody to close it: deleting the torrent then does not close all its connections.
func c17ConnOwned(r *Report, rule string) {
	p := r.P
	owners := map[*ssa.Function]bool{}
	for _, nm := range []string{"Server", "Client", "Torrent.NewPeer"} {
		f := p.Func("tor", nm)
		if !r.Anchor(rule, "tor."+nm, f != nil) {
			continue
		}
		owners[f] = true
	}
	isConn := func(v ssa.Value) bool { return v != nil && typeIs(v.Type(), "net", "Conn") }
	memo := map[*ssa.Function]int{}
	var disposes func(in ssa.Instruction, d int) bool
	var always func(h *ssa.Function, d int) bool
	isRet := func(i ssa.Instruction) bool { _, ok := i.(*ssa.Return); return ok }
	always = func(h *ssa.Function, d int) bool {
		// a private helper that disposes of the connection it is given on all its paths (closeWith(conn, err))
		if h == nil || h.Blocks == nil || relPkg(h) != "tor" || d > 2 {
			return false
		}
		if v, ok := memo[h]; ok {
			return v == 1
		}
		memo[h] = 0
		has := h.Parent() != nil // a closure has the connection in reach
		for _, pa := range h.Params {
			if isConn(pa) {
				has = true
			}
		}
		if !has {
			return false
		}
		miss, reached := pathsMissingEntry(h, isRet, nil, []edgeReq{{Name: "disposed", Instr: func(i ssa.Instruction) bool { return disposes(i, d+1) }}})
		if len(miss) == 0 && reached > 0 {
			memo[h] = 1
			return true
		}
		return false
	}
	disposes = func(in ssa.Instruction, d int) bool {
		switch x := in.(type) {
		case *ssa.Select:
			for _, st := range x.States {
				if st.Dir == types.SendOnly {
					if mi, ok := st.Send.(*ssa.MakeInterface); ok && typeShort(mi.X.Type()) == "peer.TorAddPeer" {
						return true
					}
				}
			}
		case *ssa.Send:
			if mi, ok := x.X.(*ssa.MakeInterface); ok && typeShort(mi.X.Type()) == "peer.TorAddPeer" {
				return true
			}
		case ssa.CallInstruction:
			if _, isGo := in.(*ssa.Go); isGo {
				return false
			}
			cc := x.Common()
			if cc.IsInvoke() {
				return cc.Method.Name() == "Close" && isConn(cc.Value)
			}
			h := cc.StaticCallee()
			if h == nil {
				return false
			}
			if df, isDefer := in.(*ssa.Defer); isDefer && h.Parent() != nil && d == 0 {
				// defer func() { if !handedOver { conn.Close() } }(): the deferred closure closes the connection on the
				// ways out that did not hand it over
				_ = df
				return anyInstr(h, func(i ssa.Instruction) bool {
					c2, ok := i.(*ssa.Call)
					return ok && c2.Call.IsInvoke() && c2.Call.Method.Name() == "Close" && isConn(c2.Call.Value)
				}) != nil
			}
			passes := h.Parent() != nil && h.Parent() == in.Parent()
			for _, a := range cc.Args {
				if isConn(a) {
					passes = true
				}
			}
			if !passes {
				return false
			}
			return owners[h] || always(h, d)
		}
		return false
	}
	n := 0
	for f := range owners {
		r.Fn(f)
		n++
		miss, reached := pathsMissingEntry(f, isRet, nil, []edgeReq{{Name: "connection closed or handed over", Instr: func(i ssa.Instruction) bool { return disposes(i, 0) }}})
		r.Check(len(miss) == 0 && reached > 0, rule, fname(f)+"/conn-closed-or-handed-over", f.Pos(), "every way out closes the connection, passes it on, or hands its peer to the event loop",
			fmt.Sprintf("%s can return with the connection it was given neither closed nor handed to a peer (%v): the socket stays open with nobody to close it — a torrent deleted meanwhile does not close all its connections", fname(f), miss))
	}
	r.Sentinel(rule+".conn-owners", n, 3)
}
