package main

import (
	"fmt"
	"go/token"
	"go/types"
	"strings"

	"golang.org/x/tools/go/ssa"
)

func init() {
	register(&PropSpec{
		ID: "C11",
		Explanation: "Static decision of the structural conditions for 'everything sent to a peer is protocol-conformant': " +
			"(R1) the Request written in maybeRequest is reachable from the dequeue only through `peer still advertises the piece` and `unchoked or allowed-fast` and `fewer than two outstanding, or fewer than the peer's queue depth`; its three fields are fromChunk(index) and chunkSize(index) of the dequeued block; " +
			"(R2) a block is enqueued only when its membership bit is clear and only for advertised pieces; (R3) the bitmap placed in a Bitfield message is never extended by a piece *count* where an *index* is expected (one spare byte when the count is a multiple of eight); " +
			"(R4) Cancel is sent only after the request queue reported the block as outstanding, and carries the same (index, begin, length) derivation as the Request it cancels (sibling agreement); " +
			"(R5) peer-exchange state conservation: a peer taken out of the pending-departures list other than by telling the remote goes back to the list of peers the remote knows; (R6) fast-extension and extension-protocol messages are written only under the capability / negotiated sub-id that permits them, and carry that sub-id.",
		Rules:       []string{"R1 send-time re-check and field provenance (required-edge paths)", "R2 no duplicate requests", "R3 index/count unit discipline for bitfields", "R4 cancels only for outstanding requests, same triple as the request", "R5 PEX list conservation (E-must)", "R6 extension messages only when negotiated (E-dom)"},
		NotDecided:  []string{"counts over histories (outstanding vs queue depth at every instant)", "that have/don't-have indexes produced by the torrent are in range", "spare bits of the bitfield's last byte (value)", "fromChunk's 32-bit product for torrents beyond 4 GiB with a piece size that is not a power of two"},
		Assumptions: []string{"requests.Requests' results mean what their documentation says (Cancel/Del/Expire report outstanding requests)"},
		Run:         runC11,
	})
}

func runC11(r *Report) {
	c11R1(r)
	// block lengths and offsets are derived in 64 bits (shared with C01.R7): a 32-bit product widened afterwards gives the
	// last block of a torrent beyond 4 GiB the wrong length
	offsetsNotNarrowed(r, "R1")
	c11R2(r)
	c11R2b(r)
	c11R3(r)
	c11R3b(r)
	c11R4(r)
	c11R5(r)
	c11R5b(r)
	c11R6(r)
	c11R7(r)
}

// R7 (from round-2 seeded changes): three small arithmetic/identity disciplines behind what is sent.
// (a) bitmap.New(n) is handed piece counts and must allocate ceil(n/8) bytes: the forms n>>3 + 1 and n/8 + 1 are one
//
//	byte too long whenever n is a multiple of 8, and peer.Run only ever extends the advertised bitfield.
//
// (b) the torrent length is a 64-bit quantity: where it is narrowed to 32 bits the operand must already be a
//
//	quotient, remainder, shift or mask (bounded by the geometry checks), never the raw length — `uint32(l)/ChunkSize`
//	gives every block beyond 4 GiB the final block's length.
//
// (c) the identity of a PEX entry is its address: pex.Find compares addresses only; comparing whole entries (with
//
//	their flags) makes departures unmatched and changed flags a second announcement.
func c11R7(r *Report) {
	p := r.P
	// (a)
	if nf := p.Func("bitmap", "New"); r.Anchor("R7", "bitmap.New", nf != nil) {
		r.Fn(nf)
		n := 0
		allInstrs(nf, func(in ssa.Instruction) {
			ms, ok := in.(*ssa.MakeSlice)
			if !ok {
				return
			}
			n++
			prm := nf.Params[0]
			bad := ""
			// (x>>3)+c or x/8+c with c >= 1 directly on the parameter
			base, c := splitAddConst(stripIntConv(ms.Len))
			if bo, ok := stripIntConv(base).(*ssa.BinOp); ok && c >= 1 {
				k, okk := constInt(bo.Y)
				if stripIntConv(bo.X) == ssa.Value(prm) && okk && ((bo.Op == token.SHR && k == 3) || (bo.Op == token.QUO && k == 8)) {
					bad = exprStr(ms.Len)
				}
			}
			r.Check(bad == "", "R7", "bitmap.New/ceil-bytes", ms.Pos(), "bitmap.New does not round a bit count up by always adding a byte",
				"bitmap.New allocates "+bad+" bytes for n bits: one byte too many whenever n is a multiple of 8 — the Bitfield advertised for such a piece count is longer than ceil(pieces/8) and a strict peer disconnects")
		})
		r.Sentinel("R7.new", n, 1)
	}
	// (b)
	{
		lengthF := p.Func("tor/piece", "Pieces.Length")
		n := 0
		if r.Anchor("R7", "piece.(*Pieces).Length", lengthF != nil) {
			for _, f := range p.SrcFuncs() {
				if pk := relPkg(f); pk != "peer" && pk != "tor" {
					continue
				}
				allInstrs(f, func(in ssa.Instruction) {
					cv, ok := in.(*ssa.Convert)
					if !ok || !isInteger(cv.Type()) || !isInteger(cv.X.Type()) || intBits(cv.Type()) >= intBits(cv.X.Type()) || intBits(cv.Type()) > 32 {
						return
					}
					isLen := func(v ssa.Value) bool {
						c, ok := v.(*ssa.Call)
						return ok && c.Call.StaticCallee() == lengthF
					}
					// the operand itself (through +, - and widening) is the length; a quotient/remainder/shift/mask of it is fine
					var raw func(v ssa.Value, d int) bool
					raw = func(v ssa.Value, d int) bool {
						if d > 4 {
							return false
						}
						v = stripIntConv(v)
						if isLen(v) {
							return true
						}
						if bo, ok := v.(*ssa.BinOp); ok && (bo.Op == token.ADD || bo.Op == token.SUB) {
							return raw(bo.X, d+1) || raw(bo.Y, d+1)
						}
						if ph, ok := v.(*ssa.Phi); ok {
							for _, e := range ph.Edges {
								if raw(e, d+1) {
									return true
								}
							}
						}
						return false
					}
					if !mentions(cv.X, isLen, 0) {
						return
					}
					n++
					r.Fn(f)
					r.Check(!raw(cv.X, 0), "R7", fname(f)+"/length-narrowed-after-division", cv.Pos(), "the torrent length is divided or reduced before it is narrowed to 32 bits",
						"the 64-bit torrent length is converted to "+cv.Type().String()+" before it is divided ("+exprStr(cv)+"): for torrents of 4 GiB and more the high bits are lost, and every block beyond (length mod 2^32) is requested with the final block's length")
				})
			}
		}
		r.Sentinel("R7.narrow", n, 1)
	}
	// (c)
	if ff := p.Func("pex", "Find"); r.Anchor("R7", "pex.Find", ff != nil) {
		r.Fn(ff)
		addrCmp, whole := false, ""
		var fs []*ssa.Function
		fs = append(fs, ff)
		fs = append(fs, ff.AnonFuncs...)
		for _, f := range fs {
			allInstrs(f, func(in ssa.Instruction) {
				switch x := in.(type) {
				case *ssa.BinOp:
					if x.Op == token.EQL || x.Op == token.NEQ {
						fx, _ := loadedFieldAny(x.X)
						fy, _ := loadedFieldAny(x.Y)
						if fx != nil && fy != nil && fx.Name() == "Addr" && fy.Name() == "Addr" {
							addrCmp = true
						}
						if n := namedOf(x.X.Type()); n != nil && n.Obj().Name() == "Peer" && n.Obj().Pkg() != nil && strings.HasSuffix(n.Obj().Pkg().Path(), "/pex") {
							whole = "== on whole entries"
						}
					}
				case *ssa.Call:
					if pk, nm := calleePkgName(x); pk == "slices" && (nm == "Index" || nm == "Contains") {
						whole = "slices." + nm + " on whole entries"
					}
				}
			})
		}
		r.Check(addrCmp && whole == "", "R7", "pex.Find/identity-is-address", ff.Pos(), "a PEX entry is found by its address alone",
			"pex.Find no longer compares addresses only ("+whole+"): an entry's flags take part in its identity, so a departure (sent with zero flags) does not match the entry that was announced and is never reported, and a peer whose flags changed is announced a second time")
	}
}

func writesOf(f *ssa.Function, typ string) []*ssa.Call {
	var out []*ssa.Call
	allInstrs(f, func(in ssa.Instruction) {
		c, ok := in.(*ssa.Call)
		if !ok || !isCallNamed(c, "peer", "write") {
			return
		}
		if sl := litOf(c.Call.Args[1]); sl != nil && sl.Type == typ {
			out = append(out, c)
		}
	})
	return out
}

// tripleOK: the message literal's (Index, Begin, Length) are fromChunk(peer, x)#0, #1 and chunkSize(peer, x) for one x.
func tripleOK(sl *structLit) (bool, ssa.Value) {
	i, b, l := sl.Fields["Index"], sl.Fields["Begin"], sl.Fields["Length"]
	ie, ok1 := i.(*ssa.Extract)
	be, ok2 := b.(*ssa.Extract)
	lc, ok3 := l.(*ssa.Call)
	if !ok1 || !ok2 || !ok3 || ie.Tuple != be.Tuple || ie.Index != 0 || be.Index != 1 {
		return false, nil
	}
	fc, ok := ie.Tuple.(*ssa.Call)
	if !ok || !isCallNamed(fc, "peer", "fromChunk") || !isCallNamed(lc, "peer", "chunkSize") {
		return false, nil
	}
	return fc.Call.Args[1] == lc.Call.Args[1], fc.Call.Args[1]
}

func c11R1(r *Report) {
	p := r.P
	mr := p.Func("peer", "maybeRequest")
	bmF := p.Field("peer", "Peer", "bitmap")
	unF := p.Field("peer", "Peer", "unchoked")
	rqF := p.Field("peer", "Peer", "reqQ")
	if !r.Anchor("R1", "peer.maybeRequest", mr != nil) || !r.Anchor("R1", "peer.Peer.bitmap/unchoked/reqQ", bmF != nil && unF != nil && rqF != nil) {
		return
	}
	r.Fn(mr)
	var dq *ssa.Call
	allInstrs(mr, func(in ssa.Instruction) {
		if c, ok := in.(*ssa.Call); ok && isCallNamed(c, "peer/requests", "Dequeue") {
			dq = c
		}
	})
	if dq == nil {
		r.Fail("R1", "maybeRequest/Dequeue", mr.Pos(), "maybeRequest no longer dequeues from the request queue")
		return
	}
	idx := extractOf(dq, 1)
	// exploration starts at the head of the loop that contains the dequeue: everything tested in the same
	// iteration counts, whether before or after the dequeue
	var loopHead *ssa.BasicBlock
	for h := dq.Block(); h != nil && loopHead == nil; h = h.Idom() {
		for _, pb := range h.Preds {
			if h.Dominates(pb) {
				loopHead = h
			}
		}
	}
	// the requirements, for the function that holds the tests and the value that names the dequeued block there
	reqsFor := func(f *ssa.Function, idx ssa.Value) []edgeReq {
		pieceOf := func(v ssa.Value) bool { // int(i) where i = fromChunk(index)#0
			ex, ok := stripIntConv(v).(*ssa.Extract)
			if !ok || ex.Index != 0 {
				return false
			}
			fc, ok := ex.Tuple.(*ssa.Call)
			return ok && isCallNamed(fc, "peer", "fromChunk") && fc.Call.Args[1] == idx
		}
		// the piece of the dequeued block, as a value that can be followed into a helper (mayRequestPiece(peer, i))
		var pieceVal ssa.Value
		allInstrs(f, func(in ssa.Instruction) {
			if fc, ok := in.(*ssa.Call); ok && isCallNamed(fc, "peer", "fromChunk") && len(fc.Call.Args) > 1 && fc.Call.Args[1] == idx {
				pieceVal = extractOf(fc, 0)
			}
		})
		isPiece := func(sj []ssa.Value, v ssa.Value) bool {
			return pieceOf(v) || (len(sj) > 0 && sj[0] != nil && stripIntConv(v) == sj[0])
		}
		return []edgeReq{
			{Name: "peer.bitmap.Get(piece) == true", ViaHelper: true, Subj: []ssa.Value{pieceVal}, MatchS: func(sj []ssa.Value, cond ssa.Value, pol bool) bool {
				c, ok := cond.(*ssa.Call)
				if !ok || !pol {
					return false
				}
				cal := c.Call.StaticCallee()
				if cal == nil || cal.Name() != "Get" || relPkg(cal) != "bitmap" {
					return false
				}
				fv, _ := loadedField(c.Call.Args[0])
				return fv == bmF && isPiece(sj, c.Call.Args[1])
			}},
			{Name: "unchoked != 0 or isFast(piece)", ViaHelper: true, Subj: []ssa.Value{pieceVal}, MatchS: func(sj []ssa.Value, cond ssa.Value, pol bool) bool {
				if c, ok := cond.(*ssa.Call); ok && isCallNamed(c, "peer", "isFast") && pol && isPiece(sj, c.Call.Args[1]) {
					return true
				}
				fv, set, okf := flagTest(cond, pol)
				return okf && fv == unF && set
			}},
			{Name: "outstanding < 2 or outstanding < peer.reqQ", ViaHelper: true, Match: func(cond ssa.Value, pol bool) bool {
				op, x, y, ok := cmpFact(Guard{Cond: cond, Pol: pol})
				if !ok {
					return false
				}
				// normalise to  Requested() < bound
				switch op {
				case token.GTR:
					x, y, op = y, x, token.LSS
				case token.GEQ:
					x, y, op = y, x, token.LEQ
				}
				c, okc := x.(*ssa.Call)
				if !okc || !isCallNamed(c, "peer/requests", "Requested") {
					return false
				}
				if k, okk := constInt(y); okk && ((op == token.LSS && k <= 2) || (op == token.LEQ && k <= 1)) {
					return true
				}
				fv, _ := loadedField(y)
				return fv == rqF && op == token.LSS
			}},
		}
	}
	// paths of this iteration of maybeRequest's loop up to one instruction
	mrPaths := func(to ssa.Instruction) ([]string, int) {
		target := func(in ssa.Instruction) bool { return in == to }
		if loopHead != nil {
			return pathsMissingAt(loopHead, 0, -1, target, nil, reqsFor(mr, idx), nil)
		}
		return pathsMissing(dq, -1, target, nil, reqsFor(mr, idx))
	}
	verdict := func(w *ssa.Call, missing []string, reached int) {
		if reached == 0 {
			r.Undecided("R1", "maybeRequest/send-time-recheck", w.Pos(), "the Request write is not reachable from the dequeue")
			return
		}
		if len(missing) == 0 {
			r.Ok("R1", "maybeRequest/send-time-recheck", w.Pos(), "every path from the dequeue to the Request re-checks advertisement, choke/fast state and the pipeline bound")
		} else {
			r.Fail("R1", "maybeRequest/send-time-recheck", w.Pos(), "a path from the dequeue to the Request write does not pass: %v — a request waiting in the queue is sent although the peer retracted the piece / choked us / its queue is full", missing)
		}
	}
	ws := writesOf(mr, "protocol.Request")
	for _, w := range ws {
		okT, x := tripleOK(litOf(w.Call.Args[1]))
		r.Check(okT && x == idx, "R1", "maybeRequest/Request-fields", w.Pos(), "the Request's index, begin and length are fromChunk/chunkSize of the dequeued block", "the Request's (index, begin, length) are not fromChunk(index) and chunkSize(index) of the block that was dequeued")
		missing, reached := mrPaths(w)
		verdict(w, missing, reached)
	}
	// the write may live in a helper of the package that is handed the dequeued block (sendRequest(peer, index)): a
	// requirement is met when every path of the iteration up to the call meets it, or every path from the helper's
	// entry to its write does (with the helper's parameter standing for the dequeued block)
	helpers := 0
	allInstrs(mr, func(in ssa.Instruction) {
		c, ok := in.(*ssa.Call)
		if !ok {
			return
		}
		h := c.Call.StaticCallee()
		if h == nil || h.Pkg != mr.Pkg || len(h.Blocks) == 0 || c.Call.IsInvoke() || len(h.Params) != len(c.Call.Args) {
			return
		}
		k := -1
		for i, a := range c.Call.Args {
			if a == idx {
				k = i
			}
		}
		hws := writesOf(h, "protocol.Request")
		if k < 0 || len(hws) == 0 {
			return
		}
		r.Fn(h)
		idxH := ssa.Value(h.Params[k])
		missMr, reachedMr := mrPaths(c)
		for _, w := range hws {
			helpers++
			okT, x := tripleOK(litOf(w.Call.Args[1]))
			r.Check(okT && x == idxH, "R1", "maybeRequest/Request-fields", w.Pos(), "the Request's index, begin and length are fromChunk/chunkSize of the dequeued block", "the Request's (index, begin, length) are not fromChunk(index) and chunkSize(index) of the block that was dequeued")
			target := func(in ssa.Instruction) bool { return in == ssa.Instruction(w) }
			missH, reachedH := pathsMissingAt(h.Blocks[0], 0, -1, target, nil, reqsFor(h, idxH), nil)
			var missing []string
			for _, m := range missMr {
				for _, m2 := range missH {
					if m == m2 {
						missing = append(missing, m)
					}
				}
			}
			reached := reachedMr
			if reachedH == 0 {
				reached = 0
			}
			verdict(w, missing, reached)
		}
	})
	if len(ws) == 0 && helpers == 0 {
		r.Fail("R1", "maybeRequest/write(Request)", mr.Pos(), "maybeRequest no longer writes a Request the rule can identify")
	}
}

func c11R2(r *Report) {
	p := r.P
	enq := p.Func("peer/requests", "Requests.Enqueue")
	if !r.Anchor("R2", "requests.(*Requests).Enqueue", enq != nil) {
		return
	}
	r.Fn(enq)
	// the append to the queue is dominated by !bitmap.Get(index)
	ok := false
	allInstrs(enq, func(in ssa.Instruction) {
		c, isc := in.(*ssa.Call)
		if !isc {
			return
		}
		if bi, isb := c.Call.Value.(*ssa.Builtin); !isb || bi.Name() != "append" {
			return
		}
		for _, g := range guardsOf(c.Block()) {
			g = g.norm()
			if gc, isg := g.Cond.(*ssa.Call); isg && !g.Pol {
				if cal := gc.Call.StaticCallee(); cal != nil && cal.Name() == "Get" && relPkg(cal) == "bitmap" && stripIntConv(gc.Call.Args[1]) == ssa.Value(enq.Params[1]) {
					ok = true
				}
			}
		}
	})
	r.Check(ok, "R2", "Enqueue/refuses-duplicates", enq.Pos(), "a block already queued or requested is refused", "Enqueue appends without first testing the membership bit: a block can be requested twice from the same peer")
	// PeerRequest enqueues only for advertised pieces
	he := p.Func("peer", "handleEvent")
	bmF := p.Field("peer", "Peer", "bitmap")
	if r.Anchor("R2", "peer.handleEvent", he != nil) && bmF != nil {
		r.Fn(he)
		n := 0
		// every call of Enqueue in package peer (the PeerRequest handler, or a helper factored out of it)
		calls, _ := p.callSitesOf(enq)
		for _, ci := range calls {
			c, isc := ci.(*ssa.Call)
			if !isc || relPkg(c.Parent()) != "peer" {
				continue
			}
			n++
			r.Fn(c.Parent())
			adv := p.guardedIP(c, func(g Guard) bool {
				if gc, isg := g.Cond.(*ssa.Call); isg && g.Pol {
					if cal := gc.Call.StaticCallee(); cal != nil && cal.Name() == "Get" && relPkg(cal) == "bitmap" {
						if fv, _ := loadedField(gc.Call.Args[0]); fv == bmF {
							return true
						}
					}
				}
				return false
			}, 0)
			r.Check(adv, "R2", "handleEvent/Enqueue-only-advertised", c.Pos(), "blocks are queued only for pieces the peer advertises", "a block is queued for a piece the peer has not advertised")
		}
		r.Sentinel("R2", n, 1)
	}
}

// isCountValue: v is a piece/element count: numPieces(...), Num(), len(...) — not count-1.
func isCountValue(v ssa.Value) bool {
	v = stripIntConv(v)
	c, ok := v.(*ssa.Call)
	if !ok {
		return false
	}
	if bi, ok := c.Call.Value.(*ssa.Builtin); ok {
		return bi.Name() == "len"
	}
	if f := c.Call.StaticCallee(); f != nil {
		return f.Name() == "numPieces" || f.Name() == "Num"
	}
	return false
}

func c11R3(r *Report) {
	p := r.P
	n := 0
	for _, f := range p.SrcFuncs() {
		if relPkg(f) != "peer" {
			continue
		}
		allInstrs(f, func(in ssa.Instruction) {
			mi, ok := in.(*ssa.MakeInterface)
			if !ok {
				return
			}
			sl := litOf(mi)
			if sl == nil || sl.Type != "protocol.Bitfield" {
				return
			}
			n++
			r.Fn(f)
			// the bitmap variable: load of an alloc
			bv := sl.Fields["Bitfield"]
			var al *ssa.Alloc
			if ld, ok := strip(bv).(*ssa.UnOp); ok && ld.Op == token.MUL {
				al, _ = ld.X.(*ssa.Alloc)
			}
			key := fmt.Sprintf("%s/Bitfield-size", fname(f))
			if al == nil {
				r.Ok("R3", key, mi.Pos(), "the bitfield is sent as produced (no in-place extension)")
				return
			}
			bad := ""
			for _, ref := range *al.Referrers() {
				c, ok := ref.(*ssa.Call)
				if !ok {
					continue
				}
				cal := c.Call.StaticCallee()
				if cal == nil || relPkg(cal) != "bitmap" || cal.Name() != "Extend" {
					continue
				}
				if isCountValue(c.Call.Args[1]) {
					bad = exprStr(c.Call.Args[1])
				}
			}
			if bad == "" {
				r.Ok("R3", key, mi.Pos(), "the bitfield is extended, if at all, by an index")
			} else {
				r.Fail("R3", key, mi.Pos(), "the bitmap sent as Bitfield is extended with Extend(%s): Extend takes an index and makes room for bit #%s, so when the piece count is a multiple of eight the bitfield has ceil(n/8)+1 bytes (strict peers drop the connection)", bad, bad)
			}
		})
	}
	r.Sentinel("R3", n, 1)
}

func c11R4(r *Report) {
	p := r.P
	dc := p.Func("peer", "docancel")
	if !r.Anchor("R4", "peer.docancel", dc != nil) {
		return
	}
	r.Fn(dc)
	// the Cancel's triple
	for _, w := range writesOf(dc, "protocol.Cancel") {
		okT, x := tripleOK(litOf(w.Call.Args[1]))
		r.Check(okT && x == ssa.Value(dc.Params[1]), "R4", "docancel/Cancel-fields", w.Pos(), "the Cancel carries fromChunk/chunkSize of the cancelled block — the same derivation as the Request", "the Cancel's (index, begin, length) are not fromChunk(chunk) and chunkSize(chunk): for the torrent's short final block it names a triple that was never requested")
	}
	calls, esc := p.callSitesOf(dc)
	for _, e := range esc {
		r.Fail("R4", "docancel/escapes", e.Pos(), "docancel is used as a function value")
	}
	n := 0
	for _, cs := range calls {
		n++
		f := cs.Parent()
		r.Fn(f)
		in := cs.(ssa.Instruction)
		key := fmt.Sprintf("%s/docancel-only-outstanding", fname(f))
		ok := false
		for _, g := range guardsOf(in.Block()) {
			g = g.norm()
			ex, isx := g.Cond.(*ssa.Extract)
			if !isx || !g.Pol {
				continue
			}
			c, isc := ex.Tuple.(*ssa.Call)
			if !isc {
				continue
			}
			if (isCallNamed(c, "peer/requests", "Cancel") && ex.Index == 1) || (isCallNamed(c, "peer/requests", "Del") && ex.Index == 1) {
				ok = true
			}
		}
		// the cancel callback handed to Expire
		if !ok && f.Parent() != nil {
			for _, ref := range *funcValueRefs(f) {
				if c, isc := ref.(*ssa.Call); isc && isCallNamed(c, "peer/requests", "Expire") && len(c.Call.Args) == 5 {
					if mc, ismc := c.Call.Args[4].(*ssa.MakeClosure); ismc && mc.Fn == ssa.Value(f) {
						ok = true
					}
				}
			}
		}
		r.Check(ok, "R4", key, cs.Pos(), "a Cancel is sent only for a block the request queue reported as outstanding", "docancel is called on a path where the block is not known to be outstanding at the peer")
	}
	r.Sentinel("R4", n, 3)
}

// funcValueRefs: instructions that use the closure created from f.
func funcValueRefs(f *ssa.Function) *[]ssa.Instruction {
	var out []ssa.Instruction
	if f.Parent() == nil {
		return &out
	}
	allInstrs(f.Parent(), func(in ssa.Instruction) {
		if mc, ok := in.(*ssa.MakeClosure); ok && mc.Fn == ssa.Value(f) {
			out = append(out, *mc.Referrers()...)
		}
	})
	return &out
}

func c11R5(r *Report) {
	p := r.P
	pd := p.Field("peer", "pexState", "pendingDel")
	sent := p.Field("peer", "pexState", "sent")
	if !r.Anchor("R5", "peer.pexState.pendingDel/sent", pd != nil && sent != nil) {
		return
	}
	n := 0
	for _, f := range p.SrcFuncs() {
		if relPkg(f) != "peer" {
			continue
		}
		allInstrs(f, func(in ssa.Instruction) {
			st, ok := isStoreToField(in, pd)
			if !ok {
				return
			}
			// a removal: the value comes from slices.Delete (or a re-slice) of pendingDel
			c, isCall := st.Val.(*ssa.Call)
			if !isCall || c.Call.StaticCallee() == nil || !strings.HasPrefix(c.Call.StaticCallee().Name(), "Delete") {
				return
			}
			n++
			r.Fn(f)
			key := fmt.Sprintf("%s/pendingDel-removal-goes-back-to-sent", fname(f))
			exits := exitsAvoiding(in, func(i ssa.Instruction) bool {
				s2, ok := isStoreToField(i, sent)
				if !ok {
					return false
				}
				ac, ok := s2.Val.(*ssa.Call)
				if !ok {
					return false
				}
				bi, ok := ac.Call.Value.(*ssa.Builtin)
				return ok && bi.Name() == "append"
			}, false)
			r.Check(len(exits) == 0, "R5", key, st.Pos(), "a peer whose pending departure is cancelled is put back among the peers the remote knows",
				"a peer is removed from pendingDel (its departure was never told to the remote, which still believes it alive) without being put back in `sent`: it is then in no list, and its next departure is never reported")
		})
	}
	r.Sentinel("R5", n, 1)
}

func c11R6(r *Report) {
	p := r.P
	type gate struct {
		msg   string
		field string // capability bool field, or sub-id field (non-zero)
		sub   bool
	}
	gates := []gate{
		{"protocol.HaveAll", "canFast", false}, {"protocol.HaveNone", "canFast", false}, {"protocol.RejectRequest", "canFast", false},
		{"protocol.Extended0", "canExtended", false}, {"protocol.Port", "canDHT", false},
		{"protocol.ExtendedMetadata", "metadataExt", true}, {"protocol.ExtendedPex", "pexExt", true}, {"protocol.ExtendedDontHave", "dontHaveExt", true},
	}
	n := 0
	for _, f := range p.SrcFuncs() {
		if relPkg(f) != "peer" {
			continue
		}
		for _, g := range gates {
			fv := p.Field("peer", "Peer", g.field)
			if fv == nil {
				r.Anchor("R6", "peer.Peer."+g.field, false)
				continue
			}
			for _, w := range writesOf(f, g.msg) {
				n++
				r.Fn(f)
				key := fmt.Sprintf("%s/write(%s)-under-%s", fname(f), g.msg[len("protocol."):], g.field)
				g := g
				ok := p.guardedIP(w, func(gd Guard) bool {
					if !g.sub {
						f2, _ := loadedField(gd.Cond)
						return f2 == fv && gd.Pol
					}
					bo, isb := gd.Cond.(*ssa.BinOp)
					if !isb {
						return false
					}
					if f2, _ := loadedField(bo.X); f2 != fv {
						return false
					}
					k, okk := constInt(bo.Y)
					if !okk || k != 0 {
						return false
					}
					return (bo.Op == token.EQL && !gd.Pol) || (bo.Op == token.NEQ && gd.Pol) || (bo.Op == token.GTR && gd.Pol)
				}, 0)
				if !ok {
					r.Fail("R6", key, w.Pos(), "%s is written on a path not dominated by peer.%s: the message is sent to a peer that did not negotiate it", g.msg, g.field)
					continue
				}
				if g.sub {
					sl := litOf(w.Call.Args[1])
					f2, _ := loadedFieldAny(stripIntConv(sl.Fields["Subtype"]))
					if f2 != fv {
						r.Fail("R6", key, w.Pos(), "%s is written with a Subtype that is not peer.%s (the sub-id the peer asked for)", g.msg, g.field)
						continue
					}
				}
				r.Ok("R6", key, w.Pos(), "written only when negotiated")
			}
		}
	}
	r.Sentinel("R6", n, 9)
	_ = types.Typ
}

// R5 (continued): a PEX delta that has been taken out of the pending lists is sent or put back. computePex moves the
// pending arrivals into `sent` and empties the pending departures; from its call, every path to a return accounts for
// each of the two lists it handed out: the list is empty, the ExtendedPex carrying it was written successfully, or it is
// put back in front of its pending list. A path that gives up in between (a congestion test made after computePex)
// loses departures for good and records arrivals as told that never were.
func c11R5b(r *Report) {
	p := r.P
	cp := p.Func("peer", "computePex")
	pend := p.Field("peer", "pexState", "pending")
	pd := p.Field("peer", "pexState", "pendingDel")
	if !r.Anchor("R5", "peer.computePex", cp != nil) || !r.Anchor("R5", "peer.pexState.pending/pendingDel", pend != nil && pd != nil) {
		return
	}
	calls, _ := p.callSitesOf(cp)
	n := 0
	for _, cs := range calls {
		c, ok := cs.(*ssa.Call)
		if !ok {
			continue
		}
		f := c.Parent()
		lists := []ssa.Value{extractOf(c, 0), extractOf(c, 1)}
		if lists[0] == nil || lists[1] == nil {
			continue
		}
		n++
		r.Fn(f)
		fields := []*types.Var{pend, pd}
		isRet := func(i ssa.Instruction) bool { _, ok := i.(*ssa.Return); return ok }
		// the successful write of an ExtendedPex that carries the list
		writeOK := func(k int) func(cond ssa.Value, pol bool) bool {
			return func(cond ssa.Value, pol bool) bool {
				x, isNil, okn := nilFact(Guard{Cond: cond, Pol: pol})
				if okn && isNil {
					if wc, isC := x.(*ssa.Call); isC && isCallNamed(wc, "peer", "write") && len(wc.Call.Args) > 1 {
						if sl := litOf(wc.Call.Args[1]); sl != nil && sl.Type == "protocol.ExtendedPex" {
							for _, fv := range sl.Fields {
								if fv == lists[k] {
									return true
								}
							}
						}
					}
				}
				// the list is empty
				op, a, b, okc := cmpFact(Guard{Cond: cond, Pol: pol})
				if okc {
					if z, okz := constInt(b); okz && z == 0 && (op == token.EQL || op == token.LEQ) && isLenOf(stripIntConv(a), lists[k]) {
						return true
					}
				}
				return false
			}
		}
		restored := func(k int) func(in ssa.Instruction) bool {
			return func(in ssa.Instruction) bool {
				st, ok := isStoreToField(in, fields[k])
				if !ok {
					return false
				}
				ac, isCall := st.Val.(*ssa.Call)
				if !isCall {
					return false
				}
				bi, isB := ac.Call.Value.(*ssa.Builtin)
				return isB && bi.Name() == "append" && len(ac.Call.Args) > 0 && ac.Call.Args[0] == lists[k]
			}
		}
		reqs := []edgeReq{
			{Name: "arrivals sent, restored or none", Match: writeOK(0), Instr: restored(0)},
			{Name: "departures sent, restored or none", Match: writeOK(1), Instr: restored(1)},
		}
		miss, reached := pathsMissing(c, -1, isRet, nil, reqs)
		key := fmt.Sprintf("%s/computed-delta-sent-or-restored", fname(f))
		r.Check(reached > 0 && len(miss) == 0, "R5", key, c.Pos(), "every path after computePex sends the delta, puts it back, or had nothing to send",
			"after computePex has taken a delta out of the pending lists a path returns without sending it or putting it back ("+strings.Join(miss, "; ")+"): a departure that was pending at that moment is never reported, and an arrival is recorded as told although the remote never heard of it (its later departure is then a drop for an unknown peer)")
	}
	r.Sentinel("R5.computePex", n, 1)
}

// R2 (continued): the membership bitmap of a peer's request lists covers the queue AND the requests in flight. It is
// emptied only together with both lists (or where both are known to be empty): releasing it when only the pipeline
// has drained forgets the queued blocks, and the next command for one of them is accepted again — two identical
// Requests go out.
func c11R2b(r *Report) {
	p := r.P
	bm := p.Field("peer/requests", "Requests", "bitmap")
	q := p.Field("peer/requests", "Requests", "queue")
	rq := p.Field("peer/requests", "Requests", "requested")
	if !r.Anchor("R2", "requests.Requests.bitmap/queue/requested", bm != nil && q != nil && rq != nil) {
		return
	}
	n := 0
	for _, f := range p.SrcFuncs() {
		if relPkg(f) != "peer/requests" {
			continue
		}
		allInstrs(f, func(in ssa.Instruction) {
			st, ok := isStoreToField(in, bm)
			if !ok || !isNilConst(st.Val) {
				return
			}
			if al, isAl := st.Addr.(*ssa.FieldAddr).X.(*ssa.Alloc); isAl && al.Comment == "complit" {
				return
			}
			n++
			r.Fn(f)
			okAll := true
			missing := ""
			for _, L := range []*types.Var{q, rq} {
				okL := false
				allInstrs(f, func(i2 ssa.Instruction) {
					if s2, ok2 := isStoreToField(i2, L); ok2 && isNilConst(s2.Val) && (instrDominates(s2, st) || instrDominates(st, s2)) {
						okL = true
					}
				})
				if !okL {
					okL = p.guardedIP(st, func(g Guard) bool {
						op, x, y, okc := cmpFact(g)
						if !okc {
							return false
						}
						z, okz := constInt(y)
						if !okz || z != 0 || !(op == token.EQL || op == token.LEQ) {
							return false
						}
						c, isC := stripIntConv(x).(*ssa.Call)
						if !isC {
							return false
						}
						bi, isB := c.Call.Value.(*ssa.Builtin)
						if !isB || bi.Name() != "len" {
							return false
						}
						fv, _ := loadedField(c.Call.Args[0])
						return fv == L
					}, 0)
				}
				if !okL {
					okAll = false
					missing = L.Name()
				}
			}
			r.Check(okAll, "R2", fname(f)+"/bitmap-reset-only-with-both-lists", st.Pos(), "the membership bitmap is emptied only together with the queue and the requests in flight",
				"Requests.bitmap is reset although Requests."+missing+" is neither emptied with it nor known to be empty: the blocks still in that list lose their membership bit, a later command for one of them is accepted again, and the same Request is sent twice while the first is outstanding")
		})
	}
	r.Sentinel("R2.bitmap-reset", n, 1)
}

// R3 (continued): the bitmap we advertise comes from (*Pieces).Bitmap, and peer.Run only ever pads it. It must be built
// with exactly ceil(pieces/8) bytes: bit by bit below the piece count. Bitmap.Extend and Bitmap.SetMultiple take what
// they are given as an index that must be addressable — handed a count that is a multiple of 8 they add a byte.
func c11R3b(r *Report) {
	p := r.P
	bf := p.Func("tor/piece", "Pieces.Bitmap")
	if !r.Anchor("R3", "piece.(*Pieces).Bitmap", bf != nil) {
		return
	}
	r.Fn(bf)
	n := 0
	for _, f := range p.SrcFuncs() {
		if relPkg(f) != "tor/piece" || !(f == bf || p.inUnitOf(f, bf)) {
			continue
		}
		allInstrs(f, func(in ssa.Instruction) {
			c, ok := in.(*ssa.Call)
			if !ok {
				return
			}
			cal := c.Call.StaticCallee()
			if cal == nil || relPkg(cal) != "bitmap" {
				return
			}
			switch cal.Name() {
			case "Extend", "SetMultiple":
				n++
				// an argument of the form count-1 is an index
				arg := c.Call.Args[len(c.Call.Args)-1]
				_, k := splitAddConst(stripIntConv(arg))
				r.Check(k < 0, "R3", fname(f)+"/"+cal.Name()+"("+exprStr(arg)+")-takes-an-index", c.Pos(), "the advertised bitmap is extended by an index",
					"(*Pieces).Bitmap — the source of the Bitfield we send — calls bitmap."+cal.Name()+" with a count: for a piece count that is a multiple of 8 the bitmap gets one byte more than ceil(pieces/8), and peer.Run sends it as it is to every peer that does not do Fast")
			}
		})
	}
	if n == 0 {
		r.Ok("R3", "Pieces.Bitmap/no-count-based-extension", bf.Pos(), "the advertised bitmap is built without Extend/SetMultiple")
	}
}
