package main

// E-cone: goroutine confinement. A function is "loop-confined" to an event loop L when it cannot be
// reached from any root other than through L's entry function: exported API, go-statement targets,
// escaping function values, main/init.

import (
	"go/types"
	"strings"

	"golang.org/x/tools/go/ssa"
)

// outsideReach returns the module functions reachable from non-loop roots without entering a barrier
// function, with the root that reaches each (for diagnostics).
func outsideReach(p *Prog, barriers map[*ssa.Function]bool) map[*ssa.Function]string {
	reach := map[*ssa.Function]string{}
	var work []*ssa.Function
	add := func(f *ssa.Function, why string) {
		if f == nil || f.Blocks == nil || barriers[f] {
			return
		}
		if !strings.HasPrefix(funcPkgPath(f), modPath) {
			return
		}
		if _, ok := reach[f]; ok {
			return
		}
		reach[f] = why
		work = append(work, f)
	}
	src := p.SrcFuncs()
	// roots
	for _, f := range src {
		if f.Parent() != nil {
			continue
		}
		name := f.Name()
		if name == "main" || name == "init" || strings.HasPrefix(name, "init#") {
			add(f, "root "+fname(f))
			continue
		}
		if obj, ok := f.Object().(*types.Func); ok && obj.Exported() {
			add(f, "exported "+fname(f))
		}
	}
	for _, f := range src {
		allInstrs(f, func(in ssa.Instruction) {
			if g, ok := in.(*ssa.Go); ok {
				if sc := g.Call.StaticCallee(); sc != nil {
					add(sc, "go statement in "+fname(f))
				} else if mc, ok := g.Call.Value.(*ssa.MakeClosure); ok {
					if fn, ok := mc.Fn.(*ssa.Function); ok {
						add(fn, "go statement in "+fname(f))
					}
				}
			}
			// escaping function values (not in call position)
			for _, op := range in.Operands(nil) {
				if op == nil || *op == nil {
					continue
				}
				fn, ok := (*op).(*ssa.Function)
				if !ok {
					continue
				}
				if ci, isCall := in.(ssa.CallInstruction); isCall && ci.Common().Value == ssa.Value(fn) {
					continue
				}
				if _, isMC := in.(*ssa.MakeClosure); isMC {
					continue // handled as closure creation edge
				}
				add(fn, "function value escapes in "+fname(f))
			}
		})
	}
	for len(work) > 0 {
		f := work[len(work)-1]
		work = work[:len(work)-1]
		why := reach[f]
		allInstrs(f, func(in ssa.Instruction) {
			if ci, ok := in.(ssa.CallInstruction); ok {
				if sc := ci.Common().StaticCallee(); sc != nil {
					add(sc, why)
				}
			}
			if mc, ok := in.(*ssa.MakeClosure); ok {
				if fn, ok := mc.Fn.(*ssa.Function); ok {
					add(fn, why)
				}
			}
		})
	}
	return reach
}

// loopCone returns the functions reachable from entry by same-goroutine edges (calls, defers, closures; not go statements).
func loopCone(p *Prog, entry *ssa.Function) map[*ssa.Function]bool {
	cone := map[*ssa.Function]bool{}
	var work []*ssa.Function
	add := func(f *ssa.Function) {
		if f == nil || f.Blocks == nil || cone[f] || !strings.HasPrefix(funcPkgPath(f), modPath) {
			return
		}
		cone[f] = true
		work = append(work, f)
	}
	add(entry)
	for len(work) > 0 {
		f := work[len(work)-1]
		work = work[:len(work)-1]
		allInstrs(f, func(in ssa.Instruction) {
			if _, isGo := in.(*ssa.Go); isGo {
				return
			}
			if ci, ok := in.(ssa.CallInstruction); ok {
				if sc := ci.Common().StaticCallee(); sc != nil {
					add(sc)
				}
			}
			if mc, ok := in.(*ssa.MakeClosure); ok {
				// closures created and used synchronously (callbacks); closures handed to `go` are
				// excluded because the Go instruction's MakeClosure operand is created right before it
				isGoTarget := false
				for _, ref := range *mc.Referrers() {
					if _, ok := ref.(*ssa.Go); ok {
						isGoTarget = true
					}
				}
				if !isGoTarget {
					if fn, ok := mc.Fn.(*ssa.Function); ok {
						add(fn)
					}
				}
			}
		})
	}
	return cone
}
