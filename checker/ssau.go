package main

// SSA utilities shared by the rules: guard dominance (E-dom), must-pass-through
// (E-must), who-may-call / who-may-touch (E-who), value tracing.

import (
	"fmt"
	"go/constant"
	"go/token"
	"go/types"
	"sort"
	"strings"

	"golang.org/x/tools/go/ssa"
)

// ---------- guard dominance ----------

// Guard is a branch condition whose edge dominates a block.
type Guard struct {
	Cond ssa.Value
	Pol  bool // true: the block is reached only through the true edge
	If   *ssa.If
}

// edgeDominates reports whether the CFG edge from->to dominates block b:
// `to` dominates b and every other predecessor of `to` is itself dominated by `to`
// (loop back-edges), so that the only way into `to` from outside is this edge.
func edgeDominates(from, to, b *ssa.BasicBlock) bool {
	if !to.Dominates(b) {
		return false
	}
	cnt := 0
	for _, p := range to.Preds {
		if p == from {
			cnt++
			continue
		}
		if !to.Dominates(p) {
			return false
		}
	}
	return cnt == 1
}

// guardsOf returns the branch conditions whose edge dominates block b
// (walking the dominator tree upwards).
func guardsOf(b *ssa.BasicBlock) []Guard {
	return expandGuards(guardsOfRaw(b))
}

func guardsOfRaw(b *ssa.BasicBlock) []Guard {
	var gs []Guard
	for a := b; a != nil; a = a.Idom() {
		gs = append(gs, mergedEdgeGuards(a)...)
	}
	for a := b.Idom(); a != nil; a = a.Idom() {
		if len(a.Instrs) == 0 {
			continue
		}
		iff, ok := a.Instrs[len(a.Instrs)-1].(*ssa.If)
		if !ok {
			continue
		}
		t, f := a.Succs[0], a.Succs[1]
		if t == f {
			continue
		}
		if edgeDominates(a, t, b) {
			gs = append(gs, Guard{iff.Cond, true, iff})
		} else if edgeDominates(a, f, b) {
			gs = append(gs, Guard{iff.Cond, false, iff})
		}
	}
	return gs
}

// mergedEdgeGuards: facts that hold in block a because every edge into a carries the same comparison on the
// corresponding operand of a phi of a. This is how go/ssa shapes `for i := range n` (and every rotated loop):
// the body is entered from the pre-header under `0 < n` and from the latch under `i+1 < n`, and the counter is
// phi(0, i+1); neither edge dominates the body, but together they give `counter < n`.
// The fact is returned as a synthetic comparison (Op, X = the phi, Y = the common operand) that is not part of
// the function's instruction stream.
var mergedGuardCache = map[*ssa.BasicBlock][]Guard{}

func mergedEdgeGuards(a *ssa.BasicBlock) []Guard {
	if gs, ok := mergedGuardCache[a]; ok {
		return gs
	}
	var out []Guard
	defer func() { mergedGuardCache[a] = out }()
	if len(a.Preds) < 2 {
		return nil
	}
	type cmp struct {
		op   token.Token
		x, y ssa.Value
		iff  *ssa.If
	}
	var edge []cmp
	for _, p := range a.Preds {
		if len(p.Instrs) == 0 {
			return nil
		}
		iff, ok := p.Instrs[len(p.Instrs)-1].(*ssa.If)
		if !ok || p.Succs[0] == p.Succs[1] {
			return nil
		}
		g := Guard{iff.Cond, p.Succs[0] == a, iff}.norm()
		bo, ok := g.Cond.(*ssa.BinOp)
		if !ok {
			return nil
		}
		op := bo.Op
		if !g.Pol {
			switch op {
			case token.LSS:
				op = token.GEQ
			case token.LEQ:
				op = token.GTR
			case token.GTR:
				op = token.LEQ
			case token.GEQ:
				op = token.LSS
			case token.EQL:
				op = token.NEQ
			case token.NEQ:
				op = token.EQL
			default:
				return nil
			}
		}
		edge = append(edge, cmp{op, bo.X, bo.Y, iff})
	}
	sameConstOrVal := func(u, v ssa.Value) bool {
		if u == v {
			return true
		}
		cu, ok1 := u.(*ssa.Const)
		cv, ok2 := v.(*ssa.Const)
		if ok1 && ok2 {
			a, oka := constInt(cu)
			b, okb := constInt(cv)
			return oka && okb && a == b
		}
		return false
	}
	for _, in := range a.Instrs {
		ph, ok := in.(*ssa.Phi)
		if !ok {
			break
		}
		// try phi as the left operand, then as the right operand
		for side := 0; side < 2; side++ {
			var common ssa.Value
			var op token.Token
			good := true
			for i, e := range edge {
				px, py := e.x, e.y
				eop := e.op
				if side == 1 {
					px, py = e.y, e.x
					switch eop {
					case token.LSS:
						eop = token.GTR
					case token.LEQ:
						eop = token.GEQ
					case token.GTR:
						eop = token.LSS
					case token.GEQ:
						eop = token.LEQ
					}
				}
				if !sameConstOrVal(px, ph.Edges[i]) {
					good = false
					break
				}
				if i == 0 {
					common, op = py, eop
				} else if !sameConstOrVal(common, py) || op != eop {
					good = false
					break
				}
			}
			if !good || common == nil {
				continue
			}
			// the common operand must be defined outside a (not another phi of a changing per edge)
			if cin, isIn := common.(ssa.Instruction); isIn && cin.Block() == a {
				continue
			}
			// entry edge's If for consumers that evaluate the other operand at the guard
			iff := edge[0].iff
			for i, p := range a.Preds {
				if !a.Dominates(p) {
					iff = edge[i].iff
				}
			}
			out = append(out, Guard{Cond: &ssa.BinOp{Op: op, X: ph, Y: common}, Pol: true, If: iff})
		}
	}
	return out
}

// expandGuards adds the facts implied by guards whose condition is a short-circuit value: go/ssa evaluates the
// case expressions of a tagless switch (and any `x := a && b`) as values, so `case p.canFast && amSeed(p):`
// branches on `true == phi(false [from !canFast], amSeed(p))`. If such a phi has the tested value, control came
// through the one edge that does not carry the opposite constant: the guards of that edge hold, and so does the
// edge's own value.
func expandGuards(gs []Guard) []Guard {
	out := append([]Guard{}, gs...)
	seen := map[ssa.Value]bool{}
	for i := 0; i < len(out) && i < 64; i++ {
		g := out[i].norm()
		// a bit of a locally accumulated mask is set: the one place that sets it was executed, under its guards
		// (provided |= cryptoPlaintext only if !ForceEncryption; later `provided&cryptoPlaintext != 0`)
		if site := bitSetSite(g); site != nil && !seen[site.(ssa.Value)] {
			seen[site.(ssa.Value)] = true
			out = append(out, guardsOfRaw(site.Block())...)
		}
		ph, ok := g.Cond.(*ssa.Phi)
		if !ok || seen[ph] {
			continue
		}
		seen[ph] = true
		cand := -1
		n := 0
		for k, e := range ph.Edges {
			if b, isb := constBool(e); isb && b != g.Pol {
				continue // this edge carries the opposite constant: not the way we came
			}
			cand = k
			n++
		}
		if n != 1 || cand >= len(ph.Block().Preds) {
			continue
		}
		pred := ph.Block().Preds[cand]
		if _, isC := ph.Edges[cand].(*ssa.Const); !isC {
			out = append(out, Guard{Cond: ph.Edges[cand], Pol: g.Pol, If: out[i].If})
		}
		out = append(out, guardsOfRaw(pred)...)
		out = append(out, edgeGuard(pred, ph.Block())...)
	}
	return out
}

// bitSetSite: the guard states that bit c of v is set (v&c != 0, v&c == c, !(v&c == 0)) where v is built in this
// function from 0 by `v |= const` steps (through phis); returns the unique OR instruction that sets that bit, if there
// is exactly one.
func bitSetSite(g Guard) ssa.Instruction {
	bo, ok := g.Cond.(*ssa.BinOp)
	if !ok || (bo.Op != token.EQL && bo.Op != token.NEQ) {
		return nil
	}
	and, ok := stripIntConv(bo.X).(*ssa.BinOp)
	k, okk := constInt(bo.Y)
	if !ok || !okk || and.Op != token.AND {
		return nil
	}
	v, c := and.X, and.Y
	bit, okb := constInt(c)
	if !okb {
		v, c = and.Y, and.X
		bit, okb = constInt(c)
	}
	if !okb || bit <= 0 || bit&(bit-1) != 0 {
		return nil
	}
	// polarity: is the bit set on this edge?
	var set bool
	switch {
	case k == 0:
		set = (bo.Op == token.NEQ) == g.Pol
	case k == bit:
		set = (bo.Op == token.EQL) == g.Pol
	default:
		return nil
	}
	if !set {
		return nil
	}
	var sites []ssa.Instruction
	bad := false
	seen := map[ssa.Value]bool{}
	var walk func(x ssa.Value, d int)
	walk = func(x ssa.Value, d int) {
		x = stripIntConv(x)
		if seen[x] || bad {
			return
		}
		seen[x] = true
		if d > 12 {
			bad = true
			return
		}
		switch y := x.(type) {
		case *ssa.Const:
			if kk, ok := constInt(y); !ok || kk&bit != 0 {
				bad = true // a constant that already carries the bit: no site to speak of
			}
		case *ssa.Phi:
			for _, e := range y.Edges {
				walk(e, d+1)
			}
		case *ssa.BinOp:
			if y.Op != token.OR {
				bad = true
				return
			}
			if kk, ok := constInt(y.Y); ok {
				if kk&bit != 0 {
					sites = append(sites, y)
				}
				walk(y.X, d+1)
			} else if kk, ok := constInt(y.X); ok {
				if kk&bit != 0 {
					sites = append(sites, y)
				}
				walk(y.Y, d+1)
			} else {
				bad = true
			}
		default:
			bad = true
		}
	}
	walk(v, 0)
	if bad || len(sites) != 1 {
		return nil
	}
	return sites[0]
}

// guardsOnEdge: the facts that hold when control takes the edge pred→to: the guards of pred, the edge's own
// branch condition, and what those imply (short-circuit values decomposed).
func guardsOnEdge(pred, to *ssa.BasicBlock) []Guard {
	return expandGuards(append(guardsOfRaw(pred), edgeGuard(pred, to)...))
}

// guardsAt returns the guards for the block of instr.
func guardsAt(instr ssa.Instruction) []Guard { return guardsOf(instr.Block()) }

// normalise strips `!` from a guard, flipping polarity.
func (g Guard) norm() Guard {
	for {
		if bo, ok := g.Cond.(*ssa.BinOp); ok && (bo.Op == token.EQL || bo.Op == token.NEQ) {
			// true == x, x != false, … (tagless switch cases)
			if b, isb := constBool(bo.X); isb {
				if _, isC := bo.X.(*ssa.Const); isC {
					g.Cond = bo.Y
					g.Pol = g.Pol == (b == (bo.Op == token.EQL))
					continue
				}
			}
			if b, isb := constBool(bo.Y); isb {
				if _, isC := bo.Y.(*ssa.Const); isC {
					g.Cond = bo.X
					g.Pol = g.Pol == (b == (bo.Op == token.EQL))
					continue
				}
			}
		}
		u, ok := g.Cond.(*ssa.UnOp)
		if !ok || u.Op != token.NOT {
			return g
		}
		g.Cond = u.X
		g.Pol = !g.Pol
	}
}

// instrIndex returns the index of instr in its block.
func instrIndex(instr ssa.Instruction) int {
	for i, x := range instr.Block().Instrs {
		if x == instr {
			return i
		}
	}
	return -1
}

// instrDominates: a executes before b on every path reaching b.
func instrDominates(a, b ssa.Instruction) bool {
	if a.Block() == b.Block() {
		return instrIndex(a) < instrIndex(b)
	}
	return a.Block().Dominates(b.Block())
}

// ---------- values ----------

// strip removes conversions that do not change identity for our purposes.
func strip(v ssa.Value) ssa.Value {
	for {
		switch x := v.(type) {
		case *ssa.ChangeType:
			v = x.X
		case *ssa.Convert:
			v = x.X
		case *ssa.MakeInterface:
			v = x.X
		case *ssa.ChangeInterface:
			v = x.X
		case *ssa.UnOp:
			// a parameter that lives in a cell because a closure captures it: the cell is written once, at entry, with
			// the parameter, and closures only read it — its loads are the parameter
			if p := paramCell(x); p != nil {
				v = p
				continue
			}
			return v
		default:
			return v
		}
	}
}

func paramCell(ld *ssa.UnOp) *ssa.Parameter {
	if ld.Op != token.MUL {
		return nil
	}
	al, ok := ld.X.(*ssa.Alloc)
	if !ok {
		return nil
	}
	var prm *ssa.Parameter
	for _, ref := range *al.Referrers() {
		switch x := ref.(type) {
		case *ssa.Store:
			if x.Addr != ssa.Value(al) || prm != nil {
				return nil
			}
			p, isP := x.Val.(*ssa.Parameter)
			if !isP {
				return nil
			}
			prm = p
		case *ssa.UnOp, *ssa.DebugRef:
		case *ssa.MakeClosure:
			if !closureOnlyReads(x, al) {
				return nil
			}
		default:
			return nil
		}
	}
	return prm
}

func constInt(v ssa.Value) (int64, bool) {
	c, ok := strip(v).(*ssa.Const)
	if !ok || c.Value == nil {
		return 0, false
	}
	if c.Value.Kind() != constant.Int {
		return 0, false
	}
	if i, ok := constant.Int64Val(c.Value); ok {
		return i, true
	}
	if u, ok := constant.Uint64Val(c.Value); ok {
		return int64(u), true
	}
	return 0, false
}

func isNilConst(v ssa.Value) bool {
	c, ok := v.(*ssa.Const)
	return ok && c.Value == nil
}

func constBool(v ssa.Value) (bool, bool) {
	c, ok := v.(*ssa.Const)
	if !ok || c.Value == nil || c.Value.Kind() != constant.Bool {
		return false, false
	}
	return constant.BoolVal(c.Value), true
}

func constString(v ssa.Value) (string, bool) {
	c, ok := v.(*ssa.Const)
	if !ok || c.Value == nil || c.Value.Kind() != constant.String {
		return "", false
	}
	return constant.StringVal(c.Value), true
}

// fieldVar returns the struct field a FieldAddr/Field instruction selects.
func fieldVar(v ssa.Value) *types.Var {
	switch x := v.(type) {
	case *ssa.FieldAddr:
		t := x.X.Type().Underlying()
		if pt, ok := t.(*types.Pointer); ok {
			t = pt.Elem().Underlying()
		}
		if st, ok := t.(*types.Struct); ok {
			return st.Field(x.Field)
		}
	case *ssa.Field:
		if st, ok := x.X.Type().Underlying().(*types.Struct); ok {
			return st.Field(x.Field)
		}
	}
	return nil
}

// loadedField: if v is a load (*p) of a field address, or a Field extract, return the field.
func loadedField(v ssa.Value) (*types.Var, ssa.Value) {
	v = strip(v)
	switch x := v.(type) {
	case *ssa.UnOp:
		if x.Op == token.MUL {
			if fa, ok := x.X.(*ssa.FieldAddr); ok {
				return fieldVar(fa), fa.X
			}
		}
	case *ssa.Field:
		return fieldVar(x), x.X
	case *ssa.Call:
		// x.f.Load() on a typed atomic (atomic.Bool, atomic.Uint32, …): a read of field f
		if h := x.Call.StaticCallee(); h != nil && h.Name() == "Load" && h.Pkg != nil && h.Pkg.Pkg.Path() == "sync/atomic" && len(x.Call.Args) == 1 {
			if fa, ok := x.Call.Args[0].(*ssa.FieldAddr); ok {
				return fieldVar(fa), fa.X
			}
		}
	}
	return nil, nil
}

// flagTest: the branch (cond, pol) tests a flag field against zero/false: returns the field and whether the flag is
// set on this edge. Forms: f != 0, f == 0, f > 0, atomic loads of f compared likewise, and f.Load() of an atomic.Bool.
func flagTest(cond ssa.Value, pol bool) (fv *types.Var, set bool, ok bool) {
	if c, isC := cond.(*ssa.Call); isC && isBoolType(c.Type()) {
		if f, _ := loadedField(c); f != nil {
			return f, pol, true
		}
	}
	bo, isB := cond.(*ssa.BinOp)
	if !isB {
		return nil, false, false
	}
	if k, okk := constInt(bo.Y); !okk || k != 0 {
		return nil, false, false
	}
	f, _ := loadedField(bo.X)
	if f == nil {
		if c, isC := stripIntConv(bo.X).(*ssa.Call); isC {
			if h := c.Call.StaticCallee(); h != nil && h.Pkg != nil && h.Pkg.Pkg.Path() == "sync/atomic" && strings.HasPrefix(h.Name(), "Load") && len(c.Call.Args) == 1 {
				if fa, okf := c.Call.Args[0].(*ssa.FieldAddr); okf {
					f = fieldVar(fa)
				}
			}
		}
	}
	if f == nil {
		return nil, false, false
	}
	switch bo.Op {
	case token.NEQ, token.GTR:
		return f, pol, true
	case token.EQL:
		return f, !pol, true
	}
	return nil, false, false
}

// staticCallee of a call instruction (nil for dynamic calls).
func calleeOf(instr ssa.Instruction) *ssa.Function {
	ci, ok := instr.(ssa.CallInstruction)
	if !ok {
		return nil
	}
	return ci.Common().StaticCallee()
}

// calleeObj returns the *types.Func called (static or interface method).
func calleeObj(instr ssa.Instruction) *types.Func {
	ci, ok := instr.(ssa.CallInstruction)
	if !ok {
		return nil
	}
	c := ci.Common()
	if c.IsInvoke() {
		return c.Method
	}
	if f := c.StaticCallee(); f != nil {
		if o, ok := f.Object().(*types.Func); ok {
			return o
		}
	}
	return nil
}

// isStdCall reports a call to pkgpath.name (function) or pkgpath.(T).name (method, recv = "T").
func isStdCall(instr ssa.Instruction, pkgpath, recv, name string) bool {
	o := calleeObj(instr)
	if o == nil || o.Name() != name || o.Pkg() == nil || o.Pkg().Path() != pkgpath {
		return false
	}
	sig := o.Type().(*types.Signature)
	if recv == "" {
		return sig.Recv() == nil
	}
	if sig.Recv() == nil {
		return false
	}
	t := sig.Recv().Type()
	if p, ok := t.(*types.Pointer); ok {
		t = p.Elem()
	}
	if n, ok := t.(*types.Named); ok {
		return n.Obj().Name() == recv
	}
	return false
}

// callArgs returns the argument list including the receiver for static method calls.
func callArgs(instr ssa.Instruction) []ssa.Value {
	ci, ok := instr.(ssa.CallInstruction)
	if !ok {
		return nil
	}
	return ci.Common().Args
}

// callsIn lists the call instructions (Call, Go, Defer) of fn in source order.
func callsIn(fn *ssa.Function) []ssa.CallInstruction {
	var out []ssa.CallInstruction
	for _, b := range fn.Blocks {
		for _, in := range b.Instrs {
			if ci, ok := in.(ssa.CallInstruction); ok {
				out = append(out, ci)
			}
		}
	}
	sort.SliceStable(out, func(i, j int) bool { return out[i].Pos() < out[j].Pos() })
	return out
}

// callSitesOf finds all static call sites of target in module source functions, and
// all other references (function value escapes).
func (p *Prog) callSitesOf(target *ssa.Function) (calls []ssa.CallInstruction, escapes []ssa.Instruction) {
	for _, f := range p.SrcFuncs() {
		for _, b := range f.Blocks {
			for _, in := range b.Instrs {
				if ci, ok := in.(ssa.CallInstruction); ok {
					if ci.Common().StaticCallee() == target {
						calls = append(calls, ci)
						// args may still reference target as value
						for _, a := range ci.Common().Args {
							if a == ssa.Value(target) {
								escapes = append(escapes, in)
							}
						}
						continue
					}
				}
				if mc, ok := in.(*ssa.MakeClosure); ok && mc.Fn == ssa.Value(target) {
					// a func literal bound to a local and only ever called (f := func(){…}; f(); f()):
					// its call sites are found above (StaticCallee sees through the closure value)
					onlyCalled := true
					for _, ref := range *mc.Referrers() {
						switch x := ref.(type) {
						case *ssa.DebugRef:
						case ssa.CallInstruction:
							if x.Common().Value != ssa.Value(mc) {
								onlyCalled = false
							}
							for _, a := range x.Common().Args {
								if a == ssa.Value(mc) {
									onlyCalled = false
								}
							}
						default:
							onlyCalled = false
						}
					}
					if onlyCalled {
						continue
					}
				}
				for _, op := range in.Operands(nil) {
					if op != nil && *op == ssa.Value(target) {
						escapes = append(escapes, in)
					}
				}
			}
		}
	}
	return
}

// fieldAccesses lists every FieldAddr/Field instruction selecting field fv in module source.
type fieldAccess struct {
	Fn    *ssa.Function
	Instr ssa.Instruction // the FieldAddr / Field
	Write bool            // some Store targets the address
	Read  bool
	Addr  bool // the address escapes to something other than load/store
}

func (p *Prog) fieldAccesses(fv *types.Var) []fieldAccess {
	var out []fieldAccess
	for _, f := range p.SrcFuncs() {
		for _, b := range f.Blocks {
			for _, in := range b.Instrs {
				switch x := in.(type) {
				case *ssa.FieldAddr:
					if fieldVar(x) != fv {
						continue
					}
					fa := fieldAccess{Fn: f, Instr: in}
					for _, u := range *x.Referrers() {
						switch y := u.(type) {
						case *ssa.Store:
							if y.Addr == ssa.Value(x) {
								fa.Write = true
							} else {
								fa.Addr = true
							}
						case *ssa.UnOp:
							if y.Op == token.MUL {
								fa.Read = true
							} else {
								fa.Addr = true
							}
						case *ssa.DebugRef:
						default:
							fa.Addr = true
						}
					}
					out = append(out, fa)
				case *ssa.Field:
					if fieldVar(x) != fv {
						continue
					}
					out = append(out, fieldAccess{Fn: f, Instr: in, Read: true})
				}
			}
		}
	}
	return out
}

// ---------- must-pass-through ----------

// exitsAvoiding explores forward from just after `start` and returns the exit
// instructions (Return, or Panic if panicsAreExits) reachable without executing
// an instruction for which stop() is true. Deferred closures are not expanded here.
func exitsAvoiding(start ssa.Instruction, stop func(ssa.Instruction) bool, panicsAreExits bool) []ssa.Instruction {
	var exits []ssa.Instruction
	seen := map[*ssa.BasicBlock]bool{}
	var walk func(b *ssa.BasicBlock, from int)
	walk = func(b *ssa.BasicBlock, from int) {
		for i := from; i < len(b.Instrs); i++ {
			in := b.Instrs[i]
			if stop(in) {
				return
			}
			switch in.(type) {
			case *ssa.Return:
				exits = append(exits, in)
				return
			case *ssa.Panic:
				if panicsAreExits {
					exits = append(exits, in)
				}
				return
			}
		}
		for _, s := range b.Succs {
			if !seen[s] {
				seen[s] = true
				walk(s, 0)
			}
		}
	}
	walk(start.Block(), instrIndex(start)+1)
	return exits
}

// reachableFrom returns the set of blocks reachable from b (inclusive).
func reachableFrom(b *ssa.BasicBlock) map[*ssa.BasicBlock]bool {
	seen := map[*ssa.BasicBlock]bool{b: true}
	st := []*ssa.BasicBlock{b}
	for len(st) > 0 {
		x := st[len(st)-1]
		st = st[:len(st)-1]
		for _, s := range x.Succs {
			if !seen[s] {
				seen[s] = true
				st = append(st, s)
			}
		}
	}
	return seen
}

// returnsOf lists the Return instructions of fn.
func returnsOf(fn *ssa.Function) []*ssa.Return {
	var out []*ssa.Return
	for _, b := range fn.Blocks {
		if len(b.Instrs) == 0 || b == fn.Recover {
			continue // fn.Recover is the synthetic landing block after a recovered panic
		}
		if r, ok := b.Instrs[len(b.Instrs)-1].(*ssa.Return); ok {
			out = append(out, r)
		}
	}
	sort.Slice(out, func(i, j int) bool { return out[i].Pos() < out[j].Pos() })
	return out
}

// deferredFuncs returns, for each Defer instruction of fn, the deferred callee
// (a closure body or a static function) if resolvable.
func deferredFunc(d *ssa.Defer) *ssa.Function {
	if f := d.Call.StaticCallee(); f != nil {
		return f
	}
	if mc, ok := d.Call.Value.(*ssa.MakeClosure); ok {
		if f, ok := mc.Fn.(*ssa.Function); ok {
			return f
		}
	}
	return nil
}

// anyInstr reports whether some instruction of fn (optionally transitively through
// anonymous functions defined in fn) satisfies pred.
func anyInstr(fn *ssa.Function, pred func(ssa.Instruction) bool) ssa.Instruction {
	for _, b := range fn.Blocks {
		for _, in := range b.Instrs {
			if pred(in) {
				return in
			}
		}
	}
	return nil
}

func allInstrs(fn *ssa.Function, visit func(ssa.Instruction)) {
	for _, b := range fn.Blocks {
		for _, in := range b.Instrs {
			visit(in)
		}
	}
}

// enclosingNamed returns the outermost named function containing fn (for closures).
func enclosingNamed(fn *ssa.Function) *ssa.Function {
	for fn.Parent() != nil {
		fn = fn.Parent()
	}
	return fn
}

// derefType strips one pointer.
func derefType(t types.Type) types.Type {
	if p, ok := t.Underlying().(*types.Pointer); ok {
		return p.Elem()
	}
	return t
}

func namedOf(t types.Type) *types.Named {
	t = derefType(t)
	n, _ := t.(*types.Named)
	return n
}

func typeIs(t types.Type, pkgpath, name string) bool {
	n := namedOf(t)
	if n == nil || n.Obj().Pkg() == nil {
		return false
	}
	return n.Obj().Pkg().Path() == pkgpath && n.Obj().Name() == name
}

// coAssigned: every store to the primary struct field (outside composite-literal initialisation) is
// followed, on every path to the function's exit, by a store to each partner field. Returns the number
// of primary stores examined. ("fields that describe one buffer are always reassigned together")
func coAssigned(r *Report, rule string, primary *types.Var, partners []*types.Var, scopePkg string) int {
	n := 0
	for _, f := range r.P.SrcFuncs() {
		if relPkg(f) != scopePkg {
			continue
		}
		allInstrs(f, func(in ssa.Instruction) {
			st, ok := in.(*ssa.Store)
			if !ok {
				return
			}
			fa, ok := st.Addr.(*ssa.FieldAddr)
			if !ok || fieldVar(fa) != primary {
				return
			}
			if al, isAlloc := fa.X.(*ssa.Alloc); isAlloc && al.Comment == "complit" {
				return // constructor literal
			}
			n++
			r.Fn(f)
			for _, pv := range partners {
				key := fmt.Sprintf("%s/store(%s)-then-store(%s)", fname(f), primary.Name(), pv.Name())
				exits := exitsAvoiding(st, func(i ssa.Instruction) bool { return storesFieldOrCallsSetter(i, pv, 0) }, false)
				if len(exits) > 0 {
					// the partner was reassigned first, in the same function (t.infoBitmap = nil; …; t.Info = make(…))
					if anyInstr(f, func(i ssa.Instruction) bool { return storesFieldOrCallsSetter(i, pv, 0) && instrDominates(i, st) }) != nil {
						exits = nil
					}
				}
				if len(exits) > 0 {
					// the store sits in a closure or private helper (fail := func(err error) … { t.Info = nil; return … })
					// and the partner is reassigned around every one of its calls, before or after
					private := f.Parent() != nil
					if !private {
						if obj, isF := f.Object().(*types.Func); isF && !obj.Exported() {
							private = true
						}
					}
					calls, esc := r.P.callSitesOf(f)
					if private && len(esc) == 0 && len(calls) > 0 {
						all := true
						for _, cs := range calls {
							ci, isCall := cs.(*ssa.Call)
							if !isCall || funcPkgPath(cs.Parent()) != funcPkgPath(f) {
								all = false
								break
							}
							g := cs.Parent()
							isP := func(i ssa.Instruction) bool { return storesFieldOrCallsSetter(i, pv, 0) }
							before := anyInstr(g, func(i ssa.Instruction) bool { return isP(i) && instrDominates(i, ci) }) != nil
							if !before && len(exitsAvoiding(ci, isP, false)) > 0 {
								all = false
								break
							}
						}
						if all {
							exits = nil
						}
					}
				}
				if len(exits) == 0 {
					r.Ok(rule, key, st.Pos(), "%s is reassigned together with %s on every path", pv.Name(), primary.Name())
				} else {
					r.Fail(rule, key, st.Pos(), "%s is assigned here but %s is not reassigned before the function returns (%s): the two describe the same buffer (a guard on one no longer protects an index into the other)", primary.Name(), pv.Name(), r.P.pos(exits[0].Pos()))
				}
			}
		})
	}
	return n
}

// storesFieldOrCallsSetter: the instruction stores to field fv, or calls a function of the module that does so on
// every path (clearMetadataBitmap(t)).
func storesFieldOrCallsSetter(i ssa.Instruction, fv *types.Var, d int) bool {
	if s2, ok := i.(*ssa.Store); ok {
		fa2, ok := s2.Addr.(*ssa.FieldAddr)
		return ok && fieldVar(fa2) == fv
	}
	c, ok := i.(*ssa.Call)
	if !ok || c.Call.IsInvoke() || d > 2 {
		return false
	}
	h := c.Call.StaticCallee()
	if h == nil || h.Blocks == nil || !strings.HasPrefix(funcPkgPath(h), modPath) || h == i.Parent() {
		return false
	}
	isRet := func(in ssa.Instruction) bool { _, ok := in.(*ssa.Return); return ok }
	has := anyInstr(h, func(in ssa.Instruction) bool { return storesFieldOrCallsSetter(in, fv, d+1) }) != nil
	if !has {
		return false
	}
	_, reached := pathsMissingAt(h.Blocks[0], 0, -1, isRet, func(in ssa.Instruction) bool { return storesFieldOrCallsSetter(in, fv, d+1) }, nil, nil)
	return reached == 0
}

func constantInt64(c *types.Const) (int64, bool) {
	if c.Val().Kind() != constant.Int {
		return 0, false
	}
	return constant.Int64Val(c.Val())
}

// retResults returns the values a Return yields, looking through the spill go/ssa emits in functions with
// defers (results are stored to allocs before `rundefers` and reloaded for the return).
func retResults(ret *ssa.Return) []ssa.Value {
	out := make([]ssa.Value, len(ret.Results))
	for i, v := range ret.Results {
		out[i] = v
		ld, ok := v.(*ssa.UnOp)
		if !ok || ld.Op != token.MUL || ld.Block() != ret.Block() {
			continue
		}
		al, ok := ld.X.(*ssa.Alloc)
		if !ok {
			continue
		}
		var last *ssa.Store
		for _, in := range ret.Block().Instrs {
			if in == ssa.Instruction(ld) {
				break
			}
			if st, ok := in.(*ssa.Store); ok && st.Addr == ssa.Value(al) {
				last = st
			}
		}
		if last != nil {
			out[i] = last.Val
		}
	}
	return out
}

// nilFact: the guard states that x is nil (isNil) or non-nil: `x == nil` / `x != nil` on either edge.
func nilFact(g Guard) (x ssa.Value, isNil bool, ok bool) {
	g = g.norm()
	bo, isb := g.Cond.(*ssa.BinOp)
	if !isb || (bo.Op != token.EQL && bo.Op != token.NEQ) {
		return nil, false, false
	}
	switch {
	case isNilConst(bo.Y):
		x = bo.X
	case isNilConst(bo.X):
		x = bo.Y
	default:
		return nil, false, false
	}
	return x, (bo.Op == token.EQL) == g.Pol, true
}

// cmpFact: the guard as a comparison with the edge's polarity folded into the operator.
func cmpFact(g Guard) (op token.Token, x, y ssa.Value, ok bool) {
	g = g.norm()
	bo, isb := g.Cond.(*ssa.BinOp)
	if !isb {
		return 0, nil, nil, false
	}
	op = bo.Op
	if !g.Pol {
		switch op {
		case token.LSS:
			op = token.GEQ
		case token.LEQ:
			op = token.GTR
		case token.GTR:
			op = token.LEQ
		case token.GEQ:
			op = token.LSS
		case token.EQL:
			op = token.NEQ
		case token.NEQ:
			op = token.EQL
		default:
			return 0, nil, nil, false
		}
	}
	switch op {
	case token.LSS, token.LEQ, token.GTR, token.GEQ, token.EQL, token.NEQ:
		return op, bo.X, bo.Y, true
	}
	return 0, nil, nil, false
}

// ---------- natural loops ----------

type natLoop struct {
	Head   *ssa.BasicBlock
	Blocks map[*ssa.BasicBlock]bool
}

// naturalLoops: one loop per header (back edges P→H with H dominating P; bodies of back edges sharing a header are merged).
func naturalLoops(f *ssa.Function) []*natLoop {
	byHead := map[*ssa.BasicBlock]*natLoop{}
	var order []*natLoop
	for _, b := range f.Blocks {
		for _, s := range b.Succs {
			if !s.Dominates(b) {
				continue
			}
			l := byHead[s]
			if l == nil {
				l = &natLoop{Head: s, Blocks: map[*ssa.BasicBlock]bool{s: true}}
				byHead[s] = l
				order = append(order, l)
			}
			// blocks that reach b without passing s
			work := []*ssa.BasicBlock{b}
			for len(work) > 0 {
				x := work[len(work)-1]
				work = work[:len(work)-1]
				if l.Blocks[x] {
					continue
				}
				l.Blocks[x] = true
				work = append(work, x.Preds...)
			}
		}
	}
	return order
}

// exitOf: the exit blocks of the loop that are entered only from the loop or from the loop's entry test (the block
// outside the loop that branches into its head — for a rotated loop the pre-header test `0 < n`). Code dominated by
// such a block runs only after the loop ran to its end (or zero times).
func (l *natLoop) cleanExits() []*ssa.BasicBlock {
	var entries []*ssa.BasicBlock
	for _, p := range l.Head.Preds {
		if !l.Blocks[p] {
			entries = append(entries, p)
		}
	}
	var out []*ssa.BasicBlock
	seen := map[*ssa.BasicBlock]bool{}
	for b := range l.Blocks {
		for _, s := range b.Succs {
			if l.Blocks[s] || seen[s] {
				continue
			}
			seen[s] = true
			ok := true
			for _, p := range s.Preds {
				if l.Blocks[p] {
					continue
				}
				isEntry := false
				for _, e := range entries {
					if e == p {
						isEntry = true
					}
				}
				if !isEntry {
					ok = false
				}
			}
			if ok {
				out = append(out, s)
			}
		}
	}
	return out
}

// ---------- digests ----------

// sha1Operand: v is (a slice / conversion of) the SHA-1 of some value x, computed at instruction `site` of the
// function v lives in: sha1.Sum(x) stored in a local array and sliced, or the result of a module-local helper that
// returns such a digest of one of its parameters (infoHash(info), digest(data)); then x is the argument passed.
func sha1Operand(v ssa.Value, d int) (x ssa.Value, site ssa.Instruction) {
	v = strip(v)
	if d > 3 || v == nil {
		return nil, nil
	}
	switch y := v.(type) {
	case *ssa.Slice:
		al, ok := y.X.(*ssa.Alloc)
		if !ok {
			return nil, nil
		}
		for _, ref := range *al.Referrers() {
			if st, ok := ref.(*ssa.Store); ok && st.Addr == ssa.Value(al) {
				if sc, ok := st.Val.(*ssa.Call); ok && isStdCall(sc, "crypto/sha1", "", "Sum") {
					return sc.Call.Args[0], sc
				}
			}
		}
	case *ssa.Call:
		if isStdCall(y, "crypto/sha1", "", "Sum") {
			return y.Call.Args[0], y
		}
		h := y.Call.StaticCallee()
		if h == nil || h.Blocks == nil || y.Call.IsInvoke() || !strings.HasPrefix(funcPkgPath(h), modPath) {
			return nil, nil
		}
		idx := -1
		for _, ret := range returnsOf(h) {
			res := retResults(ret)
			if len(res) != 1 {
				return nil, nil
			}
			x, _ := sha1Operand(res[0], d+1)
			prm, ok := x.(*ssa.Parameter)
			if !ok {
				return nil, nil
			}
			k := -1
			for i, pp := range h.Params {
				if pp == prm {
					k = i
				}
			}
			if k < 0 || (idx >= 0 && idx != k) {
				return nil, nil
			}
			idx = k
		}
		if idx >= 0 && idx < len(y.Call.Args) {
			return y.Call.Args[idx], y
		}
	}
	return nil, nil
}

// digestSites: every place in f where a SHA-1 is computed, directly or through such a helper, with its operand.
func digestSites(f *ssa.Function) (sites []ssa.Instruction, operands []ssa.Value) {
	allInstrs(f, func(in ssa.Instruction) {
		c, ok := in.(*ssa.Call)
		if !ok {
			return
		}
		if x, site := sha1Operand(c, 0); x != nil && site == ssa.Instruction(c) {
			sites = append(sites, c)
			operands = append(operands, x)
		}
	})
	return
}

// ---------- exit actions ----------

// exitAct: one thing a function does on its way out, because it was deferred: a call of a function, or the close of a
// channel. Deferred closures (and deferred module functions with a body) are expanded into the calls/closes they
// contain; a directly deferred call (`defer del(t.Hash)`, `defer close(t.Deleted)`) is one action.
type exitAct struct {
	Callee *ssa.Function // for calls
	Close  ssa.Value     // the channel, for close(ch)
	Instr  ssa.Instruction
	Defer  *ssa.Defer
}

// exitActions lists f's exit actions in the order they execute: defers run last-registered first; inside a deferred
// body the instructions keep their order (by position).
// exitProg is the program under analysis (call-site queries of exitActions).
var exitProg *Prog

func exitActions(f *ssa.Function) []exitAct {
	var defers []*ssa.Defer
	allInstrs(f, func(in ssa.Instruction) {
		if d, ok := in.(*ssa.Defer); ok {
			defers = append(defers, d)
		}
	})
	// registration order: by dominance, else by position
	sort.SliceStable(defers, func(i, j int) bool {
		if instrDominates(defers[i], defers[j]) {
			return true
		}
		if instrDominates(defers[j], defers[i]) {
			return false
		}
		return defers[i].Pos() < defers[j].Pos()
	})
	var out []exitAct
	for k := len(defers) - 1; k >= 0; k-- {
		d := defers[k]
		if bi, ok := d.Call.Value.(*ssa.Builtin); ok {
			if bi.Name() == "close" && len(d.Call.Args) == 1 {
				out = append(out, exitAct{Close: d.Call.Args[0], Instr: d, Defer: d})
			}
			continue
		}
		df := deferredFunc(d)
		if df == nil {
			continue
		}
		if df.Blocks == nil || (df.Parent() == nil && !strings.HasPrefix(funcPkgPath(df), modPath)) {
			out = append(out, exitAct{Callee: df, Instr: d, Defer: d})
			continue
		}
		// singleUse: an unexported function of f's package that is referred to from one place only — a closure body
		// that was given a name (defer t.terminate(); closeQueuedPeers() called from it): its body is read in place
		singleUse := func(g *ssa.Function) bool {
			obj, isFn := g.Object().(*types.Func)
			if !isFn || obj.Exported() || g.Parent() != nil || g.Blocks == nil || funcPkgPath(g) != funcPkgPath(f) || exitProg == nil {
				return false
			}
			calls, esc := exitProg.callSitesOf(g)
			return len(esc) == 0 && len(calls) == 1
		}
		if df.Parent() == nil {
			// a named module function deferred directly: the call itself is an action …
			out = append(out, exitAct{Callee: df, Instr: d, Defer: d})
			if !singleUse(df) {
				continue
			}
			// … and when it is a closure body that was given a name, so are the things it does
		}
		var expand func(g *ssa.Function, depth int)
		expand = func(g *ssa.Function, depth int) {
			var body []ssa.Instruction
			allInstrs(g, func(in ssa.Instruction) { body = append(body, in) })
			sort.SliceStable(body, func(i, j int) bool { return body[i].Pos() < body[j].Pos() })
			for _, in := range body {
				c, ok := in.(*ssa.Call)
				if !ok {
					continue
				}
				if bi, ok := c.Call.Value.(*ssa.Builtin); ok {
					if bi.Name() == "close" && len(c.Call.Args) == 1 {
						out = append(out, exitAct{Close: c.Call.Args[0], Instr: in, Defer: d})
					}
					continue
				}
				if cal := c.Call.StaticCallee(); cal != nil {
					out = append(out, exitAct{Callee: cal, Instr: in, Defer: d})
					if depth < 2 && singleUse(cal) {
						expand(cal, depth+1)
					}
				}
			}
		}
		expand(df, 0)
	}
	return out
}

// ---------- error variables ----------

// reachingStore: the one store whose value a load of a local cell reads: it dominates the load and no other store to
// the cell can execute between them. Named results and `err` variables reused for several calls live in such cells.
func reachingStore(ld *ssa.UnOp) *ssa.Store {
	if ld.Op != token.MUL {
		return nil
	}
	al, ok := ld.X.(*ssa.Alloc)
	if !ok {
		return nil
	}
	var stores []*ssa.Store
	for _, ref := range *al.Referrers() {
		switch x := ref.(type) {
		case *ssa.Store:
			if x.Addr == ssa.Value(al) {
				stores = append(stores, x)
			}
		case *ssa.UnOp, *ssa.DebugRef:
		case *ssa.MakeClosure:
			if !closureOnlyReads(x, al) {
				return nil
			}
		default:
			return nil // address escapes
		}
	}
	var best *ssa.Store
	for _, st := range stores {
		if !instrDominates(st, ld) {
			continue
		}
		if best == nil || instrDominates(best, st) {
			best = st
		}
	}
	if best == nil {
		return nil
	}
	isOther := func(in ssa.Instruction) bool {
		st, ok := in.(*ssa.Store)
		return ok && st != best && st.Addr == ssa.Value(al)
	}
	if pathHas(best, ld, isOther) {
		return nil
	}
	return best
}

// callOfValue: v is the idx-th result of call c: the call itself, an extract of it, or a load of a local cell that
// holds it at this point (err = check(…); if err != nil …).
func callOfValue(v ssa.Value) (c *ssa.Call, idx int) {
	switch y := v.(type) {
	case *ssa.Call:
		return y, 0
	case *ssa.Extract:
		if cc, ok := y.Tuple.(*ssa.Call); ok {
			return cc, y.Index
		}
	case *ssa.UnOp:
		if st := reachingStore(y); st != nil {
			if _, isLoad := st.Val.(*ssa.UnOp); !isLoad {
				return callOfValue(st.Val)
			}
		}
	}
	return nil, 0
}

func sortFuncs(fs []*ssa.Function) {
	sort.Slice(fs, func(i, j int) bool {
		if fs[i].Pos() != fs[j].Pos() {
			return fs[i].Pos() < fs[j].Pos()
		}
		return fs[i].String() < fs[j].String()
	})
}

// isBEDecode: c decodes a big-endian integer of the given width from the start of a byte slice:
// binary.BigEndian.UintNN(b), or a function of the module that takes one byte slice and returns a uintNN (be16(b)).
func isBEDecode(c *ssa.Call, bits int) bool {
	if c == nil {
		return false
	}
	name := fmt.Sprintf("Uint%d", bits)
	if o := calleeObj(c); o != nil && o.Name() == name && o.Pkg() != nil && o.Pkg().Path() == "encoding/binary" {
		return true
	}
	if c.Call.IsInvoke() {
		return false
	}
	h := c.Call.StaticCallee()
	if h == nil || h.Blocks == nil || !strings.HasPrefix(funcPkgPath(h), modPath) || len(h.Params) != 1 || !isByteSlice(h.Params[0].Type()) || h.Signature.Results().Len() != 1 {
		return false
	}
	b, ok := h.Signature.Results().At(0).Type().Underlying().(*types.Basic)
	if !ok {
		return false
	}
	return (bits == 16 && b.Kind() == types.Uint16) || (bits == 32 && b.Kind() == types.Uint32)
}
