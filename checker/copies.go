package main

import (
	"fmt"
	"go/token"
	"go/types"
	"strings"

	"golang.org/x/tools/go/ssa"
)

// State that belongs to an event loop leaves its goroutine only as a copy.
//
// The peer loop owns Peer.bitmap, Peer.fast, Peer.requested, …; the torrent loop owns the Torrent's tables. Other
// goroutines ask for them through request events and get the answer on a reply channel. A slice or map sent as it
// stands shares its backing store with the loop, which goes on mutating it while the asker reads it (a bitmap that
// changes under the scheduler's feet; a fast-set list that is appended to while it is ranged over).
//
// stateRefsSent reports, for the functions selected, every channel send whose value — or a field of the struct value
// sent — is a reference-typed field of the loop's state object loaded as it stands (possibly re-sliced), as opposed
// to the result of a call (Copy(), slices.Clone), a freshly made slice, or an append to a fresh slice.
func stateRefsSent(r *Report, rule string, sel func(f *ssa.Function) bool, isState func(t types.Type) bool, min int) {
	p := r.P
	isRef := func(t types.Type) bool {
		switch t.Underlying().(type) {
		case *types.Slice, *types.Map:
			return true
		}
		return false
	}
	// aliasOfState: v is a load of a field of a state object (through any chain of fields), possibly re-sliced
	var aliasOfState func(v ssa.Value, d int) (*types.Var, bool)
	aliasOfState = func(v ssa.Value, d int) (*types.Var, bool) {
		if d > 6 || v == nil || !isRef(v.Type()) {
			return nil, false
		}
		switch x := v.(type) {
		case *ssa.Slice:
			return aliasOfState(x.X, d+1)
		case *ssa.ChangeType:
			return aliasOfState(x.X, d+1)
		case *ssa.Phi:
			for _, e := range x.Edges {
				if fv, ok := aliasOfState(e, d+1); ok {
					return fv, true
				}
			}
			return nil, false
		}
		fv, base := loadedFieldAny(v)
		if fv == nil || base == nil {
			return nil, false
		}
		// the base: a state object, or a field chain hanging off one
		for i := 0; i < 5 && base != nil; i++ {
			if isState(base.Type()) {
				return fv, true
			}
			switch y := base.(type) {
			case *ssa.FieldAddr:
				base = y.X
			case *ssa.UnOp:
				base = y.X
			case *ssa.Field:
				base = y.X
			default:
				base = nil
			}
		}
		return nil, false
	}
	n := 0
	for _, f := range p.SrcFuncs() {
		if !sel(f) {
			continue
		}
		check := func(in ssa.Instruction, sent ssa.Value) {
			var vals []ssa.Value
			switch x := sent.(type) {
			case *ssa.MakeInterface:
				sent = x.X
			}
			vals = append(vals, sent)
			// a struct value built in a local and loaded: its fields
			if ld, ok := sent.(*ssa.UnOp); ok {
				if al, isAl := ld.X.(*ssa.Alloc); isAl {
					for _, ref := range *al.Referrers() {
						if fa, okf := ref.(*ssa.FieldAddr); okf {
							for _, r2 := range *fa.Referrers() {
								if st, oks := r2.(*ssa.Store); oks && st.Addr == ssa.Value(fa) {
									vals = append(vals, st.Val)
								}
							}
						}
					}
				}
			}
			for _, v := range vals {
				if !isRef(v.Type()) {
					continue
				}
				n++
				r.Fn(f)
				fv, bad := aliasOfState(v, 0)
				msg := ""
				if bad {
					msg = fmt.Sprintf("%s sends %s (field %s of the loop's own state) to another goroutine as it stands: the receiver shares the backing store with the loop, which keeps changing it — a data race on the bookkeeping the receiver decides from", fname(f), exprStr(v), fv.Name())
				}
				r.Check(!bad, rule, fmt.Sprintf("%s/sent-%s-is-a-copy", fname(f), typeShort(v.Type())), in.Pos(), "what is sent is a copy or a fresh value, not the loop's own slice or map", msg)
			}
		}
		allInstrs(f, func(in ssa.Instruction) {
			switch x := in.(type) {
			case *ssa.Send:
				check(in, x.X)
			case *ssa.Select:
				for _, st := range x.States {
					if st.Dir == types.SendOnly && st.Send != nil {
						check(in, st.Send)
					}
				}
			}
		})
	}
	r.Sentinel(rule+".replies", n, min)
}

// ---------- a slice handed to another goroutine is not written again ----------

func sliceRootOf(v ssa.Value, d int) ssa.Value {
	return sliceRootRec(v, map[ssa.Value]bool{})
}

// sliceRootRec: the allocation a slice value's backing array comes from, through re-slicing, appends and the phis of
// loops (values being resolved further up the recursion are loop-carried and say nothing new).
func sliceRootRec(v ssa.Value, busy map[ssa.Value]bool) ssa.Value {
	if v == nil || busy[v] {
		return nil
	}
	switch x := v.(type) {
	case *ssa.Slice:
		busy[v] = true
		defer delete(busy, v)
		if r := sliceRootRec(x.X, busy); r != nil {
			return r
		}
		return nil
	case *ssa.ChangeType:
		return sliceRootRec(x.X, busy)
	case *ssa.Call:
		if bi, ok := x.Call.Value.(*ssa.Builtin); ok && bi.Name() == "append" && len(x.Call.Args) > 0 {
			busy[v] = true
			defer delete(busy, v)
			return sliceRootRec(x.Call.Args[0], busy)
		}
	case *ssa.Phi:
		busy[v] = true
		defer delete(busy, v)
		var root ssa.Value
		for _, e := range x.Edges {
			r := sliceRootRec(e, busy)
			if r == nil {
				continue // loop-carried
			}
			if root != nil && r != root {
				return v
			}
			root = r
		}
		if root != nil {
			return root
		}
		return nil
	}
	return v
}

// flowsToSend: the value ends up — as it stands, re-sliced, or as a field of a struct value — in something that is
// sent on a channel, in this function or in a function of the module it is passed to.
func flowsToSend(v ssa.Value, d int, seen map[ssa.Value]bool) bool {
	if d > 5 || v == nil || seen[v] {
		return false
	}
	seen[v] = true
	refs := v.Referrers()
	if refs == nil {
		return false
	}
	for _, ref := range *refs {
		switch x := ref.(type) {
		case *ssa.Send:
			if x.X == v {
				return true
			}
		case *ssa.Select:
			for _, st := range x.States {
				if st.Send == v {
					return true
				}
			}
		case *ssa.MakeInterface:
			if flowsToSend(x, d, seen) {
				return true
			}
		case *ssa.Slice:
			if x.X == v && flowsToSend(x, d, seen) {
				return true
			}
		case *ssa.ChangeType:
			if flowsToSend(x, d, seen) {
				return true
			}
		case *ssa.Store:
			if x.Val != v {
				continue
			}
			// a field of a struct being built: the struct's loads
			if fa, ok := x.Addr.(*ssa.FieldAddr); ok {
				if al, isAl := fa.X.(*ssa.Alloc); isAl {
					for _, r2 := range *al.Referrers() {
						if ld, isLd := r2.(*ssa.UnOp); isLd && ld.Op == token.MUL && flowsToSend(ld, d, seen) {
							return true
						}
						if mi, isMI := r2.(*ssa.MakeInterface); isMI && flowsToSend(mi, d, seen) {
							return true
						}
					}
				}
			}
		case *ssa.Call:
			if x.Call.IsInvoke() {
				continue
			}
			h := x.Call.StaticCallee()
			if h == nil || h.Blocks == nil || !strings.HasPrefix(funcPkgPath(h), modPath) || len(x.Call.Args) != len(h.Params) {
				continue
			}
			for k, a := range x.Call.Args {
				if a == v && flowsToSend(h.Params[k], d+1, seen) {
					return true
				}
			}
		}
	}
	return false
}

// sentSlicesNotReused: in the loops' packages, a slice that is handed to another goroutine inside an event is not
// written again by the sender: no append to, store into or copy into a slice with the same backing array is
// reachable from the hand-over unless the array is made anew first. (indices = indices[:0] … request(t, p, indices)
// in a loop over peers hands every peer the same array and overwrites it while the earlier peers have not read it.)
func sentSlicesNotReused(r *Report, rule string, pkgs map[string]bool, min int) {
	p := r.P
	n := 0
	isSlice := func(t types.Type) bool { _, ok := t.Underlying().(*types.Slice); return ok }
	for _, f := range p.SrcFuncs() {
		if !pkgs[relPkg(f)] {
			continue
		}
		type ho struct {
			in   ssa.Instruction
			root ssa.Value
		}
		var hos []ho
		allInstrs(f, func(in ssa.Instruction) {
			c, ok := in.(*ssa.Call)
			if !ok || c.Call.IsInvoke() {
				return
			}
			h := c.Call.StaticCallee()
			if h == nil || h.Blocks == nil || !strings.HasPrefix(funcPkgPath(h), modPath) || len(c.Call.Args) != len(h.Params) {
				return
			}
			for k, a := range c.Call.Args {
				if !isSlice(a.Type()) {
					continue
				}
				if _, isConst := a.(*ssa.Const); isConst {
					continue
				}
				if flowsToSend(h.Params[k], 0, map[ssa.Value]bool{}) {
					hos = append(hos, ho{in, sliceRootOf(a, 0)})
				}
			}
		})
		// struct literals with a slice field sent from this function directly
		allInstrs(f, func(in ssa.Instruction) {
			st, ok := in.(*ssa.Store)
			if !ok || !isSlice(st.Val.Type()) {
				return
			}
			if _, isConst := st.Val.(*ssa.Const); isConst {
				return
			}
			fa, ok := st.Addr.(*ssa.FieldAddr)
			if !ok {
				return
			}
			if al, isAl := fa.X.(*ssa.Alloc); !isAl || al.Comment != "complit" {
				return
			}
			if flowsToSend(st.Val, 0, map[ssa.Value]bool{}) {
				hos = append(hos, ho{in, sliceRootOf(st.Val, 0)})
			}
		})
		if len(hos) == 0 {
			continue
		}
		r.Fn(f)
		writesRoot := func(in ssa.Instruction, root ssa.Value) bool {
			switch x := in.(type) {
			case *ssa.Call:
				if bi, ok := x.Call.Value.(*ssa.Builtin); ok {
					switch bi.Name() {
					case "append":
						// appending within the capacity of a re-sliced array writes into it
						if _, isSl := x.Call.Args[0].(*ssa.Slice); isSl || true {
							return sliceRootOf(x.Call.Args[0], 0) == root
						}
					case "copy":
						return sliceRootOf(x.Call.Args[0], 0) == root
					}
				}
			case *ssa.Store:
				if ia, ok := x.Addr.(*ssa.IndexAddr); ok {
					return sliceRootOf(ia.X, 0) == root
				}
			}
			return false
		}
		for _, h := range hos {
			if _, isMk := h.root.(*ssa.MakeSlice); !isMk {
				if _, isAl := h.root.(*ssa.Alloc); !isAl {
					continue // not an array this function made: judged where it was made
				}
			}
			n++
			var w ssa.Instruction
			allInstrs(f, func(in ssa.Instruction) {
				if w == nil && writesRoot(in, h.root) && reachesAvoidingDef(h.in, in, h.root) {
					w = in
				}
			})
			msg := ""
			if w != nil {
				msg = fmt.Sprintf("the slice handed to another goroutine here is written again at %s without its array having been made anew: the receiver reads it later, from its own goroutine, and finds what was written for somebody else (a peer enqueues another peer's blocks; its own are never counted off)", p.Fset.Position(w.Pos()))
			}
			r.Check(w == nil, rule, fmt.Sprintf("%s/handed-over-slice-not-reused", fname(f)), h.in.Pos(), "nothing writes into the array after it was handed over", msg)
		}
	}
	r.Sentinel(rule+".handed-over", n, min)
}
