package main

import (
	"fmt"
	"go/types"

	"golang.org/x/tools/go/ssa"
)

// State that belongs to an event loop leaves its goroutine only as a copy.
//
// The peer loop owns Peer.bitmap, Peer.fast, Peer.requested, …; the torrent loop owns the Torrent's tables. Other
// goroutines ask for them through request events and get the answer on a reply channel. A slice or map sent as it
// stands shares its backing store with the loop, which goes on mutating it while the asker reads it (a bitmap that
// changes under the scheduler's feet; a fast-set list that is appended to while it is ranged over).
//
// stateRefsSent reports, for the functions selected, every channel send whose value — or a field of the struct value
// sent — is a reference-typed field of the loop's state object loaded as it stands (possibly re-sliced), as opposed
// to the result of a call (Copy(), slices.Clone), a freshly made slice, or an append to a fresh slice.
func stateRefsSent(r *Report, rule string, sel func(f *ssa.Function) bool, isState func(t types.Type) bool, min int) {
	p := r.P
	isRef := func(t types.Type) bool {
		switch t.Underlying().(type) {
		case *types.Slice, *types.Map:
			return true
		}
		return false
	}
	// aliasOfState: v is a load of a field of a state object (through any chain of fields), possibly re-sliced
	var aliasOfState func(v ssa.Value, d int) (*types.Var, bool)
	aliasOfState = func(v ssa.Value, d int) (*types.Var, bool) {
		if d > 6 || v == nil || !isRef(v.Type()) {
			return nil, false
		}
		switch x := v.(type) {
		case *ssa.Slice:
			return aliasOfState(x.X, d+1)
		case *ssa.ChangeType:
			return aliasOfState(x.X, d+1)
		case *ssa.Phi:
			for _, e := range x.Edges {
				if fv, ok := aliasOfState(e, d+1); ok {
					return fv, true
				}
			}
			return nil, false
		}
		fv, base := loadedFieldAny(v)
		if fv == nil || base == nil {
			return nil, false
		}
		// the base: a state object, or a field chain hanging off one
		for i := 0; i < 5 && base != nil; i++ {
			if isState(base.Type()) {
				return fv, true
			}
			switch y := base.(type) {
			case *ssa.FieldAddr:
				base = y.X
			case *ssa.UnOp:
				base = y.X
			case *ssa.Field:
				base = y.X
			default:
				base = nil
			}
		}
		return nil, false
	}
	n := 0
	for _, f := range p.SrcFuncs() {
		if !sel(f) {
			continue
		}
		check := func(in ssa.Instruction, sent ssa.Value) {
			var vals []ssa.Value
			switch x := sent.(type) {
			case *ssa.MakeInterface:
				sent = x.X
			}
			vals = append(vals, sent)
			// a struct value built in a local and loaded: its fields
			if ld, ok := sent.(*ssa.UnOp); ok {
				if al, isAl := ld.X.(*ssa.Alloc); isAl {
					for _, ref := range *al.Referrers() {
						if fa, okf := ref.(*ssa.FieldAddr); okf {
							for _, r2 := range *fa.Referrers() {
								if st, oks := r2.(*ssa.Store); oks && st.Addr == ssa.Value(fa) {
									vals = append(vals, st.Val)
								}
							}
						}
					}
				}
			}
			for _, v := range vals {
				if !isRef(v.Type()) {
					continue
				}
				n++
				r.Fn(f)
				fv, bad := aliasOfState(v, 0)
				msg := ""
				if bad {
					msg = fmt.Sprintf("%s sends %s (field %s of the loop's own state) to another goroutine as it stands: the receiver shares the backing store with the loop, which keeps changing it — a data race on the bookkeeping the receiver decides from", fname(f), exprStr(v), fv.Name())
				}
				r.Check(!bad, rule, fmt.Sprintf("%s/sent-%s-is-a-copy", fname(f), typeShort(v.Type())), in.Pos(), "what is sent is a copy or a fresh value, not the loop's own slice or map", msg)
			}
		}
		allInstrs(f, func(in ssa.Instruction) {
			switch x := in.(type) {
			case *ssa.Send:
				check(in, x.X)
			case *ssa.Select:
				for _, st := range x.States {
					if st.Dir == types.SendOnly && st.Send != nil {
						check(in, st.Send)
					}
				}
			}
		})
	}
	r.Sentinel(rule+".replies", n, min)
}
