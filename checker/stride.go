package main

// Bounds lemmas for strided loops over compact (fixed-record) byte lists.
//
// Lemma A:  i ≡ 0 (mod k), len(s) ≡ 0 (mod k), i < len(s)        ⇒  i + k ≤ len(s)
// Lemma B:  0 ≤ i < len(s)/K, K ≥ 1                              ⇒  i*K + K ≤ len(s)
// Direct:   0 ≤ i, i < len(s) (dominating guard)                 ⇒  s[i] in bounds
//
// Each slice/index expression on a slice in the analysed function becomes one obligation;
// an expression none of the lemmas (nor the interval engine) proves is reported undecided.

import (
	"fmt"
	"go/token"
	"go/types"
	"strings"

	"golang.org/x/tools/go/ssa"
)

// symEq: structural equality of pure integer expressions (SSA has no CSE).
func symEq(a, b ssa.Value, d int) bool {
	if a == b {
		return true
	}
	if d > 6 {
		return false
	}
	switch x := a.(type) {
	case *ssa.Const:
		y, ok := b.(*ssa.Const)
		if !ok {
			return false
		}
		ca, ok1 := constInt(x)
		cb, ok2 := constInt(y)
		return ok1 && ok2 && ca == cb
	case *ssa.BinOp:
		y, ok := b.(*ssa.BinOp)
		if !ok || x.Op != y.Op {
			return false
		}
		if symEq(x.X, y.X, d+1) && symEq(x.Y, y.Y, d+1) {
			return true
		}
		if x.Op == token.ADD || x.Op == token.MUL {
			return symEq(x.X, y.Y, d+1) && symEq(x.Y, y.X, d+1)
		}
	case *ssa.Convert:
		y, ok := b.(*ssa.Convert)
		return ok && types.Identical(x.Type(), y.Type()) && symEq(x.X, y.X, d+1)
	case *ssa.Call:
		return sameLen(a, b)
	}
	return false
}

// loopCounter: v is a phi with one constant non-negative initial edge and otherwise v+step (step>0 const).
func loopCounter(v ssa.Value) (init, step int64, ok bool) {
	ph, isPhi := v.(*ssa.Phi)
	if !isPhi {
		return 0, 0, false
	}
	haveInit, haveStep := false, false
	for _, e := range ph.Edges {
		if c, okc := constInt(e); okc {
			if _, isC := e.(*ssa.Const); isC {
				if haveInit && c != init {
					return 0, 0, false
				}
				init, haveInit = c, true
				continue
			}
		}
		bo, isB := e.(*ssa.BinOp)
		if !isB || bo.Op != token.ADD {
			return 0, 0, false
		}
		var c int64
		var okc bool
		if bo.X == v {
			c, okc = constInt(bo.Y)
		} else if bo.Y == v {
			c, okc = constInt(bo.X)
		}
		if !okc || c <= 0 || (haveStep && c != step) {
			return 0, 0, false
		}
		step, haveStep = c, true
	}
	return init, step, haveInit && haveStep && init >= -1
}

// hasGuard: a dominating guard `x OP y` (after polarity normalisation) with the given predicate.
func hasGuard(b *ssa.BasicBlock, pred func(op token.Token, x, y ssa.Value) bool) bool {
	for _, g := range guardsOf(b) {
		g = g.norm()
		bo, ok := g.Cond.(*ssa.BinOp)
		if !ok {
			continue
		}
		op := bo.Op
		if !g.Pol {
			switch op {
			case token.LSS:
				op = token.GEQ
			case token.LEQ:
				op = token.GTR
			case token.GTR:
				op = token.LEQ
			case token.GEQ:
				op = token.LSS
			case token.EQL:
				op = token.NEQ
			case token.NEQ:
				op = token.EQL
			default:
				continue
			}
		}
		if pred(op, bo.X, bo.Y) {
			return true
		}
		// mirrored
		var mop token.Token
		switch op {
		case token.LSS:
			mop = token.GTR
		case token.LEQ:
			mop = token.GEQ
		case token.GTR:
			mop = token.LSS
		case token.GEQ:
			mop = token.LEQ
		default:
			mop = op
		}
		if pred(mop, bo.Y, bo.X) {
			return true
		}
	}
	return false
}

func isLenOf(v, s ssa.Value) bool {
	c, ok := v.(*ssa.Call)
	if !ok {
		return false
	}
	bi, ok := c.Call.Value.(*ssa.Builtin)
	return ok && bi.Name() == "len" && sameSliceVal(c.Call.Args[0], s)
}

// sameSliceVal: a and b denote the same slice value: the same SSA value, or two loads of the same field of the
// same local struct whose field is not stored to in the function and whose address escapes only through calls
// that complete before both loads (e.g. a decoder filling the struct).
func sameSliceVal(a, b ssa.Value) bool {
	if a == b {
		return true
	}
	la, ok1 := a.(*ssa.UnOp)
	lb, ok2 := b.(*ssa.UnOp)
	if !ok1 || !ok2 || la.Op != token.MUL || lb.Op != token.MUL {
		return false
	}
	if al, ok := la.X.(*ssa.Alloc); ok && la.X == lb.X {
		// loads of a local variable whose address was handed to a decoder before both loads
		for _, ref := range *al.Referrers() {
			switch x := ref.(type) {
			case *ssa.UnOp, *ssa.DebugRef:
			case *ssa.Store:
				if !(instrDominates(x, la) && instrDominates(x, lb)) {
					return false
				}
			case *ssa.MakeInterface:
				for _, r2 := range *x.Referrers() {
					in, ok := r2.(*ssa.Call)
					if !ok || !(instrDominates(in, la) && instrDominates(in, lb)) {
						if _, isd := r2.(*ssa.DebugRef); !isd {
							return false
						}
					}
				}
			case *ssa.Call:
				if !(instrDominates(x, la) && instrDominates(x, lb)) && !callOnlyReads(x, al) {
					return false
				}
			case *ssa.MakeClosure:
				// captured by a closure that only reads it (a parameter used inside a local func literal)
				if !closureOnlyReads(x, al) {
					return false
				}
			default:
				return false
			}
		}
		return true
	}
	fa, ok1 := la.X.(*ssa.FieldAddr)
	fb, ok2 := lb.X.(*ssa.FieldAddr)
	if !ok1 || !ok2 || fa.Field != fb.Field || fa.X != fb.X {
		return false
	}
	al, ok := fa.X.(*ssa.Alloc)
	if !ok {
		return false
	}
	for _, ref := range *al.Referrers() {
		switch x := ref.(type) {
		case *ssa.FieldAddr:
			if x.Field != fa.Field {
				continue
			}
			for _, r2 := range *x.Referrers() {
				switch r2.(type) {
				case *ssa.UnOp, *ssa.DebugRef:
				default:
					return false
				}
			}
		case *ssa.DebugRef:
		case *ssa.UnOp:
		case *ssa.Store:
			if x.Addr == ssa.Value(al) && !(instrDominates(x, la) && instrDominates(x, lb)) {
				return false
			}
		case *ssa.MakeInterface:
			// escapes into a call: every use of the interface value must be a call that precedes both loads
			for _, r2 := range *x.Referrers() {
				in, ok := r2.(*ssa.Call)
				if !ok || !(instrDominates(in, la) && instrDominates(in, lb)) {
					if _, isd := r2.(*ssa.DebugRef); !isd {
						return false
					}
				}
			}
		case *ssa.Call:
			if !(instrDominates(x, la) && instrDominates(x, lb)) && !callOnlyReads(x, al) {
				return false
			}
		default:
			return false
		}
	}
	return true
}

// callOnlyReads: the call hands the address of local al to a module-local function that only reads through the
// corresponding parameter (loads of it or of its fields; never stores, never passes it on).
func callOnlyReads(c *ssa.Call, al *ssa.Alloc) bool {
	h := c.Call.StaticCallee()
	if h == nil || h.Blocks == nil || c.Call.IsInvoke() || !strings.HasPrefix(funcPkgPath(h), modPath) {
		return false
	}
	var readOnly func(v ssa.Value, d int) bool
	readOnly = func(v ssa.Value, d int) bool {
		if d > 4 {
			return false
		}
		for _, ref := range *v.Referrers() {
			switch x := ref.(type) {
			case *ssa.DebugRef:
			case *ssa.UnOp:
				if x.Op != token.MUL {
					return false
				}
				// a loaded slice/pointer field could be written through; only value loads are followed no further
			case *ssa.FieldAddr:
				if !readOnly(x, d+1) {
					return false
				}
			case *ssa.IndexAddr:
				if !readOnly(x, d+1) {
					return false
				}
			default:
				return false
			}
		}
		return true
	}
	for i, a := range c.Call.Args {
		if a == ssa.Value(al) {
			if i >= len(h.Params) || !readOnly(h.Params[i], 0) {
				return false
			}
		}
	}
	return true
}

// splitAdd: v = base + c (c constant, possibly 0).
func splitAddConst(v ssa.Value) (ssa.Value, int64) {
	if bo, ok := v.(*ssa.BinOp); ok && bo.Op == token.SUB {
		if c, okc := constInt(bo.Y); okc {
			b, c2 := splitAddConst(bo.X)
			return b, c2 - c
		}
	}
	if bo, ok := v.(*ssa.BinOp); ok && bo.Op == token.ADD {
		if c, okc := constInt(bo.Y); okc {
			b, c2 := splitAddConst(bo.X)
			return b, c + c2
		}
		if c, okc := constInt(bo.X); okc {
			b, c2 := splitAddConst(bo.Y)
			return b, c + c2
		}
	}
	return v, 0
}

// provesLE proves  E + extra <= len(s)  at block b (extra constant >= 0). Returns the lemma used.
func provesLE(env *IntEnv, E ssa.Value, extra int64, s ssa.Value, b *ssa.BasicBlock) (string, bool) {
	if l, ok := provesLEPoly(env, E, extra, s, b); ok {
		return l, true
	}
	// interval
	{
		iv := env.At(E, b)
		// len(s) lower bound: look for facts on any len(s) call via guards is hard; use MakeSlice
		if ms, ok := s.(*ssa.MakeSlice); ok {
			l := env.At(ms.Len, b)
			if iv.Hi != posInf && satAdd(iv.Hi, extra) <= l.Lo {
				return "interval", true
			}
		}
		// s = x[lo:hi]: its length is hi - lo; when that difference is a constant or a single value plus a constant
		// (entry := data[i*stride : (i+1)*stride] has length stride), the interval of that value bounds it
		if sl, ok := s.(*ssa.Slice); ok && sl.High != nil {
			lo := polyConst(0)
			if sl.Low != nil {
				lo = polyOf(sl.Low, 0)
			}
			d := polyAdd(polyOf(sl.High, 0), lo, -1)
			if d.ok {
				var lenLo int64 = negInf
				cst := d.t[""]
				nonConst := 0
				var atom ssa.Value
				for k, c := range d.t {
					if k == "" || c == 0 {
						continue
					}
					nonConst++
					if c == 1 && !strings.Contains(k, "*") {
						atom = d.at[k]
					} else {
						atom = nil
					}
				}
				switch {
				case nonConst == 0:
					lenLo = cst
				case nonConst == 1 && atom != nil:
					lenLo = satAdd(env.At(atom, b).Lo, cst)
				}
				if lenLo != negInf && iv.Hi != posInf && satAdd(iv.Hi, extra) <= lenLo {
					return "interval (length of a re-slice is high - low)", true
				}
			}
		}
	}
	// io.Reader contract: n returned by Read(s) / ReadAtLeast(_, s, _) satisfies 0 <= n <= len(s)
	if ex, ok := E.(*ssa.Extract); ok && ex.Index == 0 && extra == 0 {
		if c, ok := ex.Tuple.(*ssa.Call); ok {
			for _, a := range c.Call.Args {
				if a == s {
					name := ""
					if c.Call.IsInvoke() {
						name = c.Call.Method.Name()
					} else if f := c.Call.StaticCallee(); f != nil {
						name = f.Name()
					}
					if name == "Read" || name == "ReadAtLeast" || name == "ReadFull" {
						return "count returned by " + name + " into this buffer", true
					}
				}
			}
		}
	}
	// symbolic: s = make([]T, x+c2), E = x+c  with c+extra <= c2
	if ms, ok := s.(*ssa.MakeSlice); ok {
		lb, lc := splitAddConst(ms.Len)
		eb, ec := splitAddConst(E)
		if symEq(lb, eb, 0) && ec+extra <= lc && ec >= 0 {
			return "made with a longer length (x+c)", true
		}
	}
	// Lemma A / direct: E = i + c
	base, c := splitAddConst(E)
	if init, step, ok := loopCounter(base); ok && init >= 0 {
		lt := hasGuard(b, func(op token.Token, x, y ssa.Value) bool {
			return op == token.LSS && x == base && isLenOf(y, s)
		})
		if lt {
			if c+extra <= 1 && init >= 0 {
				// i < len  =>  i + 1 <= len
				return "direct guard i < len", true
			}
			if init%step == 0 {
				cong := hasGuard(b, func(op token.Token, x, y ssa.Value) bool {
					if op != token.EQL {
						return false
					}
					z, okz := constInt(y)
					if !okz || z != 0 {
						return false
					}
					rem, okr := x.(*ssa.BinOp)
					if !okr || rem.Op != token.REM || !isLenOf(rem.X, s) {
						return false
					}
					k, okk := constInt(rem.Y)
					return okk && k == step
				})
				if cong && c+extra <= step {
					return fmt.Sprintf("lemma A (stride %d, len %% %d == 0)", step, step), true
				}
			}
		}
	}
	// plain variable with a dominating guard v < len(s) / v <= len(s)
	if extra <= 1 {
		ok := hasGuard(b, func(op token.Token, x, y ssa.Value) bool {
			if x != E || !isLenOf(y, s) {
				return false
			}
			return op == token.LSS || (op == token.LEQ && extra == 0)
		})
		if ok {
			return "dominating guard", true
		}
	}
	// Lemma B: E = i*K + e
	var M, e ssa.Value
	if bo, ok := E.(*ssa.BinOp); ok && bo.Op == token.ADD {
		if isMul(bo.X) {
			M, e = bo.X, bo.Y
		} else if isMul(bo.Y) {
			M, e = bo.Y, bo.X
		}
	} else if isMul(E) {
		M = E
	}
	if M != nil {
		mul := M.(*ssa.BinOp)
		for _, pair := range [][2]ssa.Value{{mul.X, mul.Y}, {mul.Y, mul.X}} {
			i, K := pair[0], pair[1]
			// (i+1)*K  ==  i*K + K
			if ib, ic := splitAddConst(i); ic == 1 && e == nil {
				if init, step, ok := loopCounter(ib); ok && step == 1 && init >= 0 && env.At(K, b).Lo >= 1 && extra == 0 {
					bound := hasGuard(b, func(op token.Token, x, y ssa.Value) bool {
						if op != token.LSS || x != ib {
							return false
						}
						q, okq := y.(*ssa.BinOp)
						return okq && q.Op == token.QUO && isLenOf(q.X, s) && symEq(q.Y, K, 0)
					})
					if bound {
						return "lemma B ((i+1)*K <= len for i < len/K)", true
					}
				}
			}
			init, step, ok := loopCounter(i)
			if !ok || step != 1 || init < 0 {
				continue
			}
			if env.At(K, b).Lo < 1 {
				continue
			}
			bound := hasGuard(b, func(op token.Token, x, y ssa.Value) bool {
				if op != token.LSS || x != i {
					return false
				}
				q, okq := y.(*ssa.BinOp)
				return okq && q.Op == token.QUO && isLenOf(q.X, s) && symEq(q.Y, K, 0)
			})
			if !bound {
				continue
			}
			// need e + extra <= K
			if e == nil {
				if kc := env.At(K, b); extra <= kc.Lo {
					return "lemma B (i < len/K)", true
				}
				continue
			}
			if env.At(e, b).Lo < 0 {
				continue
			}
			kb, kc := splitAddConst(K)
			eb, ec := splitAddConst(e)
			if symEq(kb, eb, 0) && ec+extra <= kc {
				return "lemma B (i < len/K, offset <= K)", true
			}
			if ei := env.At(e, b); ei.Hi != posInf && satAdd(ei.Hi, extra) <= env.At(K, b).Lo {
				return "lemma B (i < len/K, offset interval <= K)", true
			}
		}
	}
	return "", false
}

func isMul(v ssa.Value) bool {
	bo, ok := v.(*ssa.BinOp)
	return ok && bo.Op == token.MUL
}

func nonNegative(env *IntEnv, v ssa.Value, b *ssa.BasicBlock, d int) bool {
	if d > 5 {
		return false
	}
	if env.At(v, b).Lo >= 0 {
		return true
	}
	if init, _, ok := loopCounter(v); ok && init >= 0 {
		return true
	}
	if init, _, ok := symCounter(v, env, b); ok && init >= 0 {
		return true
	}
	if base, c := splitAddConst(v); base != v {
		if init, _, ok := loopCounter(base); ok && init+c >= 0 {
			return true
		}
	}
	if bo, ok := v.(*ssa.BinOp); ok && (bo.Op == token.ADD || bo.Op == token.MUL) {
		return nonNegative(env, bo.X, b, d+1) && nonNegative(env, bo.Y, b, d+1)
	}
	return false
}

// checkStrided emits one obligation per slice/index expression on a slice in f.
func checkStrided(r *Report, rule string, f *ssa.Function) int {
	env := &IntEnv{SameVal: sameLen}
	n := 0
	isSlice := func(t types.Type) bool {
		_, ok := t.Underlying().(*types.Slice)
		if ok {
			return true
		}
		b, okb := t.Underlying().(*types.Basic)
		return okb && b.Info()&types.IsString != 0
	}
	// uses that need extra bytes: binary.BigEndian.UintNN(x)
	extraNeed := func(v ssa.Value) int64 {
		need := int64(0)
		for _, ref := range *v.Referrers() {
			if c, ok := ref.(*ssa.Call); ok {
				if o := calleeObj(c); o != nil && o.Pkg() != nil && o.Pkg().Path() == "encoding/binary" {
					switch o.Name() {
					case "Uint16":
						need = max(need, 2)
					case "Uint32":
						need = max(need, 4)
					case "Uint64":
						need = max(need, 8)
					}
				}
			}
		}
		return need
	}
	allInstrs(f, func(in ssa.Instruction) {
		switch x := in.(type) {
		case *ssa.Slice:
			if !isSlice(x.X.Type()) {
				return
			}
			n++
			key := fmt.Sprintf("%s/%s", fname(f), exprStr(x))
			ok := true
			var lemmas []string
			hi := x.High
			if hi != nil {
				l, p := provesLE(env, hi, 0, x.X, x.Block())
				ok = ok && p
				lemmas = append(lemmas, "high: "+l)
				if x.Low != nil {
					// low <= high
					lb, lc := splitAddConst(x.Low)
					hb, hc := splitAddConst(hi)
					le := false
					if symEq(lb, hb, 0) && lc <= hc {
						le = true
					} else if hbo, isb := hi.(*ssa.BinOp); isb && hbo.Op == token.ADD {
						if (hbo.X == x.Low && nonNegative(env, hbo.Y, x.Block(), 0)) || (hbo.Y == x.Low && nonNegative(env, hbo.X, x.Block(), 0)) {
							le = true
						}
					}
					if !le && env.At(x.Low, x.Block()).Hi <= env.At(hi, x.Block()).Lo {
						le = true
					}
					if !le {
						blk := x.Block()
						le = polyGE0(polyAdd(polyOf(hi, 0), polyOf(x.Low, 0), -1), func(v ssa.Value) bool { return nonNegative(env, v, blk, 0) })
					}
					ok = ok && le && nonNegative(env, x.Low, x.Block(), 0)
					lemmas = append(lemmas, fmt.Sprintf("0<=low<=high: %v", le))
				}
			} else if x.Low != nil {
				need := extraNeed(x)
				l, p := provesLE(env, x.Low, need, x.X, x.Block())
				ok = ok && p && nonNegative(env, x.Low, x.Block(), 0)
				lemmas = append(lemmas, fmt.Sprintf("low(+%d): %s", need, l))
			}
			if ok {
				r.Ok(rule, key, x.Pos(), "slice bounds proved (%v)", lemmas)
			} else {
				r.Fail(rule, key, x.Pos(), "slice bounds of %s are not implied by the loop bound and the length/congruence guards (%v): a truncated or odd-sized list indexes past the end", exprStr(x), lemmas)
			}
		case *ssa.IndexAddr:
			if !isSlice(x.X.Type()) {
				return
			}
			n++
			key := fmt.Sprintf("%s/%s", fname(f), exprStr(x))
			l, p := provesLE(env, x.Index, 1, x.X, x.Block())
			if p && nonNegative(env, x.Index, x.Block(), 0) {
				r.Ok(rule, key, x.Pos(), "index in bounds (%s)", l)
			} else {
				r.Fail(rule, key, x.Pos(), "index %s is not implied in-bounds by the loop bound and the length/congruence guards", exprStr(x.Index))
			}
		}
	})
	return n
}

// symCounter: v is a loop counter phi(init, v+step) with a constant init >= 0 and a step that is a positive
// constant or a loop-invariant value (returned as step value).
func symCounter(v ssa.Value, env *IntEnv, b *ssa.BasicBlock) (init int64, step ssa.Value, ok bool) {
	ph, isPhi := v.(*ssa.Phi)
	if !isPhi {
		return 0, nil, false
	}
	haveInit := false
	for _, e := range ph.Edges {
		if c, okc := e.(*ssa.Const); okc {
			k, okk := constInt(c)
			if !okk || (haveInit && k != init) {
				return 0, nil, false
			}
			init, haveInit = k, true
			continue
		}
		bo, isB := e.(*ssa.BinOp)
		if !isB || bo.Op != token.ADD {
			return 0, nil, false
		}
		var st ssa.Value
		if bo.X == v {
			st = bo.Y
		} else if bo.Y == v {
			st = bo.X
		} else {
			return 0, nil, false
		}
		if step != nil && !symEq(step, st, 0) {
			return 0, nil, false
		}
		step = st
	}
	if !haveInit || step == nil || init < 0 {
		return 0, nil, false
	}
	// the step must not change inside the loop: a constant, a parameter, or a value defined in a block
	// that dominates the loop head
	if _, isC := step.(*ssa.Const); !isC {
		if in, isIn := step.(ssa.Instruction); isIn {
			if in.Block() == ph.Block() || !in.Block().Dominates(ph.Block()) {
				return 0, nil, false
			}
		}
	}
	if env.At(step, ph.Block()).Lo < 1 {
		return 0, nil, false
	}
	return init, step, true
}

// provesLEPoly: E + extra <= len(s) by comparing polynomial normal forms against upper-bound facts U <= len(s):
//
//	len(s) itself (when s = x[lo:hi] or make(n): its length is a known form);
//	g < len(s), g <= len(s)                      (dominating guards)        U = g+1, g
//	g < len(s)/K, K >= 1                         (lemma B)                  U = (g+1)*K
//	j < len(s), len(s) % K == 0, j = 0,K,2K,...  (lemma A)                  U = j+K
//
// The goal holds when U - E - extra is evidently >= 0 for some U.
func provesLEPoly(env *IntEnv, E ssa.Value, extra int64, s ssa.Value, b *ssa.BasicBlock) (string, bool) {
	pe := polyAdd(polyOf(E, 0), polyConst(extra), 1)
	nonneg := func(v ssa.Value) bool { return nonNegative(env, v, b, 0) }
	try := func(u poly) bool { return polyGE0(polyAdd(u, pe, -1), nonneg) }
	if lp, ok := sliceLenPoly(s, 0); ok && try(lp) {
		return "length of the locally built slice", true
	}
	found := ""
	one := polyConst(1)
	for _, g := range guardsOf(b) {
		g = g.norm()
		bo, ok := g.Cond.(*ssa.BinOp)
		if !ok {
			continue
		}
		op := bo.Op
		if !g.Pol {
			switch op {
			case token.LSS:
				op = token.GEQ
			case token.LEQ:
				op = token.GTR
			case token.GTR:
				op = token.LEQ
			case token.GEQ:
				op = token.LSS
			default:
				continue
			}
		}
		x, y := bo.X, bo.Y
		switch op {
		case token.GTR:
			x, y, op = y, x, token.LSS
		case token.GEQ:
			x, y, op = y, x, token.LEQ
		}
		if op != token.LSS && op != token.LEQ {
			continue
		}
		strict := op == token.LSS
		y = stripIntConv(y)
		// len(m) of a slice made in this function with a known length: compare against that length
		if lc, ok := y.(*ssa.Call); ok {
			if bi, okb := lc.Call.Value.(*ssa.Builtin); okb && bi.Name() == "len" {
				if ms, okm := lc.Call.Args[0].(*ssa.MakeSlice); okm {
					y = stripIntConv(ms.Len)
				}
			}
		}
		// x < len(s)  /  x <= len(s)
		if isLenOf(y, s) {
			u := polyOf(x, 0)
			if strict {
				u = polyAdd(u, one, 1)
			}
			if try(u) {
				return "dominating guard against len", true
			}
			// lemma A
			if strict {
				if init, step, okc := symCounter(stripIntConv(x), env, b); okc {
					cong := hasGuard(b, func(op token.Token, a, z ssa.Value) bool {
						if op != token.EQL {
							return false
						}
						if k, okz := constInt(z); !okz || k != 0 {
							return false
						}
						rem, okr := a.(*ssa.BinOp)
						return okr && rem.Op == token.REM && isLenOf(stripIntConv(rem.X), s) && symEq(stripIntConv(rem.Y), stripIntConv(step), 0)
					})
					// init must be a multiple of the step: 0 always is
					if cong && init == 0 {
						if try(polyAdd(polyOf(x, 0), polyOf(step, 0), 1)) {
							return "lemma A (counter in steps of K, len % K == 0)", true
						}
					}
				}
			}
			continue
		}
		// x < len(s)/K
		if q, okq := y.(*ssa.BinOp); okq && q.Op == token.QUO && strict && isLenOf(stripIntConv(q.X), s) {
			K := q.Y
			if env.At(K, b).Lo < 1 {
				continue
			}
			u := polyMul(polyAdd(polyOf(x, 0), one, 1), polyOf(K, 0))
			if try(u) {
				return "lemma B ((g+1)*K <= len for g < len/K)", true
			}
		}
	}
	return found, false
}

// closureOnlyReads: the closure mc captures the variable al and never stores through it (nor passes its
// address on): every use of the corresponding free variable is a load.
func closureOnlyReads(mc *ssa.MakeClosure, al *ssa.Alloc) bool {
	fn, ok := mc.Fn.(*ssa.Function)
	if !ok {
		return false
	}
	for i, b := range mc.Bindings {
		if b != ssa.Value(al) {
			continue
		}
		if i >= len(fn.FreeVars) {
			return false
		}
		for _, ref := range *fn.FreeVars[i].Referrers() {
			switch x := ref.(type) {
			case *ssa.DebugRef:
			case *ssa.UnOp:
				if x.Op != token.MUL {
					return false
				}
			default:
				return false
			}
		}
	}
	return true
}
