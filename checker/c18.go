package main

import (
	"fmt"
	"go/token"
	"go/types"
	"sort"
	"strings"

	"golang.org/x/tools/go/ssa"
)

func init() {
	register(&PropSpec{
		ID: "C18",
		Explanation: "Static decision of the structural conditions for 'privacy switches are honoured' — absence of side effects is a who-may-call plus guard-dominance question: " +
			"(R1) each privacy-relevant sink has one gated entry: dht.Announce is called only by (*Torrent).announce after the mode<=none return, with a port that is non-zero only under !hasProxy and mode>=normal; Tracker.Announce is invoked only by trackerAnnounceSingle, which is started only under t.useTrackers, with ports that are non-zero only under !hasProxy; the web-seed fetchers are called only by webseedGR/H, started only behind hasWebseeds, whose result requires useWebseeds; in peer.Run the external port, IPv6 address, version string and DHT Port message are produced only under !hasProxy(peer); tor.Server offers only unproxied torrents to the handshake and creates a peer only for an unproxied torrent; dht.Ping on a peer's address is gated by !hasProxy; " +
			"(R2) the three switches are written only at construction and in the TorSetConf handler, where every path assigns each of them from the corresponding request field (an early exit is accepted only behind a field-wise correct equality test), and are otherwise touched only inside the torrent's event loop; " +
			"(R3) the functions of packages tor and peer that can reach the network or the DHT are enumerated from the call graph and each is one of the gated entries above or a peer connection that honours the proxy.",
		Rules:       []string{"R1 sinks have one gated entry each (E-who + E-dom)", "R2 switches written only in New/TorSetConf, applied on every path, loop-confined (E-cone, E-must)", "R3 no other network-reaching path (call-graph enumeration)"},
		NotDecided:  []string{"an in-flight tracker or web-seed request started before the switch was turned off runs to completion (timing)", "what the C DHT library itself sends (outside the analysed program)"},
		Assumptions: []string{"config.ExternalPort and getIPv6 are the only producers of the listening port / IPv6 address", "cgo callbacks are outside the call graph"},
		Run:         runC18,
	})
}

// callTo: in is a call of function fn.
func hasCallGuard(b *ssa.BasicBlock, callee func(*ssa.Call) bool, pol bool) bool {
	for _, g := range guardsOf(b) {
		g = g.norm()
		if c, ok := g.Cond.(*ssa.Call); ok && callee(c) && g.Pol == pol {
			return true
		}
	}
	return false
}

// hasCallGuardAt: like hasCallGuard, for an instruction: also through callers of a private helper and through the
// outcome of a validation helper (Prog.factHolds).
func hasCallGuardAt(p *Prog, in ssa.Instruction, callee func(*ssa.Call) bool, pol bool) bool {
	return p.factHolds(in, func(g Guard) bool {
		c, ok := g.Cond.(*ssa.Call)
		return ok && callee(c) && g.Pol == pol
	}, 0)
}

func isNamedCall(pkg, name string) func(*ssa.Call) bool {
	return func(c *ssa.Call) bool {
		f := c.Call.StaticCallee()
		return f != nil && f.Name() == name && relPkg(f) == pkg
	}
}

// nonZeroDefsGuarded: every non-zero definition reaching v (through phis/converts/allocs) sits in a block satisfying guard.
func nonZeroDefsGuarded(v ssa.Value, guard func(b *ssa.BasicBlock) bool, depth int) (bool, string) {
	if depth > 8 {
		return false, "too deep"
	}
	switch x := v.(type) {
	case *ssa.Const:
		if c, ok := constInt(x); ok && c == 0 {
			return true, ""
		}
		if x.Value == nil {
			return true, ""
		}
		if s, ok := constString(x); ok && s == "" {
			return true, ""
		}
		return false, "non-zero constant " + x.String()
	case *ssa.Convert:
		return nonZeroDefsGuarded(x.X, guard, depth+1)
	case *ssa.ChangeType:
		return nonZeroDefsGuarded(x.X, guard, depth+1)
	case *ssa.Phi:
		for i, e := range x.Edges {
			if ok, why := nonZeroDefsGuardedAt(e, x.Block().Preds[i], guard, depth+1); !ok {
				return false, why
			}
		}
		return true, ""
	case *ssa.UnOp:
		if x.Op == token.MUL {
			if al, ok := x.X.(*ssa.Alloc); ok {
				for _, ref := range *al.Referrers() {
					if st, ok := ref.(*ssa.Store); ok && st.Addr == ssa.Value(al) {
						if ok, why := nonZeroDefsGuardedAt(st.Val, st.Block(), guard, depth+1); !ok {
							return false, why
						}
					}
				}
				return true, ""
			}
		}
	}
	// the result of a helper of the same package (dhtAnnouncePort(t, ipv6), trackerPorts(t)): every value it can
	// return is zero or chosen under the gate inside the helper
	{
		var call *ssa.Call
		idx := 0
		switch x := v.(type) {
		case *ssa.Call:
			call = x
		case *ssa.Extract:
			call, _ = x.Tuple.(*ssa.Call)
			idx = x.Index
		}
		if call != nil && !call.Call.IsInvoke() {
			if h := call.Call.StaticCallee(); h != nil && h.Blocks != nil && strings.HasPrefix(funcPkgPath(h), modPath) && call.Parent() != nil && funcPkgPath(h) == funcPkgPath(call.Parent()) {
				if guard(call.Block()) {
					return true, ""
				}
				for _, ret := range returnsOf(h) {
					res := retResults(ret)
					if idx >= len(res) {
						return false, "helper result missing"
					}
					if ok, why := nonZeroDefsGuardedAt(res[idx], ret.Block(), guard, depth+1); !ok {
						return false, why + " (in " + fname(h) + ")"
					}
				}
				return true, ""
			}
		}
	}
	if in, ok := v.(ssa.Instruction); ok {
		if guard(in.Block()) {
			return true, ""
		}
		return false, fmt.Sprintf("%s is computed on a path not dominated by the gate", exprStr(v))
	}
	return false, fmt.Sprintf("%s is not gated", exprStr(v))
}

func nonZeroDefsGuardedAt(v ssa.Value, at *ssa.BasicBlock, guard func(b *ssa.BasicBlock) bool, depth int) (bool, string) {
	if c, ok := v.(*ssa.Const); ok {
		if k, okk := constInt(c); okk && k == 0 {
			return true, ""
		}
		if c.Value == nil {
			return true, ""
		}
		if s, oks := constString(c); oks && s == "" {
			return true, ""
		}
		if guard(at) {
			return true, ""
		}
		return false, "non-zero constant " + c.String() + " assigned on a path not dominated by the gate"
	}
	return nonZeroDefsGuarded(v, guard, depth)
}

func runC18(r *Report) {
	p := r.P
	c18R1(r)
	c18R2(r)
	c18R3(r)
	// the global defaults of the switches come from the command line: nothing may freeze them at package initialisation
	c08FlagsAtInit(r, "R4")
	c18CodecAddsNothing(r, "R1")
	c18ProxyFailsClosed(r, "R1")
	_ = p
}

func c18R1(r *Report) {
	p := r.P
	torHasProxy := p.Func("tor", "Torrent.hasProxy")
	peerHasProxy := p.Func("peer", "hasProxy")
	if !r.Anchor("R1", "tor.(*Torrent).hasProxy", torHasProxy != nil) || !r.Anchor("R1", "peer.hasProxy", peerHasProxy != nil) {
		return
	}
	isTorHasProxy := func(c *ssa.Call) bool { return c.Call.StaticCallee() == torHasProxy }
	isPeerHasProxy := func(c *ssa.Call) bool { return c.Call.StaticCallee() == peerHasProxy }
	dhtMode := p.Field("tor", "Torrent", "dhtMode")
	useTrackers := p.Field("tor", "Torrent", "useTrackers")
	useWebseeds := p.Field("tor", "Torrent", "useWebseeds")
	if !r.Anchor("R1", "tor.Torrent.dhtMode/useTrackers/useWebseeds", dhtMode != nil && useTrackers != nil && useWebseeds != nil) {
		return
	}
	fieldMatch := func(fv *types.Var, pred func(op token.Token, k int64, pol bool) bool) func(g Guard) bool {
		return func(g Guard) bool {
			g = g.norm()
			if f2, _ := loadedField(g.Cond); f2 == fv {
				return pred(token.NEQ, 0, g.Pol) // bool field: cond true == (field != false)
			}
			bo, ok := g.Cond.(*ssa.BinOp)
			if !ok {
				return false
			}
			if f2, _ := loadedField(bo.X); f2 == fv {
				if k, okk := constInt(bo.Y); okk && pred(bo.Op, k, g.Pol) {
					return true
				}
			}
			return false
		}
	}
	fieldGuard := func(b *ssa.BasicBlock, fv *types.Var, pred func(op token.Token, k int64, pol bool) bool) bool {
		m := fieldMatch(fv, pred)
		for _, g := range guardsOf(b) {
			if m(g) {
				return true
			}
		}
		return false
	}
	// ---- (a) dht.Announce
	if da := p.Func("dht", "Announce"); r.Anchor("R1", "dht.Announce", da != nil) {
		calls, esc := p.callSitesOf(da)
		for _, e := range esc {
			r.Fail("R1", "dht.Announce/escapes", e.Pos(), "dht.Announce is used as a function value")
		}
		for _, cs := range calls {
			f := cs.Parent()
			r.Fn(f)
			key := "dht.Announce/called-from/" + fname(f)
			if !(relPkg(f) == "tor" && f.Name() == "announce") {
				r.Fail("R1", key, cs.Pos(), "dht.Announce is called from %s: a DHT announce that does not pass the mode gate of (*Torrent).announce", fname(f))
				continue
			}
			in := cs.(ssa.Instruction)
			// mode > none: dominated by !(dhtMode <= DhtNone)
			none, _ := configConst(p, "DhtNone")
			normal, _ := configConst(p, "DhtNormal")
			// (a dominating test, or the outcome of a helper that makes it: port, ok := t.dhtAnnouncePort(ipv6))
			gated := p.factHolds(in, fieldMatch(dhtMode, func(op token.Token, k int64, pol bool) bool {
				return (op == token.LEQ && k == none && !pol) || (op == token.GTR && k == none && pol) || (op == token.EQL && k == none && !pol) || (op == token.NEQ && k == none && pol) || (op == token.GEQ && k > none && pol)
			}), 0)
			r.Check(gated, "R1", key+"/mode-not-none", cs.Pos(), "the DHT announce is dominated by the mode > none test", "dht.Announce is not dominated by the `dhtMode <= DhtNone -> return` gate: a torrent whose DHT mode is 'none' announces itself")
			// port argument
			port := cs.Common().Args[2]
			okPort, why := nonZeroDefsGuarded(port, func(b *ssa.BasicBlock) bool {
				return hasCallGuard(b, isTorHasProxy, false) && fieldGuard(b, dhtMode, func(op token.Token, k int64, pol bool) bool {
					return (op == token.GEQ && k == normal && pol) || (op == token.LSS && k == normal && !pol) || (op == token.EQL && k == normal && pol)
				})
			}, 0)
			r.Check(okPort, "R1", key+"/port-only-normal-unproxied", cs.Pos(), "a port is advertised to the DHT only without a proxy and in normal mode", "the port passed to dht.Announce can be non-zero outside `!hasProxy() && dhtMode >= DhtNormal`: "+why)
		}
		r.Sentinel("R1.dht.Announce", len(calls), 1)
		// the initial announce in AddTorrent is made for the torrent that was actually added: it comes after the
		// statement that starts the torrent's loop, which is only reached when the torrent was entered in the table
		// (a rejected duplicate carries the global default mode, not the mode the user gave the torrent it duplicates)
		ann := p.Func("tor", "Torrent.announce")
		add := p.Func("tor", "AddTorrent")
		run := p.Func("tor", "Torrent.run")
		if ann != nil && add != nil && run != nil {
			var starts []ssa.Instruction
			allInstrs(add, func(in ssa.Instruction) {
				if g, ok := in.(*ssa.Go); ok {
					if fn := g.Call.StaticCallee(); fn != nil && (fn == run || anyInstr(fn, func(i ssa.Instruction) bool { return calleeOf(i) == run }) != nil) {
						starts = append(starts, in)
					}
				}
			})
			acalls, _ := p.callSitesOf(ann)
			for _, cs := range acalls {
				if cs.Parent() != add {
					continue
				}
				in := cs.(ssa.Instruction)
				okD := false
				for _, st := range starts {
					if instrDominates(st, in) {
						okD = true
					}
				}
				r.Check(okD, "R1", "AddTorrent/announce-after-loop-start", cs.Pos(), "the initial DHT announce is made only once the torrent has been added and its loop started",
					"AddTorrent announces to the DHT on a path that has not passed the statement that starts the torrent's loop: the announce is made even for a duplicate that is then rejected — with the global default DHT mode, although the user set the existing torrent's mode to none")
			}
		}
	}
	// ---- (b) Tracker.Announce (interface invoke)
	{
		n := 0
		tas := p.Func("tor", "trackerAnnounceSingle")
		for _, f := range p.SrcFuncs() {
			if pk := relPkg(f); pk == "tracker" {
				continue
			}
			allInstrs(f, func(in ssa.Instruction) {
				c, ok := in.(*ssa.Call)
				if !ok || !c.Call.IsInvoke() || c.Call.Method.Name() != "Announce" || !typeIs(c.Call.Value.Type(), modPath+"/tracker", "Tracker") {
					return
				}
				n++
				r.Fn(f)
				key := "Tracker.Announce/invoked-from/" + fname(f)
				if f != tas {
					r.Fail("R1", key, c.Pos(), "Tracker.Announce is invoked from %s: a tracker contact that does not pass the useTrackers gate", fname(f))
					return
				}
				// args: ctx, hash, myid, want, size, port4, port6, proxy, f
				for _, idx := range []int{5, 6} {
					okP, why := nonZeroDefsGuarded(c.Call.Args[idx], func(b *ssa.BasicBlock) bool { return hasCallGuard(b, isTorHasProxy, false) }, 0)
					r.Check(okP, "R1", fmt.Sprintf("%s/port%d-only-unproxied", key, idx-1), c.Pos(), "the listening port is given to the tracker only without a proxy", "the port passed to Tracker.Announce can be non-zero for a proxied torrent: "+why)
				}
			})
		}
		r.Sentinel("R1.Tracker.Announce", n, 1)
		if r.Anchor("R1", "tor.trackerAnnounceSingle", tas != nil) {
			calls, esc := p.callSitesOf(tas)
			for _, e := range esc {
				r.Fail("R1", "trackerAnnounceSingle/escapes", e.Pos(), "trackerAnnounceSingle is used as a function value")
			}
			ta := p.Func("tor", "trackerAnnounce")
			for _, cs := range calls {
				r.Check(cs.Parent() == ta, "R1", "trackerAnnounceSingle/called-from/"+fname(cs.Parent()), cs.Pos(), "started by trackerAnnounce", "trackerAnnounceSingle is started from "+fname(cs.Parent())+", not from trackerAnnounce")
			}
			if r.Anchor("R1", "tor.trackerAnnounce", ta != nil) {
				c2, _ := p.callSitesOf(ta)
				// the gate may also sit inside trackerAnnounce itself, before every start of an announce
				isSet := func(op token.Token, k int64, pol bool) bool { return op == token.NEQ && pol }
				innerGated := len(calls) > 0
				for _, cs := range calls {
					if cs.Parent() != ta || !fieldGuard(cs.(ssa.Instruction).Block(), useTrackers, isSet) {
						innerGated = false
					}
				}
				for _, cs := range c2 {
					in := cs.(ssa.Instruction)
					ok := innerGated || fieldGuard(in.Block(), useTrackers, isSet)
					r.Check(ok, "R1", "trackerAnnounce/under-useTrackers/"+fname(cs.Parent()), cs.Pos(), "tracker rounds run only while useTrackers is set", "trackerAnnounce is called on a path not dominated by t.useTrackers: trackers are contacted although tracker use is disabled")
				}
				r.Sentinel("R1.trackerAnnounce", len(c2), 1)
			}
		}
	}
	// ---- (c) web seeds
	{
		hw := p.Func("tor", "hasWebseeds")
		if r.Anchor("R1", "tor.hasWebseeds", hw != nil) {
			r.Fn(hw)
			// result requires useWebseeds: every return is (a phi/and of) the useWebseeds load: returns true only under useWebseeds
			okHW := true
			for _, ret := range returnsOf(hw) {
				v := ret.Results[0]
				if b, isb := constBool(v); isb && !b {
					continue
				}
				// value true possible: must be dominated by useWebseeds true, or be a phi whose non-false edges are
				guarded := func(b *ssa.BasicBlock) bool {
					return fieldGuard(b, useWebseeds, func(op token.Token, k int64, pol bool) bool { return op == token.NEQ && pol })
				}
				if guarded(ret.Block()) {
					continue
				}
				if ph, isPhi := v.(*ssa.Phi); isPhi {
					for i, e := range ph.Edges {
						if b, isb := constBool(e); isb && !b {
							continue
						}
						if !guarded(ph.Block().Preds[i]) && !edgeIsFieldTrue(ph.Block().Preds[i], ph.Block(), useWebseeds) {
							okHW = false
						}
					}
					continue
				}
				if fv, _ := loadedField(v); fv == useWebseeds {
					continue
				}
				okHW = false
			}
			r.Check(okHW, "R1", "hasWebseeds/requires-useWebseeds", hw.Pos(), "hasWebseeds can be true only when useWebseeds is set", "hasWebseeds can return true although useWebseeds is false")
			isHW := func(c *ssa.Call) bool { return c.Call.StaticCallee() == hw }
			for _, nm := range []string{"webseedGR", "webseedH"} {
				f := p.Func("tor", nm)
				if !r.Anchor("R1", "tor."+nm, f != nil) {
					continue
				}
				calls, esc := p.callSitesOf(f)
				for _, e := range esc {
					r.Fail("R1", nm+"/escapes", e.Pos(), "%s is used as a function value", nm)
				}
				for _, cs := range calls {
					in := cs.(ssa.Instruction)
					ok := hasCallGuardAt(p, in, isHW, true)
					r.Check(ok, "R1", nm+"/behind-hasWebseeds/"+fname(cs.Parent()), cs.Pos(), "a web-seed fetch is started only behind hasWebseeds(t)", nm+" is started on a path not dominated by hasWebseeds(t) == true: web seeds are contacted although web-seed use is disabled")
				}
				r.Sentinel("R1."+nm, len(calls), 1)
			}
			// the Get methods are called only from the fetchers
			for _, sp := range [][2]string{{"GetRight.Get", "webseedGR"}, {"Hoffman.Get", "webseedH"}} {
				g := p.Func("webseed", sp[0])
				if !r.Anchor("R1", "webseed."+sp[0], g != nil) {
					continue
				}
				calls, _ := p.callSitesOf(g)
				for _, cs := range calls {
					fetcher := p.Func("tor", sp[1])
					owner := enclosingNamed(cs.Parent())
					r.Check(owner.Name() == sp[1] || (fetcher != nil && relPkg(owner) == "tor" && p.inUnitOf(owner, fetcher)), "R1", "webseed."+sp[0]+"/called-from/"+fname(cs.Parent()), cs.Pos(), "called by its fetcher", "webseed."+sp[0]+" is called from "+fname(cs.Parent())+": a web-seed contact outside the gated fetcher")
				}
			}
			c18OneRequest(r, "R1")
		}
	}
	// ---- (d) peer.Run identity producers, and dht.Ping
	{
		n := 0
		for _, f := range p.SrcFuncs() {
			if relPkg(f) != "peer" {
				continue
			}
			allInstrs(f, func(in ssa.Instruction) {
				c, ok := in.(*ssa.Call)
				if !ok {
					return
				}
				what := ""
				switch {
				case isCallNamed(c, "config", "ExternalPort"):
					what = "config.ExternalPort (listening port)"
				case isCallNamed(c, "peer", "getIPv6"):
					what = "getIPv6 (local IPv6 address)"
				case isCallNamed(c, "dht", "Ping"):
					what = "dht.Ping (UDP datagram from the real address and the DHT/listening port to the peer)"
				}
				if what == "" {
					return
				}
				n++
				r.Fn(f)
				ok2 := hasCallGuardAt(p, c, isPeerHasProxy, false)
				r.Check(ok2, "R1", fmt.Sprintf("%s/%s-only-unproxied", fname(f), strings.Fields(what)[0]), c.Pos(), what+" is used only under !hasProxy(peer)",
					what+" is reached on a path not dominated by !hasProxy(peer): a proxied torrent reveals it to the peer")
			})
		}
		r.Sentinel("R1.peer-identity", n, 4)
		// version string and Port message in Run
		if run := p.Func("peer", "Run"); r.Anchor("R1", "peer.Run", run != nil) {
			r.Fn(run)
			allInstrs(run, func(in ssa.Instruction) {
				mi, ok := in.(*ssa.MakeInterface)
				if !ok {
					return
				}
				sl := litOf(mi)
				if sl == nil {
					return
				}
				switch sl.Type {
				case "protocol.Port":
					r.Check(hasCallGuardAt(p, mi, isPeerHasProxy, false), "R1", "peer.Run/Port-message-only-unproxied", mi.Pos(), "the DHT Port message is sent only without a proxy", "protocol.Port is sent to a peer of a proxied torrent")
				case "protocol.Extended0":
					for _, fld := range []string{"Version", "Port", "IPv6"} {
						v := sl.Fields[fld]
						if v == nil {
							continue
						}
						okV, why := nonZeroDefsGuarded(v, func(b *ssa.BasicBlock) bool { return hasCallGuard(b, isPeerHasProxy, false) }, 0)
						r.Check(okV, "R1", "peer.Run/Extended0."+fld+"-only-unproxied", mi.Pos(), "Extended0."+fld+" is filled in only without a proxy", "Extended0."+fld+" can be non-empty for a proxied torrent: "+why)
					}
				}
			})
		}
	}
	// ---- (e) incoming connections
	if srv := p.Func("tor", "Server"); r.Anchor("R1", "tor.Server", srv != nil) {
		r.Fn(srv)
		np := p.Func("tor", "Torrent.NewPeer")
		ih := p.Func("tor", "infoHashes")
		for _, ci := range callsIn(srv) {
			if np != nil && ci.Common().StaticCallee() == np {
				in := ci.(ssa.Instruction)
				r.Check(hasCallGuardAt(p, in, isTorHasProxy, false), "R1", "tor.Server/NewPeer-only-unproxied", ci.Pos(), "an incoming peer is created only for an unproxied torrent", "tor.Server creates a peer for an incoming connection without testing !t.hasProxy()")
			}
		}
		if r.Anchor("R1", "tor.infoHashes", ih != nil) {
			r.Fn(ih)
			// the hashes offered to the handshake are only those of unproxied torrents: inside infoHashes (and its
			// closures) the append to the result is dominated by !t.hasProxy() — or by `all` with every caller passing false
			okIH := false
			calls, _ := p.callSitesOf(ih)
			allFalse := len(calls) > 0
			for _, cs := range calls {
				if len(cs.Common().Args) == 0 {
					allFalse = false // parameterless: must filter unconditionally
					continue
				}
				if b, isb := constBool(cs.Common().Args[0]); !isb || b {
					allFalse = false
				}
			}
			for _, f := range p.SrcFuncs() {
				if enclosingNamed(f) != ih {
					continue
				}
				allInstrs(f, func(in ssa.Instruction) {
					c, ok := in.(*ssa.Call)
					if !ok {
						return
					}
					if bi, ok := c.Call.Value.(*ssa.Builtin); !ok || bi.Name() != "append" {
						return
					}
					if hasCallGuard(c.Block(), isTorHasProxy, false) {
						okIH = true
						return
					}
					// `all || !hasProxy`: append block has two preds; accept when every caller passes all=false and the
					// other way in is the !hasProxy edge
					if allFalse {
						for _, pb := range c.Block().Preds {
							if iff, ok := pb.Instrs[len(pb.Instrs)-1].(*ssa.If); ok {
								g := Guard{Cond: iff.Cond, Pol: pb.Succs[0] == c.Block()}.norm()
								if cc, ok := g.Cond.(*ssa.Call); ok && isTorHasProxy(cc) && !g.Pol {
									okIH = true
								}
							}
						}
					}
				})
			}
			r.Check(okIH, "R1", "tor.infoHashes/only-unproxied-offered", ih.Pos(), "only unproxied torrents are offered to the incoming handshake", "infoHashes no longer filters on !t.hasProxy(): the server handshake answers (with the torrent's peer id) for a proxied torrent before the connection is refused")
		}
	}
}

func edgeIsFieldTrue(from, to *ssa.BasicBlock, fv *types.Var) bool {
	if len(from.Instrs) == 0 {
		return false
	}
	iff, ok := from.Instrs[len(from.Instrs)-1].(*ssa.If)
	if !ok {
		return false
	}
	g := Guard{Cond: iff.Cond, Pol: from.Succs[0] == to}.norm()
	f2, _ := loadedField(g.Cond)
	return f2 == fv && g.Pol
}

func configConst(p *Prog, name string) (int64, bool) {
	pk := p.Pkg("config")
	if pk == nil {
		return 0, false
	}
	c, ok := pk.Types.Scope().Lookup(name).(*types.Const)
	if !ok {
		return 0, false
	}
	return constantInt64(c)
}

func c18R2(r *Report) {
	p := r.P
	run := p.Func("tor", "Torrent.run")
	he := p.Func("tor", "handleEvent")
	if !r.Anchor("R2", "tor.(*Torrent).run", run != nil) || !r.Anchor("R2", "tor.handleEvent", he != nil) {
		return
	}
	outside := outsideReach(p, map[*ssa.Function]bool{run: true})
	confMap := map[string]string{"dhtMode": "DhtMode", "useTrackers": "UseTrackers", "useWebseeds": "UseWebseeds"}
	type wr struct {
		st *ssa.Store
		fv *types.Var
	}
	var confStores []wr
	for fld := range confMap {
		fv := p.Field("tor", "Torrent", fld)
		if fv == nil {
			continue
		}
		for _, acc := range p.fieldAccesses(fv) {
			f := acc.Fn
			named := enclosingNamed(f)
			key := fmt.Sprintf("%s/%s/%s", fld, map[bool]string{true: "write", false: "read"}[acc.Write], fname(f))
			if acc.Write {
				fa := acc.Instr.(*ssa.FieldAddr)
				switch {
				case named.Name() == "New" && relPkg(named) == "tor":
					// … from the global default of the same switch (a torrent that nobody reconfigures lives with it)
					want := map[string]string{"dhtMode": "DefaultDhtMode", "useTrackers": "DefaultUseTrackers", "useWebseeds": "DefaultUseWebseeds"}[fld]
					got := ""
					for _, ref := range *fa.Referrers() {
						if st, ok := ref.(*ssa.Store); ok && st.Addr == ssa.Value(fa) {
							if ld, okl := st.Val.(*ssa.UnOp); okl && ld.Op == token.MUL {
								if g, okg := ld.X.(*ssa.Global); okg {
									got = g.Name()
								}
							}
							if _, isC := st.Val.(*ssa.Const); isC {
								got = "constant"
							}
						}
					}
					switch {
					case got == want:
						r.Ok("R2", key, acc.Instr.Pos(), "initialised at construction from config.%s", want)
					case strings.HasPrefix(got, "Default"):
						r.Fail("R2", key, acc.Instr.Pos(), "a new torrent's %s is initialised from config.%s, the global default of another switch: with differing defaults (-use-trackers without -use-webseeds) the torrent contacts what the user disabled until somebody reconfigures it", fld, got)
					default:
						r.Ok("R2", key, acc.Instr.Pos(), "initialised at construction")
					}
				case named == he:
					r.Ok("R2", key, acc.Instr.Pos(), "written by the event handler")
					for _, ref := range *fa.Referrers() {
						if st, ok := ref.(*ssa.Store); ok && st.Addr == ssa.Value(fa) {
							confStores = append(confStores, wr{st, fv})
						}
					}
				default:
					r.Fail("R2", key, acc.Instr.Pos(), "the privacy switch %s is written in %s, outside New and the TorSetConf handler", fld, fname(f))
				}
				continue
			}
			// reads: loop-confined, except the named exception
			if why, out := outside[named]; out {
				ann := p.Func("tor", "Torrent.announce")
				if fld == "dhtMode" && (named.Name() == "announce" || (ann != nil && relPkg(named) == "tor" && p.inUnitOf(named, ann))) {
					r.Ok("R2", key, acc.Instr.Pos(), "exception: AddTorrent calls t.announce from the adding goroutine right after starting the loop, before the handle is returned; it reads the value New stored")
					continue
				}
				r.Fail("R2", key, acc.Instr.Pos(), "the privacy switch %s is read in %s, which is reachable from outside the torrent's event loop (%s): the gate can read a stale or torn value", fld, fname(f), why)
			} else {
				r.Ok("R2", key, acc.Instr.Pos(), "read inside the event loop")
			}
		}
	}
	// TorSetConf: every path through the case stores each field from the corresponding Conf field
	var caseBlock *ssa.BasicBlock
	var evVal ssa.Value
	allInstrs(he, func(in ssa.Instruction) {
		ta, ok := in.(*ssa.TypeAssert)
		if !ok || !ta.CommaOk || typeShort(ta.AssertedType) != "peer.TorSetConf" {
			return
		}
		okv := extractOf2(ta, 1)
		evVal = extractOf2(ta, 0)
		for _, ref := range *okv.Referrers() {
			if iff, ok := ref.(*ssa.If); ok {
				caseBlock = iff.Block().Succs[0]
			}
		}
	})
	if caseBlock == nil {
		r.Fail("R2", "TorSetConf/case", he.Pos(), "no TorSetConf case found in handleEvent")
		return
	}
	for fld, cf := range confMap {
		fv := p.Field("tor", "Torrent", fld)
		key := "TorSetConf/applies-" + fld
		// the store of the right value
		var good []*ssa.Store
		for _, w := range confStores {
			if w.fv != fv || !caseBlock.Dominates(w.st.Block()) {
				continue
			}
			if f2, base := loadedFieldAny(w.st.Val); f2 != nil && f2.Name() == cf {
				// conf := c.Conf: a local copy of the event's configuration
				if al, isAl := base.(*ssa.Alloc); isAl {
					n := 0
					for _, ref := range *al.Referrers() {
						if st2, isSt := ref.(*ssa.Store); isSt && st2.Addr == ssa.Value(al) {
							n++
							base = st2.Val
						}
					}
					if n != 1 {
						base = al
					}
				}
				if f3, _ := loadedFieldAny(base); f3 != nil && f3.Name() == "Conf" {
					good = append(good, w.st)
				}
			}
		}
		if len(good) == 0 {
			r.Fail("R2", key, caseBlock.Instrs[0].Pos(), "the TorSetConf handler does not assign t.%s from c.Conf.%s", fld, cf)
			continue
		}
		// every path from the case entry to the function's exit passes that store, unless excused by a correct equality shortcut
		first := caseBlock.Instrs[0]
		isGood := func(in ssa.Instruction) bool {
			for _, g := range good {
				if in == ssa.Instruction(g) {
					return true
				}
			}
			return false
		}
		var ex []excuse
		allInstrs(he, func(in ssa.Instruction) {
			bo, ok := in.(*ssa.BinOp)
			if !ok || bo.Op != token.EQL || !caseBlock.Dominates(bo.Block()) {
				return
			}
			if correctConfEquality(bo, confMap) {
				ex = append(ex, excuse{bo, true})
			}
		})
		exits := unreportedExitsAny(first, isGood, ex)
		r.Check(len(exits) == 0, "R2", key, good[0].Pos(), "every path through the TorSetConf handler applies "+fld,
			fmt.Sprintf("a path through the TorSetConf handler returns without assigning t.%s from the request (e.g. an early 'nothing changed' exit whose comparison is not field-wise correct): the switch keeps its old value", fld))
	}
	_ = evVal
}

func extractOf2(v ssa.Value, k int) ssa.Value {
	for _, ref := range *v.Referrers() {
		if ex, ok := ref.(*ssa.Extract); ok && ex.Index == k {
			return ex
		}
	}
	return nil
}

// loadedFieldAny: like loadedField but also through Field of struct values.
func loadedFieldAny(v ssa.Value) (*types.Var, ssa.Value) {
	if v == nil {
		return nil, nil
	}
	if f, b := loadedField(v); f != nil {
		return f, b
	}
	if fx, ok := v.(*ssa.Field); ok {
		return fieldVar(fx), fx.X
	}
	if fa, ok := v.(*ssa.FieldAddr); ok {
		return fieldVar(fa), fa.X
	}
	return nil, nil
}

// correctConfEquality: bo is `c.Conf == peer.TorConf{…}` whose literal pairs each Conf field with the torrent field of the same meaning.
func correctConfEquality(bo *ssa.BinOp, confMap map[string]string) bool {
	st, ok := bo.X.Type().Underlying().(*types.Struct)
	if !ok {
		return false
	}
	var lit ssa.Value
	for _, side := range []ssa.Value{bo.X, bo.Y} {
		if ld, ok := side.(*ssa.UnOp); ok && ld.Op == token.MUL {
			if al, ok := ld.X.(*ssa.Alloc); ok && al.Comment == "complit" {
				lit = al
			}
		}
	}
	if lit == nil {
		return false
	}
	seen := 0
	for _, ref := range *lit.Referrers() {
		fa, ok := ref.(*ssa.FieldAddr)
		if !ok {
			continue
		}
		cf := st.Field(fa.Field).Name()
		for _, r2 := range *fa.Referrers() {
			s2, ok := r2.(*ssa.Store)
			if !ok {
				continue
			}
			tf, _ := loadedFieldAny(s2.Val)
			if tf == nil || confMap[tf.Name()] != cf {
				return false
			}
			seen++
		}
	}
	return seen == len(confMap)
}

// unreportedExitsAny: like unreportedExits, but a path is excused as soon as ANY excuse edge is taken.
func unreportedExitsAny(start ssa.Instruction, isReport func(ssa.Instruction) bool, excuses []excuse) []ssa.Instruction {
	seen := map[*ssa.BasicBlock]bool{}
	var out []ssa.Instruction
	var walk func(b *ssa.BasicBlock, from int)
	walk = func(b *ssa.BasicBlock, from int) {
		for i := from; i < len(b.Instrs); i++ {
			in := b.Instrs[i]
			if isReport(in) {
				return
			}
			switch t := in.(type) {
			case *ssa.Return:
				out = append(out, in)
				return
			case *ssa.Panic:
				return
			case *ssa.If:
				g := Guard{Cond: t.Cond, Pol: true}.norm()
				for si, succ := range b.Succs {
					pol := (si == 0) == g.Pol
					excused := false
					for _, ex := range excuses {
						if ex.V == g.Cond && ex.Pol == pol {
							excused = true
						}
					}
					if excused || seen[succ] {
						continue
					}
					seen[succ] = true
					walk(succ, 0)
				}
				return
			}
		}
		for _, succ := range b.Succs {
			if !seen[succ] {
				seen[succ] = true
				walk(succ, 0)
			}
		}
	}
	walk(start.Block(), instrIndex(start))
	return out
}

func c18R3(r *Report) {
	p := r.P
	// network primitives
	isNet := func(f *ssa.Function) string {
		if f == nil {
			return ""
		}
		pp := funcPkgPath(f)
		switch {
		case pp == "net" && (strings.HasPrefix(f.Name(), "Dial") || strings.HasPrefix(f.Name(), "Listen")):
			return "net." + f.Name()
		case pp == "net/http" && f.Name() == "Do":
			return "http.Client.Do"
		case pp == modPath+"/dht" && (f.Name() == "Announce" || f.Name() == "Ping"):
			return "dht." + f.Name()
		case pp == modPath+"/httpclient" && f.Name() == "Get":
			return "httpclient.Get"
		}
		return ""
	}
	allowed := map[string]string{
		"(*tor.Torrent).announce":   "DHT announce, gated by R1(a)",
		"tor.DialClient":            "peer connection; dials through t.proxy when set",
		"tor.GetTorrent":            "fetches a .torrent on the user's request through the given proxy",
		"peer.getIPv6":              "local UDP socket (no packet sent) to learn the IPv6 address; gated by R1(d)",
		"peer.handleMessage":        "dht.Ping on a Port message; gated by R1(d)",
		"tor.trackerAnnounceSingle": "tracker announce via the Tracker interface; gated by R1(b)",
		"tor.webseedGR":             "web-seed fetch; gated by R1(c)",
		"tor.webseedH":              "web-seed fetch; gated by R1(c)",
	}
	found := map[string]string{}
	for _, f := range p.SrcFuncs() {
		pk := relPkg(f)
		if pk != "tor" && pk != "peer" {
			continue
		}
		allInstrs(f, func(in ssa.Instruction) {
			ci, ok := in.(ssa.CallInstruction)
			if !ok {
				return
			}
			var what string
			if sc := ci.Common().StaticCallee(); sc != nil {
				what = isNet(sc)
			} else if ci.Common().IsInvoke() {
				m := ci.Common().Method
				if m.Name() == "DialContext" || m.Name() == "Dial" {
					what = "Dialer." + m.Name()
				}
			}
			if what != "" {
				found[fname(enclosingNamed(f))] = what
			}
		})
	}
	var names []string
	for n := range found {
		names = append(names, n)
	}
	sort.Strings(names)
	for _, n := range names {
		key := "network-reaching/" + n
		if why, ok := allowed[n]; ok {
			r.Ok("R3", key, token.NoPos, "%s reaches %s: %s", n, found[n], why)
		} else {
			r.Fail("R3", key, token.NoPos, "%s reaches the network (%s) and is not one of the gated entries of R1 nor a proxy-honouring peer connection: a new path on which a torrent's identity can leave the machine", n, found[n])
		}
	}
	r.Sentinel("R3", len(names), 4)
}

// c18OneRequest: the web-seed gate is evaluated once, by the event loop, when a fetch is scheduled; the fetcher runs
// in its own goroutine and cannot read the setting.  What the gate covers is therefore one pass over the scheduled
// range: the fetcher issues each request once, without waiting.  A fetcher that sleeps, or that issues a second
// request after the first (a retry), contacts the web seed at a time the gate never looked at — after the user has
// turned web seeds off.
func c18OneRequest(r *Report, rule string) {
	p := r.P
	gets := map[*ssa.Function]bool{}
	for _, nm := range []string{"GetRight.Get", "Hoffman.Get"} {
		if g := p.Func("webseed", nm); g != nil {
			gets[g] = true
		}
	}
	isTimed := func(c *ssa.Call) string {
		h := c.Call.StaticCallee()
		if h == nil || h.Pkg == nil || h.Pkg.Pkg.Path() != "time" {
			return ""
		}
		switch h.Name() {
		case "Sleep", "After", "NewTimer", "Tick", "NewTicker", "AfterFunc":
			return "time." + h.Name()
		case "Reset":
			return "Timer.Reset"
		}
		return ""
	}
	for _, nm := range []string{"webseedGR", "webseedH"} {
		f := p.Func("tor", nm)
		if f == nil {
			continue
		}
		// (a) the fetcher and the functions of package tor it calls do not wait on the clock
		seen := map[*ssa.Function]bool{}
		var timed ssa.Instruction
		what := ""
		var walk func(g *ssa.Function, d int)
		walk = func(g *ssa.Function, d int) {
			if seen[g] || d > 6 || g.Blocks == nil || timed != nil {
				return
			}
			seen[g] = true
			allInstrs(g, func(in ssa.Instruction) {
				c, ok := in.(*ssa.Call)
				if !ok || timed != nil {
					if mc, isMC := in.(*ssa.MakeClosure); isMC {
						walk(mc.Fn.(*ssa.Function), d+1)
					}
					return
				}
				if w := isTimed(c); w != "" {
					timed, what = in, w
					return
				}
				if h := c.Call.StaticCallee(); h != nil && !c.Call.IsInvoke() && relPkg(h) == "tor" {
					walk(h, d+1)
				}
			})
		}
		walk(f, 0)
		r.Fn(f)
		msg := ""
		pos := f.Pos()
		if timed != nil {
			pos = timed.Pos()
			msg = fmt.Sprintf("%s, run by the web-seed fetcher %s, waits on the clock (%s): what it requests afterwards is requested at a time when web seeds may have been turned off — the gate was evaluated only when the fetch was scheduled", fname(timed.Parent()), nm, what)
		}
		r.Check(timed == nil, rule, nm+"/fetcher-does-not-wait", pos, "no timer or sleep on the fetcher's paths", msg)
		// (b) no request after a request, except by moving on to the next part of the range (a loop iteration)
		// a request: a call of Get, or of a function of package tor that reaches one (fetchPart(ctx, ws, t, fc, w))
		reachMemo := map[*ssa.Function]bool{}
		var reachesGet func(g *ssa.Function, d int) bool
		reachesGet = func(g *ssa.Function, d int) bool {
			if gets[g] {
				return true
			}
			if v, ok := reachMemo[g]; ok {
				return v
			}
			reachMemo[g] = false
			if d > 4 || g.Blocks == nil || relPkg(g) != "tor" {
				return false
			}
			res := false
			allInstrs(g, func(in ssa.Instruction) {
				if c, ok := in.(*ssa.Call); ok && !c.Call.IsInvoke() && !res {
					if h := c.Call.StaticCallee(); h != nil && reachesGet(h, d+1) {
						res = true
					}
				}
			})
			reachMemo[g] = res
			return res
		}
		var sites []*ssa.Call
		allInstrs(f, func(in ssa.Instruction) {
			if c, ok := in.(*ssa.Call); ok && !c.Call.IsInvoke() {
				if h := c.Call.StaticCallee(); h != nil && h != f && reachesGet(h, 0) {
					sites = append(sites, c)
				}
			}
		})
		loops := naturalLoops(f)
		for _, e2 := range sites {
			var first *ssa.Call
			for _, e1 := range sites {
				if e1 == e2 {
					continue
				}
				heads := map[*ssa.BasicBlock]bool{}
				for _, l := range loops {
					if l.Blocks[e1.Block()] {
						heads[l.Head] = true
					}
				}
				seenB := map[*ssa.BasicBlock]bool{}
				var scan func(b *ssa.BasicBlock, idx int) bool
				scan = func(b *ssa.BasicBlock, idx int) bool {
					for _, in := range b.Instrs[idx:] {
						if in == ssa.Instruction(e2) {
							return true
						}
					}
					for _, s2 := range b.Succs {
						if !seenB[s2] && !heads[s2] {
							seenB[s2] = true
							if scan(s2, 0) {
								return true
							}
						}
					}
					return false
				}
				if scan(e1.Block(), instrIndex(e1)+1) {
					first = e1
					break
				}
			}
			msg := ""
			if first != nil {
				msg = fmt.Sprintf("this request is issued after the one at %s in the same pass (a retry): it goes out at a time the web-seed gate never looked at, possibly after web seeds were turned off for the torrent", p.Fset.Position(first.Pos()))
			}
			r.Check(first == nil, rule, nm+"/one-request-per-part", e2.Pos(), "no other request of the same pass precedes this one", msg)
		}
	}
}

// c18CodecAddsNothing: peer.Run leaves Version, Port and the addresses out of the extended handshake of a proxied
// torrent; that only helps if the encoder sends what the message says and nothing more.  Every value stored into the
// identity fields of the wire dictionary (extensionInfo.Version/Port/IPv4/IPv6) derives from the field of the same
// name of the Extended0 message being written, or is the zero value.
func c18CodecAddsNothing(r *Report, rule string) {
	p := r.P
	ei := p.Named("protocol", "extensionInfo")
	if !r.Anchor(rule, "protocol.extensionInfo", ei != nil) {
		return
	}
	ident := map[string]bool{"Version": true, "Port": true, "IPv4": true, "IPv6": true}
	isZero := func(v ssa.Value) bool {
		c, ok := v.(*ssa.Const)
		if !ok {
			return false
		}
		if c.Value == nil {
			return true
		}
		if k, okk := constInt(c); okk {
			return k == 0
		}
		return c.Value.ExactString() == `""`
	}
	var fromMsg func(v ssa.Value, name string, d int) bool
	fromMsg = func(v ssa.Value, name string, d int) bool {
		if d > 8 || v == nil {
			return false
		}
		if isZero(v) {
			return true
		}
		if fv, base := loadedFieldAny(v); fv != nil && base != nil {
			return fv.Name() == name && typeIs(derefType(base.Type()), modPath+"/protocol", "Extended0")
		}
		switch x := v.(type) {
		case *ssa.Convert:
			return fromMsg(x.X, name, d+1)
		case *ssa.ChangeType:
			return fromMsg(x.X, name, d+1)
		case *ssa.Slice:
			return fromMsg(x.X, name, d+1)
		case *ssa.Phi:
			for _, e := range x.Edges {
				if !fromMsg(e, name, d+1) {
					return false
				}
			}
			return true
		case *ssa.Call:
			// m.IPv6.AsSlice(), netip.Addr methods and other conversions of the one value
			if x.Call.IsInvoke() || len(x.Call.Args) == 0 {
				return false
			}
			h := x.Call.StaticCallee()
			if h == nil || h.Pkg == nil || strings.HasPrefix(h.Pkg.Pkg.Path(), modPath) && h.Blocks == nil {
				return false
			}
			for _, a := range x.Call.Args {
				if !fromMsg(a, name, d+1) {
					return false
				}
			}
			return true
		case *ssa.UnOp:
			// a spilled value receiver: t = local netip.Addr; *t = m.IPv6; t.AsSlice()
			if al, ok := x.X.(*ssa.Alloc); ok && x.Op.String() == "*" {
				return fromMsg(al, name, d+1)
			}
		case *ssa.Alloc:
			n := 0
			for _, ref := range *x.Referrers() {
				if st, ok := ref.(*ssa.Store); ok && st.Addr == ssa.Value(x) {
					n++
					if !fromMsg(st.Val, name, d+1) {
						return false
					}
				}
			}
			return n > 0
		}
		return false
	}
	n := 0
	for _, f := range p.SrcFuncs() {
		if !strings.HasPrefix(funcPkgPath(f), modPath) {
			continue
		}
		allInstrs(f, func(in ssa.Instruction) {
			st, ok := in.(*ssa.Store)
			if !ok {
				return
			}
			fa, ok := st.Addr.(*ssa.FieldAddr)
			if !ok {
				return
			}
			fv := fieldVar(fa)
			if fv == nil || !ident[fv.Name()] || namedOf(derefType(fa.X.Type())) != ei {
				return
			}
			n++
			r.Fn(f)
			r.Check(fromMsg(st.Val, fv.Name(), 0), rule, fmt.Sprintf("%s/extensionInfo.%s-from-the-message", fname(f), fv.Name()), st.Pos(), "the wire field carries the message's field of the same name, or nothing",
				fmt.Sprintf("the encoder puts into the handshake's %s field a value that does not come from the message's %s: a proxied torrent, whose handshake leaves the field empty on purpose, reveals it all the same", fv.Name(), fv.Name()))
		})
	}
	r.Sentinel(rule+".codec-identity", n, 4)
}

// c18ProxyFailsClosed: a torrent with a proxy reaches HTTP trackers and web seeds through httpclient.Get(network,
// proxy). The transport's Proxy function must never answer "no proxy, no error" for a non-empty proxy string — a
// proxy that cannot be parsed has to fail the request, not send it directly from the client's own address. The
// function stored in Transport.Proxy is therefore: nil only where the proxy string is empty; a literal whose returns
// hand on url.Parse's pair unchanged (URL and error together) or (nil, nil) only for the empty string; or
// http.ProxyURL(u) for a u that url.Parse returned with a nil error (ProxyURL(nil) means "direct").
func c18ProxyFailsClosed(r *Report, rule string) {
	p := r.P
	n := 0
	isParse := func(v ssa.Value) (*ssa.Call, int) {
		ex, ok := v.(*ssa.Extract)
		if !ok {
			return nil, -1
		}
		c, ok := ex.Tuple.(*ssa.Call)
		if !ok || !isStdCall(c, "net/url", "", "Parse") {
			return nil, -1
		}
		return c, ex.Index
	}
	emptyGuard := func(gs []Guard) bool {
		for _, g := range gs {
			op, x, y, ok := cmpFact(g)
			if !ok || op != token.EQL {
				continue
			}
			if s, isS := constString(y); isS && s == "" && isStringKind(x.Type()) {
				return true
			}
			if s, isS := constString(x); isS && s == "" && isStringKind(y.Type()) {
				return true
			}
		}
		return false
	}
	for _, f := range p.SrcFuncs() {
		if !strings.HasPrefix(funcPkgPath(f), modPath) {
			continue
		}
		allInstrs(f, func(in ssa.Instruction) {
			st, ok := in.(*ssa.Store)
			if !ok {
				return
			}
			fa, ok := st.Addr.(*ssa.FieldAddr)
			if !ok || fieldVar(fa) == nil || fieldVar(fa).Name() != "Proxy" || !typeIs(derefType(fa.X.Type()), "net/http", "Transport") {
				return
			}
			n++
			r.Fn(f)
			why := ""
			var judge func(v ssa.Value, gs []Guard, d int)
			judge = func(v ssa.Value, gs []Guard, d int) {
				if why != "" || d > 4 {
					return
				}
				switch x := v.(type) {
				case *ssa.Const:
					if x.IsNil() && !emptyGuard(gs) {
						why = "no proxy function is installed on a path on which the proxy string may be non-empty"
					}
				case *ssa.Phi:
					for i, e := range x.Edges {
						pb := x.Block().Preds[i]
						judge(e, append(append([]Guard{}, guardsOf(pb)...), expandGuards(edgeGuard(pb, x.Block()))...), d+1)
					}
				case *ssa.MakeClosure:
					fn, _ := x.Fn.(*ssa.Function)
					if fn == nil {
						why = "the proxy function cannot be resolved"
						return
					}
					r.Fn(fn)
					ne := newNilEnv(p)
					for _, ret := range returnsOf(fn) {
						res := retResults(ret)
						if len(res) != 2 {
							why = "unexpected signature"
							return
						}
						c0, i0 := isParse(res[0])
						c1, i1 := isParse(res[1])
						switch {
						case c0 != nil && c0 == c1 && i0 == 0 && i1 == 1:
						case ne.At(res[1], ret.Block()) == NonNil:
						case isNilConst(res[0]) && isNilConst(res[1]) && emptyGuard(guardsOf(ret.Block())):
						default:
							why = fmt.Sprintf("the proxy function can answer (%s, %s) at %s: not url.Parse's pair, not an error, and not the empty-string case", exprStr(res[0]), exprStr(res[1]), p.pos(ret.Pos()))
						}
					}
				case *ssa.Call:
					// proxyFunc(proxy): a function of the module that builds the proxy function — judged by what it returns
					if h := x.Call.StaticCallee(); h != nil && h.Blocks != nil && !x.Call.IsInvoke() && strings.HasPrefix(funcPkgPath(h), modPath) {
						r.Fn(h)
						for _, ret := range returnsOf(h) {
							res := retResults(ret)
							if len(res) != 1 {
								why = "unexpected constructor signature"
								return
							}
							judge(res[0], guardsOf(ret.Block()), d+1)
						}
						return
					}
					if !isStdCall(x, "net/http", "", "ProxyURL") || len(x.Call.Args) != 1 {
						why = "the proxy function comes from " + exprStr(x) + ", which is not judged"
						return
					}
					c, idx := isParse(x.Call.Args[0])
					if c == nil || idx != 0 {
						why = "http.ProxyURL is given a URL that does not come straight from url.Parse"
						return
					}
					errv := extractOf(c, 1)
					okErr := false
					for _, g := range guardsOf(x.Block()) {
						if xv, isNil, okn := nilFact(g); okn && isNil && errv != nil && xv == ssa.Value(errv) {
							okErr = true
						}
					}
					if !okErr {
						why = "http.ProxyURL(u) is built although url.Parse may have failed: u is then nil, and ProxyURL(nil) means that requests go out directly"
					}
				default:
					why = "the proxy function (" + exprStr(v) + ") is not of a form that is judged"
				}
			}
			judge(st.Val, guardsOf(st.Block()), 0)
			r.Check(why == "", rule, fname(f)+"/Transport.Proxy-fails-closed", st.Pos(), "a non-empty proxy string always yields its proxy or an error, never a direct connection",
				"the HTTP transport built for a proxied torrent can connect directly: "+why+" — an HTTP tracker or web seed is then contacted from the client's own address although the torrent is configured to go through a proxy")
		})
	}
	r.Sentinel(rule+".transport-proxy", n, 1)
}
