package main

// Polynomial normal forms over SSA integer values (degree <= 3), used to compare index expressions
// independently of how they are written: (i+1)*K - i*K == K, j+l+2 == j+(l+2), len(x[lo:hi]) == hi-lo.
// Atoms are SSA values that are not +,-,* of other values (identified by pointer; len(s) calls on the
// same slice value are one atom). Overflow is not modelled: the forms are used only for quantities
// already bounded by a slice length.

import (
	"fmt"
	"go/token"
	"sort"
	"strings"

	"golang.org/x/tools/go/ssa"
)

type poly struct {
	t  map[string]int64 // monomial key -> coefficient ("" is the constant term)
	at map[string]ssa.Value
	ok bool
}

func newPoly() poly { return poly{t: map[string]int64{}, at: map[string]ssa.Value{}, ok: true} }

func polyConst(c int64) poly {
	p := newPoly()
	if c != 0 {
		p.t[""] = c
	}
	return p
}

func (p poly) clean() poly {
	for k, c := range p.t {
		if c == 0 {
			delete(p.t, k)
		}
	}
	return p
}

func polyAdd(a, b poly, sign int64) poly {
	out := newPoly()
	out.ok = a.ok && b.ok
	for k, c := range a.t {
		out.t[k] += c
	}
	for k, c := range b.t {
		out.t[k] += sign * c
	}
	for k, v := range a.at {
		out.at[k] = v
	}
	for k, v := range b.at {
		out.at[k] = v
	}
	return out.clean()
}

func polyMul(a, b poly) poly {
	out := newPoly()
	out.ok = a.ok && b.ok
	for k, v := range a.at {
		out.at[k] = v
	}
	for k, v := range b.at {
		out.at[k] = v
	}
	for ka, ca := range a.t {
		for kb, cb := range b.t {
			var parts []string
			if ka != "" {
				parts = append(parts, strings.Split(ka, "*")...)
			}
			if kb != "" {
				parts = append(parts, strings.Split(kb, "*")...)
			}
			if len(parts) > 3 {
				out.ok = false
				continue
			}
			sort.Strings(parts)
			out.t[strings.Join(parts, "*")] += ca * cb
		}
	}
	return out.clean()
}

// isConst: the polynomial is a constant.
func (p poly) isConst() (int64, bool) {
	if !p.ok {
		return 0, false
	}
	switch len(p.t) {
	case 0:
		return 0, true
	case 1:
		if c, ok := p.t[""]; ok {
			return c, true
		}
	}
	return 0, false
}

func (p poly) String() string {
	var ks []string
	for k := range p.t {
		ks = append(ks, k)
	}
	sort.Strings(ks)
	var sb []string
	for _, k := range ks {
		sb = append(sb, fmt.Sprintf("%d·%s", p.t[k], k))
	}
	return strings.Join(sb, " + ")
}

func atomKey(v ssa.Value) string {
	// len(s): one atom per slice value
	if c, ok := v.(*ssa.Call); ok {
		if bi, okb := c.Call.Value.(*ssa.Builtin); okb && bi.Name() == "len" {
			return fmt.Sprintf("len@%p", c.Call.Args[0])
		}
	}
	return fmt.Sprintf("v@%p", v)
}

func polyOf(v ssa.Value, d int) poly {
	v = stripIntConv(v)
	if c, ok := v.(*ssa.Const); ok {
		if k, okk := constInt(c); okk {
			return polyConst(k)
		}
	}
	if d < 8 {
		switch x := v.(type) {
		case *ssa.BinOp:
			switch x.Op {
			case token.ADD:
				return polyAdd(polyOf(x.X, d+1), polyOf(x.Y, d+1), 1)
			case token.SUB:
				return polyAdd(polyOf(x.X, d+1), polyOf(x.Y, d+1), -1)
			case token.MUL:
				return polyMul(polyOf(x.X, d+1), polyOf(x.Y, d+1))
			case token.SHL:
				if k, ok := constInt(x.Y); ok && k >= 0 && k < 31 {
					return polyMul(polyOf(x.X, d+1), polyConst(1<<uint(k)))
				}
			}
		case *ssa.Call:
			if bi, ok := x.Call.Value.(*ssa.Builtin); ok && bi.Name() == "len" {
				if lp, ok := sliceLenPoly(x.Call.Args[0], d+1); ok {
					return lp
				}
			}
		}
	}
	p := newPoly()
	k := atomKey(v)
	p.t[k] = 1
	p.at[k] = v
	return p
}

// sliceLenPoly: the length of a slice value that was built in this function: make([]T, n), x[lo:hi].
func sliceLenPoly(s ssa.Value, d int) (poly, bool) {
	if d > 8 {
		return poly{}, false
	}
	switch x := s.(type) {
	case *ssa.MakeSlice:
		return polyOf(x.Len, d+1), true
	case *ssa.Slice:
		var hi poly
		if x.High != nil {
			hi = polyOf(x.High, d+1)
		} else {
			// len of the operand
			if al, ok := x.X.(*ssa.Alloc); ok {
				if n, okn := arrayLen(al); okn {
					hi = polyConst(n)
				} else {
					return poly{}, false
				}
			} else if lp, ok := sliceLenPoly(x.X, d+1); ok {
				hi = lp
			} else {
				hi = newPoly()
				k := fmt.Sprintf("len@%p", x.X)
				hi.t[k] = 1
			}
		}
		if x.Low != nil {
			return polyAdd(hi, polyOf(x.Low, d+1), -1), true
		}
		return hi, true
	}
	return poly{}, false
}

func arrayLen(al *ssa.Alloc) (int64, bool) {
	if at, ok := derefType(al.Type()).Underlying().(interface{ Len() int64 }); ok {
		return at.Len(), true
	}
	return 0, false
}

// lenPolyOf: len(s) as a polynomial (an atom when s is not built locally).
func lenPolyOf(s ssa.Value) poly {
	if lp, ok := sliceLenPoly(s, 0); ok {
		return lp
	}
	p := newPoly()
	p.t[fmt.Sprintf("len@%p", s)] = 1
	return p
}

// polyGE0: p >= 0 is evident: a non-negative constant, or every monomial has a non-negative coefficient and
// consists of atoms the caller knows to be non-negative.
func polyGE0(p poly, nonneg func(ssa.Value) bool) bool {
	if !p.ok {
		return false
	}
	for k, c := range p.t {
		if c < 0 {
			return false
		}
		if k == "" {
			continue
		}
		for _, a := range strings.Split(k, "*") {
			if strings.HasPrefix(a, "len@") {
				continue
			}
			v := p.at[a]
			if v == nil || nonneg == nil || !nonneg(v) {
				return false
			}
		}
	}
	return true
}

// divForm classifies how a count is derived from a size by integer division:
//
//	ceil     (a + K - 1) / K
//	floor    a / K
//	floor+1  a / K + 1        one too many whenever a is a multiple of K
//	pred+1   (a - 1) / K + 1  equals ceil only for a >= 1 (gives 1 for a == 0)
//
// num is the size a, den the divisor K (values, after widening conversions).
type divKind int

const (
	divOther divKind = iota
	divCeil
	divFloor
	divFloorPlus1
	divPredPlus1
)

func (k divKind) String() string {
	return [...]string{"other", "ceil", "floor", "floor+1", "(a-1)/K+1"}[k]
}

func divFormOf(v ssa.Value) (kind divKind, num, den ssa.Value) {
	v = stripIntConv(v)
	// pieceCount(psize, length): a function of the module whose only return yields a division form of its parameters
	if c, ok := v.(*ssa.Call); ok && !c.Call.IsInvoke() {
		if h := c.Call.StaticCallee(); h != nil && h.Blocks != nil && strings.HasPrefix(funcPkgPath(h), modPath) && h != c.Parent() && len(c.Call.Args) == len(h.Params) {
			rets := returnsOf(h)
			if len(rets) == 1 {
				if res := retResults(rets[0]); len(res) == 1 {
					rv := res[0]
					// int((uint64(size) + K - 1) / K): the quotient converted to the result type
					if cv, isCv := rv.(*ssa.Convert); isCv {
						if qb, isQ := cv.X.(*ssa.BinOp); isQ && (qb.Op == token.QUO || qb.Op == token.SHR) {
							rv = qb
						}
					}
					k, n, d := divFormOf(rv)
					back := func(x ssa.Value) ssa.Value {
						if x == nil {
							return nil
						}
						y := x
						for {
							switch z := y.(type) {
							case *ssa.Convert:
								y = z.X
								continue
							case *ssa.ChangeType:
								y = z.X
								continue
							}
							break
						}
						for i, pa := range h.Params {
							if ssa.Value(pa) == y {
								return c.Call.Args[i]
							}
						}
						return x
					}
					if k != divOther {
						return k, back(n), back(d)
					}
				}
			}
		}
	}
	// n := a / K; if a % K > 0 { n++ }  — the floor, plus one exactly when there is a remainder: the ceiling
	if ph, ok := v.(*ssa.Phi); ok && len(ph.Edges) == 2 {
		for i := 0; i < 2; i++ {
			base, inc := stripIntConv(ph.Edges[i]), stripIntConv(ph.Edges[1-i])
			b2, c := splitAddConst(inc)
			if c != 1 || stripIntConv(b2) != base {
				continue
			}
			q, okq := base.(*ssa.BinOp)
			if !okq || q.Op != token.QUO {
				continue
			}
			if _, isAtomN := stripIntConv(q.X).(*ssa.BinOp); isAtomN {
				continue
			}
			// the incremented edge is taken exactly when a % K != 0
			remNZ := func(gs []Guard, want bool) bool {
				for _, g := range gs {
					op, x, y, okc := cmpFact(g)
					if !okc {
						continue
					}
					z, okz := constInt(y)
					r, okr := stripIntConv(x).(*ssa.BinOp)
					if !okz || z != 0 || !okr || r.Op != token.REM {
						continue
					}
					if stripIntConv(r.X) != stripIntConv(q.X) && !sameQuietFieldLoad(r.X, q.X) {
						continue
					}
					pk1, pk2 := polyOf(r.Y, 0), polyOf(q.Y, 0)
					if d := polyAdd(pk1, pk2, -1); !d.ok || len(d.t) != 0 {
						continue
					}
					nz := op == token.NEQ || op == token.GTR
					zr := op == token.EQL || op == token.LEQ
					if (want && nz) || (!want && zr) {
						return true
					}
				}
				return false
			}
			blk := ph.Block()
			if 1-i < len(blk.Preds) && i < len(blk.Preds) && remNZ(guardsOnEdge(blk.Preds[1-i], blk), true) {
				return divCeil, stripIntConv(q.X), q.Y
			}
		}
	}
	plus := int64(0)
	if base, c := splitAddConst(v); base != v {
		v, plus = stripIntConv(base), c
	}
	q, ok := v.(*ssa.BinOp)
	if !ok {
		return divOther, nil, nil
	}
	var K ssa.Value
	switch q.Op {
	case token.QUO:
		K = q.Y
	case token.SHR:
		K = q.Y // shift amount: handled as its own divisor symbol
	default:
		return divOther, nil, nil
	}
	pn := polyOf(q.X, 0)
	var pk poly
	if q.Op == token.SHR {
		s, oks := constInt(q.Y)
		if !oks || s < 0 || s > 30 {
			return divOther, nil, nil
		}
		pk = polyConst(1 << uint(s))
	} else {
		pk = polyOf(K, 0)
	}
	// numerator minus (K - 1): a single atom => ceil; numerator a single atom => floor; numerator + 1 an atom => pred
	isAtom := func(p poly) (ssa.Value, bool) {
		if !p.ok || len(p.t) != 1 {
			return nil, false
		}
		for k, c := range p.t {
			if c == 1 && k != "" && !strings.Contains(k, "*") {
				return p.at[k], true
			}
		}
		return nil, false
	}
	one := polyConst(1)
	switch plus {
	case 0:
		if a, ok := isAtom(polyAdd(polyAdd(pn, pk, -1), one, 1)); ok {
			return divCeil, a, K
		}
		if a, ok := isAtom(pn); ok {
			return divFloor, a, K
		}
	case 1:
		if a, ok := isAtom(pn); ok {
			return divFloorPlus1, a, K
		}
		if a, ok := isAtom(polyAdd(pn, one, 1)); ok {
			return divPredPlus1, a, K
		}
	}
	return divOther, nil, nil
}
