package main

import (
	"fmt"
	"go/token"
	"go/types"
	"strings"

	"golang.org/x/tools/go/ssa"
)

func init() {
	register(&PropSpec{
		ID: "C10",
		Explanation: "Static decision of the structural conditions for 'no lost wake-ups, no leaked priorities' (interleavings themselves are histories and are not enumerated): " +
			"(R1) every function that touches Torrent.requested is confined to the torrent's event-loop goroutine, so request / complete / withdraw are serialised and the check-then-register of requestPiece is atomic with respect to completion; " +
			"(R2) each close of a completion channel is dominated by `done != nil` and followed at once by `done = nil` (closed exactly once); " +
			"(R3) completion signals waiters: the TorHave(true) handler calls Requested.Done for that index; Have(index, true) is produced only after Finalise reported success; inside the loop a completion channel is requested only on a path that re-tested the piece incomplete (otherwise a request that races with completion waits on a channel nobody will close); " +
			"(R4) withdrawals are paired: a reader records a priority only when Request reported that it was registered; every rebuild of the reader's list withdraws the whole previous list; the same-piece shortcut cannot swallow a withdrawal (pos >= 0); Close and every error exit of Read withdraw; (R5) the waiter itself is abandonable (C17.R1 re-evaluated for Reader.Read and Torrent.Request).",
		Rules:       []string{"R1 event-loop confinement of the requested set (E-cone)", "R2 close-once (E-dom + E-must)", "R3 completion signals waiters; wait channel only for pieces re-tested incomplete", "R4 withdrawals paired (E-dom, required-edge paths)", "R5 waiter abandonable (shared with C17)"},
		NotDecided:  []string{"exactly-once delivery of wake-ups under every interleaving of request/complete/evict (history property)", "that priorities recorded by several readers on the same piece are withdrawn in matching numbers over histories"},
		Assumptions: []string{"the event loop processes one event at a time (single goroutine, C17)"},
		Run:         runC10,
	})
}

func runC10(r *Report) {
	p := r.P
	c10R1(r)
	c10R2(r)
	c10R3(r)
	c10R4(r)
	c10R6(r)
	// R5: shared with C17.R1
	lt := lifetimeOf(r, "R5")
	n := 0
	dummy := 0
	for _, sp := range [][2]string{{"tor", "Reader.Read"}, {"tor", "Torrent.Request"}} {
		f := p.Func(sp[0], sp[1])
		if !r.Anchor("R5", sp[0]+"."+sp[1], f != nil) {
			continue
		}
		r.Fn(f)
		for _, op := range chanOpsIn(f) {
			n++
			checkChanOp(r, "R5", lt, op, &dummy)
		}
	}
	r.Sentinel("R5", n, 3)
}

func c10R1(r *Report) {
	p := r.P
	run := p.Func("tor", "Torrent.run")
	fv := p.Field("tor", "Torrent", "requested")
	if !r.Anchor("R1", "tor.(*Torrent).run", run != nil) || !r.Anchor("R1", "tor.Torrent.requested", fv != nil) {
		return
	}
	outside := outsideReach(p, map[*ssa.Function]bool{run: true})
	cone := loopCone(p, run)
	seen := map[*ssa.Function]bool{}
	n := 0
	for _, acc := range p.fieldAccesses(fv) {
		f := acc.Fn
		if seen[f] {
			continue
		}
		seen[f] = true
		named := enclosingNamed(f)
		if fa, ok := acc.Instr.(*ssa.FieldAddr); ok {
			if al, isAl := fa.X.(*ssa.Alloc); isAl && al.Comment == "complit" && named.Name() == "New" {
				r.Ok("R1", "confined/"+fname(f), acc.Instr.Pos(), "initialised at construction")
				continue
			}
		}
		n++
		r.Fn(f)
		key := "confined/" + fname(f)
		if why, out := outside[named]; out {
			r.Fail("R1", key, acc.Instr.Pos(), "%s touches Torrent.requested but is reachable from outside the event loop (%s): requests, completions and withdrawals are no longer serialised", fname(f), why)
		} else if !cone[f] && !cone[named] {
			r.Info("R1", key, acc.Instr.Pos(), "not reachable from run")
		} else {
			r.Ok("R1", key, acc.Instr.Pos(), "reachable only through (*Torrent).run")
		}
	}
	r.Sentinel("R1", n, 7)
}

func c10R2(r *Report) {
	p := r.P
	done := p.Field("tor", "RequestedPiece", "done")
	if !r.Anchor("R2", "tor.RequestedPiece.done", done != nil) {
		return
	}
	n := 0
	for _, f := range p.SrcFuncs() {
		if relPkg(f) != "tor" {
			continue
		}
		for _, c := range closesIn(f) {
			fv, _ := loadedField(c.Call.Args[0])
			if fv != done {
				continue
			}
			n++
			r.Fn(f)
			key := fmt.Sprintf("%s/close(done)-once", fname(f))
			nonNil := false
			for _, g := range guardsOf(c.Block()) {
				g = g.norm()
				if bo, ok := g.Cond.(*ssa.BinOp); ok && isNilConst(bo.Y) {
					if f2, _ := loadedField(bo.X); f2 == done && ((bo.Op == token.NEQ && g.Pol) || (bo.Op == token.EQL && !g.Pol)) {
						nonNil = true
					}
				}
			}
			// followed in the same block by done = nil before any call
			cleared := false
			past := false
			for _, in := range c.Block().Instrs {
				if in == ssa.Instruction(c) {
					past = true
					continue
				}
				if !past {
					continue
				}
				if st, ok := isStoreToField(in, done); ok && isNilConst(st.Val) {
					cleared = true
					break
				}
				if _, isCall := in.(ssa.CallInstruction); isCall {
					break
				}
			}
			r.Check(nonNil && cleared, "R2", key, c.Pos(), "closed only when non-nil and cleared at once", "a completion channel is closed without the dominating `done != nil` test or without being set to nil immediately afterwards: a second completion/deletion closes it twice (panic) or waiters are woken twice")
		}
	}
	r.Sentinel("R2", n, 2)
	// the channel is created only in Add, under want && done == nil
	add := p.Func("tor", "Requested.Add")
	if r.Anchor("R2", "tor.(*Requested).Add", add != nil) {
		r.Fn(add)
		for _, acc := range p.fieldAccesses(done) {
			if !acc.Write {
				continue
			}
			fa := acc.Instr.(*ssa.FieldAddr)
			for _, ref := range *fa.Referrers() {
				st, ok := ref.(*ssa.Store)
				if !ok || isNilConst(st.Val) {
					continue
				}
				okMk := acc.Fn == add
				if okMk {
					_, isMk := st.Val.(*ssa.MakeChan)
					wantG := false
					for _, g := range guardsOf(st.Block()) {
						g = g.norm()
						if g.Cond == ssa.Value(add.Params[3]) && g.Pol {
							wantG = true
						}
					}
					okMk = isMk && wantG
				}
				r.Check(okMk, "R2", "done-created/"+fname(acc.Fn), st.Pos(), "a completion channel is created only by Add when a waiter asked for one", "a completion channel is created outside Requested.Add or without a waiter asking for it")
			}
		}
	}
}

func c10R3(r *Report) {
	p := r.P
	he := p.Func("tor", "handleEvent")
	doneM := p.Func("tor", "Requested.Done")
	have := p.Func("tor", "Torrent.Have")
	fin := p.Func("tor/piece", "Pieces.Finalise")
	rp := p.Func("tor", "requestPiece")
	add := p.Func("tor", "Requested.Add")
	complete := p.Func("tor/piece", "Pieces.Complete")
	if !r.Anchor("R3", "tor.handleEvent", he != nil) || !r.Anchor("R3", "tor.(*Requested).Done", doneM != nil) || !r.Anchor("R3", "tor.(*Torrent).Have", have != nil) ||
		!r.Anchor("R3", "piece.(*Pieces).Finalise", fin != nil) || !r.Anchor("R3", "tor.requestPiece", rp != nil) || !r.Anchor("R3", "tor.(*Requested).Add", add != nil) || !r.Anchor("R3", "piece.(*Pieces).Complete", complete != nil) {
		return
	}
	r.Fn(he)
	// TorHave(true) -> Done(index)
	ok := false
	for _, ci := range callsIn(he) {
		if ci.Common().StaticCallee() != doneM {
			continue
		}
		in := ci.(ssa.Instruction)
		if eventTypeOfBlock(in.Block()) != "peer.TorHave" {
			continue
		}
		idxName := loadedFieldAnyName(ci.Common().Args[1])
		haveG := false
		for _, g := range guardsOf(in.Block()) {
			g = g.norm()
			if loadedFieldAnyName(g.Cond) == "Have" && g.Pol {
				haveG = true
			}
		}
		ok = idxName == "Index" && haveG
	}
	r.Check(ok, "R3", "handleEvent/TorHave(true)-signals-Done(index)", he.Pos(), "a verified piece wakes its waiters", "the TorHave handler does not call requested.Done(c.Index) under c.Have: waiters for a verified piece are never woken")
	// Have(index, true) only after Finalise reported done
	calls, _ := p.callSitesOf(have)
	n := 0
	for _, cs := range calls {
		b, isb := constBool(cs.Common().Args[2])
		if isb && !b {
			continue
		}
		n++
		f := cs.Parent()
		r.Fn(f)
		in := cs.(ssa.Instruction)
		okD := false
		for _, g := range guardsOf(in.Block()) {
			g = g.norm()
			ex, isx := g.Cond.(*ssa.Extract)
			if isx && g.Pol && ex.Index == 0 {
				if c, isc := ex.Tuple.(*ssa.Call); isc && c.Call.StaticCallee() == fin {
					okD = true
				}
			}
		}
		r.Check(okD && isb, "R3", "Have(true)-only-after-Finalise/"+fname(f), cs.Pos(), "a piece is announced as available only after Finalise verified it", "Have(index, true) is sent on a path not dominated by Finalise's `done` result")
	}
	r.Sentinel("R3.have", n, 1)
	// requestPiece: the `want` passed to Add is true only on a path that re-tested the piece incomplete
	r.Fn(rp)
	for _, ci := range callsIn(rp) {
		if ci.Common().StaticCallee() != add {
			continue
		}
		want := ci.Common().Args[3]
		idx := ci.Common().Args[1]
		incompleteAt := func(b *ssa.BasicBlock, viaEdgeFrom *ssa.BasicBlock) bool {
			gs := guardsOf(b)
			if viaEdgeFrom != nil {
				gs = expandGuards(append(gs, edgeGuard(viaEdgeFrom, b)...))
			}
			for _, g := range gs {
				g = g.norm()
				if c, ok := g.Cond.(*ssa.Call); ok && c.Call.StaticCallee() == complete && !g.Pol && c.Call.Args[1] == idx {
					return true
				}
			}
			return false
		}
		okW := false
		switch x := want.(type) {
		case *ssa.Const:
			b, _ := constBool(x)
			okW = !b
		case *ssa.Phi:
			okW = true
			for i, e := range x.Edges {
				if b, isb := constBool(e); isb && !b {
					continue
				}
				pb := x.Block().Preds[i]
				if incompleteAt(pb, nil) || incompleteAt(x.Block(), pb) {
					continue
				}
				// the value is itself tested false on the way to this edge (`if want && Complete(i) { want = false }`:
				// the edge that skips the Complete test is the one on which want is false)
				knownFalse := false
				for _, g := range guardsOnEdge(pb, x.Block()) {
					g = g.norm()
					if g.Cond == e && !g.Pol {
						knownFalse = true
					}
				}
				if !knownFalse {
					okW = false
				}
			}
		default:
			in := ci.(ssa.Instruction)
			okW = incompleteAt(in.Block(), nil)
		}
		r.Check(okW, "R3", "requestPiece/wait-channel-only-if-incomplete", ci.Pos(), "a completion channel is asked for only after the loop re-tested the piece incomplete",
			"requestPiece passes want=true to Requested.Add without re-testing Pieces.Complete(index) inside the event loop: when the piece completes between the caller's check and this event, Add creates a channel that nobody will ever close and the reader hangs although the piece is verified")
	}
}

func c10R4(r *Report) {
	p := r.P
	req := p.Func("tor", "Reader.request")
	read := p.Func("tor", "Reader.Read")
	closeF := p.Func("tor", "Reader.Close")
	treq := p.Func("tor", "Torrent.Request")
	rf := p.Field("tor", "Reader", "requested")
	if !r.Anchor("R4", "tor.(*Reader).request", req != nil) || !r.Anchor("R4", "tor.(*Reader).Read", read != nil) || !r.Anchor("R4", "tor.(*Reader).Close", closeF != nil) ||
		!r.Anchor("R4", "tor.(*Torrent).Request", treq != nil) || !r.Anchor("R4", "tor.Reader.requested", rf != nil) {
		return
	}
	r.Fn(req)
	// (a) record only what was registered
	nApp := 0
	var rebuild *ssa.Store
	var reqUnit []*ssa.Function
	for _, f := range p.SrcFuncs() {
		// request itself, then the private helpers factored out of it (add(c, want))
		if relPkg(f) == "tor" && f != req && p.inUnitOf(f, req) {
			reqUnit = append(reqUnit, f)
		}
	}
	reqUnit = append([]*ssa.Function{req}, reqUnit...)
	for _, uf := range reqUnit {
		allInstrs(uf, func(in ssa.Instruction) {
			st, ok := isStoreToField(in, rf)
			if !ok {
				return
			}
			c, isCall := st.Val.(*ssa.Call)
			if isCall {
				if bi, isb := c.Call.Value.(*ssa.Builtin); isb && bi.Name() == "append" {
					nApp++
					okD := false
					for _, g := range guardsOf(st.Block()) {
						g = g.norm()
						ex, isx := g.Cond.(*ssa.Extract)
						if isx && g.Pol && ex.Index == 0 {
							if rc, isc := ex.Tuple.(*ssa.Call); isc && rc.Call.StaticCallee() == treq {
								if b, isb := constBool(rc.Call.Args[3]); isb && b {
									okD = true
								}
							}
						}
					}
					r.Check(okD, "R4", "Reader.request/record-only-registered", st.Pos(), "a priority is recorded only when Request reported it registered", "the reader records a (piece, priority) pair on a path not dominated by Request's `registered` result: it later withdraws a priority it never held, removing another reader's")
					return
				}
			}
			if _, isMk := st.Val.(*ssa.MakeSlice); isMk && uf == req {
				rebuild = st
			}
		})
	}
	r.Sentinel("R4.append", nApp, 1)
	// (a'') "nothing to wait for": Request answers (false, nil, nil) without queueing anything when the store says the
	// piece is there. That answer is right only for a verified piece: every return of the store's function that can
	// yield true is the piece's Complete() — a piece that is merely being hashed may still fail, and then nobody waits
	// for it and no priority was registered.
	{
		nC := 0
		allInstrs(treq, func(in ssa.Instruction) {
			iff, ok := in.(*ssa.If)
			if !ok {
				return
			}
			c, ok := Guard{Cond: iff.Cond, Pol: true}.norm().Cond.(*ssa.Call)
			if !ok || c.Call.IsInvoke() {
				return
			}
			h := c.Call.StaticCallee()
			if h == nil || h.Blocks == nil || relPkg(h) != "tor/piece" || h.Signature.Results().Len() != 1 || !isBoolType(h.Signature.Results().At(0).Type()) {
				return
			}
			nC++
			bad := token.NoPos
			for _, ret := range returnsOf(h) {
				v := ret.Results[0]
				if b, isb := constBool(v); isb {
					if !b {
						continue
					}
					// a constant true: under Complete() == true
					okG := false
					for _, g := range guardsOf(ret.Block()) {
						g = g.norm()
						if gc, isC := g.Cond.(*ssa.Call); isC && g.Pol && gc.Call.StaticCallee() != nil && strings.EqualFold(gc.Call.StaticCallee().Name(), "complete") {
							okG = true
						}
					}
					if !okG {
						bad = ret.Pos()
					}
					continue
				}
				vc, isC := v.(*ssa.Call)
				if !isC || vc.Call.StaticCallee() == nil || !strings.EqualFold(vc.Call.StaticCallee().Name(), "complete") {
					bad = ret.Pos()
				}
			}
			r.Check(bad == token.NoPos, "R4", "Torrent.Request/"+h.Name()+"-true-means-verified", c.Pos(), "the store's answer that lets Request return without queueing is the piece's Complete()",
				"(*Pieces)."+h.Name()+" can return true for a piece that is not complete ("+p.pos(bad)+"): Torrent.Request then answers \"nothing to wait for\" for a piece that is still being hashed; if the hash fails nobody is waiting for the piece and no priority was registered for it")
		})
		r.Sentinel("R4.store-answer", nC, 1)
	}
	// (a') the converse: once the request event has been handed to the loop and the torrent is alive, Request reports
	// it registered — whatever the loop answered. (The loop registers the priority even when the piece has meanwhile
	// been verified and there is nothing to wait for; a reader told "not registered" never withdraws it.)
	{
		evF := p.Field("tor", "Torrent", "Event")
		nSel := 0
		allInstrs(treq, func(in ssa.Instruction) {
			sel, ok := in.(*ssa.Select)
			if !ok {
				return
			}
			for k, st := range sel.States {
				if st.Dir != types.SendOnly || chanSourceOf(st.Chan).Field != evF {
					continue
				}
				blk := selectCaseBlock(sel, k)
				if blk == nil {
					r.Undecided("R4", "Torrent.Request/registered-once-queued", sel.Pos(), "the block of the send case cannot be identified")
					continue
				}
				nSel++
				bad := token.NoPos
				nRet := 0
				for _, ret := range returnsOf(treq) {
					if !blk.Dominates(ret.Block()) {
						continue
					}
					res := retResults(ret)
					if len(res) != 3 || !isNilConst(res[2]) {
						continue // a failure return
					}
					nRet++
					if b, isb := constBool(res[0]); !isb || !b {
						bad = ret.Pos()
					}
				}
				r.Check(bad == token.NoPos && nRet > 0, "R4", "Torrent.Request/registered-once-queued", sel.Pos(), "every successful return after the request was queued reports it registered",
					"after its event was queued Torrent.Request can return success with registered != true ("+p.pos(bad)+"): the loop has recorded the priority, the reader is told it has not, and never withdraws it — the piece stays requested for ever")
			}
		})
		r.Sentinel("R4.request-select", nSel, 1)
	}
	if rebuild == nil {
		r.Fail("R4", "Reader.request/rebuild", req.Pos(), "Reader.request no longer rebuilds its list of requested pieces")
		return
	}
	// (b) the previous list is withdrawn on every path after the rebuild: by a loop of Request(index, prio, false, false)
	// in Reader.request itself, or in a helper of package tor that Reader.request calls (withdraw(old))
	isWithdrawReq := func(in ssa.Instruction) bool {
		c, ok := in.(*ssa.Call)
		if !ok || c.Call.StaticCallee() != treq {
			return false
		}
		b2, ok2 := constBool(c.Call.Args[3])
		b3, ok3 := constBool(c.Call.Args[4])
		return ok2 && ok3 && !b2 && !b3
	}
	// loopHeaderOf: the header of the innermost loop containing in (the If whose edge dominates it and whose block it can reach back)
	loopHeaderOf := func(in ssa.Instruction) *ssa.BasicBlock {
		for _, g := range guardsOf(in.Block()) {
			if g.If == nil {
				continue
			}
			h := g.If.Block()
			if reachableFromSuccs(in.Block())[h] {
				return h
			}
		}
		return nil
	}
	var withdrawPos ssa.Instruction
	var header *ssa.BasicBlock
	var helperCall ssa.Instruction
	if w := anyInstr(req, isWithdrawReq); w != nil {
		withdrawPos = w
		header = loopHeaderOf(w)
	} else {
		for _, ci := range callsIn(req) {
			c, ok := ci.(*ssa.Call)
			if !ok {
				continue
			}
			h := c.Call.StaticCallee()
			if h == nil || h.Blocks == nil || relPkg(h) != "tor" || h == treq {
				continue
			}
			w := anyInstr(h, isWithdrawReq)
			if w == nil {
				continue
			}
			// the helper withdraws the whole list it is given: the Request sits in a loop whose header every
			// return of the helper passes
			hh := loopHeaderOf(w)
			good := hh != nil
			for _, ret := range returnsOf(h) {
				if hh == nil || !hh.Dominates(ret.Block()) {
					good = false
				}
			}
			if good {
				r.Fn(h)
				withdrawPos, helperCall = c, c
			}
		}
	}
	if withdrawPos == nil {
		r.Fail("R4", "Reader.request/withdraw-old", req.Pos(), "Reader.request no longer withdraws the previously requested pieces (Request(index, prio, false, false))")
	} else {
		passes := func(in ssa.Instruction) bool {
			if helperCall != nil {
				return in == helperCall
			}
			return header != nil && in.Block() == header
		}
		okAll := helperCall != nil || header != nil
		if okAll && len(exitsAvoiding(rebuild, passes, false)) > 0 {
			okAll = false
		}
		r.Check(okAll, "R4", "Reader.request/withdraw-old-on-every-path", withdrawPos.Pos(), "after rebuilding its list the reader withdraws the whole previous list on every path", "a path returns after the reader rebuilt its list without passing the loop that withdraws the previous list: those priorities are never withdrawn")
	}
	// (b') the shortcut's cache is refreshed by every rebuild: after the list was rebuilt, every path to a return
	// stores requestedIndex (to the first requested piece, or to -1 when nothing is requested). A stale index left by a
	// withdraw-all (Close, EOF, cancellation) makes the next Read in the same piece take the shortcut with nothing
	// registered and no channel to wait on: it returns no data and the piece is never requested again.
	if ri := p.Field("tor", "Reader", "requestedIndex"); r.Anchor("R4", "tor.Reader.requestedIndex", ri != nil) {
		isRI := func(in ssa.Instruction) bool { _, ok := isStoreToField(in, ri); return ok }
		exits := exitsAvoiding(rebuild, isRI, false)
		r.Check(len(exits) == 0, "R4", "Reader.request/shortcut-cache-refreshed", rebuild.Pos(), "every path after the rebuild refreshes requestedIndex",
			"a path returns after the reader rebuilt its request list without storing requestedIndex (e.g. when the new list is empty): the same-piece shortcut later trusts a stale index")
		// and an empty list resets it: some store of a negative constant exists after the rebuild
		neg := false
		allInstrs(req, func(in ssa.Instruction) {
			if st, ok := isStoreToField(in, ri); ok {
				var hasNeg func(v ssa.Value, d int) bool
				hasNeg = func(v ssa.Value, d int) bool {
					if d > 3 {
						return false
					}
					if k, okk := constInt(v); okk {
						if _, isC := stripIntConv(v).(*ssa.Const); isC && k < 0 {
							return true
						}
					}
					if ph, ok := v.(*ssa.Phi); ok {
						for _, e := range ph.Edges {
							if hasNeg(e, d+1) {
								return true
							}
						}
					}
					return false
				}
				if hasNeg(st.Val, 0) {
					neg = true
				}
			}
		})
		r.Check(neg, "R4", "Reader.request/shortcut-cache-reset", rebuild.Pos(), "requestedIndex is reset to a negative value when nothing is requested", "Reader.request never resets requestedIndex to a negative value: after a withdraw-all the shortcut still matches the old piece")
	}
	// (c) the same-piece shortcut cannot swallow a withdrawal
	pos := req.Params[1]
	posNonNeg := edgeReq{Name: "pos >= 0", ViaHelper: true, Subj: []ssa.Value{pos}, MatchS: func(sj []ssa.Value, cond ssa.Value, pol bool) bool {
		bo, ok := cond.(*ssa.BinOp)
		if !ok || sj[0] == nil || bo.X != sj[0] {
			return false
		}
		k, okk := constInt(bo.Y)
		if !okk {
			return false
		}
		switch bo.Op {
		case token.GEQ:
			return k == 0 && pol
		case token.LSS:
			return k == 0 && !pol
		case token.GTR:
			return k == -1 && pol
		}
		return false
	}}
	isRet := func(in ssa.Instruction) bool { _, ok := in.(*ssa.Return); return ok }
	viaRebuild := func(in ssa.Instruction) bool { return in == ssa.Instruction(rebuild) }
	missing, reached := pathsMissing(req.Blocks[0].Instrs[0], -1, isRet, viaRebuild, []edgeReq{posNonNeg})
	if reached == 0 {
		r.Ok("R4", "Reader.request/shortcut-needs-pos>=0", req.Pos(), "every return follows a rebuild of the list")
	} else {
		r.Check(len(missing) == 0, "R4", "Reader.request/shortcut-needs-pos>=0", req.Pos(), "the same-piece shortcut is taken only for a real position",
			"Reader.request can return through the same-piece shortcut without having tested pos >= 0: request(-1, -1) — the withdrawal issued by Close, EOF, cancellation and errors — computes piece uint32(-1/pieceSize) == 0, so a reader positioned in piece 0 returns early and never withdraws its priorities (the pieces stay requested forever)")
	}
	// (d) Close and the error exits of Read withdraw
	isWithdrawCall := viaLocal(func(in ssa.Instruction) bool {
		c, ok := in.(*ssa.Call)
		if !ok || c.Call.StaticCallee() != req {
			return false
		}
		a, ok1 := constInt(c.Call.Args[1])
		b, ok2 := constInt(c.Call.Args[2])
		return ok1 && ok2 && a < 0 && b < 0
	})
	r.Fn(closeF)
	r.Check(len(exitsAvoiding(closeF.Blocks[0].Instrs[0], isWithdrawCall, false)) == 0 || isWithdrawCall(closeF.Blocks[0].Instrs[0]), "R4", "Reader.Close/withdraws", closeF.Pos(), "Close withdraws the reader's priorities on every path", "Reader.Close can return without request(-1, -1)")
	r.Fn(read)
	torrentF := p.Field("tor", "Reader", "torrent")
	returnedErrs := map[ssa.Value]bool{}
	for _, ret := range returnsOf(read) {
		rr := retResults(ret)
		returnedErrs[rr[len(rr)-1]] = true
	}
	excusedEdge := edgeReq{Name: "withdrawn, closed, failed request, or success", Match: func(cond ssa.Value, pol bool) bool {
		bo, ok := cond.(*ssa.BinOp)
		if !ok || !isNilConst(bo.Y) {
			return false
		}
		// t == nil (closed reader)
		if fv, _ := loadedField(bo.X); fv == torrentF {
			return (bo.Op == token.EQL) == pol
		}
		// err from r.request(...) != nil : nothing was registered
		if ex, isx := bo.X.(*ssa.Extract); isx {
			if c, isc := ex.Tuple.(*ssa.Call); isc && c.Call.StaticCallee() == req {
				return (bo.Op == token.NEQ) == pol
			}
		}
		// final `if err != nil { request(-1,-1) }`: the false edge is the success exit — only when the value
		// tested is the very error value a return yields
		if isErrorType(bo.X.Type()) && returnedErrs[bo.X] {
			after := false
			for _, ci := range callsIn(read) {
				if cal := ci.Common().StaticCallee(); cal != nil && cal.Name() == "ReadAt" && instrReaches(ci.(ssa.Instruction), bo) {
					after = true
				}
			}
			if after {
				return (bo.Op == token.NEQ) != pol
			}
		}
		return false
	}}
	// a read that found nothing (the piece was evicted, or the torrent deleted, since it was requested) must not leave
	// the same-piece shortcut armed: the next Read would skip the request — and with it the wait and the dead-torrent
	// test — and return (0, nil) for ever (io.ReadFull in the FUSE front-end then spins instead of failing)
	{
		riF := p.Field("tor", "Reader", "requestedIndex")
		var readAts []*ssa.Call
		for _, ci := range callsIn(read) {
			if c, ok := ci.(*ssa.Call); ok {
				if cal := c.Call.StaticCallee(); cal != nil && cal.Name() == "ReadAt" && relPkg(cal) == "tor/piece" {
					readAts = append(readAts, c)
				}
			}
		}
		// a count: what ReadAt returned, or a sum of such counts (n += r.readMore(a[n:], …)); counts are not negative,
		// so a non-zero sum means that something was read
		isCount := func(v ssa.Value) bool {
			if _, isC := stripIntConv(v).(*ssa.Const); isC {
				return false
			}
			return sumsOnlyOf(stripIntConv(v), func(x ssa.Value) bool {
				if k, isk := constInt(x); isk && k == 0 {
					return true
				}
				ex, ok := x.(*ssa.Extract)
				if !ok || ex.Index != 0 {
					return false
				}
				c, ok := ex.Tuple.(*ssa.Call)
				if !ok {
					return false
				}
				cal := c.Call.StaticCallee()
				return cal != nil && cal.Name() == "ReadAt" && relPkg(cal) == "tor/piece"
			})
		}
		isReadErr := func(v ssa.Value) bool {
			var rec func(v ssa.Value, d int) bool
			rec = func(v ssa.Value, d int) bool {
				switch x := v.(type) {
				case *ssa.Extract:
					if c, ok := x.Tuple.(*ssa.Call); ok && x.Index == 1 {
						for _, ra := range readAts {
							if c == ra {
								return true
							}
						}
					}
				case *ssa.Phi:
					if d > 3 {
						return false
					}
					for _, e := range x.Edges {
						// the EOF latch replaces a nil error by io.EOF: still "something to report"
						if !rec(e, d+1) && !isErrorType(e.Type()) {
							return false
						}
					}
					return len(x.Edges) > 0
				}
				return false
			}
			return rec(v, 0)
		}
		// the caller's buffer, possibly clipped (a = a[:remain])
		var isCallerBuf func(v ssa.Value, d int) bool
		isCallerBuf = func(v ssa.Value, d int) bool {
			if d > 4 {
				return false
			}
			switch x := v.(type) {
			case *ssa.Parameter:
				return x == read.Params[1]
			case *ssa.Slice:
				return isCallerBuf(x.X, d+1)
			case *ssa.Phi:
				for _, e := range x.Edges {
					if !isCallerBuf(e, d+1) {
						return false
					}
				}
				return len(x.Edges) > 0
			}
			return false
		}
		rearmed := edgeReq{Name: "something was read, an error is reported, or the shortcut is disarmed",
			Match: func(cond ssa.Value, pol bool) bool {
				op, x, y, ok := cmpFact(Guard{Cond: cond, Pol: pol})
				if ok {
					if k, okk := constInt(y); okk && k == 0 {
						if isCount(x) && (op == token.NEQ || op == token.GTR) {
							return true // n > 0
						}
						// len(a) == 0: an empty read
						if c, isC := stripIntConv(x).(*ssa.Call); isC {
							if bi, isb := c.Call.Value.(*ssa.Builtin); isb && bi.Name() == "len" && len(c.Call.Args) == 1 && isCallerBuf(c.Call.Args[0], 0) && (op == token.EQL || op == token.LEQ) {
								return true
							}
						}
					}
				}
				if xv, isNil, okn := nilFact(Guard{Cond: cond, Pol: pol}); okn && !isNil && isReadErr(xv) {
					return true // err != nil: reported, and the error exit withdraws (checked above)
				}
				return false
			},
			Instr: func(in ssa.Instruction) bool {
				if isWithdrawCall(in) {
					return true
				}
				if st, ok := isStoreToField(in, riF); ok {
					k, okk := constInt(st.Val)
					return okk && k < 0
				}
				return false
			}}
		nRA := 0
		okAll := true
		for _, ra := range readAts {
			nRA++
			miss, reached := pathsMissing(ra, -1, isRet, nil, []edgeReq{rearmed})
			if reached > 0 && len(miss) > 0 {
				okAll = false
			}
		}
		if riF != nil && nRA > 0 {
			r.Check(okAll, "R4", "Reader.Read/empty-read-disarms-shortcut", read.Pos(), "a read that delivered nothing disarms the same-piece shortcut (or reports an error) before returning",
				"Reader.Read can return (0, nil) — the piece was evicted or the torrent deleted since it was requested — with requestedIndex still naming the piece: every later Read takes the shortcut, skips the request, the wait and the dead-torrent test, and returns (0, nil) again; io.ReadFull on a reused reader (FUSE) spins for ever instead of failing promptly")
		}
	}
	missing2, reached2 := pathsMissing(read.Blocks[0].Instrs[0], -1, isRet, isWithdrawCall, []edgeReq{excusedEdge})
	_ = reached2
	r.Check(len(missing2) == 0, "R4", "Reader.Read/error-exits-withdraw", read.Pos(), "every exit of Read that gives up (EOF, cancellation, dead torrent, read error) withdraws the reader's priorities", "a path through Reader.Read returns after giving up without request(-1, -1): the pieces stay requested although nobody waits for them")
	_ = types.Typ
}

// R6: the consumers' priorities of a requested piece form a multiset: a withdrawal removes exactly one instance.
// Every store to RequestedPiece.prio is one of
//
//	grow by one        append(prio, x)
//	remove one at i    append(prio[:i], prio[i+1:]...)   /   slices.Delete(prio, i, i+1)
//	clear              nil
//
// and a removal is not repeated in the same call (after it, control reaches a return without passing it again).
// Bulk forms (slices.DeleteFunc, a filtered rebuild, Compact) remove every reader's equal priority at once: the
// piece is cancelled under a reader that still waits for it (found by a round-2 seeded change).
func c10R6(r *Report) {
	p := r.P
	prio := p.Field("tor", "RequestedPiece", "prio")
	if !r.Anchor("R6", "tor.RequestedPiece.prio", prio != nil) {
		return
	}
	isPrioLoad := func(v ssa.Value) bool {
		fv, _ := loadedField(v)
		return fv == prio
	}
	// sliceOfPrio: v is prio[lo:hi]; returns lo, hi (nil for absent)
	sliceOfPrio := func(v ssa.Value) (lo, hi ssa.Value, ok bool) {
		sl, isSl := v.(*ssa.Slice)
		if !isSl || !isPrioLoad(sl.X) {
			return nil, nil, false
		}
		return sl.Low, sl.High, true
	}
	n := 0
	for _, acc := range p.fieldAccesses(prio) {
		if !acc.Write {
			continue
		}
		fa, ok := acc.Instr.(*ssa.FieldAddr)
		if !ok {
			continue
		}
		for _, ref := range *fa.Referrers() {
			st, isSt := ref.(*ssa.Store)
			if !isSt || st.Addr != ssa.Value(fa) {
				continue
			}
			n++
			f := st.Parent()
			r.Fn(f)
			key := fmt.Sprintf("%s/store(prio)#%d", fname(f), n)
			kind := ""
			switch v := st.Val.(type) {
			case *ssa.Const:
				if isNilConst(v) {
					kind = "clear"
				}
			case *ssa.Call:
				if bi, okb := v.Call.Value.(*ssa.Builtin); okb && bi.Name() == "append" && len(v.Call.Args) == 2 {
					a0, a1 := v.Call.Args[0], v.Call.Args[1]
					if isPrioLoad(a0) {
						// append(prio, x): the variadic slice holds exactly one element
						if els := variadicElems(a1); len(els) == 1 {
							kind = "grow"
						}
					} else if lo0, hi0, ok0 := sliceOfPrio(a0); ok0 && lo0 == nil && hi0 != nil {
						if lo1, hi1, ok1 := sliceOfPrio(a1); ok1 && hi1 == nil && lo1 != nil {
							if d, isc := polyAdd(polyOf(lo1, 0), polyOf(hi0, 0), -1).isConst(); isc && d == 1 {
								kind = "remove-one"
							}
						}
					}
				} else if pk, nm := calleePkgName(v); pk == "slices" && nm == "Delete" && len(v.Call.Args) == 3 {
					if isPrioLoad(v.Call.Args[0]) {
						if d, isc := polyAdd(polyOf(v.Call.Args[2], 0), polyOf(v.Call.Args[1], 0), -1).isConst(); isc && d == 1 {
							kind = "remove-one"
						}
					}
				}
			}
			switch kind {
			case "":
				r.Fail("R6", key, st.Pos(), "RequestedPiece.prio is replaced by %s, which is not 'append one', 'remove the one element at i' or 'clear': a withdrawal may remove several consumers' equal priorities at once, cancelling the piece under a reader that still waits for it", exprStr(st.Val))
			case "remove-one":
				// not repeated: from the store, no path leads back to it
				again := false
				for b := range reachableFromSuccs(st.Block()) {
					if b == st.Block() {
						again = true
					}
				}
				r.Check(!again, "R6", key, st.Pos(), "one instance of the priority is removed, once per call", "the removal of a priority sits in a loop that continues after it: one withdrawal removes every equal priority")
			default:
				r.Ok("R6", key, st.Pos(), "prio store of kind %s", kind)
			}
		}
	}
	r.Sentinel("R6", n, 2)
}

// calleePkgName: package path and base name of the static callee, seeing through generic instantiation
// (slices.Delete[[]int8 int8] → "slices", "Delete").
func calleePkgName(c *ssa.Call) (string, string) {
	h := c.Call.StaticCallee()
	if h == nil {
		return "", ""
	}
	if o := h.Origin(); o != nil {
		h = o
	}
	name := h.Name()
	if i := strings.Index(name, "["); i > 0 {
		name = name[:i]
	}
	if h.Pkg != nil {
		return h.Pkg.Pkg.Path(), name
	}
	if obj := h.Object(); obj != nil && obj.Pkg() != nil {
		return obj.Pkg().Path(), name
	}
	return "", name
}
