package main

// Path exploration with required edges: "every path from A to T takes edge e1 and e2 …".

import (
	"fmt"
	"go/token"
	"go/types"
	"sort"
	"strings"

	"golang.org/x/tools/go/ssa"
)

// edgeReq: the path must traverse an If whose (normalised) condition satisfies Cond, on the edge with polarity Pol.
type edgeReq struct {
	Name string
	Cond func(v ssa.Value) bool
	Pol  bool
	// Match, when set, replaces Cond/Pol: it sees the normalised condition and the polarity of the edge taken.
	Match func(cond ssa.Value, pol bool) bool
	// Instr, when set, is an alternative way to meet the requirement: the path executes an instruction satisfying it
	// (e.g. a call to a helper whose postcondition is the required fact).
	Instr func(in ssa.Instruction) bool
	// ViaHelper: the branch condition may be the boolean result of a helper in the same package (pipelineFull(peer)):
	// the edge on which the call returned `pol` meets the requirement when, inside the helper, every path to a return
	// that can yield `pol` meets it (the same Match applied to the helper's own branches).
	ViaHelper bool
	// Subj/MatchS: a Match that refers to particular values of the function (its parameters, say). Inside a helper the
	// subjects are renamed to the helper's parameters that receive them at the call (a subject that is not passed
	// becomes nil and matches nothing).
	Subj   []ssa.Value
	MatchS func(subj []ssa.Value, cond ssa.Value, pol bool) bool
	// SubjSame, when set, decides whether a call argument carries a subject (default: identity)
	SubjSame func(arg, subj ssa.Value) bool
}

func (rq edgeReq) match(cond ssa.Value, pol bool) bool {
	if rq.MatchS != nil {
		return rq.MatchS(rq.Subj, cond, pol)
	}
	return rq.Match != nil && rq.Match(cond, pol)
}

var helperEdgeMemo = map[string]bool{}

// helperEdgeMeets: see edgeReq.ViaHelper. The condition is the helper's boolean result itself, or the test of its
// error result against nil (then `pol` is folded into "the error is nil" / "is not nil").
func helperEdgeMeets(rq edgeReq, cond ssa.Value, pol bool, depth int) bool {
	if depth > 2 {
		return false
	}
	var c *ssa.Call
	resIdx := 0
	outcome := 0 // 1: boolean result == pol; 2: error result nil; 3: error result non-nil
	switch x := cond.(type) {
	case *ssa.Call:
		c, outcome = x, 1
	case *ssa.BinOp:
		v, isNil, ok := nilFact(Guard{Cond: cond, Pol: pol})
		if !ok || !isErrorType(v.Type()) {
			return false
		}
		c, resIdx = callOfValue(v)
		outcome = 3
		if isNil {
			outcome = 2
		}
	}
	if c == nil || c.Call.IsInvoke() {
		return false
	}
	h := c.Call.StaticCallee()
	if h == nil || h.Blocks == nil || c.Parent() == nil || funcPkgPath(h) != funcPkgPath(c.Parent()) {
		return false
	}
	nres := h.Signature.Results().Len()
	if nres == 0 || (outcome == 1 && nres != 1) {
		return false
	}
	if outcome != 1 {
		// the tested value must be the helper's error result
		if resIdx >= nres || !isErrorType(h.Signature.Results().At(resIdx).Type()) {
			if nres == 1 && isErrorType(h.Signature.Results().At(0).Type()) {
				resIdx = 0
			} else {
				return false
			}
		}
	}
	key := fmt.Sprintf("%p/%s/%d/%v/%v", h, rq.Name, outcome, pol, rq.Subj)
	if v, ok := helperEdgeMemo[key]; ok {
		return v
	}
	helperEdgeMemo[key] = false
	inner := rq
	inner.ViaHelper = depth < 1
	if rq.MatchS != nil {
		inner.Subj = make([]ssa.Value, len(rq.Subj))
		for i, sv := range rq.Subj {
			for k, a := range c.Call.Args {
				if k < len(h.Params) && sv != nil && (a == sv || stripIntConv(a) == sv || (rq.SubjSame != nil && rq.SubjSame(a, sv))) {
					inner.Subj[i] = h.Params[k]
				}
			}
		}
	}
	var ne *NilEnv
	any := false
	for _, ret := range returnsOf(h) {
		res := retResults(ret)
		switch outcome {
		case 1:
			if b, isb := constBool(res[0]); isb && b != pol {
				continue
			}
		case 2, 3:
			if resIdx >= len(res) {
				return false
			}
			if ne == nil {
				ne = newNilEnv(pathsProg)
			}
			st := ne.At(res[resIdx], ret.Block())
			if isNilConst(res[resIdx]) {
				st = IsNil
			}
			if (outcome == 2 && st == NonNil) || (outcome == 3 && st == IsNil) {
				continue
			}
		}
		// the outcome itself states facts: `return a || b` yielding false means !a and !b (short-circuit value
		// decomposed), on top of what dominates the return
		if outcome == 1 {
			met := false
			facts := expandGuards(append(guardsOfRaw(ret.Block()), Guard{Cond: res[0], Pol: pol}))
			for _, fct := range facts {
				fct = fct.norm()
				if inner.match(fct.Cond, fct.Pol) {
					met = true
				}
			}
			if met {
				any = true
				continue
			}
		}
		target := ret
		saved := pathTargetHook
		pathTargetHook = nil
		if outcome == 1 {
			if ph, isPhi := res[0].(*ssa.Phi); isPhi {
				pathTargetHook = func(in ssa.Instruction, phiConst func(*ssa.Phi) (int64, bool)) bool {
					if v, has := phiConst(ph); has {
						return (v != 0) == pol
					}
					return true
				}
			}
		}
		miss, reached := pathsMissingAt(h.Blocks[0], 0, -1, func(in ssa.Instruction) bool { return in == ssa.Instruction(target) }, nil, []edgeReq{inner}, nil)
		pathTargetHook = saved
		if reached > 0 {
			any = true
		}
		if reached > 0 && len(miss) > 0 {
			return false
		}
	}
	helperEdgeMemo[key] = any
	return any
}

// pathTargetHook, when set, lets the caller reject a target on the current path using the constants the path gave to
// phis (a return of `a || b` reached through the a-true edge yields true whatever b is).
var pathTargetHook func(in ssa.Instruction, phiConst func(*ssa.Phi) (int64, bool)) bool

// pathsProg is the program under analysis (for nilness queries made by the explorer).
var pathsProg *Prog

// pathsMissing explores forward from `start` (exclusive; if startEdge >= 0 exploration begins on that successor edge
// of start's block, which must end in an If) to instructions satisfying isTarget, not continuing through instructions
// satisfying avoid. It returns the names of requirements that some path reaching a target has NOT met, and the
// number of targets reached.
func pathsMissing(start ssa.Instruction, startEdge int, isTarget, avoid func(ssa.Instruction) bool, reqs []edgeReq) (missing []string, reached int) {
	return pathsMissingX(start, startEdge, isTarget, avoid, reqs, nil)
}

// pathsMissingX: as pathsMissing, with edges declared infeasible by the caller (cond, polarity) pruned. The explorer
// also tracks, per path, which constant a phi received from the edge it was entered by, and prunes branches whose
// condition compares such a phi with a constant (e.g. `l := -1; if … { l = parsed }; if l < 0 {…}`).
func pathsMissingX(start ssa.Instruction, startEdge int, isTarget, avoid func(ssa.Instruction) bool, reqs []edgeReq, infeasible func(cond ssa.Value, pol bool) bool) (missing []string, reached int) {
	return pathsMissingAt(start.Block(), instrIndex(start)+1, startEdge, isTarget, avoid, reqs, infeasible)
}

// pathsMissingEntry: as pathsMissingX, exploring from the entry of f.
func pathsMissingEntry(f *ssa.Function, isTarget, avoid func(ssa.Instruction) bool, reqs []edgeReq) (missing []string, reached int) {
	return pathsMissingAt(f.Blocks[0], 0, -1, isTarget, avoid, reqs, nil)
}

func pathsMissingAt(startBlock *ssa.BasicBlock, startIdx int, startEdge int, isTarget, avoid func(ssa.Instruction) bool, reqs []edgeReq, infeasible func(cond ssa.Value, pol bool) bool) (missing []string, reached int) {
	type st struct {
		b    *ssa.BasicBlock
		mask int
		cs   string
	}
	seen := map[st]bool{}
	miss := map[string]bool{}
	full := 1<<len(reqs) - 1
	type consts map[*ssa.Phi]int64
	keyOf := func(c consts) string {
		if len(c) == 0 {
			return ""
		}
		var parts []string
		for k, v := range c {
			parts = append(parts, fmt.Sprintf("%s=%d", k.Name(), v))
		}
		sort.Strings(parts)
		return strings.Join(parts, ",")
	}
	enter := func(from, to *ssa.BasicBlock, c consts) consts {
		var out consts
		idx := -1
		for i, p := range to.Preds {
			if p == from {
				idx = i
			}
		}
		for _, in := range to.Instrs {
			ph, ok := in.(*ssa.Phi)
			if !ok {
				break
			}
			if out == nil {
				out = consts{}
				for k, v := range c {
					out[k] = v
				}
			}
			delete(out, ph)
			if idx >= 0 && idx < len(ph.Edges) {
				if k, okk := constInt(ph.Edges[idx]); okk {
					if _, isC := ph.Edges[idx].(*ssa.Const); isC {
						out[ph] = k
					}
				} else if bv, isb := constBool(ph.Edges[idx]); isb {
					// boolean short-circuit values: a || b is phi(true, b)
					out[ph] = 0
					if bv {
						out[ph] = 1
					}
				} else if p2, isP := ph.Edges[idx].(*ssa.Phi); isP {
					if v, has := c[p2]; has {
						out[ph] = v
					}
				}
			}
		}
		if out == nil {
			return c
		}
		return out
	}
	evalCond := func(cond ssa.Value, c consts) (bool, bool) { // (value, known)
		if ph, isPhi := cond.(*ssa.Phi); isPhi {
			if v, has := c[ph]; has {
				return v != 0, true
			}
			return false, false
		}
		bo, ok := cond.(*ssa.BinOp)
		if !ok {
			return false, false
		}
		ph, ok := stripIntConv(bo.X).(*ssa.Phi)
		if !ok {
			return false, false
		}
		v, has := c[ph]
		k, okk := constInt(bo.Y)
		if !has || !okk {
			return false, false
		}
		switch bo.Op {
		case token.LSS:
			return v < k, true
		case token.LEQ:
			return v <= k, true
		case token.GTR:
			return v > k, true
		case token.GEQ:
			return v >= k, true
		case token.EQL:
			return v == k, true
		case token.NEQ:
			return v != k, true
		}
		return false, false
	}
	var walk func(b *ssa.BasicBlock, idx, mask int, c consts)
	step := func(from *ssa.BasicBlock, iff *ssa.If, si int, mask int, c consts) {
		g := Guard{Cond: iff.Cond, Pol: true}.norm()
		pol := (si == 0) == g.Pol
		if infeasible != nil && infeasible(g.Cond, pol) {
			return
		}
		if v, known := evalCond(g.Cond, c); known && v != pol {
			return
		}
		m := mask
		for k, rq := range reqs {
			if rq.Match != nil || rq.MatchS != nil {
				if rq.match(g.Cond, pol) {
					m |= 1 << k
				} else if rq.ViaHelper && m&(1<<k) == 0 && helperEdgeMeets(rq, g.Cond, pol, 0) {
					m |= 1 << k
				}
				continue
			}
			if rq.Cond != nil && rq.Pol == pol && rq.Cond(g.Cond) {
				m |= 1 << k
			}
		}
		nc := enter(from, from.Succs[si], c)
		s := st{from.Succs[si], m, keyOf(nc)}
		if !seen[s] {
			seen[s] = true
			walk(from.Succs[si], 0, m, nc)
		}
	}
	walk = func(b *ssa.BasicBlock, idx, mask int, c consts) {
		for i := idx; i < len(b.Instrs); i++ {
			in := b.Instrs[i]
			if isTarget(in) {
				if pathTargetHook != nil && !pathTargetHook(in, func(ph *ssa.Phi) (int64, bool) { v, has := c[ph]; return v, has }) {
					return // this path cannot produce the outcome the caller asks about
				}
				reached++
				if mask != full {
					for k, rq := range reqs {
						if mask&(1<<k) == 0 {
							miss[rq.Name] = true
						}
					}
				}
				return
			}
			if avoid != nil && avoid(in) {
				return
			}
			for k, rq := range reqs {
				if rq.Instr != nil && mask&(1<<k) == 0 && rq.Instr(in) {
					mask |= 1 << k
				}
			}
			switch t := in.(type) {
			case *ssa.Return, *ssa.Panic:
				return
			case *ssa.If:
				for si := range b.Succs {
					step(b, t, si, mask, c)
				}
				return
			}
		}
		for _, succ := range b.Succs {
			nc := enter(b, succ, c)
			s := st{succ, mask, keyOf(nc)}
			if !seen[s] {
				seen[s] = true
				walk(succ, 0, mask, nc)
			}
		}
	}
	if startEdge >= 0 {
		b := startBlock
		if iff, ok := b.Instrs[len(b.Instrs)-1].(*ssa.If); ok {
			step(b, iff, startEdge, 0, nil)
		}
	} else {
		walk(startBlock, startIdx, 0, nil)
	}
	for k := range miss {
		missing = append(missing, k)
	}
	return missing, reached
}

// fieldLoadCond: v is a load of struct field named `name` of a struct type named typ (package path suffix pkg).
func fieldLoadCond(pkgSuffix, typ, name string) func(ssa.Value) bool {
	return func(v ssa.Value) bool {
		fv, base := loadedField(v)
		if fv == nil || fv.Name() != name {
			return false
		}
		n := namedOf(base.Type())
		return n != nil && n.Obj().Name() == typ && n.Obj().Pkg() != nil && hasSuffix(n.Obj().Pkg().Path(), pkgSuffix)
	}
}

func hasSuffix(s, suf string) bool { return len(s) >= len(suf) && s[len(s)-len(suf):] == suf }

// variadicElems returns the elements packed into a variadic argument (slice of a fresh array).
func variadicElems(arg ssa.Value) []ssa.Value {
	sl, ok := arg.(*ssa.Slice)
	if !ok {
		return nil
	}
	al, ok := sl.X.(*ssa.Alloc)
	if !ok {
		return nil
	}
	at, ok := derefType(al.Type()).Underlying().(*types.Array)
	if !ok {
		return nil
	}
	out := make([]ssa.Value, at.Len())
	for _, ref := range *al.Referrers() {
		ia, ok := ref.(*ssa.IndexAddr)
		if !ok {
			continue
		}
		k, okk := constInt(ia.Index)
		if !okk || k < 0 || k >= int64(len(out)) {
			continue
		}
		for _, r2 := range *ia.Referrers() {
			if st, ok := r2.(*ssa.Store); ok && st.Addr == ssa.Value(ia) {
				out[k] = st.Val
			}
		}
	}
	return out
}

// bytesOfString: v is []byte("literal") — returns the literal.
func bytesOfString(v ssa.Value) (string, bool) {
	cv, ok := v.(*ssa.Convert)
	if !ok {
		return "", false
	}
	return constString(cv.X)
}

// nilReturnsGuarded: for a Return whose error result may be nil, every way the nil reaches it passes an edge
// satisfying guard (dominating the return block, or dominating/being the phi edge that carries the nil).
// nilReturnsExpand, when set, derives further facts from the guards before they are matched (bit provenance for the
// negotiation rules).
var nilReturnsExpand func([]Guard) []Guard

func nilReturnsGuarded(ne *NilEnv, ret *ssa.Return, errIdx int, guard func(g Guard) bool) bool {
	errv := ret.Results[errIdx]
	more := func(gs []Guard) []Guard {
		if nilReturnsExpand != nil {
			return nilReturnsExpand(gs)
		}
		return gs
	}
	domOK := func(b *ssa.BasicBlock) bool {
		for _, g := range more(guardsOf(b)) {
			if guard(g.norm()) {
				return true
			}
		}
		return false
	}
	if domOK(ret.Block()) {
		return true
	}
	var rec func(v ssa.Value, at *ssa.BasicBlock, depth int) bool
	rec = func(v ssa.Value, at *ssa.BasicBlock, depth int) bool {
		if depth > 6 {
			return false
		}
		if ne.At(v, at) == NonNil {
			return true
		}
		ph, ok := v.(*ssa.Phi)
		if !ok {
			return at != nil && domOK(at)
		}
		for i, e := range ph.Edges {
			pb := ph.Block().Preds[i]
			if ne.At(e, pb) == NonNil {
				continue
			}
			// the edge pb -> phi block itself may be the guard edge
			edgeOK := domOK(pb)
			if !edgeOK {
				for _, g := range more(guardsOnEdge(pb, ph.Block())) {
					if guard(g.norm()) {
						edgeOK = true
					}
				}
			}
			if edgeOK {
				continue
			}
			if _, isPhi := e.(*ssa.Phi); isPhi {
				if rec(e, pb, depth+1) {
					continue
				}
			}
			return false
		}
		return true
	}
	return rec(errv, ret.Block(), 0)
}

var _ = token.ADD

// viaLocal: an instruction requirement that is also met by a call of a closure of the same function, or of an
// unexported function of the same package, on all of whose ways from entry to a return the requirement is met
// (fail := func(e error) (int, error) { r.request(-1, -1); return 0, e } … return fail(io.EOF)).
func viaLocal(base func(ssa.Instruction) bool) func(ssa.Instruction) bool {
	memo := map[*ssa.Function]int{}
	var pred func(in ssa.Instruction, d int) bool
	pred = func(in ssa.Instruction, d int) bool {
		if base(in) {
			return true
		}
		c, ok := in.(*ssa.Call)
		if !ok || c.Call.IsInvoke() || d > 2 {
			return false
		}
		h := c.Call.StaticCallee()
		if h == nil || h.Blocks == nil || in.Parent() == nil || funcPkgPath(h) != funcPkgPath(in.Parent()) {
			return false
		}
		if h.Parent() == nil {
			if obj, isF := h.Object().(*types.Func); !isF || obj.Exported() {
				return false
			}
		}
		if v, seen := memo[h]; seen {
			return v == 1
		}
		memo[h] = 0
		isRet := func(i ssa.Instruction) bool { _, r := i.(*ssa.Return); return r }
		miss, reached := pathsMissingEntry(h, isRet, nil, []edgeReq{{Name: "met", Instr: func(i ssa.Instruction) bool { return pred(i, d+1) }}})
		if len(miss) == 0 && reached > 0 {
			memo[h] = 1
			return true
		}
		return false
	}
	return func(in ssa.Instruction) bool { return pred(in, 0) }
}
