package main

// A read that has to fill its buffer (io.ReadFull, io.ReadAtLeast) has done so only when it returns a nil error: on
// io.ErrUnexpectedEOF the buffer holds the beginning of what was asked for and, after it, whatever was there before
// (the previous record, zeros). readFullChecked: in the packages given, on no way from such a call is a byte of the
// buffer consumed before the call's own error has been tested nil (or its count tested against the expected size).
// A test of a variable that, on some way from the call, was overwritten with something else (err = nil for a
// "tolerated" error) is not a test of the call's error.

import (
	"fmt"
	"go/token"
	"go/types"

	"golang.org/x/tools/go/ssa"
)

func readFullChecked(r *Report, rule string, pkgs map[string]bool, minN int) {
	p := r.P
	n := 0
	for _, f := range p.SrcFuncs() {
		if !pkgs[relPkg(f)] {
			continue
		}
		allInstrs(f, func(in ssa.Instruction) {
			c, ok := in.(*ssa.Call)
			if !ok || !(isStdCall(c, "io", "", "ReadFull") || isStdCall(c, "io", "", "ReadAtLeast")) {
				return
			}
			n++
			r.Fn(f)
			buf := c.Call.Args[1]
			key := fmt.Sprintf("%s/%s(%s)/error-tested-before-use", fname(f), c.Call.StaticCallee().Name(), exprStr(buf))
			if cnt := extractOf(c, 0); cnt != nil && flowsToSliceHigh(cnt, 0, map[ssa.Value]bool{}) {
				r.Ok(rule, key, c.Pos(), "the buffer is cut down to the count the call returned")
				return
			}
			if use := unreadUse(c); use != nil {
				r.Fail(rule, key, use.Pos(), "the buffer filled by %s is used here on a way from the call on which the call's error has not been tested nil: after a short read (io.ErrUnexpectedEOF) the buffer holds the start of the record followed by stale bytes, and those are taken for data", c.Call.StaticCallee().Name())
			} else {
				r.Ok(rule, key, c.Pos(), "every use of the buffer after the call is behind a nil test of the call's own error (or a test of its count)")
			}
		})
	}
	r.Sentinel(rule+".full-reads", n, minN)
}

// unreadUse: the first consumer of the buffer of full-read call c that is reachable from c without crossing an edge on
// which c's error is known (nil: the use is fine; non-nil: error handling, not judged here).
func unreadUse(c *ssa.Call) ssa.Instruction {
	f := c.Parent()
	root := sliceRootRec(c.Call.Args[1], map[ssa.Value]bool{})
	if root == nil {
		return nil
	}
	errv := extractOf(c, 1)
	cnt := extractOf(c, 0)
	// blocks reachable from the call (for the phi rule)
	after := map[*ssa.BasicBlock]bool{}
	var mark func(b *ssa.BasicBlock)
	mark = func(b *ssa.BasicBlock) {
		for _, s := range b.Succs {
			if !after[s] {
				after[s] = true
				mark(s)
			}
		}
	}
	mark(c.Block())
	// the call's error, possibly through the cell of a captured variable or named result
	var cellOfErr *ssa.Alloc
	var cellStore *ssa.Store
	if errv != nil {
		for _, ref := range *errv.Referrers() {
			if st, ok := ref.(*ssa.Store); ok && st.Val == errv {
				if al, isAl := st.Addr.(*ssa.Alloc); isAl {
					cellOfErr, cellStore = al, st
				}
			}
		}
	}
	errIs := func(v ssa.Value) bool {
		if errv == nil || v == nil {
			return false
		}
		if v == errv {
			return true
		}
		ld, ok := v.(*ssa.UnOp)
		if !ok || ld.Op != token.MUL || cellOfErr == nil || ld.X != ssa.Value(cellOfErr) {
			return false
		}
		for _, ref := range *cellOfErr.Referrers() {
			st, isSt := ref.(*ssa.Store)
			if !isSt || st == cellStore || st.Addr != ssa.Value(cellOfErr) {
				continue
			}
			if instrReaches(cellStore, st) && instrReaches(st, ld) && !instrReaches(st, cellStore) {
				return false // overwritten between the call and this load
			}
		}
		return true
	}
	nonNilValue := func(v ssa.Value) bool {
		// errors.New(…), fmt.Errorf(…), a package-level error variable
		switch x := v.(type) {
		case *ssa.Call:
			return isStdCall(x, "errors", "", "New") || isStdCall(x, "fmt", "", "Errorf")
		case *ssa.UnOp:
			_, isG := x.X.(*ssa.Global)
			return isG
		case *ssa.MakeInterface:
			return true
		}
		return false
	}
	var phiIsErr func(v ssa.Value, d int) bool
	phiIsErr = func(v ssa.Value, d int) bool {
		// v == nil implies the call's error was nil: every edge that comes from after the call carries the call's
		// error itself (or something that is never nil)
		if errIs(v) {
			return true
		}
		ph, ok := v.(*ssa.Phi)
		if !ok || d > 3 {
			return false
		}
		for i, e := range ph.Edges {
			if i >= len(ph.Block().Preds) {
				return false
			}
			pred := ph.Block().Preds[i]
			if !after[pred] && pred != c.Block() {
				continue // this way does not come from the call
			}
			if phiIsErr(e, d+1) || nonNilValue(e) {
				continue
			}
			return false
		}
		return true
	}
	mentionsErr := func(v ssa.Value) bool {
		if errIs(v) {
			return true
		}
		if ph, ok := v.(*ssa.Phi); ok {
			for _, e := range ph.Edges {
				if errIs(e) {
					return true
				}
			}
		}
		return false
	}
	isCnt := func(v ssa.Value) bool { return cnt != nil && stripIntConv(v) == cnt }
	// 1: the edge establishes success; 2: it establishes failure; 0: neither
	edgeSays := func(from, to *ssa.BasicBlock) int {
		for _, g := range edgeGuard(from, to) {
			if x, isNil, ok := nilFact(g); ok {
				if isNil && phiIsErr(x, 0) {
					return 1
				}
				if !isNil && mentionsErr(x) {
					return 2
				}
			}
			if op, x, y, ok := cmpFact(g); ok {
				if isCnt(x) && (op == token.EQL || op == token.GEQ || op == token.GTR) {
					return 1
				}
				if isCnt(y) && (op == token.EQL || op == token.LEQ || op == token.LSS) {
					return 1
				}
				if isCnt(x) && (op == token.NEQ || op == token.LSS) || isCnt(y) && (op == token.NEQ || op == token.GTR) {
					return 2
				}
			}
		}
		return 0
	}
	rootOf := map[ssa.Value]ssa.Value{}
	rooted := func(v ssa.Value) bool {
		if v == nil {
			return false
		}
		if v == root {
			return true
		}
		switch v.(type) {
		case *ssa.Slice, *ssa.IndexAddr, *ssa.Phi, *ssa.ChangeType:
		default:
			return false
		}
		rt, ok := rootOf[v]
		if !ok {
			w := v
			if ia, isIA := v.(*ssa.IndexAddr); isIA {
				w = ia.X
			}
			rt = sliceRootRec(w, map[ssa.Value]bool{})
			rootOf[v] = rt
		}
		return rt == root
	}
	consumes := func(in ssa.Instruction) bool {
		switch x := in.(type) {
		case *ssa.Slice, *ssa.IndexAddr, *ssa.Phi, *ssa.ChangeType, *ssa.DebugRef:
			return false
		case *ssa.Store:
			return rooted(x.Val)
		case *ssa.UnOp:
			return x.Op == token.MUL && rooted(x.X)
		case ssa.CallInstruction:
			cc := x.Common()
			if bi, ok := cc.Value.(*ssa.Builtin); ok {
				switch bi.Name() {
				case "len", "cap", "clear":
					return false
				case "copy":
					return len(cc.Args) == 2 && rooted(cc.Args[1])
				}
			}
			if call, ok := in.(*ssa.Call); ok {
				if isStdCall(call, "io", "", "ReadFull") || isStdCall(call, "io", "", "ReadAtLeast") {
					return false
				}
				if cc.IsInvoke() && (cc.Method.Name() == "Read" || cc.Method.Name() == "ReadAt") {
					return false
				}
			}
			for _, a := range cc.Args {
				if rooted(a) {
					return true
				}
			}
			return false
		}
		var ops []*ssa.Value
		for _, op := range in.Operands(ops) {
			if op != nil && rooted(*op) {
				return true
			}
		}
		return false
	}
	type wst struct {
		b      *ssa.BasicBlock
		failed bool
	}
	seen := map[wst]bool{}
	var found ssa.Instruction
	// after a failure has been established the buffer may still be given back to its pool or returned beside the error;
	// anything else that consumes it treats the failed read as data (if err != nil && err != io.ErrUnexpectedEOF {…})
	cleanup := func(in ssa.Instruction) bool {
		switch x := in.(type) {
		case *ssa.Return:
			return true
		case ssa.CallInstruction:
			cc := x.Common()
			if h := cc.StaticCallee(); h != nil && !cc.IsInvoke() {
				if h.Name() == "PutBuffer" || (h.Name() == "Put" && h.Pkg != nil && h.Pkg.Pkg.Path() == "sync") {
					return true
				}
			}
		case *ssa.MakeInterface:
			// pool.Put(buf) boxes the slice first
			for _, ref := range *x.Referrers() {
				if ci, ok := ref.(ssa.CallInstruction); ok {
					if h := ci.Common().StaticCallee(); h != nil && h.Name() == "Put" {
						continue
					}
				}
				return false
			}
			return true
		}
		return false
	}
	var walk func(b *ssa.BasicBlock, from int, failed bool)
	walk = func(b *ssa.BasicBlock, from int, failed bool) {
		for i := from; i < len(b.Instrs) && found == nil; i++ {
			in := b.Instrs[i]
			if in == ssa.Instruction(c) {
				return // the next round of a loop: a new read, judged on its own
			}
			if consumes(in) && !(failed && cleanup(in)) {
				found = in
				return
			}
		}
		for _, s := range b.Succs {
			if found != nil {
				continue
			}
			nf := failed
			switch edgeSays(b, s) {
			case 1:
				continue
			case 2:
				nf = true
			}
			if seen[wst{s, nf}] {
				continue
			}
			seen[wst{s, nf}] = true
			walk(s, 0, nf)
		}
	}
	walk(c.Block(), instrIndex(c)+1, false)
	_ = f
	_ = types.Typ
	return found
}
