package main

import (
	"fmt"
	"go/token"

	"golang.org/x/tools/go/ssa"
)

// Bit provenance.  bitFacts(v, bit) computes a set of branch facts that necessarily hold whenever `bit` is set in v,
// for values assembled from constants with |, &, conversions, phis and single-result helpers of the same package:
//
//	AND: both operands carry the bit -> union of their facts
//	OR:  one of the operands that can carry the bit does -> intersection of their facts
//	phi: one incoming edge was taken -> intersection over edges of (facts of the edge value + the guards of that edge)
//	call: one return was taken -> intersection over returns of (facts of the result + the guards of that return)
//	anything else: the atomic fact "v & bit != 0" (a bitFact pseudo-value)
//
// Fewer facts is the safe direction (a rule then fails to discharge); unknown shapes and cycles yield no facts.
type bitFact struct {
	ssa.Value // the value whose bit is known to be set
	Bit       int64
}

type factSet struct {
	impossible bool // the bit can never be set in this value
	gs         []Guard
}

func guardKey(g Guard) string {
	g = g.norm()
	if bf, ok := g.Cond.(*bitFact); ok {
		return fmt.Sprintf("bit:%p:%d:%v", bf.Value, bf.Bit, g.Pol)
	}
	if fv, _ := loadedField(g.Cond); fv != nil {
		return fmt.Sprintf("field:%p:%v", fv, g.Pol)
	}
	if bo, ok := g.Cond.(*ssa.BinOp); ok {
		if k, okk := constInt(bo.Y); okk {
			if fv, _ := loadedField(stripIntConv(bo.X)); fv != nil {
				return fmt.Sprintf("cmp:%s:field:%p:%d:%v", bo.Op, fv, k, g.Pol)
			}
			return fmt.Sprintf("cmp:%s:%p:%d:%v", bo.Op, stripIntConv(bo.X), k, g.Pol)
		}
	}
	return fmt.Sprintf("val:%p:%v", g.Cond, g.Pol)
}

func meetFacts(list []factSet) factSet {
	var live []factSet
	for _, f := range list {
		if !f.impossible {
			live = append(live, f)
		}
	}
	if len(live) == 0 {
		return factSet{impossible: true}
	}
	out := factSet{}
	for _, g := range live[0].gs {
		k := guardKey(g)
		all := true
		for _, o := range live[1:] {
			has := false
			for _, h := range o.gs {
				if guardKey(h) == k {
					has = true
					break
				}
			}
			if !has {
				all = false
				break
			}
		}
		if all {
			out.gs = append(out.gs, g)
		}
	}
	return out
}

func bitFacts(v ssa.Value, bit int64) factSet {
	return bitFactsRec(v, bit, 0, map[ssa.Value]bool{})
}

func bitFactsRec(v ssa.Value, bit int64, d int, onPath map[ssa.Value]bool) factSet {
	if d > 14 {
		return factSet{}
	}
	if onPath[v] {
		return factSet{} // a cycle (a mask accumulated in a loop): no facts
	}
	onPath[v] = true
	defer delete(onPath, v)
	switch x := v.(type) {
	case *ssa.Const:
		k, ok := constInt(x)
		if !ok {
			return factSet{}
		}
		if k&bit == 0 {
			return factSet{impossible: true}
		}
		return factSet{}
	case *ssa.Convert:
		if isInteger(x.Type()) && isInteger(x.X.Type()) && (intBits(x.Type()) >= 63 || bit < int64(1)<<uint(intBits(x.Type()))) {
			return bitFactsRec(x.X, bit, d+1, onPath)
		}
	case *ssa.ChangeType:
		return bitFactsRec(x.X, bit, d+1, onPath)
	case *ssa.BinOp:
		switch x.Op {
		case token.AND:
			a := bitFactsRec(x.X, bit, d+1, onPath)
			b := bitFactsRec(x.Y, bit, d+1, onPath)
			if a.impossible || b.impossible {
				return factSet{impossible: true}
			}
			return factSet{gs: append(append([]Guard{}, a.gs...), b.gs...)}
		case token.OR:
			return meetFacts([]factSet{bitFactsRec(x.X, bit, d+1, onPath), bitFactsRec(x.Y, bit, d+1, onPath)})
		case token.AND_NOT:
			a := bitFactsRec(x.X, bit, d+1, onPath)
			if k, ok := constInt(x.Y); ok && k&bit != 0 {
				return factSet{impossible: true}
			}
			return a
		}
	case *ssa.Phi:
		var list []factSet
		for i, e := range x.Edges {
			if i >= len(x.Block().Preds) {
				return factSet{}
			}
			f := bitFactsRec(e, bit, d+1, onPath)
			if !f.impossible {
				pred := x.Block().Preds[i]
				f.gs = append(append(append([]Guard{}, f.gs...), guardsOfRaw(pred)...), edgeGuard(pred, x.Block())...)
			}
			list = append(list, f)
		}
		return meetFacts(list)
	case *ssa.Call:
		h := x.Call.StaticCallee()
		if h != nil && h.Blocks != nil && !x.Call.IsInvoke() && x.Parent() != nil && relPkg(h) == relPkg(x.Parent()) && h != x.Parent() {
			var list []factSet
			for _, ret := range returnsOf(h) {
				res := retResults(ret)
				if len(res) != 1 {
					return factSet{}
				}
				f := bitFactsRec(res[0], bit, d+1, onPath)
				if !f.impossible {
					f.gs = append(append([]Guard{}, f.gs...), guardsOfRaw(ret.Block())...)
				}
				list = append(list, f)
			}
			if len(list) > 0 {
				return meetFacts(list)
			}
		}
	}
	return factSet{gs: []Guard{{Cond: &bitFact{Value: v, Bit: bit}, Pol: true}}}
}

// expandBitGuards adds, for every guard that fixes bits of a mask (v == K with K != 0, v&c != 0, v&c == c), the
// facts that those bits being set implies.  Used by the negotiation rules only (C07/C08).
func expandBitGuards(gs []Guard) []Guard {
	out := append([]Guard{}, gs...)
	done := map[string]bool{}
	for i := 0; i < len(out) && i < 96; i++ {
		g := out[i].norm()
		bo, ok := g.Cond.(*ssa.BinOp)
		if !ok || (bo.Op != token.EQL && bo.Op != token.NEQ) {
			continue
		}
		k, okk := constInt(bo.Y)
		x := bo.X
		if !okk {
			k, okk = constInt(bo.X)
			x = bo.Y
		}
		if !okk || k < 0 || k > 0xFFFF {
			continue
		}
		eq := (bo.Op == token.EQL) == g.Pol
		var v ssa.Value
		var bits int64
		x = stripIntConv(x)
		if and, isAnd := x.(*ssa.BinOp); isAnd && and.Op == token.AND {
			c, okc := constInt(and.Y)
			of := and.X
			if !okc {
				c, okc = constInt(and.X)
				of = and.Y
			}
			if okc && c > 0 {
				switch {
				case eq && k != 0 && k&^c == 0:
					v, bits = of, k // v&c == k: the bits of k are set
				case !eq && k == 0 && c&(c-1) == 0:
					v, bits = of, c // v&bit != 0
				}
			}
		}
		if v == nil && eq && k != 0 {
			v, bits = x, k
		}
		if v == nil {
			continue
		}
		for b := int64(1); b <= bits; b <<= 1 {
			if bits&b == 0 {
				continue
			}
			key := fmt.Sprintf("%p:%d", v, b)
			if done[key] {
				continue
			}
			done[key] = true
			fs := bitFacts(v, b)
			if fs.impossible {
				continue
			}
			out = append(out, expandGuards(fs.gs)...)
		}
	}
	return out
}
