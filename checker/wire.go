package main

// Symbolic evaluation of what protocol.Write puts on the wire.
//
// For one case of Write's type switch the evaluator walks the code that runs when every write succeeds and builds the
// sequence of items handed to the bufio.Writer: 32/16/8-bit integers and raw byte strings, each with the expression it
// carries. Buffers are modelled as item lists (w.AvailableBuffer() is empty, binary.BigEndian.AppendUint32(b, x)
// appends a 32-bit item, append(b, x…) appends bytes, []byte{x} is a one-byte list); calls of helpers of package
// protocol are evaluated in place with their parameters bound to the caller's values, so it does not matter whether
// the frame is assembled inline, in sendMessage3, or in a helper written tomorrow. Branches on `err != nil` follow the
// success edge; branches on `x != nil` are decided when x is bound to a nil constant or to a built value, and
// otherwise follow the "present" edge. Anything the evaluator does not model makes the layout unknown (the rule then
// reports the case as undecided rather than guessing).

import (
	"fmt"
	"go/constant"
	"go/token"
	"go/types"

	"golang.org/x/tools/go/ssa"
)

type wireItem struct {
	Bits int       // 32, 16, 8; 0 = raw bytes
	Val  ssa.Value // resolved to the outermost caller's values where possible
}

type wireLayout struct {
	Items   []wireItem
	Unknown string
}

type wireEval struct {
	out     []wireItem
	unknown string
	steps   int
}

type wireFrame struct {
	f      *ssa.Function
	env    map[ssa.Value]ssa.Value  // parameter -> caller value
	bufs   map[ssa.Value][]wireItem // byte-slice values built so far
	w      ssa.Value                // the *bufio.Writer in this frame
	ret    []wireItem               // items of the byte slice the frame returned (buffer-building helpers)
	hasRet bool
}

func (fr *wireFrame) resolve(v ssa.Value) ssa.Value {
	for i := 0; i < 8; i++ {
		if r, ok := fr.env[v]; ok && r != nil {
			v = r
			continue
		}
		break
	}
	return v
}

func (e *wireEval) fail(format string, a ...interface{}) {
	if e.unknown == "" {
		e.unknown = fmt.Sprintf(format, a...)
	}
}

// bytesOf: the item list of a byte-slice value.
func (e *wireEval) bytesOf(fr *wireFrame, v ssa.Value) []wireItem {
	if its, ok := fr.bufs[v]; ok {
		return its
	}
	rv := fr.resolve(v)
	if its, ok := fr.bufs[rv]; ok {
		return its
	}
	if isNilConst(rv) {
		return nil
	}
	return []wireItem{{0, rv}}
}

// sliceLit: v is []byte{a, b, …} (a slice of a freshly stored local array): its elements.
func sliceLitElems(v ssa.Value) ([]ssa.Value, bool) {
	sl, ok := v.(*ssa.Slice)
	if !ok || sl.Low != nil || sl.High != nil {
		return nil, false
	}
	al, ok := sl.X.(*ssa.Alloc)
	if !ok {
		return nil, false
	}
	at, ok := derefType(al.Type()).Underlying().(*types.Array)
	if !ok {
		return nil, false
	}
	els := make([]ssa.Value, at.Len())
	for _, ref := range *al.Referrers() {
		ia, ok := ref.(*ssa.IndexAddr)
		if !ok {
			continue
		}
		k, okk := constInt(ia.Index)
		if !okk || k < 0 || k >= at.Len() {
			return nil, false
		}
		for _, r2 := range *ia.Referrers() {
			if st, ok := r2.(*ssa.Store); ok && st.Addr == ssa.Value(ia) {
				els[k] = st.Val
			}
		}
	}
	for _, x := range els {
		if x == nil {
			return nil, false
		}
	}
	return els, true
}

func (e *wireEval) run(fr *wireFrame, start *ssa.BasicBlock, depth int) {
	if depth > 4 {
		e.fail("helper nesting too deep")
		return
	}
	b := start
	var prev *ssa.BasicBlock
	visits := map[*ssa.BasicBlock]int{}
	mkConst := func(k int64) ssa.Value { return ssa.NewConst(constant.MakeInt64(k), types.Typ[types.Int]) }
	// elemsOf: the elements of an array or slice literal built in this frame
	elemsOf := func(v ssa.Value) ([]ssa.Value, bool) {
		switch y := v.(type) {
		case *ssa.Slice:
			return sliceLitElems(y)
		case *ssa.UnOp:
			if al, ok := y.X.(*ssa.Alloc); ok && y.Op == token.MUL {
				return allocElems(al)
			}
		case *ssa.Alloc:
			return allocElems(y)
		}
		return nil, false
	}
	for b != nil && e.unknown == "" {
		visits[b]++
		if visits[b] > 24 {
			e.fail("loop in %s", fname(fr.f))
			return
		}
		// phis take the value of the edge the block was entered by (all at once)
		if prev != nil {
			idx := -1
			for i, p := range b.Preds {
				if p == prev {
					idx = i
				}
			}
			type upd struct {
				ph  *ssa.Phi
				val ssa.Value
				its []wireItem
				isB bool
			}
			var ups []upd
			for _, in := range b.Instrs {
				ph, ok := in.(*ssa.Phi)
				if !ok {
					break
				}
				if idx < 0 || idx >= len(ph.Edges) {
					continue
				}
				ev := ph.Edges[idx]
				u := upd{ph: ph, val: fr.resolve(ev)}
				if its, ok := fr.bufs[ev]; ok {
					u.its, u.isB = its, true
				} else if its, ok := fr.bufs[u.val]; ok {
					u.its, u.isB = its, true
				}
				ups = append(ups, u)
			}
			for _, u := range ups {
				if u.val != ssa.Value(u.ph) {
					fr.env[u.ph] = u.val
				} else {
					delete(fr.env, u.ph)
				}
				if u.isB {
					fr.bufs[u.ph] = u.its
				} else {
					delete(fr.bufs, u.ph)
				}
			}
		}
		var next *ssa.BasicBlock
		for _, in := range b.Instrs {
			e.steps++
			if e.steps > 4000 {
				e.fail("evaluation budget exceeded")
				return
			}
			switch x := in.(type) {
			case *ssa.Slice:
				if els, ok := sliceLitElems(x); ok && isByteSlice(x.Type()) {
					var its []wireItem
					for _, el := range els {
						its = append(its, wireItem{8, fr.resolve(el)})
					}
					fr.bufs[x] = its
				} else if x.Low == nil && x.High == nil {
					if its, ok := fr.bufs[x.X]; ok {
						fr.bufs[x] = its
					}
				}
			case *ssa.BinOp:
				// small integer arithmetic on known values (loop counters over literals)
				if x.Op == token.ADD || x.Op == token.SUB {
					lx, okx := constInt(fr.resolve(x.X))
					ly, oky := constInt(fr.resolve(x.Y))
					if okx && oky && isInteger(x.Type()) {
						if x.Op == token.ADD {
							fr.env[x] = mkConst(lx + ly)
						} else {
							fr.env[x] = mkConst(lx - ly)
						}
					} else {
						delete(fr.env, x)
					}
				}
			case *ssa.Index:
				if els, ok := elemsOf(x.X); ok {
					if k, okk := constInt(fr.resolve(x.Index)); okk && k >= 0 && int(k) < len(els) {
						fr.env[x] = fr.resolve(els[k])
						if its, okb := fr.bufs[els[k]]; okb {
							fr.bufs[x] = its
						}
					}
				}
			case *ssa.UnOp:
				if ia, ok := x.X.(*ssa.IndexAddr); ok && x.Op == token.MUL {
					if els, ok := elemsOf(ia.X); ok {
						if k, okk := constInt(fr.resolve(ia.Index)); okk && k >= 0 && int(k) < len(els) {
							fr.env[x] = fr.resolve(els[k])
							if its, okb := fr.bufs[els[k]]; okb {
								fr.bufs[x] = its
							} else {
								delete(fr.bufs, x)
							}
						}
					}
				}
			case *ssa.Call:
				if bi, ok := x.Call.Value.(*ssa.Builtin); ok && bi.Name() == "len" && len(x.Call.Args) == 1 {
					if els, ok := elemsOf(x.Call.Args[0]); ok {
						fr.env[x] = mkConst(int64(len(els)))
					}
				}
				e.call(fr, x, depth)
			case *ssa.If:
				next = e.branch(fr, x)
			case *ssa.Jump:
				next = b.Succs[0]
			case *ssa.Return:
				if len(x.Results) == 1 && isByteSlice(x.Results[0].Type()) {
					fr.ret, fr.hasRet = e.bytesOf(fr, x.Results[0]), true
				}
				return
			case *ssa.Panic:
				return
			}
			if e.unknown != "" {
				return
			}
		}
		prev = b
		b = next
	}
}

// allocElems: the values stored into the elements of a local array (a literal), by constant index.
func allocElems(al *ssa.Alloc) ([]ssa.Value, bool) {
	at, ok := derefType(al.Type()).Underlying().(*types.Array)
	if !ok || at.Len() > 64 {
		return nil, false
	}
	els := make([]ssa.Value, at.Len())
	for _, ref := range *al.Referrers() {
		ia, ok := ref.(*ssa.IndexAddr)
		if !ok {
			continue
		}
		k, okk := constInt(ia.Index)
		if !okk || k < 0 || k >= at.Len() {
			continue // a read with a variable index
		}
		for _, r2 := range *ia.Referrers() {
			if st, ok := r2.(*ssa.Store); ok && st.Addr == ssa.Value(ia) {
				if els[k] != nil {
					return nil, false
				}
				els[k] = st.Val
			}
		}
	}
	for _, x := range els {
		if x == nil {
			return nil, false
		}
	}
	return els, true
}

// branch picks the successor to follow.
func (e *wireEval) branch(fr *wireFrame, iff *ssa.If) *ssa.BasicBlock {
	b := iff.Block()
	g := Guard{Cond: iff.Cond, Pol: true}.norm()
	// g.Pol: value of g.Cond on the true edge
	take := func(condVal bool) *ssa.BasicBlock {
		if condVal == g.Pol {
			return b.Succs[0]
		}
		return b.Succs[1]
	}
	if x, isNil, ok := nilFact(Guard{Cond: g.Cond, Pol: true}); ok {
		// isNil: the condition being true means x is nil
		if isErrorType(x.Type()) {
			return take(isNil) // success: the error is nil
		}
		rx := fr.resolve(x)
		if isNilConst(rx) {
			return take(isNil)
		}
		if _, built := fr.bufs[rx]; built {
			return take(!isNil)
		}
		if _, built := fr.bufs[x]; built {
			return take(!isNil)
		}
		return take(!isNil) // unknown payload: follow the "present" edge
	}
	// comparisons with constants of bound values (if tpe == 0 …) and anything else: not modelled, but harmless when
	// neither side writes; be conservative
	if bo, ok := g.Cond.(*ssa.BinOp); ok {
		lx, okx := constInt(fr.resolve(stripIntConv(bo.X)))
		ly, oky := constInt(fr.resolve(stripIntConv(bo.Y)))
		if okx && oky {
			var v bool
			switch bo.Op {
			case token.EQL:
				v = lx == ly
			case token.NEQ:
				v = lx != ly
			case token.LSS:
				v = lx < ly
			case token.GTR:
				v = lx > ly
			case token.LEQ:
				v = lx <= ly
			case token.GEQ:
				v = lx >= ly
			default:
				e.fail("branch on %s", exprStr(iff.Cond))
				return nil
			}
			return take(v)
		}
	}
	// an assertion (`if m.Subtype == 0 { panic(…) }`): follow the side that goes on
	if panicsSoon(b.Succs[0]) && !panicsSoon(b.Succs[1]) {
		return b.Succs[1]
	}
	if panicsSoon(b.Succs[1]) && !panicsSoon(b.Succs[0]) {
		return b.Succs[0]
	}
	// a branch that does not lead to a write on either side before the paths rejoin can be ignored; otherwise unknown.
	if !writesBeforeJoin(b.Succs[0], fr) && !writesBeforeJoin(b.Succs[1], fr) {
		// follow the edge that does not panic/return early if possible
		if endsEarly(b.Succs[0]) && !endsEarly(b.Succs[1]) {
			return b.Succs[1]
		}
		return b.Succs[0]
	}
	e.fail("branch on %s decides what is written", exprStr(iff.Cond))
	return nil
}

func panicsSoon(b *ssa.BasicBlock) bool {
	for i := 0; i < 3 && b != nil; i++ {
		switch b.Instrs[len(b.Instrs)-1].(type) {
		case *ssa.Panic:
			return true
		case *ssa.Jump:
			b = b.Succs[0]
		default:
			return false
		}
	}
	return false
}

func endsEarly(b *ssa.BasicBlock) bool {
	for i := 0; i < 3 && b != nil; i++ {
		last := b.Instrs[len(b.Instrs)-1]
		switch last.(type) {
		case *ssa.Panic:
			return true
		case *ssa.Return:
			// a return directly after the branch without having written: an error exit
			return true
		case *ssa.Jump:
			b = b.Succs[0]
		default:
			return false
		}
	}
	return false
}

// writesBeforeJoin: the straight-line region starting at b (until a block with several predecessors) writes to w
// or calls a helper of package protocol.
func writesBeforeJoin(b *ssa.BasicBlock, fr *wireFrame) bool {
	for i := 0; i < 6 && b != nil; i++ {
		if len(b.Preds) > 1 {
			return false // the paths have rejoined
		}
		for _, in := range b.Instrs {
			c, ok := in.(*ssa.Call)
			if !ok {
				continue
			}
			if c.Call.IsInvoke() {
				continue
			}
			if h := c.Call.StaticCallee(); h != nil {
				if relPkg(h) == "protocol" && h.Blocks != nil {
					for _, a := range c.Call.Args {
						if typeIs(derefType(a.Type()), "bufio", "Writer") {
							return true
						}
					}
				}
				if isStdCall(c, "bufio", "Writer", "Write") || isStdCall(c, "bufio", "Writer", "WriteByte") || isStdCall(c, "bufio", "Writer", "WriteString") {
					return true
				}
			}
		}
		if len(b.Succs) != 1 || len(b.Succs[0].Preds) > 1 {
			return false
		}
		b = b.Succs[0]
	}
	return false
}

func (e *wireEval) call(fr *wireFrame, c *ssa.Call, depth int) {
	if bi, ok := c.Call.Value.(*ssa.Builtin); ok {
		if bi.Name() == "append" && len(c.Call.Args) == 2 {
			if _, isBytes := c.Type().Underlying().(*types.Slice); isBytes {
				base, okb := fr.bufs[c.Call.Args[0]]
				if !okb {
					if rb, ok2 := fr.bufs[fr.resolve(c.Call.Args[0])]; ok2 {
						base, okb = rb, true
					}
				}
				if !okb {
					return // not a buffer we follow
				}
				its := append([]wireItem{}, base...)
				if els := variadicElems(c.Call.Args[1]); len(els) > 0 {
					for _, el := range els {
						its = append(its, wireItem{8, fr.resolve(el)})
					}
				} else {
					its = append(its, e.bytesOf(fr, c.Call.Args[1])...)
				}
				fr.bufs[c] = its
			}
		}
		return
	}
	if c.Call.IsInvoke() {
		return
	}
	h := c.Call.StaticCallee()
	if h == nil {
		return
	}
	args := c.Call.Args
	switch {
	case isStdCall(c, "bufio", "Writer", "AvailableBuffer"):
		fr.bufs[c] = []wireItem{}
	case isStdCall(c, "bufio", "Writer", "Write"):
		e.out = append(e.out, e.bytesOf(fr, args[1])...)
	case isStdCall(c, "bufio", "Writer", "WriteByte"):
		e.out = append(e.out, wireItem{8, fr.resolve(args[1])})
	case isStdCall(c, "bufio", "Writer", "WriteString"):
		e.out = append(e.out, wireItem{0, fr.resolve(args[1])})
	default:
		if o := calleeObj(c); o != nil && o.Pkg() != nil && o.Pkg().Path() == "encoding/binary" {
			bits := 0
			switch o.Name() {
			case "AppendUint32":
				bits = 32
			case "AppendUint16":
				bits = 16
			case "AppendUint64":
				bits = 64
			}
			if bits > 0 && len(args) >= 2 {
				base, okb := fr.bufs[args[len(args)-2]]
				if !okb {
					base, okb = fr.bufs[fr.resolve(args[len(args)-2])]
				}
				if okb {
					fr.bufs[c] = append(append([]wireItem{}, base...), wireItem{bits, fr.resolve(stripIntConv(args[len(args)-1]))})
				}
				return
			}
			switch o.Name() {
			case "PutUint32", "PutUint16":
				// a fixed buffer filled in place: its content is that integer
				if len(args) >= 2 {
					bits := 32
					if o.Name() == "PutUint16" {
						bits = 16
					}
					fr.bufs[args[len(args)-2]] = []wireItem{{bits, fr.resolve(stripIntConv(args[len(args)-1]))}}
				}
			}
			return
		}
		if relPkg(h) != "protocol" || h.Blocks == nil {
			return
		}
		// a helper of package protocol that is handed the writer: evaluate it in place
		wIdx := -1
		for i, a := range args {
			if fr.resolve(a) == fr.w || a == fr.w {
				wIdx = i
			}
		}
		if wIdx < 0 {
			// a helper that builds on a buffer it is handed and returns it (appendHeader(buf, tpe, n))
			bIdx := -1
			for i, a := range args {
				if _, ok := fr.bufs[a]; ok {
					bIdx = i
				} else if _, ok := fr.bufs[fr.resolve(a)]; ok {
					bIdx = i
				}
			}
			if bIdx < 0 || !isByteSlice(c.Type()) || len(args) != len(h.Params) {
				return
			}
			nf := &wireFrame{f: h, env: map[ssa.Value]ssa.Value{}, bufs: map[ssa.Value][]wireItem{}}
			for i, p := range h.Params {
				ra := fr.resolve(args[i])
				nf.env[p] = ra
				if its, ok := fr.bufs[args[i]]; ok {
					nf.bufs[p] = its
				} else if its, ok := fr.bufs[ra]; ok {
					nf.bufs[p] = its
				}
			}
			before := len(e.out)
			e.run(nf, h.Blocks[0], depth+1)
			if len(e.out) != before {
				e.fail("%s writes without being handed the writer", fname(h))
				return
			}
			if nf.hasRet {
				fr.bufs[c] = nf.ret
			}
			return
		}
		nf := &wireFrame{f: h, env: map[ssa.Value]ssa.Value{}, bufs: map[ssa.Value][]wireItem{}, w: h.Params[wIdx]}
		for i, p := range h.Params {
			if i >= len(args) {
				break
			}
			ra := fr.resolve(args[i])
			nf.env[p] = ra
			if its, ok := fr.bufs[args[i]]; ok {
				nf.bufs[p] = its
				nf.bufs[ra] = its
			} else if its, ok := fr.bufs[ra]; ok {
				nf.bufs[p] = its
			}
		}
		nf.env[h.Params[wIdx]] = nil
		e.run(nf, h.Blocks[0], depth+1)
	}
}

// writeLayout evaluates the case of protocol.Write that starts at block caseB.
func writeLayout(write *ssa.Function, caseB *ssa.BasicBlock) wireLayout {
	e := &wireEval{}
	fr := &wireFrame{f: write, env: map[ssa.Value]ssa.Value{}, bufs: map[ssa.Value][]wireItem{}, w: write.Params[0]}
	e.run(fr, caseB, 0)
	return wireLayout{Items: e.out, Unknown: e.unknown}
}
