package main

// Re-validation of lock-protected facts (used by C01/C03 on the piece store).
//
// A fact such as "the piece is not busy", "the piece is complete", "the piece has a buffer" is only meaningful
// while the store's mutex is held: it is established by a test made under the lock and is lost as soon as
// the lock is released. The rule shape
//
//     every path to X from the function's entry, or from any point where the lock may be released,
//     establishes the fact (under the lock) before reaching X
//
// is checked by path exploration with required edges. The fact can be established by a branch edge in the
// function itself, or by a call of a package-local helper whose own returns all satisfy the rule
// (a postcondition: `waitNotBusy` returns only when the piece is not busy, with the lock held since the test).
// This makes the rule independent of whether the test is written inline, in a loop, or in an extracted helper.

import (
	"fmt"
	"os"

	"golang.org/x/tools/go/ssa"
)

type lockedFact struct {
	name string
	// edge: taking the branch (cond, pol) establishes the fact; held reports the lock state at the test.
	edge func(cond ssa.Value, pol bool) bool
	// need: lock states in which the test must be made (LW, or LR|LW)
	need LockSet
	// retarget, when set, restates a fact about a particular object for the body of a helper that is handed that
	// object (pc.readable(begin): inside readable the piece is the receiver)
	retarget func(call *ssa.Call, h *ssa.Function) (lockedFact, bool)
}

type revalidator struct {
	c    *pieceCtx
	post map[string]int // 0 unknown, 1 true, 2 false
	busy map[string]bool
	ne   *NilEnv
}

func (c *pieceCtx) reval() *revalidator {
	if c.rv == nil {
		c.rv = &revalidator{c: c, post: map[string]int{}}
	}
	return c.rv
}

func (rv *revalidator) reqs(f lockedFact, depth int) []edgeReq {
	c := rv.c
	return []edgeReq{{
		Name: f.name,
		Match: func(cond ssa.Value, pol bool) bool {
			// the outcome of a boolean helper: `if !ps.waitIdle(p) { return }` — on the edge where the helper returned
			// pol the fact holds when every return of the helper that can yield pol has it established
			if call, isCall := cond.(*ssa.Call); isCall && rv.outcomeEstablishes(call, pol, f, depth) {
				return true
			}
			// … of a helper that answers with an error (if err := ps.checkAdd(…); err != nil { return }) or with a tuple
			// (ok, err := ps.finalisable(index)): the edge on which the error is nil / the boolean is pol
			if x, isNil, okn := nilFact(Guard{Cond: cond, Pol: pol}); okn && isNil && isErrorType(x.Type()) {
				if call, idx := callOfValue(x); call != nil && rv.outcomeEstablishesX(call, idx, 0, f, depth) {
					return true
				}
			}
			if ex, isEx := cond.(*ssa.Extract); isEx && isBoolType(ex.Type()) {
				if call, isC := ex.Tuple.(*ssa.Call); isC {
					kind := 2
					if pol {
						kind = 1
					}
					if rv.outcomeEstablishesX(call, ex.Index, kind, f, depth) {
						return true
					}
				}
			}
			if !f.edge(cond, pol) {
				return false
			}
			// the test itself must be made with the lock held
			if in, ok := cond.(ssa.Instruction); ok {
				st := c.la.At(in)
				if st == 0 || st&^f.need != 0 {
					return false
				}
			}
			return true
		},
		Instr: func(in ssa.Instruction) bool { return rv.callEstablishes(in, f, depth) },
	}}
}

// callEstablishes: in is a call of a package-local function every return of which has the fact established.
func (rv *revalidator) callEstablishes(in ssa.Instruction, f lockedFact, depth int) bool {
	if _, isCall := in.(*ssa.Call); !isCall {
		return false
	}
	h := calleeOf(in)
	if h == nil || relPkg(h) != rv.c.la.pkg || h.Blocks == nil || depth > 3 {
		return false
	}
	key := fmt.Sprintf("%p/%s", h, f.name)
	switch rv.post[key] {
	case 1:
		return true
	case 2:
		return false
	}
	if rv.busy == nil {
		rv.busy = map[string]bool{}
	}
	if rv.busy[key] {
		return false // recursion: assume not established
	}
	rv.busy[key] = true
	defer delete(rv.busy, key)
	ok := true
	for _, ret := range returnsOf(h) {
		if good, _ := rv.establishedAt(ret, f, depth+1); !good {
			ok = false
			break
		}
	}
	if ok {
		rv.post[key] = 1
	} else if depth == 0 {
		rv.post[key] = 2 // a failure found under a depth cut is not final
	}
	return ok
}

// outcomeEstablishes: call is a call of a package-local helper with one boolean result; every return of the helper that
// can yield `pol` has the fact established (since the last lock release inside the helper, or inherited from the
// helper's callers when it is entered locked).
func (rv *revalidator) outcomeEstablishes(call *ssa.Call, pol bool, f lockedFact, depth int) bool {
	h := call.Call.StaticCallee()
	if h == nil || relPkg(h) != rv.c.la.pkg || h.Blocks == nil || depth > 3 || call.Call.IsInvoke() {
		return false
	}
	if res := h.Signature.Results(); res.Len() != 1 || !isBoolType(res.At(0).Type()) {
		return false
	}
	if f.retarget != nil {
		nf, ok := f.retarget(call, h)
		if !ok {
			return false
		}
		f = nf
	}
	key := fmt.Sprintf("%p/%s/%v", h, f.name, pol)
	switch rv.post[key] {
	case 1:
		return true
	case 2:
		return false
	}
	if rv.busy == nil {
		rv.busy = map[string]bool{}
	}
	if rv.busy[key] {
		return false // recursion: assume not established
	}
	rv.busy[key] = true
	defer delete(rv.busy, key)
	ok, any := true, false
	for _, ret := range returnsOf(h) {
		res := retResults(ret)
		if len(res) != 1 {
			ok = false
			break
		}
		if b, isb := constBool(res[0]); isb && b != pol {
			continue
		}
		any = true
		if good, where := rv.establishedAt(ret, f, depth+1); !good {
			if os.Getenv("STORDBG") != "" {
				fmt.Fprintf(os.Stderr, "outcome %s pol=%v fact=%s depth=%d: return at %s not established: %s\n", fname(h), pol, f.name, depth, rv.c.p.pos(ret.Pos()), where)
			}
			ok = false
			break
		}
	}
	if ok && any {
		rv.post[key] = 1
		return true
	}
	if depth == 0 {
		rv.post[key] = 2 // a failure found under a depth cut is not final
	}
	return false
}

// outcomeEstablishesX: as outcomeEstablishes, for result idx of a helper with any number of results; kind 0: the (error)
// result is nil, 1: the boolean result is true, 2: false.
func (rv *revalidator) outcomeEstablishesX(call *ssa.Call, idx int, kind int, f lockedFact, depth int) bool {
	h := call.Call.StaticCallee()
	if h == nil || relPkg(h) != rv.c.la.pkg || h.Blocks == nil || depth > 3 || call.Call.IsInvoke() {
		return false
	}
	if f.retarget != nil {
		nf, ok := f.retarget(call, h)
		if !ok {
			return false
		}
		f = nf
	}
	key := fmt.Sprintf("%p/%s/x%d/%d", h, f.name, idx, kind)
	switch rv.post[key] {
	case 1:
		return true
	case 2:
		return false
	}
	if rv.busy == nil {
		rv.busy = map[string]bool{}
	}
	if rv.busy[key] {
		return false
	}
	rv.busy[key] = true
	defer delete(rv.busy, key)
	if rv.ne == nil {
		rv.ne = newNilEnv(rv.c.p)
	}
	ok, any := true, false
	for _, ret := range returnsOf(h) {
		res := retResults(ret)
		if idx >= len(res) {
			ok = false
			break
		}
		switch kind {
		case 0:
			if !isNilConst(res[idx]) && rv.ne.At(res[idx], ret.Block()) == NonNil {
				continue
			}
		case 1, 2:
			if b, isb := constBool(res[idx]); isb && b != (kind == 1) {
				continue
			}
		}
		any = true
		if good, _ := rv.establishedAt(ret, f, depth+1); !good {
			ok = false
			break
		}
	}
	if ok && any {
		rv.post[key] = 1
		return true
	}
	if depth == 0 {
		rv.post[key] = 2
	}
	return false
}

// establishedAt: see the file comment. Returns false with the start of an offending path.
func (rv *revalidator) establishedAt(x ssa.Instruction, f lockedFact, depth int) (bool, string) {
	c := rv.c
	fn := x.Parent()
	reqs := rv.reqs(f, depth)
	isX := func(i ssa.Instruction) bool { return i == x }
	if miss, reached := pathsMissingEntry(fn, isX, nil, reqs); reached > 0 && len(miss) > 0 {
		// a private helper that is entered with the lock held inherits the facts established at every one of
		// its call sites (AddData tests, then calls a helper that allocates)
		inherited := false
		if depth <= 3 && c.la.entry[fn] != LU && c.la.entry[fn] != 0 {
			if fn.Parent() == nil {
				calls, escapes := c.p.callSitesOf(fn)
				if len(escapes) == 0 && len(calls) > 0 {
					inherited = true
					for _, cs := range calls {
						in, isIn := cs.(ssa.Instruction)
						if !isIn || relPkg(cs.Parent()) != c.la.pkg {
							inherited = false
							break
						}
						if _, isCall := cs.(*ssa.Call); !isCall {
							inherited = false
							break
						}
						if good, _ := rv.establishedAt(in, f, depth+1); !good {
							inherited = false
							break
						}
					}
				}
			}
		}
		if !inherited {
			return false, "from the function's entry"
		}
	}
	bad := ""
	allInstrs(fn, func(in ssa.Instruction) {
		if bad != "" || !c.isUnlock(in) {
			return
		}
		if rv.callEstablishes(in, f, depth) {
			return // a helper that drops the lock but re-establishes the fact before it returns
		}
		if miss, reached := pathsMissing(in, -1, isX, nil, reqs); reached > 0 && len(miss) > 0 {
			bad = "after the lock is released at " + c.p.pos(in.Pos())
		}
	})
	return bad == "", bad
}
