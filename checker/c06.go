package main

import (
	"fmt"
	"go/token"
	"go/types"
	"os"
	"reflect"
	"sort"
	"strings"

	"golang.org/x/tools/go/ssa"
)

func init() {
	register(&PropSpec{
		ID: "C06",
		Explanation: "Round-trip equality for all values is a value property and is NOT decided. Decided: the writer's and the reader's tables agree with each other and with an independent table transcribed from the BEPs — " +
			"(R1) for every message type protocol.Write emits: its id byte, its fixed length (from the helper it uses) and the order in which it serialises its fields are extracted from the SSA of Write; from protocol.Read, by the path-sensitive analysis of C04.R4, the id (and extended sub-id) facts, the exact-length fact and the order in which parsed values fill the fields of the type each successful return constructs; the two tables must agree and every emitted type must be produced by the reader; " +
			"(R2) ids are compared with the BEP 3/5/6/10 table and the bencode dictionary keys of the extension payloads with the BEP 9/10/11 names; (R3) only big-endian byte order is referenced in packages protocol and pex; " +
			"(R4) decoding does not depend on where the stream is cut: every payload read in Read is a full read with exact consumption (C04.R4 re-evaluated); (R5) sibling agreement of the four compact peer-list blocks of ut_pex: nil test, length congruence, parsed field and address family refer to the same field and stride.",
		Rules:       []string{"R1 id/length/field-order agreement writer vs reader (E-exh sibling tables)", "R2 independent BEP oracle for ids and bencode keys", "R3 byte order", "R4 cut-independence: full reads, exact consumption (shared with C04)", "R5 sibling agreement of the PEX blocks"},
		NotDecided:  []string{"value round-trip for every field value", "bencode encoding details of github.com/zeebo/bencode", "compact peer format values (pex.FormatCompact / ParseCompact inverse)"},
		Assumptions: []string{"the BEP table in the checker is transcribed correctly (ids 0-9, 13-17, 20; extended handshake sub-id 0; keys m p v reqq metadata_size added added.f added6 added6.f dropped dropped6 msg_type piece total_size upload_only e ipv4 ipv6)"},
		Run:         runC06,
	})
}

var bepIDs = map[string]int64{
	"Choke": 0, "Unchoke": 1, "Interested": 2, "NotInterested": 3, "Have": 4, "Bitfield": 5, "Request": 6, "Piece": 7, "Cancel": 8,
	"Port": 9, "SuggestPiece": 13, "HaveAll": 14, "HaveNone": 15, "RejectRequest": 16, "AllowedFast": 17,
	"Extended0": 20, "ExtendedMetadata": 20, "ExtendedPex": 20, "ExtendedDontHave": 20, "ExtendedUploadOnly": 20, "ExtendedUnknown": 20,
}

var bepKeys = map[string][]string{
	"extensionInfo": {"v", "ipv4", "ipv6", "p", "reqq", "metadata_size", "m", "upload_only", "e"},
	"pexInfo":       {"added", "added.f", "added6", "added6.f", "dropped", "dropped6"},
	"metadataInfo":  {"msg_type", "piece", "total_size"},
}

type wireEntry struct {
	SubField string // the struct field that supplies the extended sub-id, when the writer takes it from the message
	subKnown bool   // the writer's sub-id byte was resolved by the layout evaluation
	ID       int64
	Sub      int64 // extended sub-id, -1 if none / variable
	Length   int64 // fixed frame length, -1 if variable
	Fields   []string
	Pos      token.Pos
}

func runC06(r *Report) {
	p := r.P
	write := p.Func("protocol", "Write")
	read := p.Func("protocol", "Read")
	if !r.Anchor("R1", "protocol.Write", write != nil) || !r.Anchor("R1", "protocol.Read", read != nil) {
		return
	}
	r.Fn(write)
	r.Fn(read)
	wt := writerTable(r, write)
	rt := readerTable(r, read)
	var names []string
	for n := range wt {
		names = append(names, n)
	}
	sort.Strings(names)
	for _, n := range names {
		w := wt[n]
		key := "table/" + n
		rd, ok := rt[n]
		if n == "KeepAlive" {
			r.Check(ok, "R1", key, w.Pos, "KeepAlive is the zero-length frame on both sides", "the reader does not produce KeepAlive")
			continue
		}
		if !ok {
			r.Fail("R1", key, w.Pos, "protocol.Write emits %s but protocol.Read has no successful return that constructs it: the message does not round-trip", n)
			continue
		}
		var diffs []string
		if w.ID != rd.ID {
			diffs = append(diffs, fmt.Sprintf("id: writer %d, reader %d", w.ID, rd.ID))
		}
		if w.Length >= 0 && rd.Length >= 0 && w.Length != rd.Length {
			diffs = append(diffs, fmt.Sprintf("length: writer %d, reader %d", w.Length, rd.Length))
		}
		if w.Length >= 0 && rd.Length < 0 {
			diffs = append(diffs, fmt.Sprintf("length: writer fixes %d, reader has no exact-length check", w.Length))
		}
		if len(w.Fields) > 0 && len(rd.Fields) > 0 && !reflect.DeepEqual(w.Fields, rd.Fields) {
			diffs = append(diffs, fmt.Sprintf("field order: writer %v, reader %v", w.Fields, rd.Fields))
		}
		if len(diffs) == 0 {
			r.Ok("R1", key, w.Pos, "id %d, length %d, fields %v agree between Write and Read", w.ID, w.Length, w.Fields)
		} else {
			r.Fail("R1", key, w.Pos, "%s: writer and reader disagree — %s", n, strings.Join(diffs, "; "))
		}
		// R2: BEP id
		if want, ok := bepIDs[n]; ok {
			r.Check(w.ID == want, "R2", "bep-id/"+n, w.Pos, fmt.Sprintf("id %d as in the BEPs", want), fmt.Sprintf("%s is written with id %d; the BitTorrent specifications assign %d", n, w.ID, want))
		} else {
			r.Fail("R2", "bep-id/"+n, w.Pos, "%s is not in the BEP table of the checker", n)
		}
	}
	r.Sentinel("R1", len(names), 18)
	// negotiated extended messages carry the id the peer assigned (the message's Subtype field), not a constant:
	// storrent's own reception ids differ from what another client maps the extension to
	for _, n := range names {
		w := wt[n]
		nt := p.Named("protocol", n)
		if nt == nil || !w.subKnown {
			continue
		}
		st, ok := nt.Underlying().(*types.Struct)
		if !ok {
			continue
		}
		hasSub := false
		for i := 0; i < st.NumFields(); i++ {
			if st.Field(i).Name() == "Subtype" {
				hasSub = true
			}
		}
		if !hasSub {
			continue
		}
		r.Check(w.SubField == "Subtype", "R2", "sub-id-from-message/"+n, w.Pos, "the extended sub-id written is the message's Subtype (the id the peer negotiated)",
			fmt.Sprintf("%s is written with a fixed extended sub-id (%d) instead of the message's Subtype: a peer that maps the extension to another id does not recognise the message", n, w.Sub))
	}
	// extended handshake is sub-id 0
	if e0, ok := wt["Extended0"]; ok {
		r.Check(e0.Sub == 0, "R2", "bep-subid/Extended0", e0.Pos, "the extended handshake uses sub-id 0", fmt.Sprintf("the extended handshake is written with sub-id %d", e0.Sub))
	}
	// bencode keys
	for tn, want := range bepKeys {
		nt := p.Named("protocol", tn)
		if !r.Anchor("R2", "protocol."+tn, nt != nil) {
			continue
		}
		st := nt.Underlying().(*types.Struct)
		var got []string
		for i := 0; i < st.NumFields(); i++ {
			tag := reflect.StructTag(st.Tag(i)).Get("bencode")
			got = append(got, strings.Split(tag, ",")[0])
		}
		g2 := append([]string(nil), got...)
		w2 := append([]string(nil), want...)
		sort.Strings(g2)
		sort.Strings(w2)
		r.Check(reflect.DeepEqual(g2, w2), "R2", "bencode-keys/"+tn, nt.Obj().Pos(), fmt.Sprintf("dictionary keys %v as in BEP 9/10/11", got), fmt.Sprintf("dictionary keys of %s are %v; the BEPs name %v", tn, got, want))
	}
	// R3 byte order
	le := 0
	be := 0
	for _, f := range p.SrcFuncs() {
		if pk := relPkg(f); pk != "protocol" && pk != "pex" {
			continue
		}
		allInstrs(f, func(in ssa.Instruction) {
			for _, op := range in.Operands(nil) {
				if op == nil || *op == nil {
					continue
				}
				if g, ok := (*op).(*ssa.Global); ok && g.Pkg != nil && g.Pkg.Pkg.Path() == "encoding/binary" {
					switch g.Name() {
					case "LittleEndian", "NativeEndian":
						le++
						r.Fail("R3", "byte-order/"+fname(f), in.Pos(), "binary.%s is used in %s: the wire format is big-endian", g.Name(), fname(f))
					case "BigEndian":
						be++
					}
				}
			}
		})
	}
	if le == 0 {
		r.Ok("R3", "byte-order", token.NoPos, "only binary.BigEndian is referenced in packages protocol and pex (%d uses)", be)
	}
	r.Sentinel("R3", be, 10)
	// R4 shared with C04
	if L := frameLength(read); L != nil {
		c04R4(r.sub("R4"), read, L)
	}
	// R5 PEX siblings
	c06R5(r, read)
	// the codec hands large payloads straight to the connection: on an RC4 connection they are transparent only if
	// crypto.Conn.Write encrypts each chunk of a large write from the right place (C08.R6 re-evaluated)
	c08R6(r.sub("R7"))
	c06R6(r)
	bufferOnce(r, "R6")
	bufferUseAfterGiveBack(r, "R6")
}

// writerTable extracts, for each case of Write's type switch, id / length / field order.
func writerTable(r *Report, write *ssa.Function) map[string]wireEntry {
	out := map[string]wireEntry{}
	nLayout := 0
	defer func() {
		r.Notes = append(r.Notes, fmt.Sprintf("R1: %d of %d writer cases resolved by symbolic evaluation of the bytes written, the rest by the helper-call table", nLayout, len(out)))
	}()
	helperLen := func(h *ssa.Function) int64 {
		// fixed length = constant passed to the first AppendUint32 in the helper
		l := int64(-1)
		first := true
		for _, ci := range callsIn(h) {
			if c, ok := ci.(*ssa.Call); ok && calleeObj(c) != nil && calleeObj(c).Name() == "AppendUint32" && first {
				first = false
				if k, okk := constInt(c.Call.Args[len(c.Call.Args)-1]); okk {
					l = k
				}
			}
		}
		return l
	}
	allInstrs(write, func(in ssa.Instruction) {
		ta, ok := in.(*ssa.TypeAssert)
		if !ok || !ta.CommaOk || ta.X != ssa.Value(write.Params[1]) {
			return
		}
		name := typeShort(ta.AssertedType)
		name = strings.TrimPrefix(name, "protocol.")
		okv := extractOf2(ta, 1)
		var caseB *ssa.BasicBlock
		for _, ref := range *okv.Referrers() {
			if iff, isIf := ref.(*ssa.If); isIf {
				caseB = iff.Block().Succs[0]
			}
		}
		if caseB == nil {
			return
		}
		e := wireEntry{ID: -1, Sub: -1, Length: -1, Pos: ta.Pos()}
		// first choice: evaluate what the case puts on the wire (independent of which helper assembles the frame)
		lay := writeLayout(write, caseB)
		if os.Getenv("STORDEBUG") != "" {
			fmt.Fprintf(os.Stderr, "layout %s: unknown=%q items=%d\n", name, lay.Unknown, len(lay.Items))
		}
		if lay.Unknown == "" && len(lay.Items) >= 2 && lay.Items[0].Bits == 32 && lay.Items[1].Bits == 8 {
			if k, ok := constInt(lay.Items[0].Val); ok {
				e.Length = k
			}
			if k, ok := constInt(lay.Items[1].Val); ok {
				e.ID = k
			}
			rest := lay.Items[2:]
			if e.ID == 20 {
				if len(rest) > 0 && rest[0].Bits == 8 {
					if k, ok := constInt(rest[0].Val); ok {
						e.Sub = k
					} else if f, _ := loadedFieldAny(stripIntConv(rest[0].Val)); f != nil {
						e.SubField = f.Name()
					}
					e.subKnown = true
				}
				rest = nil // the payload of extended messages is a dictionary: compared by its keys (R2)
			}
			for _, it := range rest {
				if f, _ := loadedFieldAny(stripIntConv(it.Val)); f != nil {
					e.Fields = append(e.Fields, f.Name())
				}
			}
			if e.ID >= 0 {
				out[name] = e
				nLayout++
				return
			}
		}
		// fallback: calls in the case region, in source order
		var calls []*ssa.Call
		for b := range reachableFrom(caseB) {
			if !caseB.Dominates(b) {
				continue
			}
			for _, i2 := range b.Instrs {
				if c, isc := i2.(*ssa.Call); isc {
					calls = append(calls, c)
				}
			}
		}
		sort.Slice(calls, func(i, j int) bool { return calls[i].Pos() < calls[j].Pos() })
		fieldOf := func(v ssa.Value) string {
			f, _ := loadedFieldAny(stripIntConv(v))
			if f == nil {
				return ""
			}
			return f.Name()
		}
		for _, c := range calls {
			cal := c.Call.StaticCallee()
			if cal == nil || relPkg(cal) != "protocol" || !strings.HasPrefix(cal.Name(), "send") {
				continue
			}
			switch cal.Name() {
			case "sendMessage0", "sendMessage1", "sendMessage3", "sendMessageShort":
				e.ID, _ = constInt(c.Call.Args[1])
				e.Length = helperLen(cal)
				for _, a := range c.Call.Args[2:] {
					if fn := fieldOf(a); fn != "" {
						e.Fields = append(e.Fields, fn)
					}
				}
			case "sendMessage":
				e.ID, _ = constInt(c.Call.Args[1])
				for _, a := range c.Call.Args[2:] {
					if fn := fieldOf(a); fn != "" {
						e.Fields = append(e.Fields, fn)
					}
				}
			case "sendExtended":
				e.ID = 20
				if k, okk := constInt(c.Call.Args[1]); okk {
					e.Sub = k
				}
			}
		}
		if e.ID < 0 && name == "Piece" {
			// inline: append(buf, 7) and AppendUint32(buf, m.Index), (…, m.Begin), then Write(m.Data)
			for _, c := range calls {
				if bi, isb := c.Call.Value.(*ssa.Builtin); isb && bi.Name() == "append" {
					for _, el := range variadicElems(c.Call.Args[1]) {
						if k, okk := constInt(el); okk {
							e.ID = k
						}
					}
				}
				if o := calleeObj(c); o != nil && o.Name() == "AppendUint32" {
					if fn := fieldOf(c.Call.Args[len(c.Call.Args)-1]); fn != "" {
						e.Fields = append(e.Fields, fn)
					}
				}
				if c.Call.IsInvoke() || (c.Call.StaticCallee() != nil && c.Call.StaticCallee().Name() == "Write") {
					if len(c.Call.Args) > 0 {
						if fn := fieldOf(c.Call.Args[len(c.Call.Args)-1]); fn == "Data" {
							e.Fields = append(e.Fields, fn)
						}
					}
				}
			}
		}
		out[name] = e
	})
	return out
}

// readerTable runs C04's path-sensitive DP over Read and collects, per constructed type, the id / sub-id / length facts
// and the order in which read values fill the struct's fields.
func readerTable(r *Report, read *ssa.Function) map[string]wireEntry {
	out := map[string]wireEntry{}
	L := frameLength(read)
	if L == nil {
		return out
	}
	// tpe and subtype: results of ReadByte in dominance order
	var bytesRead []ssa.Value
	for _, ci := range callsIn(read) {
		if c, ok := ci.(*ssa.Call); ok && isStdCall(c, "bufio", "Reader", "ReadByte") {
			if ex := extractOf(c, 0); ex != nil {
				bytesRead = append(bytesRead, ex)
			}
		}
	}
	if len(bytesRead) < 2 {
		return out
	}
	tpe, sub := bytesRead[0], bytesRead[1]
	// order of uint32/uint16 reads
	readOrder := map[ssa.Value]int{}
	k := 0
	for _, ci := range callsIn(read) {
		if c, ok := ci.(*ssa.Call); ok {
			if cal := c.Call.StaticCallee(); cal != nil && (cal.Name() == "readUint32" || cal.Name() == "readUint16") {
				if ex := extractOf(c, 0); ex != nil {
					readOrder[ex] = k
					k++
				}
			}
		}
	}
	r4Hook = func(ret *ssa.Return, states []*r4state) {
		mi, ok := ret.Results[0].(*ssa.MakeInterface)
		if !ok {
			return
		}
		name := strings.TrimPrefix(typeShort(mi.X.Type()), "protocol.")
		e := wireEntry{ID: -1, Sub: -1, Length: -1, Pos: ret.Pos()}
		for _, s := range states {
			if v, has := s.eq[tpe]; has {
				e.ID = v
			}
			if v, has := s.eq[sub]; has && e.ID == 20 {
				e.Sub = v
			}
			if v, has := s.eq[L]; has {
				e.Length = v
			}
		}
		// field order: fields filled from reads, sorted by read order
		if sl := litOf(mi); sl != nil {
			type fr struct {
				name string
				ord  int
			}
			var frs []fr
			st, _ := mi.X.Type().Underlying().(*types.Struct)
			for fname2, v := range sl.Fields {
				if o, ok := readOrder[v]; ok {
					frs = append(frs, fr{fname2, o})
				} else if fname2 == "Bitfield" || fname2 == "Data" {
					frs = append(frs, fr{fname2, 1 << 20})
				}
			}
			sort.Slice(frs, func(i, j int) bool { return frs[i].ord < frs[j].ord })
			for _, f := range frs {
				e.Fields = append(e.Fields, f.name)
			}
			_ = st
		}
		if old, has := out[name]; has && old.ID >= 0 && e.ID < 0 {
			return
		}
		out[name] = e
	}
	defer func() { r4Hook = nil }()
	scratch := newReport("C06", r.P)
	c04R4(scratch, read, L)
	return out
}

// R5: the four compact-list blocks of ut_pex agree with themselves.
func c06R5(r *Report, read *ssa.Function) {
	n := 0
	// Read and the module-local helpers it reaches in package protocol (the blocks may live in a helper)
	var cis []ssa.CallInstruction
	for _, f := range localCallees(r.P, read, []string{"protocol"}) {
		cis = append(cis, callsIn(f)...)
	}
	for _, ci := range cis {
		c, ok := ci.(*ssa.Call)
		if !ok || !isCallNamed(c, "pex", "ParseCompact") {
			continue
		}
		n++
		arg := c.Call.Args[0]
		fv, _ := loadedFieldAny(strip(arg))
		key := "pex-block/" + loadedFieldAnyName(strip(arg))
		if fv == nil {
			r.Undecided("R5", key, c.Pos(), "ParseCompact is not given a field of the decoded dictionary")
			continue
		}
		v6, _ := constBool(c.Call.Args[2])
		stride := int64(6)
		if v6 {
			stride = 18
		}
		nilOK, modOK := false, false
		var wrong []string
		for _, g := range guardsOf(c.Block()) {
			g = g.norm()
			bo, isb := g.Cond.(*ssa.BinOp)
			if !isb {
				continue
			}
			if isNilConst(bo.Y) {
				f2, _ := loadedFieldAny(strip(bo.X))
				if f2 == nil {
					continue
				}
				if (bo.Op == token.NEQ && g.Pol) || (bo.Op == token.EQL && !g.Pol) {
					if f2 == fv {
						nilOK = true
					} else if n2 := namedOf(bo.X.Type()); n2 == nil || true {
						wrong = append(wrong, "nil test on "+f2.Name())
					}
				}
				continue
			}
			if z, okz := constInt(bo.Y); okz && z == 0 {
				rem, isr := bo.X.(*ssa.BinOp)
				if !isr || rem.Op != token.REM {
					continue
				}
				kk, okk := constInt(rem.Y)
				lc, isl := rem.X.(*ssa.Call)
				if !okk || !isl {
					continue
				}
				f2, _ := loadedFieldAny(strip(lc.Call.Args[0]))
				if (bo.Op == token.EQL && g.Pol) || (bo.Op == token.NEQ && !g.Pol) {
					if f2 == fv && kk == stride {
						modOK = true
					} else {
						nm := "?"
						if f2 != nil {
							nm = f2.Name()
						}
						wrong = append(wrong, fmt.Sprintf("len(%s) %% %d", nm, kk))
					}
				}
			}
		}
		// only guards that mention a *sibling list* count as wrong (flags etc. are separate fields)
		if nilOK && modOK {
			r.Ok("R5", key, c.Pos(), "nil test, length %% %d and parsed list all refer to %s (address family %v)", stride, fv.Name(), map[bool]string{false: "IPv4", true: "IPv6"}[v6])
		} else {
			r.Fail("R5", key, c.Pos(), "the block that parses %s (stride %d) is not guarded by `%s != nil && len(%s) %% %d == 0` on that same field (found: %v): a sibling block's variable was used, so a message carrying only this list is silently dropped or mis-parsed", fv.Name(), stride, fv.Name(), fv.Name(), stride, wrong)
		}
	}
	r.Sentinel("R5", n, 4)
}

// ---------- R6: buffer pool discipline ----------

// c06R6: a sync.Pool of byte slices in package protocol hands out buffers without looking at their length, so the pool
// may only ever contain slices of exactly the size its New function makes: every Put of a slice that does not come
// from a Get in the same function is dominated by len(x) == S (equality, not >=), and a Get whose result is returned
// as "a buffer of the requested length" is dominated by requested == S. Otherwise a larger slice enters the pool and
// a later 16 KiB Piece is read into it: the payload swallows the following messages.
func c06R6(r *Report) {
	p := r.P
	n := 0
	pkg := p.SSAPkg("protocol")
	if !r.Anchor("R6", "package protocol", pkg != nil) {
		return
	}
	// pool globals and the size their New makes
	sizes := map[*ssa.Global]int64{}
	if init := pkg.Func("init"); init != nil {
		allInstrs(init, func(in ssa.Instruction) {
			st, ok := in.(*ssa.Store)
			if !ok {
				return
			}
			// var pool = sync.Pool{New: f}: the literal is initialised in place (&pool.New = f) or built in a local
			// and stored whole into the global, depending on the SSA builder
			var g *ssa.Global
			var fn *ssa.Function
			fnOf := func(v ssa.Value) *ssa.Function {
				switch x := v.(type) {
				case *ssa.MakeClosure:
					f, _ := x.Fn.(*ssa.Function)
					return f
				case *ssa.Function:
					return x
				}
				return nil
			}
			if fa, okf := st.Addr.(*ssa.FieldAddr); okf && fieldVar(fa) != nil && fieldVar(fa).Name() == "New" {
				if gg, okg := fa.X.(*ssa.Global); okg && typeIs(gg.Type(), "sync", "Pool") {
					g, fn = gg, fnOf(st.Val)
				}
			} else if gg, okg := st.Addr.(*ssa.Global); okg && typeIs(gg.Type(), "sync", "Pool") {
				if ld, okl := st.Val.(*ssa.UnOp); okl && ld.Op == token.MUL {
					if al, oka := ld.X.(*ssa.Alloc); oka {
						for _, ref := range *al.Referrers() {
							fa, okf := ref.(*ssa.FieldAddr)
							if !okf || fieldVar(fa) == nil || fieldVar(fa).Name() != "New" {
								continue
							}
							for _, r2 := range *fa.Referrers() {
								if s2, oks := r2.(*ssa.Store); oks {
									g, fn = gg, fnOf(s2.Val)
								}
							}
						}
					}
				}
			}
			if fn == nil {
				return
			}
			allInstrs(fn, func(i2 ssa.Instruction) {
				if mk, ok := i2.(*ssa.MakeSlice); ok {
					if k, okk := constInt(mk.Len); okk {
						sizes[g] = k
					}
				}
				// make([]byte, K) with a constant K is an array allocation that is then sliced
				if al2, ok := i2.(*ssa.Alloc); ok && al2.Comment == "makeslice" {
					if at, okA := derefType(al2.Type()).Underlying().(*types.Array); okA {
						sizes[g] = at.Len()
					}
				}
			})
		})
	}
	poolOf := func(c *ssa.Call) *ssa.Global {
		if len(c.Call.Args) == 0 {
			return nil
		}
		g, _ := c.Call.Args[0].(*ssa.Global)
		if _, has := sizes[g]; !has {
			return nil
		}
		return g
	}
	eqGuard := func(b *ssa.BasicBlock, S int64, isSubject func(v ssa.Value) bool) bool {
		for _, e := range eqFacts(b) {
			x, y := e[0], e[1]
			if k, okk := constInt(y); okk && k == S && isSubject(stripIntConv(x)) {
				return true
			}
			if k, okk := constInt(x); okk && k == S && isSubject(stripIntConv(y)) {
				return true
			}
		}
		return false
	}
	for _, f := range p.SrcFuncs() {
		if relPkg(f) != "protocol" {
			continue
		}
		allInstrs(f, func(in ssa.Instruction) {
			c, ok := in.(*ssa.Call)
			if !ok {
				return
			}
			switch {
			case isStdCall(c, "sync", "Pool", "Put"):
				g := poolOf(c)
				if g == nil || len(c.Call.Args) < 2 {
					return
				}
				n++
				r.Fn(f)
				v := strip(c.Call.Args[1])
				// a slice obtained from the pool in this function goes back as it came
				if ta, isTA := v.(*ssa.TypeAssert); isTA {
					if gc, isC := ta.X.(*ssa.Call); isC && isStdCall(gc, "sync", "Pool", "Get") {
						r.Ok("R6", fname(f)+"/pool.Put", c.Pos(), "the slice put back is the one taken from the pool")
						return
					}
				}
				okG := eqGuard(c.Block(), sizes[g], func(x ssa.Value) bool { return isLenOf(x, v) })
				if !okG {
					// putPooled(buf): a private helper that is handed the slice; the size test is made by its callers
					if prm, isP := v.(*ssa.Parameter); isP {
						if sites, esc := p.callSitesOf(f); len(esc) == 0 && len(sites) > 0 {
							okG = true
							for _, cs := range sites {
								ci, isCall := cs.(*ssa.Call)
								if !isCall || relPkg(cs.Parent()) != "protocol" {
									okG = false
									break
								}
								var arg ssa.Value
								for k, q := range f.Params {
									if q == prm && k < len(ci.Call.Args) {
										arg = strip(ci.Call.Args[k])
									}
								}
								if arg == nil || !eqGuard(ci.Block(), sizes[g], func(x ssa.Value) bool { return isLenOf(x, arg) }) {
									okG = false
								}
							}
						}
					}
				}
				r.Check(okG, "R6", fname(f)+"/pool.Put-exact-size", c.Pos(), "only slices of exactly the pool's size enter the pool",
					fmt.Sprintf("a slice enters the buffer pool on a path not dominated by len(buf) == %d: the pool's Get hands out whatever it holds for a %d-byte request, so a larger slice makes a later Piece payload swallow the messages that follow it (and a shorter one truncates it)", sizes[g], sizes[g]))
			case isStdCall(c, "sync", "Pool", "Get"):
				g := poolOf(c)
				if g == nil {
					return
				}
				// is the pooled slice returned as the buffer of a requested length?
				returned := false
				for _, ret := range returnsOf(f) {
					for _, res := range ret.Results {
						rv := strip(res)
						if ex, isEx := rv.(*ssa.Extract); isEx && ex.Index == 0 {
							rv = ex.Tuple // buf, ok := pool.Get().([]byte)
						}
						if ta, isTA := rv.(*ssa.TypeAssert); isTA && ta.X == ssa.Value(c) {
							returned = true
						}
					}
				}
				if !returned {
					return
				}
				n++
				r.Fn(f)
				okG := eqGuard(c.Block(), sizes[g], func(x ssa.Value) bool {
					for _, prm := range f.Params {
						if x == ssa.Value(prm) {
							return true
						}
					}
					return false
				})
				if !okG && len(f.Params) == 0 {
					// getPooled(): a private helper without parameters; its callers test the requested length
					if sites, esc := p.callSitesOf(f); len(esc) == 0 && len(sites) > 0 {
						okG = true
						for _, cs := range sites {
							ci, isCall := cs.(*ssa.Call)
							if !isCall || relPkg(cs.Parent()) != "protocol" {
								okG = false
								break
							}
							caller := cs.Parent()
							if !eqGuard(ci.Block(), sizes[g], func(x ssa.Value) bool {
								for _, prm := range caller.Params {
									if x == ssa.Value(prm) {
										return true
									}
								}
								return false
							}) {
								okG = false
							}
						}
					}
				}
				r.Check(okG, "R6", fname(f)+"/pool.Get-exact-size", c.Pos(), "a pooled buffer is handed out only for a request of exactly the pool's size",
					fmt.Sprintf("a pooled buffer is returned on a path not dominated by requested length == %d: the caller gets a buffer of another length than it asked for", sizes[g]))
			}
		})
	}
	r.Sentinel("R6", n, 2)
	// who may give a buffer back: PutBuffer receives only what GetBuffer handed out — the Data of a Piece message (every
	// Piece payload, read or to be sent, comes from GetBuffer) or the result of a GetBuffer call in the same function.
	// A chunk-sized slice of something else (a 16 KiB window into the torrent's info dictionary) would be handed out
	// again as a read buffer and overwritten, while its owner still uses it.
	gb := p.Func("protocol", "GetBuffer")
	pb := p.Func("protocol", "PutBuffer")
	if gb != nil && pb != nil {
		calls, esc := p.callSitesOf(pb)
		for _, e := range esc {
			r.Fail("R6", "PutBuffer-escapes", e.Pos(), "PutBuffer is used as a function value")
		}
		nPut := 0
		for _, cs := range calls {
			c, ok := cs.(*ssa.Call)
			if !ok || len(c.Call.Args) == 0 {
				continue
			}
			nPut++
			f := c.Parent()
			r.Fn(f)
			var owned func(v ssa.Value, d int) bool
			ownedResult := func(call *ssa.Call, idx int, d int) bool {
				h := call.Call.StaticCallee()
				if h == nil || h.Blocks == nil || call.Call.IsInvoke() || !strings.HasPrefix(funcPkgPath(h), modPath) || d > 4 {
					return false
				}
				some := false
				for _, ret := range returnsOf(h) {
					res := retResults(ret)
					if idx >= len(res) {
						return false
					}
					if isNilConst(res[idx]) {
						continue
					}
					if !owned(res[idx], d+2) {
						return false
					}
					some = true
				}
				return some
			}
			owned = func(v ssa.Value, d int) bool {
				if d > 6 || v == nil {
					return false
				}
				switch x := v.(type) {
				case *ssa.Call:
					if x.Call.StaticCallee() == gb {
						return true
					}
					return ownedResult(x, 0, d)
				case *ssa.Slice:
					return owned(x.X, d+1)
				case *ssa.Phi:
					for _, e := range x.Edges {
						if !isNilConst(e) && !owned(e, d+1) {
							return false
						}
					}
					return true
				case *ssa.UnOp:
					// a captured variable of a deferred closure (defer func() { if !filled { PutBuffer(data) } }()): what the
					// enclosing function stored into it
					if x.Op == token.MUL {
						var cell ssa.Value
						switch a := x.X.(type) {
						case *ssa.Alloc:
							cell = a
						case *ssa.FreeVar:
							if par := a.Parent().Parent(); par != nil {
								allInstrs(par, func(in ssa.Instruction) {
									if mc, isMC := in.(*ssa.MakeClosure); isMC && mc.Fn == ssa.Value(a.Parent()) {
										for bi, fvv := range a.Parent().FreeVars {
											if fvv == a && bi < len(mc.Bindings) {
												cell = mc.Bindings[bi]
											}
										}
									}
								})
							}
						}
						if al, isAl := cell.(*ssa.Alloc); isAl {
							n := 0
							for _, ref := range *al.Referrers() {
								if st, isSt := ref.(*ssa.Store); isSt && st.Addr == ssa.Value(al) {
									if isNilConst(st.Val) {
										continue
									}
									n++
									if !owned(st.Val, d+1) {
										return false
									}
								}
							}
							return n > 0
						}
					}
				case *ssa.Extract:
					// data, ok := readBlock(peer, r): a helper of the module all of whose returns hand out a GetBuffer result
					if tc, isC := x.Tuple.(*ssa.Call); isC {
						return ownedResult(tc, x.Index, d)
					}
					return false
				}
				if fv, base := loadedFieldAny(v); fv != nil && fv.Name() == "Data" && base != nil {
					return typeIs(derefType(base.Type()), modPath+"/protocol", "Piece")
				}
				return false
			}
			r.Check(owned(c.Call.Args[0], 0), "R6", fname(f)+"/PutBuffer("+exprStr(strip(c.Call.Args[0]))+")-owned", c.Pos(), "the buffer given back to the pool came from GetBuffer (a Piece's Data, or a local GetBuffer result)",
				"a slice that did not come from GetBuffer is put into the buffer pool: when it is chunk-sized it is handed out again as a read buffer and overwritten while its owner still uses it (the torrent's info dictionary, say), and several decoded Piece messages end up sharing one backing array")
		}
		r.Sentinel("R6.put", nPut, 3)
	}
}
