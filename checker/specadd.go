package main

// specAdditions: rules added after the first design (while testing the checker against seeded changes and
// behaviour-preserving refactorings); appended to each property's explanation in the evidence. Kept in step with
// tools/claims.json.
var specAdditions = map[string]string{
	"C01": "Also: alloc.Free is reached only when data != nil was re-tested since the last lock release (the wait for the hasher drops the lock); upload and reader offsets index*pieceSize+begin are computed in 64-bit arithmetic; AddData's copy is reached only through the alignment, begin<PieceLength, not-already-present and one-block-clamp guards (path requirements that follow private helpers).",
	"C02": "Also: priorities registered for a piece form a multiset — Add grows by one, Del removes one instance — so one reader's withdrawal cannot cancel another's request (C10.R6 re-evaluated).",
	"C03": "Also: the data != nil test guarding Free is re-made in the same lock hold; the allocator's counter is adjusted only on paths that return a buffer; Torrent.Request refreshes the piece's access time on every path on which a piece is requested (the eviction order's input).",
	"C04": "Also: helpers of Read that consume bytes are summarised (bytes consumed as an affine function of their arguments) so that refactoring a case into a helper keeps the exact-consumption proof.",
	"C05": "Also: wire integers are followed through containers (append/copy/range), channels and state-derived reply values (a list handed out by GetFast() is tainted by what AllowedFast stored); the requests list and its membership bitmap are updated together on every path; copy loops advance by a positive step; handleEvent returns nil or a package-level sentinel.",
	"C06": "Also: the extension sub-id written for each extended message is the one negotiated/carried by the message, never a constant of another message.",
	"C07": "Also: after an MSE handshake every read and write in the callers uses the connection the handshake returned (the wrapped one when encrypted); pads are decrypted whether through a closure, a package helper taking the cipher, or XORKeyStream directly; the server's method selection (C08.R1) is re-evaluated because both ends must agree on the mode.",
	"C08": "Also: selection and offer are understood when computed through bit masks and helpers (choose(provided) & permitted()): a selected value K is traced to the facts that its bits imply.",
	"C09": "Also: block ranges in TorData/TorDrop handling are tested against a bound that is the same for every piece (not one piece's length); queued peer events are delivered head first and a new event is sent directly only when nothing is queued; after reserving, every path starts the fetcher (C14.R2 re-evaluated).",
	"C10": "Also: the reader's same-piece shortcut cache (requestedIndex) is refreshed on every path after a rebuild and reset to a negative value when nothing is requested; priorities form a multiset (Add +1, Del −1 instance).",
	"C11": "Also: bitmap.New does not over-allocate by always adding a byte; the torrent length is divided before it is narrowed to 32 bits in chunkSize/numPieces; a PEX entry is found by its address alone.",
	"C12": "Also: the number of metadata blocks is ceil(size/16 KiB) wherever it is computed, and the all-blocks-present test may live in a helper whose true outcome implies the loop exit.",
	"C13": "Also: the running sum of file lengths is tested for wrap-around before it is used (a list summing past 2^63 is rejected); the piece table has ceil(length/piece size) entries.",
	"C14": "Also: products with the piece size in fileChunks/Bytes/scheduleUpload are computed in 64 bits.",
	"C15": "Also: the delay added to the last attempt is proved ≥ 5 min by intervals on every path, the tracker's announced interval flows into it, and a constant replaces the stored interval only where it is known not to be smaller.",
	"C16": "Also: the exit decrement is reached on every path through the deferred function (no earlier return skips it while the flag is set); once amUnchoking is cleared every path to a return has emptied peer.requested (an error return inside the reject loop must not leave choked-away requests to be served later); the bytes served are copied under the store's lock from a complete piece.",
	"C17": "Also: lifetime channels are made before the object is returned or handed on; close(Done) precedes every blocking channel operation of the owner's exit sequence; nothing is allocated in the piece store after Del; the loop's exit drains the event queue after Done is closed and closes the peers of TorAddPeer events never handled, and NewPeer re-tests Done after queueing its event.",
	"C18": "Also: gates may be established by a helper's outcome (port, ok := t.dhtAnnouncePort(ipv6)).",
	"C19": "Also: no linked non-module package (net/http/pprof, expvar, …) registers a route on http.DefaultServeMux, which storrent's server serves — such routes never pass checkLocal.",
	"C20": "Also: Path.Equal and Path.Within compare p[i] with q[i] (or delegate to a component-wise comparison) under len(p)==len(q) resp. len(p)>len(d), never through a joined string; a name entered in the FUSE listing's set is appended in the same iteration; each path component is URL-escaped as it stands and exactly once, the URL is written verbatim in playlists and HTML-escaped exactly once in pages.",
}
