package main

import (
	"encoding/json"
	"flag"
	"fmt"
	"os"
	"os/exec"
	"path/filepath"
	"runtime/debug"
	"sort"
	"strconv"
	"strings"
	"time"
)

var repoDir = "/repo"

type PropSpec struct {
	ID          string
	Explanation string
	Rules       []string
	NotDecided  []string
	Assumptions []string
	Run         func(r *Report)
}

var registry = map[string]*PropSpec{}

func register(s *PropSpec) { registry[s.ID] = s }

type variant struct {
	Name string
	Env  []string
}

var variants = []variant{
	{"default", nil},
	{"nocgo", []string{"CGO_ENABLED=0"}},
	{"linux386", []string{"GOARCH=386", "CGO_ENABLED=0"}},
	{"windows", []string{"GOOS=windows", "CGO_ENABLED=0"}},
}

func runVariant(spec *PropSpec, v variant) (rep *Report, err error) {
	p, err := loadProg(repoDir, v.Env, v.Name)
	if err != nil {
		return nil, err
	}
	if len(p.Roots) < 20 {
		return nil, fmt.Errorf("only %d root packages loaded (expected >= 20)", len(p.Roots))
	}
	rep = newReport(spec.ID, p)
	defer func() {
		if e := recover(); e != nil {
			err = fmt.Errorf("analyser panic: %v\n%s", e, debug.Stack())
		}
	}()
	spec.Run(rep)
	return rep, nil
}

type childOut struct {
	Variant   string
	Obls      []Obl
	Sentinels []Sentinel
	Analysed  []string
	Notes     []string
	Err       string
}

func main() {
	prop := flag.String("prop", "", "property id (C01..C20)")
	tier := flag.String("tier", "", "quick|thorough")
	repo := flag.String("repo", "/repo", "repository working tree")
	verif := flag.String("verif", "", "verif directory (default: parent of the binary's dir)")
	child := flag.String("child-variant", "", "internal: run one build variant and print JSON")
	list := flag.Bool("list", false, "print every obligation")
	childSelf := flag.Bool("child-selftest", false, "internal: run the property on -repo and print failing obligations as JSON")
	noSelf := flag.Bool("no-selftest", false, "thorough tier without the checker self-test")
	flag.Parse()
	repoDir = *repo
	if *tier == "" {
		*tier = os.Getenv("VERIF_TIER")
		if *tier == "" {
			*tier = "quick"
		}
	}
	seed, _ := strconv.Atoi(os.Getenv("VERIF_SEED"))
	os.Unsetenv("GOWORK")
	os.Setenv("GOWORK", "off")
	os.Setenv("GOFLAGS", "-mod=mod")
	os.Setenv("GOPROXY", "off")
	os.Setenv("GOSUMDB", "off")
	if os.Getenv("GOTOOLCHAIN") == "" {
		os.Setenv("GOTOOLCHAIN", "local")
	}
	if *verif == "" {
		exe, _ := os.Executable()
		*verif = filepath.Dir(filepath.Dir(exe))
	}
	if strings.Contains(*prop, ",") || *prop == "all" {
		// corpus mode: one load, every requested rule set, one verdict line per property; no evidence is written
		// (used by tools/run_corpus.sh on scratch copies, never registered in MANIFEST.json)
		ids := strings.Split(*prop, ",")
		if *prop == "all" {
			ids = ids[:0]
			for k := range registry {
				ids = append(ids, k)
			}
		}
		sort.Strings(ids)
		p, err := loadProg(repoDir, nil, "default")
		if err != nil {
			fmt.Printf("LOAD-ERROR %v\n", err)
			os.Exit(2)
		}
		rc := 0
		for _, id := range ids {
			spec := registry[id]
			if spec == nil || !strings.HasPrefix(id, "C") {
				continue
			}
			func() {
				rep := newReport(id, p)
				defer func() {
					if e := recover(); e != nil {
						fmt.Printf("== %s: PANIC %v\n", id, e)
						rc = 1
					}
				}()
				spec.Run(rep)
				bad := []Obl{}
				for _, o := range rep.Obls {
					if o.Status == "violated" || o.Status == "undecided" {
						bad = append(bad, o)
					}
				}
				if len(bad) == 0 {
					fmt.Printf("== %s: silent\n", id)
					return
				}
				rc = 1
				fmt.Printf("== %s: DETECTED\n", id)
				for i, o := range bad {
					if i >= 6 {
						break
					}
					d := o.Detail
					if len(d) > 260 {
						d = d[:260]
					}
					fmt.Printf("   %s: %s [%s]: %s\n", o.Pos, o.Key, o.Status, d)
				}
			}()
		}
		os.Exit(rc)
	}
	spec := registry[*prop]
	if spec == nil {
		ids := []string{}
		for k := range registry {
			ids = append(ids, k)
		}
		sort.Strings(ids)
		fmt.Fprintf(os.Stderr, "unknown property %q; have %v\n", *prop, ids)
		os.Exit(2)
	}
	start := time.Now()

	if *childSelf {
		childSelfTest(spec)
		return
	}
	if *child != "" {
		var v variant
		for _, x := range variants {
			if x.Name == *child {
				v = x
			}
		}
		out := childOut{Variant: *child}
		rep, err := runVariant(spec, v)
		if err != nil {
			out.Err = err.Error()
		} else {
			out.Obls, out.Sentinels, out.Notes = rep.Obls, rep.Sentinels, rep.Notes
			for f := range rep.Analysed {
				out.Analysed = append(out.Analysed, f)
			}
		}
		json.NewEncoder(os.Stdout).Encode(out)
		return
	}

	known, err := loadKnown(filepath.Join(*verif, "known_findings.json"))
	if err != nil {
		fmt.Printf("cannot read known_findings.json: %v\n", err)
		fail(spec.ID, *verif, "known-findings file unreadable")
	}
	res := &propResult{Prop: spec.ID}
	rep, err := runVariant(spec, variants[0])
	if err != nil {
		fmt.Printf("storcheck %s: %v\n", spec.ID, err)
		fail(spec.ID, *verif, err.Error())
	}
	res.Reports = append(res.Reports, rep)
	if *tier == "thorough" {
		exe, _ := os.Executable()
		for _, v := range variants[1:] {
			cmd := exec.Command(exe, "-prop", spec.ID, "-tier", "quick", "-repo", repoDir, "-verif", *verif, "-child-variant", v.Name)
			cmd.Stderr = os.Stderr
			b, err := cmd.Output()
			var co childOut
			if err == nil {
				err = json.Unmarshal(b, &co)
			}
			if err == nil && co.Err != "" {
				err = fmt.Errorf("%s", co.Err)
			}
			if err != nil {
				fmt.Printf("storcheck %s variant %s: %v\n", spec.ID, v.Name, err)
				fail(spec.ID, *verif, "variant "+v.Name+": "+err.Error())
			}
			vr := &Report{Prop: spec.ID, P: &Prog{Variant: v.Name}, Obls: co.Obls, Sentinels: co.Sentinels, Notes: co.Notes, Analysed: map[string]bool{}}
			for _, f := range co.Analysed {
				vr.Analysed[f] = true
			}
			res.Reports = append(res.Reports, vr)
		}
	}
	if *tier == "thorough" && !*noSelf {
		res.SelfTest, res.SelfNotes = runSelfTest(*verif, spec.ID)
	}
	if *list {
		for _, rp := range res.Reports {
			for _, o := range rp.Obls {
				fmt.Printf("  [%s] %-10s %s  %s  — %s\n", rp.P.Variant, o.Status, o.Key, o.Pos, o.Detail)
			}
		}
	}
	os.Exit(finish(res, spec, *tier, seed, start, known, *verif))
}

// fail writes a minimal evidence file and exits 1: load/type errors and analyser
// panics must never look like a pass.
func fail(prop, verif, why string) {
	evDir := filepath.Join(verif, "evidence")
	os.MkdirAll(evDir, 0o755)
	rp := filepath.Join(evDir, prop+".violations.json")
	b, _ := json.MarshalIndent([]Obl{{Key: prop + ".load/program", Rule: prop + ".load", Status: "undecided", Detail: why}}, "", " ")
	os.WriteFile(rp, b, 0o644)
	ev := Evidence{PropertyID: prop, Tier: "quick", Level: "other", Coverage: map[string]interface{}{
		"explanation": "the program could not be loaded/type-checked/analysed: " + strings.SplitN(why, "\n", 2)[0], "obligations": 1, "discharged": 0, "evaluations": 1, "distinct_nontrivial": 0,
	}, Violations: 1}
	eb, _ := json.MarshalIndent(ev, "", " ")
	os.WriteFile(filepath.Join(evDir, prop+".json"), eb, 0o644)
	fmt.Printf("VIOLATION property=%s replay=%s\n", prop, rp)
	os.Exit(1)
}
