package main

// E-lock: forward may-lockset analysis for one RWMutex field, with call-site derived entry states
// for package-local helpers ("called locked" functions).

import (
	"go/types"

	"golang.org/x/tools/go/ssa"
)

type LockSet uint8

const (
	LU LockSet = 1 << iota // unlocked
	LR                     // read-locked
	LW                     // write-locked
)

func (s LockSet) String() string {
	out := ""
	if s&LU != 0 {
		out += "U"
	}
	if s&LR != 0 {
		out += "R"
	}
	if s&LW != 0 {
		out += "W"
	}
	if out == "" {
		return "-"
	}
	return out
}

type LockAn struct {
	mu    *types.Var
	funcs []*ssa.Function
	entry map[*ssa.Function]LockSet
	in    map[*ssa.BasicBlock]LockSet
	// per instruction state *before* the instruction
	before   map[ssa.Instruction]LockSet
	nLockOps int
	pkg      string
	unlocks  map[*ssa.Function]bool // the function (or a package-local callee, transitively) releases the mutex
	touches  map[*ssa.Function]bool // ... performs any operation on the mutex
}

// mayUnlock: in is an unlock of the mutex, or a call of a package-local function that may release it
// (del waits for the hasher with the lock dropped; a helper extracted from it does the same).
func (la *LockAn) mayUnlock(in ssa.Instruction) bool {
	if op, ok := la.lockOp(in); ok {
		return op == LU
	}
	if _, isDefer := in.(*ssa.Defer); isDefer {
		return false
	}
	if c := calleeOf(in); c != nil && la.unlocks[c] {
		return true
	}
	return false
}

// lockOp classifies a call as an operation on the analysed mutex.
func (la *LockAn) lockOp(in ssa.Instruction) (LockSet, bool) {
	c, ok := in.(*ssa.Call)
	if !ok {
		return 0, false
	}
	f := c.Call.StaticCallee()
	if f == nil || f.Pkg == nil || f.Pkg.Pkg.Path() != "sync" || len(c.Call.Args) == 0 {
		return 0, false
	}
	fa, ok := c.Call.Args[0].(*ssa.FieldAddr)
	if !ok || fieldVar(fa) != la.mu {
		return 0, false
	}
	switch f.Name() {
	case "Lock":
		return LW, true
	case "RLock":
		return LR, true
	case "Unlock", "RUnlock":
		return LU, true
	}
	return 0, false
}

func (la *LockAn) lockOpCommon(cc *ssa.CallCommon) (LockSet, bool) {
	f := cc.StaticCallee()
	if f == nil || f.Pkg == nil || f.Pkg.Pkg.Path() != "sync" || len(cc.Args) == 0 {
		return 0, false
	}
	fa, ok := cc.Args[0].(*ssa.FieldAddr)
	if !ok || fieldVar(fa) != la.mu {
		return 0, false
	}
	switch f.Name() {
	case "Lock":
		return LW, true
	case "RLock":
		return LR, true
	case "Unlock", "RUnlock":
		return LU, true
	}
	return 0, false
}

func newLockAn(p *Prog, mu *types.Var, pkg string) *LockAn {
	la := &LockAn{mu: mu, entry: map[*ssa.Function]LockSet{}, in: map[*ssa.BasicBlock]LockSet{}, before: map[ssa.Instruction]LockSet{}, pkg: pkg,
		unlocks: map[*ssa.Function]bool{}, touches: map[*ssa.Function]bool{}}
	for _, f := range p.SrcFuncs() {
		if relPkg(f) == pkg {
			la.funcs = append(la.funcs, f)
		}
	}
	// which functions operate on the mutex, directly or through package-local callees
	for _, f := range la.funcs {
		allInstrs(f, func(in ssa.Instruction) {
			if _, isDefer := in.(*ssa.Defer); isDefer {
				// a deferred unlock pairs with the function's own lock: the function is lock-neutral for its callers
				if op, ok := la.lockOpCommon(in.(*ssa.Defer).Common()); ok {
					_ = op
					la.touches[f] = true
				}
				return
			}
			if op, ok := la.lockOp(in); ok {
				la.touches[f] = true
				if op == LU {
					la.unlocks[f] = true
				}
			}
		})
	}
	for changed := true; changed; {
		changed = false
		for _, f := range la.funcs {
			allInstrs(f, func(in ssa.Instruction) {
				if _, isGo := in.(*ssa.Go); isGo {
					return
				}
				c := calleeOf(in)
				if c == nil || relPkg(c) != pkg {
					return
				}
				if la.unlocks[c] && !la.unlocks[f] {
					la.unlocks[f], changed = true, true
				}
				if la.touches[c] && !la.touches[f] {
					la.touches[f], changed = true, true
				}
			})
		}
	}
	// initial entry states: exported functions/methods and functions never called inside the package start unlocked
	called := map[*ssa.Function]bool{}
	for _, f := range la.funcs {
		allInstrs(f, func(in ssa.Instruction) {
			if c := calleeOf(in); c != nil {
				called[c] = true
			}
		})
	}
	for _, f := range la.funcs {
		exported := false
		if obj, ok := f.Object().(*types.Func); ok && obj.Exported() {
			exported = true
		}
		if f.Parent() != nil {
			continue // closures inherit the state at their creation/call: handled via call sites; default below
		}
		if exported || !called[f] {
			la.entry[f] = LU
		}
	}
	for round := 0; round < 10; round++ {
		changed := false
		for _, f := range la.funcs {
			if la.entry[f] == 0 {
				continue
			}
			if la.flow(f, func(callee *ssa.Function, st LockSet) {
				if relPkg(callee) != pkg || callee.Blocks == nil {
					return
				}
				if la.entry[callee]|st != la.entry[callee] {
					la.entry[callee] |= st
					changed = true
				}
			}) {
				changed = true
			}
		}
		if !changed {
			break
		}
	}
	return la
}

// flow runs the intra-procedural dataflow; reports call sites to onCall with the state before the call.
func (la *LockAn) flow(f *ssa.Function, onCall func(*ssa.Function, LockSet)) bool {
	changed := false
	if la.in[f.Blocks[0]]|la.entry[f] != la.in[f.Blocks[0]] {
		la.in[f.Blocks[0]] |= la.entry[f]
		changed = true
	}
	work := []*ssa.BasicBlock{f.Blocks[0]}
	inWork := map[*ssa.BasicBlock]bool{f.Blocks[0]: true}
	first := map[*ssa.BasicBlock]bool{}
	for len(work) > 0 {
		b := work[0]
		work = work[1:]
		inWork[b] = false
		st := la.in[b]
		for _, in := range b.Instrs {
			if la.before[in]|st != la.before[in] {
				la.before[in] |= st
				changed = true
			}
			if op, ok := la.lockOp(in); ok {
				la.nLockOps++
				st = op
				continue
			}
			if ci, ok := in.(ssa.CallInstruction); ok {
				if _, isDefer := in.(*ssa.Defer); isDefer {
					continue
				}
				if _, isGo := in.(*ssa.Go); isGo {
					if c := ci.Common().StaticCallee(); c != nil {
						onCall(c, LU)
					}
					continue
				}
				if c := ci.Common().StaticCallee(); c != nil {
					onCall(c, st)
					// callee summary: a package-local callee that operates on the mutex leaves it in one of its
					// exit states (computed by the same analysis from its call-site derived entry states); until
					// that is known, and for callees that never touch the mutex, the state is unchanged.
					// A callee that locks and unlocks by defer exits (before its defers) locked but returns
					// in its entry state: deferred unlocks are applied to the exit states.
					if relPkg(c) == la.pkg && c.Blocks != nil && la.touches[c] {
						if ex := la.exitAfterDefers(c); ex != 0 {
							st = ex
						}
					}
				}
			}
			if mc, ok := in.(*ssa.MakeClosure); ok {
				if fn, ok := mc.Fn.(*ssa.Function); ok {
					// closure bodies (sort callbacks etc.) run synchronously in the creating context or later:
					// conservatively they may run in the state at creation
					onCall(fn, st)
				}
			}
		}
		for _, s := range b.Succs {
			if la.in[s]|st != la.in[s] || !first[s] {
				first[s] = true
				if la.in[s]|st != la.in[s] {
					changed = true
				}
				la.in[s] |= st
				if !inWork[s] {
					inWork[s] = true
					work = append(work, s)
				}
			}
		}
	}
	return changed
}

// At: possible lock states just before instruction in.
func (la *LockAn) At(in ssa.Instruction) LockSet { return la.before[in] }

// exitStates: possible lock states at the returns of f (before deferred calls run).
func (la *LockAn) exitStates(f *ssa.Function) LockSet {
	var s LockSet
	for _, r := range returnsOf(f) {
		s |= la.before[r]
	}
	return s
}

// exitAfterDefers: the states in which f hands control back to its caller: the states at its returns, with
// the effect of deferred lock operations that dominate the return applied.
func (la *LockAn) exitAfterDefers(f *ssa.Function) LockSet {
	var s LockSet
	for _, r := range returnsOf(f) {
		st := la.before[r]
		if st == 0 {
			continue
		}
		allInstrs(f, func(in ssa.Instruction) {
			d, ok := in.(*ssa.Defer)
			if !ok || !instrDominates(d, r) {
				return
			}
			if op, ok := la.lockOpCommon(d.Common()); ok {
				st = op
			}
		})
		s |= st
	}
	return s
}

// pathHas: some path from instruction a (exclusive) to instruction b (exclusive), not passing through a
// again, executes an instruction satisfying pred.
func pathHas(a, b ssa.Instruction, pred func(ssa.Instruction) bool) bool {
	// forward from `from`, never crossing a or b; returns visited instructions
	forward := func(from ssa.Instruction, stopAtB bool) (map[ssa.Instruction]bool, bool) {
		vis := map[ssa.Instruction]bool{}
		reachedB := false
		seenBlk := map[*ssa.BasicBlock]bool{}
		var walk func(x *ssa.BasicBlock, idx int)
		walk = func(x *ssa.BasicBlock, idx int) {
			for i := idx; i < len(x.Instrs); i++ {
				in := x.Instrs[i]
				if in == b {
					reachedB = true
					return
				}
				if in == a {
					return
				}
				vis[in] = true
			}
			for _, s := range x.Succs {
				if !seenBlk[s] {
					seenBlk[s] = true
					walk(s, 0)
				}
			}
		}
		walk(from.Block(), instrIndex(from)+1)
		return vis, reachedB
	}
	vis, _ := forward(a, true)
	for in := range vis {
		if !pred(in) {
			continue
		}
		if _, rb := forward(in, true); rb {
			return true
		}
	}
	return false
}
