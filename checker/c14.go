package main

import (
	"fmt"
	"go/token"
	"go/types"
	"strings"

	"golang.org/x/tools/go/ssa"
)

func init() {
	register(&PropSpec{
		ID: "C14",
		Explanation: "The partition arithmetic of fileChunks and the block-aligning arithmetic of the writer under every split of the body are value properties and are NOT decided. Decided structurally: " +
			"(R1) in each web-seed fetcher the writer is closed by a defer registered right after it is created, and Close releases the remaining reservation (TorDrop of the remaining count); " +
			"(R2) after blocks were reserved every path of maybeWebseed starts a fetcher with the very index/offset/length that were reserved (or panics); " +
			"(R3) what is copied into the torrent writer is bounded by the requested length on every path: the source of io.Copy is an io.LimitReader of that length, or the path proved that the transport-enforced Content-Length equals the requested length; " +
			"(R4) the copy is reachable only through the status test (200 with offset 0, or 206 whose range starts at the requested offset) and, when a total is known, through total == expected; " +
			"(R5) reserved blocks are released in the same unit they were reserved (C09.R3 re-evaluated); (R6) every chunk fileChunks emits for a file has provably positive length (difference-bound reasoning on the skip guard), a necessary condition of covering the range exactly once; " +
			"(R7) a multi-file fetch continues with the next file only after the previous file delivered exactly its length without error.",
		Rules:       []string{"R1 writer closed on all exits; Close releases the rest", "R2 reservation implies fetch of the same range", "R3 body bounded on every path (required-edge paths)", "R4 response validated before the copy", "R5 release unit (shared with C09)", "R6 no empty file chunk (linear difference reasoning)", "R7 short body stops a multi-file fetch"},
		NotDecided:  []string{"that fileChunks partitions every range over every file table (value arithmetic beyond R6)", "the writer's buffering arithmetic under every split of the body into reads", "HTTP transport behaviour (net/http enforces Content-Length on non-chunked bodies)"},
		Assumptions: []string{"net/http truncates a response body to its Content-Length"},
		Run:         runC14,
	})
}

// linear forms over arbitrary SSA atoms
type linForm struct {
	coef map[ssa.Value]int64
	c    int64
}

func linearize(v ssa.Value, same func(a, b ssa.Value) bool, d int) linForm {
	out := linForm{coef: map[ssa.Value]int64{}}
	v = stripIntConv(v)
	if k, ok := constInt(v); ok {
		if _, isC := v.(*ssa.Const); isC {
			out.c = k
			return out
		}
	}
	if bo, ok := v.(*ssa.BinOp); ok && (bo.Op == token.ADD || bo.Op == token.SUB) && d < 8 {
		l, r := linearize(bo.X, same, d+1), linearize(bo.Y, same, d+1)
		sign := int64(1)
		if bo.Op == token.SUB {
			sign = -1
		}
		for k, c := range l.coef {
			out.coef[k] += c
		}
		for k, c := range r.coef {
			// merge equal atoms
			found := false
			for k2 := range out.coef {
				if k2 == k || same(k2, k) {
					out.coef[k2] += sign * c
					found = true
					break
				}
			}
			if !found {
				out.coef[k] += sign * c
			}
		}
		out.c = l.c + sign*r.c
		return out
	}
	out.coef[v] = 1
	return out
}

func linSub(a, b linForm, same func(x, y ssa.Value) bool) linForm {
	out := linForm{coef: map[ssa.Value]int64{}, c: a.c - b.c}
	for k, c := range a.coef {
		out.coef[k] += c
	}
	for k, c := range b.coef {
		found := false
		for k2 := range out.coef {
			if k2 == k || same(k2, k) {
				out.coef[k2] -= c
				found = true
				break
			}
		}
		if !found {
			out.coef[k] -= c
		}
	}
	for k, c := range out.coef {
		if c == 0 {
			delete(out.coef, k)
		}
	}
	return out
}

func linEqual(a, b linForm, same func(x, y ssa.Value) bool) bool {
	d := linSub(a, b, same)
	return len(d.coef) == 0 && d.c == 0
}

func runC14(r *Report) {
	c14R1(r)
	c14R2(r)
	c14R34(r)
	c09R3(r.sub("R5"))
	c14R6(r)
	c14R7(r)
	pieceSizeProducts64(r, "R8")
	// the store's side of "lands where it belongs": AddData's per-block copy (C01.R8 re-evaluated) — the web-seed writer
	// is the only caller that hands it several blocks at once
	c14ReadersReport(r, "R7")
	c14WriteReportsStored(r, "R7")
	if c := newPieceCtx(r, "R9"); c.ok {
		c.r8("R9")
		// … after the re-check made in the same lock hold (C01.R4 shared): a buffer allocated outside the lock can
		// replace the one another store has just filled
		c.r4("R9")
	}
	// fileChunks assumes the file table is in offset order and never changes (C20.R1 re-evaluated)
	c20FilesImmutable(r, "R10")
}

func c14R1(r *Report) {
	p := r.P
	nw := p.Func("tor", "NewWriter")
	wc := p.Func("tor", "writer.Close")
	if !r.Anchor("R1", "tor.NewWriter", nw != nil) || !r.Anchor("R1", "tor.(*writer).Close", wc != nil) {
		return
	}
	calls, _ := p.callSitesOf(nw)
	for _, cs := range calls {
		f := cs.Parent()
		r.Fn(f)
		c := cs.(*ssa.Call)
		key := fmt.Sprintf("%s/writer-closed-by-defer", fname(f))
		ok := false
		allInstrs(f, func(in ssa.Instruction) {
			d, isd := in.(*ssa.Defer)
			if !isd || d.Call.StaticCallee() != wc || d.Call.Args[0] != ssa.Value(c) {
				return
			}
			// registered before any return and before any other call that can panic: no call between creation and defer
			between := false
			pathHasBefore(c, func(i ssa.Instruction) bool { return i == ssa.Instruction(d) }, func(i ssa.Instruction) bool {
				switch i.(type) {
				case *ssa.Call, *ssa.Return, *ssa.Go:
					between = true
					return true
				}
				return false
			})
			ok = !between
		})
		if !ok {
			// no defer: the writer is closed explicitly on every way from its creation to a return (a panic in between
			// ends the process — nothing in the module recovers — so no reservation outlives it)
			isClose := func(i ssa.Instruction) bool {
				cc, isC := i.(*ssa.Call)
				return isC && cc.Call.StaticCallee() == wc && len(cc.Call.Args) > 0 && cc.Call.Args[0] == ssa.Value(c)
			}
			isRet0 := func(i ssa.Instruction) bool { _, isR := i.(*ssa.Return); return isR }
			miss, reached := pathsMissing(c, -1, isRet0, nil, []edgeReq{{Name: "closed", Instr: isClose}})
			if len(miss) == 0 && reached > 0 {
				ok = true
			}
		}
		r.Check(ok, "R1", key, cs.Pos(), "the writer is closed by a defer registered immediately after it is created", "the web-seed writer is not closed by a `defer w.Close()` registered immediately after NewWriter: an exit (or panic) in between leaves its blocks reserved forever")
	}
	r.Sentinel("R1", len(calls), 2)
	// Close releases the remainder
	r.Fn(wc)
	countF := p.Field("tor", "writer", "count")
	// every path through Close (or the private helper it delegates to) emits TorDrop{…, Length: w.count} or has found the
	// remaining count to be zero
	isDrop := func(in ssa.Instruction) bool {
		mi, ok := in.(*ssa.MakeInterface)
		if !ok {
			return false
		}
		sl := litOf(mi)
		if sl == nil || sl.Type != "peer.TorDrop" {
			return false
		}
		lf, _ := loadedField(sl.Fields["Length"])
		return lf == countF
	}
	tF := p.Field("tor", "writer", "t")
	countZero := func(cond ssa.Value, pol bool) bool {
		// already closed (w.t == nil): the first Close released everything
		if x, isNil, okn := nilFact(Guard{Cond: cond, Pol: pol}); okn && isNil && tF != nil {
			if f2, _ := loadedField(x); f2 == tF {
				return true
			}
		}
		op, x, y, ok := cmpFact(Guard{Cond: cond, Pol: pol})
		if !ok {
			return false
		}
		if f2, _ := loadedField(stripIntConv(x)); f2 != countF {
			return false
		}
		k, okk := constInt(y)
		return okk && k == 0 && (op == token.EQL || op == token.LEQ)
	}
	isRet := func(i ssa.Instruction) bool { _, ok := i.(*ssa.Return); return ok }
	memo := map[*ssa.Function]int{}
	var dropsOnEveryPath func(f *ssa.Function, d int) bool
	dropsOnEveryPath = func(f *ssa.Function, d int) bool {
		switch memo[f] {
		case 1:
			return true
		case 2, 3:
			return false
		}
		memo[f] = 3
		miss, reached := pathsMissingEntry(f, isRet, nil, []edgeReq{{Name: "drop", Match: countZero, Instr: func(in ssa.Instruction) bool {
			if isDrop(in) {
				return true
			}
			if c, ok := in.(*ssa.Call); ok && d < 2 {
				if h := c.Call.StaticCallee(); h != nil && h.Blocks != nil && !c.Call.IsInvoke() && relPkg(h) == "tor" && p.inUnitOf(h, wc) {
					return dropsOnEveryPath(h, d+1)
				}
			}
			return false
		}}})
		if reached > 0 && len(miss) == 0 {
			memo[f] = 1
			return true
		}
		memo[f] = 2
		return false
	}
	okDrop := dropsOnEveryPath(wc, 0)
	// … and the count is given up only after it was reported: a store to w.count in Close (or its helper) that is not
	// dominated by the TorDrop makes the "nothing left" exit true without anything having been released
	for _, f := range p.SrcFuncs() {
		if relPkg(f) != "tor" || !(f == wc || p.inUnitOf(f, wc)) {
			continue
		}
		allInstrs(f, func(in ssa.Instruction) {
			st, ok := isStoreToField(in, countF)
			if !ok {
				return
			}
			reported := false
			allInstrs(f, func(i2 ssa.Instruction) {
				if isDrop(i2) && instrDominates(i2, st) {
					reported = true
				}
			})
			if !reported {
				okDrop = false
			}
		})
	}
	r.Check(okDrop, "R1", "writer.Close/drops-remaining-count", wc.Pos(), "Close reports the remaining reserved bytes as dropped", "writer.Close no longer emits TorDrop{index, offset, count} for the remaining reservation")
}

func c14R2(r *Report) {
	p := r.P
	mw := p.Func("tor", "maybeWebseed")
	if !r.Anchor("R2", "tor.maybeWebseed", mw != nil) {
		return
	}
	r.Fn(mw)
	// the reservation: a loop of noteInFlight(…, true) in maybeWebseed itself, or in a helper of package tor that
	// maybeWebseed calls with the length to reserve (reserveChunks(t, first, l)); resLen is the length it covers
	loopBoundOf := func(c *ssa.Call) ssa.Value {
		for _, g := range guardsOf(c.Block()) {
			if bo, ok := g.Cond.(*ssa.BinOp); ok && bo.Op == token.LSS && g.Pol {
				if _, _, isCtr := loopCounter(bo.X); isCtr {
					return stripIntConv(bo.Y)
				}
			}
		}
		return nil
	}
	isInc := func(c *ssa.Call) bool {
		if !isCallNamed(c, "tor", "noteInFlight") {
			return false
		}
		b, ok := constBool(c.Call.Args[len(c.Call.Args)-1])
		return ok && b
	}
	var reserve *ssa.Call
	var loopBound ssa.Value
	for _, ci := range callsIn(mw) {
		c, ok := ci.(*ssa.Call)
		if !ok {
			continue
		}
		if isInc(c) {
			reserve, loopBound = c, loopBoundOf(c)
			continue
		}
		h := c.Call.StaticCallee()
		if h == nil || h.Blocks == nil || relPkg(h) != "tor" || c.Call.IsInvoke() || reserve != nil {
			continue
		}
		for _, ci2 := range callsIn(h) {
			c2, ok := ci2.(*ssa.Call)
			if !ok || !isInc(c2) {
				continue
			}
			bound := loopBoundOf(c2)
			if bound == nil {
				continue
			}
			k := -1
			for i, prm := range h.Params {
				if isInteger(prm.Type()) && mentions(bound, func(v ssa.Value) bool { return v == ssa.Value(prm) }, 0) {
					if k >= 0 {
						k = -2
					} else {
						k = i
					}
				}
			}
			if k >= 0 && k < len(c.Call.Args) {
				r.Fn(h)
				reserve, loopBound = c, stripIntConv(c.Call.Args[k])
			}
		}
	}
	if reserve == nil {
		r.Fail("R2", "maybeWebseed/reservation", mw.Pos(), "maybeWebseed no longer reserves blocks")
		return
	}
	// a loop counted in blocks (for i := 0; i < chunks; i++ with chunks = ceil(l / ChunkSize)) covers l bytes
	if chunk, okc := chunkSizeConst(p); okc && loopBound != nil {
		if q, base, add, _ := c09DivForm(chunk)(loopBound, 0); q != nil && add == chunk-1 && base != nil {
			loopBound = stripIntConv(base)
		}
	}
	isFetch := func(in ssa.Instruction) bool {
		g, ok := in.(*ssa.Go)
		if !ok {
			return false
		}
		cal := g.Call.StaticCallee()
		return cal != nil && (cal.Name() == "webseedGR" || cal.Name() == "webseedH")
	}
	exits := exitsAvoiding(reserve, isFetch, false)
	r.Check(len(exits) == 0, "R2", "maybeWebseed/reservation-implies-fetch", reserve.Pos(), "after reserving, every path starts a fetcher (or panics)", "a path returns after blocks were reserved without starting a fetcher: the blocks stay in flight forever")
	n := 0
	allInstrs(mw, func(in ssa.Instruction) {
		if !isFetch(in) {
			return
		}
		n++
		g := in.(*ssa.Go)
		a := g.Call.Args // ctx, ws, t, index, o, l
		okArgs := len(a) == 6 && a[3] == ssa.Value(mw.Params[2]) && loopBound != nil && stripIntConv(a[5]) == loopBound
		r.Check(okArgs, "R2", "maybeWebseed/fetch-same-range/"+g.Call.StaticCallee().Name(), g.Pos(), "the fetcher gets the index and length that were reserved", "the fetcher is not started with the index/length the reservation loop used")
	})
	r.Sentinel("R2", n, 2)
}

func c14R34(r *Report) {
	p := r.P
	for _, sp := range []struct {
		fn      string
		lenIdx  int // index of the requested-length parameter
		offName string
	}{{"GetRight.Get", 7, "offset"}, {"Hoffman.Get", 6, ""}} {
		f := p.Func("webseed", sp.fn)
		if !r.Anchor("R3", "webseed."+sp.fn, f != nil) {
			continue
		}
		r.Fn(f)
		var length ssa.Value
		for _, pa := range f.Params {
			if pa.Name() == "length" {
				length = pa
			}
		}
		var do, cp, cpN *ssa.Call
		var cpSrc ssa.Value
		// copiesParam: the helper hands its k-th parameter to io.Copy as the source
		copiesParam := func(h *ssa.Function, k int) bool {
			if h == nil || h.Blocks == nil || k >= len(h.Params) {
				return false
			}
			return anyInstr(h, func(i ssa.Instruction) bool {
				c, ok := i.(*ssa.Call)
				return ok && isStdCall(c, "io", "", "Copy") && strip(c.Call.Args[1]) == ssa.Value(h.Params[k])
			}) != nil
		}
		for _, ci := range callsIn(f) {
			c, ok := ci.(*ssa.Call)
			if !ok {
				continue
			}
			if isStdCall(c, "net/http", "Client", "Do") {
				do = c
			}
			if isStdCall(c, "io", "", "Copy") {
				cp, cpSrc = c, c.Call.Args[1]
			}
			if isStdCall(c, "io", "", "CopyN") && len(c.Call.Args) == 3 {
				cpN = c
			}
			// the copy may sit in a helper of the package that is handed the (already limited) body: ws.copyBody(w, body)
			if h := c.Call.StaticCallee(); h != nil && !c.Call.IsInvoke() && relPkg(h) == "webseed" && cp == nil {
				for k := range c.Call.Args {
					if copiesParam(h, k) {
						cp, cpSrc = c, c.Call.Args[k]
					}
				}
			}
		}
		if length != nil && do != nil && cp == nil && cpN != nil {
			// io.CopyN(w, body, length) is io.Copy(w, io.LimitReader(body, length))
			r.Check(stripIntConv(cpN.Call.Args[2]) == length, "R3", sp.fn+"/body-bounded-on-every-path", cpN.Pos(), "the body is copied with io.CopyN limited to the requested length",
				"io.CopyN copies a number of bytes that is not the requested length: a server that sends more than was asked for spills bytes past the file chunk into the next file's range")
			continue
		}
		if length == nil || do == nil || cp == nil {
			r.Undecided("R3", sp.fn+"/shape", f.Pos(), "cannot find the length parameter, client.Do or io.Copy")
			continue
		}
		isLimit := func(in ssa.Instruction) bool {
			c, ok := in.(*ssa.Call)
			return ok && isStdCall(c, "io", "", "LimitReader") && stripIntConv(c.Call.Args[1]) == length
		}
		// the copy's source: every leaf is such a LimitReader or the raw body
		leavesOK := true
		var visit func(v ssa.Value, d int)
		visit = func(v ssa.Value, d int) {
			if d > 6 {
				leavesOK = false
				return
			}
			switch x := v.(type) {
			case *ssa.Phi:
				for _, e := range x.Edges {
					visit(e, d+1)
				}
			case *ssa.MakeInterface:
				visit(x.X, d+1)
			case *ssa.ChangeInterface:
				visit(x.X, d+1)
			case *ssa.Call:
				if isStdCall(x, "io", "", "LimitReader") {
					if stripIntConv(x.Call.Args[1]) != length {
						leavesOK = false
					}
					return
				}
				leavesOK = false
			case *ssa.UnOp:
				// r.Body
				if fv, _ := loadedField(x); fv == nil || fv.Name() != "Body" {
					leavesOK = false
				}
			default:
				leavesOK = false
			}
		}
		visit(cpSrc, 0)
		clEq := edgeReq{Name: "Content-Length == requested length", Match: func(cond ssa.Value, pol bool) bool {
			bo, ok := cond.(*ssa.BinOp)
			if !ok || (bo.Op != token.NEQ && bo.Op != token.EQL) {
				return false
			}
			isParsedCL := func(v ssa.Value) bool {
				return derivesOnlyFrom(stripIntConv(v), func(x ssa.Value) bool {
					ex, ok := x.(*ssa.Extract)
					if !ok || ex.Index != 0 {
						return false
					}
					c, ok := ex.Tuple.(*ssa.Call)
					return ok && isStdCall(c, "strconv", "", "ParseInt")
				})
			}
			if !((isParsedCL(bo.X) && stripIntConv(bo.Y) == length) || (isParsedCL(bo.Y) && stripIntConv(bo.X) == length)) {
				return false
			}
			return (bo.Op == token.EQL) == pol
		}}
		isCopy := func(in ssa.Instruction) bool { return in == ssa.Instruction(cp) }
		missing, _ := pathsMissing(do, -1, isCopy, isLimit, []edgeReq{clEq})
		key := sp.fn + "/body-bounded-on-every-path"
		if leavesOK && len(missing) == 0 {
			r.Ok("R3", key, cp.Pos(), "the copied body is an io.LimitReader of the requested length, or its Content-Length was proved equal to it")
		} else {
			r.Fail("R3", key, cp.Pos(), "a path copies the response body into the torrent without bounding it by the requested length (the limit is applied only when the server's own Content-Range/Content-Length claims more): a server that sends more than it announced (e.g. a chunked 206) spills bytes past the file chunk into the next file's range")
		}
		// R4 for GetRight
		if sp.offName == "" {
			// Hoffman: status 200 only
			okS := false
			for _, g := range guardsOf(cp.Block()) {
				g = g.norm()
				if bo, ok := g.Cond.(*ssa.BinOp); ok {
					if fv, _ := loadedField(bo.X); fv != nil && fv.Name() == "StatusCode" {
						if k, okk := constInt(bo.Y); okk && k == 200 && ((bo.Op == token.NEQ && !g.Pol) || (bo.Op == token.EQL && g.Pol)) {
							okS = true
						}
					}
				}
			}
			r.Check(okS, "R4", sp.fn+"/status-200", cp.Pos(), "the body is used only for status 200", "Hoffman.Get copies the body without having tested the status code")
			continue
		}
		var offset, flength ssa.Value
		for _, pa := range f.Params {
			switch pa.Name() {
			case "offset":
				offset = pa
			case "flength":
				flength = pa
			}
		}
		statusIs := func(cond ssa.Value, pol bool, code int64) bool {
			bo, ok := cond.(*ssa.BinOp)
			if !ok || bo.Op != token.EQL || !pol {
				return false
			}
			fv, _ := loadedField(bo.X)
			k, okk := constInt(bo.Y)
			return fv != nil && fv.Name() == "StatusCode" && okk && k == code
		}
		reqs := []edgeReq{
			{Name: "status 200 or 206", Match: func(cond ssa.Value, pol bool) bool { return statusIs(cond, pol, 200) || statusIs(cond, pol, 206) }},
			{Name: "offset == 0 (200) or range start == offset (206)", Match: func(cond ssa.Value, pol bool) bool {
				bo, ok := cond.(*ssa.BinOp)
				if !ok || (bo.Op != token.NEQ && bo.Op != token.EQL) {
					return false
				}
				eq := (bo.Op == token.EQL) == pol
				if !eq {
					return false
				}
				if bo.X == offset {
					if k, okk := constInt(bo.Y); okk && k == 0 {
						return true
					}
				}
				// o != offset : o from parseContentRange #0
				if bo.Y == offset || bo.X == offset {
					other := bo.X
					if other == offset {
						other = bo.Y
					}
					return derivesOnlyFrom(other, func(x ssa.Value) bool {
						ex, ok := x.(*ssa.Extract)
						if !ok || ex.Index != 0 {
							return false
						}
						c, ok := ex.Tuple.(*ssa.Call)
						return ok && isCallNamed(c, "webseed", "parseContentRange")
					})
				}
				return false
			}},
			{Name: "total unknown or total == expected file length", Match: func(cond ssa.Value, pol bool) bool {
				bo, ok := cond.(*ssa.BinOp)
				if !ok {
					return false
				}
				if k, okk := constInt(bo.Y); okk && k == 0 && bo.Op == token.GEQ && !pol {
					return true // fl >= 0 false: total unknown
				}
				if (bo.Op == token.NEQ || bo.Op == token.EQL) && (bo.Y == flength || bo.X == flength) {
					return (bo.Op == token.EQL) == pol
				}
				return false
			}},
		}
		miss, reached := pathsMissing(do, -1, isCopy, nil, reqs)
		if reached == 0 {
			r.Undecided("R4", sp.fn+"/validated-before-copy", cp.Pos(), "io.Copy is not reachable from client.Do")
		} else {
			r.Check(len(miss) == 0, "R4", sp.fn+"/validated-before-copy", cp.Pos(), "the body is copied only after status, range start and total length were validated", fmt.Sprintf("a path from the response to the copy does not pass: %v — bytes from a response that does not answer the request are stored", miss))
		}
	}
	_ = types.Typ
	_ = strings.ToLower
}

// R6: in fileChunks, the chunk length candidate `f.Length - (o - f.Offset)` is positive where a chunk is appended: the
// skip guard `f.Offset + f.Length <= o -> continue` has the same linear form.
func c14R6(r *Report) {
	p := r.P
	fc := p.Func("tor", "fileChunks")
	if !r.Anchor("R6", "tor.fileChunks", fc != nil) {
		return
	}
	r.Fn(fc)
	tt := &Taint{stores: map[*ssa.Function]map[*types.Var]bool{}}
	same := func(a, b ssa.Value) bool { return tt.sameLoadVal(a, b) }
	n := 0
	allInstrs(fc, func(in ssa.Instruction) {
		mi, ok := in.(*ssa.UnOp) // load of the filechunk literal appended
		_ = mi
		_ = ok
	})
	// find the store into filechunk.length of the appended literal inside the loop
	allInstrs(fc, func(in ssa.Instruction) {
		st, ok := in.(*ssa.Store)
		if !ok {
			return
		}
		fa, ok := st.Addr.(*ssa.FieldAddr)
		if !ok || fieldVar(fa) == nil || fieldVar(fa).Name() != "length" || !typeIs(fa.X.Type(), modPath+"/tor", "filechunk") {
			return
		}
		// only the in-loop literals (the single-file literal stores the caller's length directly)
		inLoop := false
		for _, l := range naturalLoops(fc) {
			if l.Blocks[st.Block()] {
				inLoop = true
			}
		}
		if !inLoop {
			return
		}
		n++
		pp := &posProver{same: same, seen: map[string]bool{}}
		ok2, why := pp.positive(st.Val, st.Block(), guardsOf(st.Block()), 0)
		r.Check(ok2, "R6", "fileChunks/chunk-length-positive", st.Pos(), "every chunk emitted for a file has positive length (implied by the guards that skip files outside the range and by the loop's own exit tests)",
			"the length of an emitted file chunk ("+why+") is not implied positive by the guard that skips files ending at or before the range start: a file that holds no byte of the range gets an empty chunk (a bogus Range request; the rest of the fetch is dropped)")
	})
	r.Sentinel("R6", n, 1)
}

// loopCarriedPositive: lp = phi(init, lp - m) where the back edge is taken only under !(next <= 0).
func loopCarriedPositive(lp *ssa.Phi) bool {
	for i, e := range lp.Edges {
		pb := lp.Block().Preds[i]
		if !lp.Block().Dominates(pb) {
			continue // entry edge: the caller's length (a hole size, > 0)
		}
		if e == ssa.Value(lp) {
			continue // unchanged on this back edge (continue)
		}
		ok := false
		for _, g := range guardsOnEdge(pb, lp.Block()) {
			g = g.norm()
			bo, isb := g.Cond.(*ssa.BinOp)
			if !isb || bo.X != e {
				continue
			}
			if k, okk := constInt(bo.Y); okk && k == 0 && ((bo.Op == token.LEQ && !g.Pol) || (bo.Op == token.GTR && g.Pol)) {
				ok = true
			}
		}
		if !ok {
			return false
		}
	}
	return true
}

func c14R7(r *Report) {
	p := r.P
	gr := p.Func("tor", "webseedGR")
	if !r.Anchor("R7", "tor.webseedGR", gr != nil) {
		return
	}
	r.Fn(gr)
	var get *ssa.Call
	isGet := func(c *ssa.Call) bool {
		cal := c.Call.StaticCallee()
		return cal != nil && cal.Name() == "Get" && relPkg(cal) == "webseed"
	}
	for _, ci := range callsIn(gr) {
		c, ok := ci.(*ssa.Call)
		if !ok {
			continue
		}
		if isGet(c) {
			get = c
			continue
		}
		// a helper of package tor that performs the fetch of one file chunk and hands back Get's (n, err)
		if h := c.Call.StaticCallee(); get == nil && h != nil && h.Blocks != nil && relPkg(h) == "tor" && !c.Call.IsInvoke() && h.Signature.Results().Len() == 2 {
			for _, ci2 := range callsIn(h) {
				if c2, ok := ci2.(*ssa.Call); ok && isGet(c2) {
					r.Fn(h)
					get = c
				}
			}
		}
	}
	if get == nil {
		// the whole loop over the file chunks moved into a private helper of webseedGR
		for _, f := range p.SrcFuncs() {
			if get != nil || relPkg(f) != "tor" || f == gr || !p.inUnitOf(enclosingNamed(f), gr) {
				continue
			}
			for _, ci := range callsIn(f) {
				if c, ok := ci.(*ssa.Call); ok && isGet(c) {
					r.Fn(f)
					get = c
				}
			}
		}
	}
	if get == nil {
		r.Fail("R7", "webseedGR/Get", gr.Pos(), "webseedGR no longer calls GetRight.Get")
		return
	}
	// the loop header: the block with the range index comparison dominating the call
	var header *ssa.BasicBlock
	for _, g := range guardsOf(get.Block()) {
		if bo, ok := g.Cond.(*ssa.BinOp); ok && bo.Op == token.LSS && g.Pol {
			header = g.If.Block()
			break
		}
	}
	if header == nil {
		r.Undecided("R7", "webseedGR/loop", get.Pos(), "cannot find the loop over file chunks")
		return
	}
	isHeader := func(in ssa.Instruction) bool { return in == header.Instrs[0] }
	reqs := []edgeReq{
		{Name: "err == nil", Match: func(cond ssa.Value, pol bool) bool {
			bo, ok := cond.(*ssa.BinOp)
			return ok && isNilConst(bo.Y) && isErrorType(bo.X.Type()) && (bo.Op == token.NEQ) != pol
		}},
		{Name: "n == fc.length", Match: func(cond ssa.Value, pol bool) bool {
			bo, ok := cond.(*ssa.BinOp)
			if !ok || (bo.Op != token.NEQ && bo.Op != token.EQL) {
				return false
			}
			if loadedFieldAnyName(bo.Y) != "length" && loadedFieldAnyName(bo.X) != "length" {
				return false
			}
			return (bo.Op == token.EQL) == pol
		}},
	}
	miss, reached := pathsMissing(get, -1, isHeader, nil, reqs)
	if reached == 0 {
		r.Ok("R7", "webseedGR/next-file-only-after-full-file", get.Pos(), "the loop never continues after a fetch")
		return
	}
	r.Check(len(miss) == 0, "R7", "webseedGR/next-file-only-after-full-file", get.Pos(), "the next file is fetched only after the previous one delivered exactly its length without error",
		fmt.Sprintf("a path from a file's fetch back to the loop does not pass: %v — after a short (but cleanly terminated) body the next file's bytes are appended right after the partial data, at the wrong offsets", miss))
}

// posProver shows v > 0 from the shape of the code: intervals, min() of positives, phis edge by edge, a linear form
// that some guard on the way states positive (f.Offset+f.Length <= o skipped  =>  f.Offset+f.Length-o > 0), and — for
// a form that contains a loop-carried variable — induction over the loop: the form is positive on the entry edge and
// on every back edge (where the loop's own exit test `o >= end -> return` has just failed). A bare parameter on the
// entry edge (the caller's hole size) is taken as positive: that is the function's contract, checked at its callers
// by C14.R2.
type posProver struct {
	same func(a, b ssa.Value) bool
	seen map[string]bool
}

func (pp *posProver) byGuards(form linForm, gs []Guard) bool {
	same := pp.same
	for _, g := range gs {
		op, x, y, ok := cmpFact(g)
		if !ok {
			continue
		}
		d := linSub(linearize(x, same, 0), linearize(y, same, 0), same) // X - Y
		switch op {
		case token.GTR: // X - Y > 0
			if linEqual(d, form, same) {
				return true
			}
		case token.LSS: // Y - X > 0
			neg := linSub(linForm{coef: map[ssa.Value]int64{}}, d, same)
			if linEqual(neg, form, same) {
				return true
			}
		case token.GEQ: // X - Y >= 0: form == X - Y + c with c >= 1
			diff := linSub(form, d, same)
			if len(diff.coef) == 0 && diff.c >= 1 {
				return true
			}
		case token.LEQ:
			neg := linSub(linForm{coef: map[ssa.Value]int64{}}, d, same)
			diff := linSub(form, neg, same)
			if len(diff.coef) == 0 && diff.c >= 1 {
				return true
			}
		}
	}
	return false
}

func (pp *posProver) positive(v ssa.Value, b *ssa.BasicBlock, gs []Guard, depth int) (bool, string) {
	if depth > 6 {
		return false, exprStr(v)
	}
	v = stripIntConv(v)
	env := &IntEnv{SameVal: pp.same}
	if b != nil && env.At(v, b).Lo >= 1 {
		return true, ""
	}
	switch x := v.(type) {
	case *ssa.Call:
		if bi, ok := x.Call.Value.(*ssa.Builtin); ok && bi.Name() == "min" {
			for _, a := range x.Call.Args {
				if ok, why := pp.positive(a, b, gs, depth+1); !ok {
					return false, why
				}
			}
			return true, ""
		}
	case *ssa.Phi:
		// a merge inside the loop body (m = phi(clipped, whole)): edge by edge
		isHead := false
		for _, pb := range x.Block().Preds {
			if x.Block().Dominates(pb) {
				isHead = true
			}
		}
		if !isHead {
			for i, e := range x.Edges {
				pb := x.Block().Preds[i]
				if ok, why := pp.positive(e, pb, guardsOnEdge(pb, x.Block()), depth+1); !ok {
					return false, why
				}
			}
			return true, ""
		}
	}
	form := linearize(v, pp.same, 0)
	if pp.byGuards(form, gs) {
		return true, ""
	}
	// induction over a loop-carried atom of the form
	for atom, coef := range form.coef {
		ph, ok := atom.(*ssa.Phi)
		if !ok || (coef != 1 && coef != -1) {
			continue
		}
		isHead := false
		for _, pb := range ph.Block().Preds {
			if ph.Block().Dominates(pb) {
				isHead = true
			}
		}
		if !isHead {
			continue
		}
		key := fmt.Sprintf("%p/%v", ph, form.c)
		if pp.seen[key] {
			continue
		}
		pp.seen[key] = true
		all := true
		for i, e := range ph.Edges {
			pb := ph.Block().Preds[i]
			if e == ssa.Value(ph) {
				continue // unchanged on this edge (continue)
			}
			// the form with the atom replaced by this edge's value
			sub := linForm{coef: map[ssa.Value]int64{}, c: form.c}
			for k, c := range form.coef {
				if k != atom {
					sub.coef[k] += c
				}
			}
			le := linearize(e, pp.same, 0)
			for k, c := range le.coef {
				sub.coef[k] += coef * c
			}
			sub.c += coef * le.c
			for k, c := range sub.coef {
				if c == 0 {
					delete(sub.coef, k)
				}
			}
			entry := !ph.Block().Dominates(pb)
			if entry && len(sub.coef) == 1 && sub.c == 0 {
				bare := false
				for k, c := range sub.coef {
					if _, isP := k.(*ssa.Parameter); isP && c == 1 {
						bare = true
					}
				}
				if bare {
					continue
				}
			}
			if len(sub.coef) == 0 && sub.c >= 1 {
				continue
			}
			if pp.byGuards(sub, guardsOnEdge(pb, ph.Block())) {
				continue
			}
			all = false
		}
		if all {
			return true, ""
		}
	}
	// the loop-carried remaining length itself (l = phi(l0, l - m)) under the loop's `l <= 0 -> break`
	if lp, isLp := v.(*ssa.Phi); isLp && loopCarriedPositive(lp) {
		return true, ""
	}
	return false, exprStr(v)
}

// c14ReadersReport: an io.Reader of the module (the zero-filled reader that stands in for padding files, the RC4
// connection, the torrent Reader) reports as read only bytes it has put into the caller's buffer. Where it fills the
// buffer with copy, the number copied is min(len(dst), len(src)): either that number is what it returns, or the
// source is known to be at least as long as the destination. copy(buf[:n], zeroChunk[:]) with a 16 KiB source clears
// 16 KiB of a 32 KiB buffer and "reads" 32 KiB: the writer stores what the previous file left in the second half.
func c14ReadersReport(r *Report, rule string) {
	p := r.P
	env := &IntEnv{}
	n := 0
	for _, f := range p.SrcFuncs() {
		if !strings.HasPrefix(funcPkgPath(f), modPath) || f.Name() != "Read" || f.Signature.Recv() == nil || len(f.Params) != 2 || !isByteSlice(f.Params[1].Type()) || f.Signature.Results().Len() != 2 {
			continue
		}
		buf := f.Params[1]
		isBuf := func(v ssa.Value) bool {
			for i := 0; i < 4; i++ {
				if v == ssa.Value(buf) {
					return true
				}
				sl, ok := v.(*ssa.Slice)
				if !ok {
					return false
				}
				v = sl.X
			}
			return false
		}
		allInstrs(f, func(in ssa.Instruction) {
			c, ok := in.(*ssa.Call)
			if !ok {
				return
			}
			bi, isB := c.Call.Value.(*ssa.Builtin)
			if !isB || bi.Name() != "copy" || !isBuf(c.Call.Args[0]) {
				return
			}
			n++
			r.Fn(f)
			good := false
			// the count is used
			if refs := c.Referrers(); refs != nil {
				for _, ref := range *refs {
					if _, isDbg := ref.(*ssa.DebugRef); !isDbg {
						good = true
					}
				}
			}
			if !good {
				// the source is long enough: a constant length >= the upper bound of the destination's length
				src := c.Call.Args[1]
				srcLen := int64(-1)
				if sl, isSl := src.(*ssa.Slice); isSl && sl.Low == nil && sl.High == nil {
					if at, isArr := derefType(sl.X.Type()).Underlying().(*types.Array); isArr {
						srcLen = at.Len()
					}
				}
				if s, isStr := constString(src); isStr {
					srcLen = int64(len(s))
				}
				dst := c.Call.Args[0]
				dstHi := int64(posInf)
				if sl, isSl := dst.(*ssa.Slice); isSl && sl.High != nil {
					hi := env.At(sl.High, c.Block()).Hi
					lo := int64(0)
					if sl.Low != nil {
						lo = env.At(sl.Low, c.Block()).Lo
					}
					if hi != posInf {
						dstHi = hi - lo
					}
				}
				if srcLen < 0 {
					good = true // a source of the same making as the destination: not judged here
				} else {
					good = dstHi <= srcLen
				}
			}
			r.Check(good, rule, fmt.Sprintf("%s/copy-count-is-what-is-reported", fname(f)), c.Pos(), "the bytes copied into the caller's buffer are counted, or the source cannot be shorter than the destination",
				fname(f)+" fills the caller's buffer with copy from a fixed-size source, ignores how many bytes were copied, and reports a count of its own: when the buffer is longer than the source the rest keeps what was there before and is reported as read (a padding file is stored with the stale bytes of the previous file in it; the piece fails its hash every time it is fetched)")
		})
	}
	r.Sentinel(rule+".reader-copies", n, 0)
}

// c14WriteReportsStored: (*writer).write tells its callers how many bytes the store took: its count result is built
// only from AddData's count. AddData answers (0, nil) for a piece that is being hashed or is complete and a short
// count for data that runs past the piece; a writer that reports the whole input as written in those cases keeps its
// offset where it was while the source moves on, and the next bytes of the response are stored at the offset of
// these.
func c14WriteReportsStored(r *Report, rule string) {
	p := r.P
	w := p.Func("tor", "writer.write")
	add := p.Func("tor/piece", "Pieces.AddData")
	if !r.Anchor(rule, "tor.(*writer).write", w != nil) || !r.Anchor(rule, "piece.(*Pieces).AddData", add != nil) {
		return
	}
	r.Fn(w)
	good := true
	var at token.Pos = w.Pos()
	for _, ret := range returnsOf(w) {
		res := retResults(ret)
		if len(res) != 2 {
			continue
		}
		if !sumsOnlyOf(res[0], func(v ssa.Value) bool {
			if k, isk := constInt(v); isk && k == 0 {
				return true
			}
			ex, ok := v.(*ssa.Extract)
			if !ok || ex.Index != 0 {
				return false
			}
			c, ok := ex.Tuple.(*ssa.Call)
			return ok && c.Call.StaticCallee() == add
		}) {
			good = false
			at = ret.Pos()
		}
	}
	r.Check(good, rule, "writer.write/reports-the-stored-count", at, "the count returned is AddData's count (or zero)",
		"(*writer).write can report a byte count that is not the one Pieces.AddData returned: when the store takes nothing (the piece is being hashed or is already complete) or less than it was given, the writer's offset stays behind while its source moves on, and the following bytes of the web seed's response are stored at the wrong offset")
}
